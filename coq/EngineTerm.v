(* EngineTerm.v — TERMINATION of the engine model on the valid domain of Wf.v:
   on a grammar with a certificate [wf nul rank G], for every string and offset there is a fuel
   from which [lparse] never answers OOF — including repetitions whose body matches the empty
   string (the loop stops because a round that adds no new end offset is the last one).
   Also: on a closed grammar [lparse] never answers GrammarError.
   Structure: per-combinator "no OOF" lemmas under hypotheses on [rec] (open recursion), then one
   well-founded induction on the lexicographic measure (length s - i, erank e, size e). *)
From Coq Require Import List NArith Arith Bool Lia Permutation Wf_nat.
Import ListNotations.
From ABNF Require Import Base Engine Spec Wf Checks EngineSound EngineDet EngineComplete.

(* ------------------------------------------------------------------ *)
(* 0. matches move forward                                              *)
(* ------------------------------------------------------------------ *)
Lemma M_le G s e i j : M G s e i j -> i <= j /\ j <= length s.
Proof.
  intros H. destruct (M_D _ _ _ _ _ H) as [ns HD]. exact (D_bounds _ _ _ _ _ _ HD).
Qed.

Lemma MI_le G s e n i j : MI G s e n i j -> i <= j /\ j <= length s.
Proof.
  intros H. destruct (proj2 (M_MI_D G s) _ _ _ _ H) as [ns HD].
  exact (DI_bounds _ _ _ _ _ _ _ HD).
Qed.

Lemma M_cat_empty G s i : forall es, M G s (ECat es) i i -> forall y, In y es -> M G s y i i.
Proof.
  induction es as [|e es IH]; intros H y Hy; [destruct Hy|].
  inversion H as [| | | |e' es' i' j k H1 H2| |]; subst.
  destruct (M_le _ _ _ _ _ H1) as [L1 _]. destruct (M_le _ _ _ _ _ H2) as [L2 _].
  assert (Ej : j = i) by lia. subst j.
  destruct Hy as [Hy|Hy]; [subst y; exact H1|apply IH; assumption].
Qed.

(* ------------------------------------------------------------------ *)
(* 1. the certificate's nullable over-approximates emptiness            *)
(* ------------------------------------------------------------------ *)
Section Null.
  Variable nul : rid -> bool.
  Variable rank : rid -> nat.
  Variable G : grammar.
  Hypothesis Hwf : wf nul rank G.

  Lemma M_MI_empty s :
    (forall e i j, M G s e i j -> i = j -> enull nul e = true) /\
    (forall e n i j, MI G s e n i j -> i = j -> 0 < n -> enull nul e = true).
  Proof.
    apply (M_MI_mut G s (fun e i j => i = j -> enull nul e = true)
                        (fun e n i j => i = j -> 0 < n -> enull nul e = true)).
    - intros cs v i Hl E. destruct v as [|c v]; [reflexivity|]. simpl in E. lia.
    - intros lo hi i c Hn Hlo Hhi E. lia.
    - intros fm es e i j Hin HM IH E. simpl. apply existsb_exists. exists e.
      split; [exact Hin|apply IH; exact E].
    - intros i Hi E. reflexivity.
    - intros e es i j k HM1 IH1 HM2 IH2 E.
      destruct (M_le _ _ _ _ _ HM1) as [L1 _]. destruct (M_le _ _ _ _ _ HM2) as [L2 _].
      assert (E1 : i = j) by lia. assert (E2 : j = k) by lia.
      change (enull nul (ECat (e :: es))) with (enull nul e && enull nul (ECat es)).
      rewrite (IH1 E1), (IH2 E2). reflexivity.
    - intros id mn mx e i j n HMI IH Hmn Hmx E. simpl. destruct mn as [|mn]; [reflexivity|].
      simpl. apply IH; [exact E|lia].
    - intros r ru d i j Hr Hd HM IH E. simpl.
      pose proof Hwf as [_ Hw]. destruct (Hw r ru Hr) as [_ Hw2]. destruct (Hw2 d Hd) as [Hn _].
      apply Hn. apply IH. exact E.
    - intros e i Hi E Hlt. lia.
    - intros e n i j k HM1 IH1 HM2 IH2 E Hlt.
      destruct (M_le _ _ _ _ _ HM1) as [L1 _]. destruct (MI_le _ _ _ _ _ _ HM2) as [L2 _].
      apply IH1. lia.
  Qed.
End Null.

Theorem M_empty_enull nul rank G : wf nul rank G -> forall s e i, M G s e i i -> enull nul e = true.
Proof.
  intros Hwf s e i H. exact (proj1 (M_MI_empty nul rank G Hwf s) e i i H eq_refl).
Qed.

(* ------------------------------------------------------------------ *)
(* 2. the measure: size and rank of an expression                       *)
(* ------------------------------------------------------------------ *)
Fixpoint size (e : expr) : nat :=
  match e with
  | EAlt _ es => S (fold_right (fun x acc => size x + acc) 0 es)
  | ECat es => S (fold_right (fun x acc => size x + acc) 0 es)
  | ERep _ _ _ e' => S (size e')
  | _ => 1
  end.

Lemma size_in x es : In x es -> size x <= fold_right (fun x acc => size x + acc) 0 es.
Proof.
  induction es as [|y es IH]; simpl; intros H; [destruct H|].
  destruct H as [H|H]; [subst y; lia|]. specialize (IH H). lia.
Qed.

Lemma size_alt_in fm x es : In x es -> size x < size (EAlt fm es).
Proof. intros H. pose proof (size_in x es H) as L. simpl. lia. Qed.

Lemma size_cat_in x es : In x es -> size x < size (ECat es).
Proof. intros H. pose proof (size_in x es H) as L. simpl. lia. Qed.

Lemma size_rep id mn mx e : size e < size (ERep id mn mx e).
Proof. simpl. lia. Qed.

Section Rank.
  Variable nul : rid -> bool.
  Variable rank : rid -> nat.

  Lemma erank_alt_in fm x es : In x es -> erank nul rank x <= erank nul rank (EAlt fm es).
  Proof.
    simpl. induction es as [|y es IH]; simpl; intros H; [destruct H|].
    destruct H as [H|H]; [subst y; lia|]. specialize (IH H). lia.
  Qed.

  Fixpoint crank (l : list expr) : nat :=
    match l with
    | [] => 0
    | x :: r => if enull nul x then Nat.max (erank nul rank x) (crank r) else erank nul rank x
    end.

  Lemma erank_cat es : erank nul rank (ECat es) = crank es.
  Proof.
    induction es as [|x es IH]; [reflexivity|].
    change (erank nul rank (ECat (x :: es)))
      with (if enull nul x then Nat.max (erank nul rank x) (erank nul rank (ECat es))
            else erank nul rank x).
    rewrite IH. reflexivity.
  Qed.

  Lemma erank_cat_split x rest : forall done, forallb (enull nul) done = true ->
    erank nul rank x <= erank nul rank (ECat (done ++ x :: rest)).
  Proof.
    intros done. rewrite erank_cat. induction done as [|y done IH]; simpl; intros H.
    - destruct (enull nul x); lia.
    - destruct (proj1 (andb_true_iff _ _) H) as [H1 H2]. rewrite H1. specialize (IH H2). lia.
  Qed.
End Rank.

(* ------------------------------------------------------------------ *)
(* 3. sets only grow, and a set of value-consistent matches is small    *)
(* ------------------------------------------------------------------ *)
Lemma fold_add_len_le : forall b a, length a <= length (fold_left add b a).
Proof.
  induction b as [|x b IH]; simpl; intros a; [lia|].
  apply Nat.le_trans with (length (add a x)); [|apply IH].
  unfold add. destruct (mem x a); [lia|]. rewrite app_length. lia.
Qed.

Lemma fold_add_len_lt : forall b a m, In m b -> mem m a = false ->
  length a < length (fold_left add b a).
Proof.
  induction b as [|x b IH]; simpl; intros a m Hin Hmem; [destruct Hin|].
  destruct Hin as [Hin|Hin].
  - subst x. assert (Ea : add a m = a ++ [m]) by (unfold add; rewrite Hmem; reflexivity).
    pose proof (fold_add_len_le b (a ++ [m])) as L.
    rewrite Ea. rewrite app_length in L. simpl in L. lia.
  - destruct (mem x a) eqn:Ex.
    + unfold add. rewrite Ex. apply (IH a m Hin Hmem).
    + assert (Ea : add a x = a ++ [x]) by (unfold add; rewrite Ex; reflexivity).
      pose proof (fold_add_len_le b (a ++ [x])) as L.
      rewrite Ea. rewrite app_length in L. simpl in L. lia.
Qed.

Lemma subset_false a b : subset a b = false -> exists m, In m a /\ mem m b = false.
Proof.
  unfold subset. induction a as [|x a IH]; simpl; [discriminate|].
  destruct (mem x b) eqn:E; simpl; intros H.
  - destruct (IH H) as [m [H1 H2]]. exists m. split; [right; exact H1|exact H2].
  - exists x. split; [left; reflexivity|exact E].
Qed.

Lemma length_eu_vc s i l : Forall (vc s i) l -> eu l -> length l <= length s - i + 1.
Proof.
  intros Hv Hu. unfold eu in Hu. rewrite <- (map_length mend l).
  apply Nat.le_trans with (length (seq i (length s - i + 1))); [|rewrite seq_length; lia].
  apply NoDup_incl_length; [exact Hu|].
  intros j Hj. apply in_map_iff in Hj. destruct Hj as [m [Em Hm]]. subst j.
  destruct (proj1 (Forall_forall _ _) Hv m Hm) as (A & B & _).
  apply in_seq. lia.
Qed.

(* ------------------------------------------------------------------ *)
(* 4. no OOF, open recursion                                            *)
(* ------------------------------------------------------------------ *)
Section NoOOF.
  Variable sh : list mtch -> list mtch.
  Hypothesis Hsh : perm_oracle sh.
  Variable G : grammar.
  Variable rec : expr -> str -> nat -> res.

  Lemma lit_noof cs v s i : lit cs v s i <> OOF.
  Proof.
    unfold lit. destruct (Nat.leb i (length s)); [|discriminate].
    destruct (str_eqb _ _); discriminate.
  Qed.

  Lemma range_noof lo hi s i : range lo hi s i <> OOF.
  Proof.
    unfold range. destruct (nth_error s i) as [c|]; [|discriminate].
    destruct (_ && _); discriminate.
  Qed.

  Lemma alt_loop_noof fm s i : forall es acc, (forall x, In x es -> rec x s i <> OOF) ->
    alt_loop rec fm es s i acc <> OOF.
  Proof.
    induction es as [|e es IH]; simpl; intros acc H.
    - destruct acc; discriminate.
    - pose proof (H e (or_introl eq_refl)) as He.
      assert (IH' : forall acc', alt_loop rec fm es s i acc' <> OOF).
      { intros acc'. apply IH. intros x Hx. apply H. right. exact Hx. }
      destruct (rec e s i) as [ms| | |] eqn:E; [|apply IH'|congruence|congruence].
      destruct fm; [discriminate|apply IH'].
  Qed.

  Lemma extend_noof e s : forall ms, (forall m, In m ms -> rec e s (mend m) <> OOF) ->
    extend rec e s ms <> OOF.
  Proof.
    induction ms as [|m ms IH]; simpl; intros H; [discriminate|].
    pose proof (H m (or_introl eq_refl)) as Hm.
    assert (IH' : extend rec e s ms <> OOF).
    { apply IH. intros m0 H0. apply H. right. exact H0. }
    destruct (rec e s (mend m)) as [xs| | |] eqn:E; try congruence.
    destruct (extend rec e s ms) as [ys| | |] eqn:E2; congruence.
  Qed.

  Lemma excluded_noof x m :
    (forall r, x = Some r -> rec (ERef r) (nsvalue (nodes m)) 0 <> OOF) ->
    excluded sh rec x m <> XO.
  Proof.
    unfold excluded. destruct x as [r|]; [|discriminate]. intros H. cbv zeta.
    pose proof (H r eq_refl) as Hr.
    destruct (rec (ERef r) (nsvalue (nodes m)) 0) as [ms| | |] eqn:E; try congruence.
    destruct (next_longest sh (set_of ms)); discriminate.
  Qed.

  Lemma filter_excl_noof x : forall ms,
    (forall m, In m ms -> forall r, x = Some r -> rec (ERef r) (nsvalue (nodes m)) 0 <> OOF) ->
    filter_excl sh rec x ms <> OOF.
  Proof.
    induction ms as [|m ms IH]; simpl; intros H; [discriminate|].
    pose proof (excluded_noof x m (H m (or_introl eq_refl))) as Hx.
    assert (IH' : filter_excl sh rec x ms <> OOF).
    { apply IH. intros m0 H0. apply H. right. exact H0. }
    destruct (excluded sh rec x m) as [b| |] eqn:E; try congruence.
    destruct (filter_excl sh rec x ms) as [r| | |] eqn:E2; congruence.
  Qed.

  Hypothesis Hvc : rec_vc rec.

  (* Concatenation of n copies of e (the first phase of a Repetition with min > 0) *)
  Lemma cat_loop_rep_noof e s i : (forall p, i <= p -> p <= length s -> rec e s p <> OOF) ->
    forall n cur, Forall (vc s i) cur -> cat_loop rec (repeat e n) s cur <> OOF.
  Proof.
    intros He. induction n as [|n IH]; simpl; intros cur Hc; [discriminate|].
    assert (Hx : extend rec e s cur <> OOF).
    { apply extend_noof. intros m Hm.
      destruct (proj1 (Forall_forall _ _) Hc m Hm) as (A & B & _). apply He; assumption. }
    destruct (extend rec e s cur) as [nxt| | |] eqn:E; try congruence.
    destruct nxt as [|m1 nxt']; [discriminate|].
    apply IH. apply (extend_vc rec Hvc e s i cur _ Hc E).
  Qed.

  (* the Repetition loop: every round that continues adds a new end offset to [mset], and
     there are at most length s - i + 1 end offsets *)
  Lemma rep_loop_noof e mx s i :
    (forall p, i <= p -> p <= length s -> rec e s p <> OOF) ->
    forall k count mset last, Forall (vc s i) mset -> eu mset -> Forall (vc s i) last ->
      length s - i + 1 < length mset + k ->
      rep_loop sh rec k e mx s count mset last <> OOF.
  Proof.
    intros He. induction k as [|k IH]; intros count mset last Hm Hu Hl Hk.
    - pose proof (length_eu_vc s i mset Hm Hu) as L. lia.
    - cbn [rep_loop].
      destruct (match mx with Some m0 => Nat.eqb count m0 | None => false end); [discriminate|].
      assert (Hv : Forall (vc s i) (sort_desc (sh last))).
      { apply sort_vc. apply sh_vc; assumption. }
      assert (Hx : extend rec e s (sort_desc (sh last)) <> OOF).
      { apply extend_noof. intros m Hm0.
        destruct (proj1 (Forall_forall _ _) Hv m Hm0) as (A & B & _). apply He; assumption. }
      destruct (extend rec e s (sort_desc (sh last))) as [new| | |] eqn:E; try congruence.
      cbv zeta.
      assert (Hn : Forall (vc s i) (set_of new)).
      { apply set_of_vc. apply (extend_vc rec Hvc e s i _ _ Hv E). }
      destruct (subset (set_of new) mset) eqn:Es; [discriminate|].
      apply IH.
      + apply union_vc; [exact Hm|apply sh_vc; assumption].
      + apply (union_eu s i); [exact Hm|apply sh_vc; assumption|exact Hu].
      + exact Hn.
      + destruct (subset_false _ _ Es) as [m [Hin Hmem]].
        assert (Hin' : In m (sh (set_of new))).
        { apply (proj2 (in_sh_perm sh Hsh _ _)). exact Hin. }
        pose proof (fold_add_len_lt (sh (set_of new)) mset m Hin' Hmem) as Hlt.
        unfold union. lia.
  Qed.

  Lemma rep_noof k mn mx e s i : i <= length s ->
    (forall p, i <= p -> p <= length s -> rec e s p <> OOF) ->
    length s - i + 2 <= k -> rep sh rec k mn mx e s i <> OOF.
  Proof.
    intros Hi He Hk. unfold rep.
    assert (H0 : Forall (vc s i) [mk [] i]) by (constructor; [apply vc_nil; exact Hi|constructor]).
    assert (U0 : eu [mk [] i]) by (unfold eu; simpl; constructor; [intros []|constructor]).
    destruct mn as [|mn].
    - apply (rep_loop_noof e mx s i He); try assumption. simpl. lia.
    - cbv beta match zeta.
      assert (Hc : cat rec (repeat e (S mn)) s i <> OOF).
      { unfold cat. pose proof (cat_loop_rep_noof e s i He (S mn) [mk [] i] H0) as Hcl.
        destruct (cat_loop rec (repeat e (S mn)) s [mk [] i]) as [out| | |] eqn:E; congruence. }
      destruct (cat rec (repeat e (S mn)) s i) as [ms| | |] eqn:E; try congruence.
      assert (Hms : Forall (vc s i) ms) by (apply (cat_vc rec Hvc _ _ _ _ Hi E)).
      assert (Hst : Forall (vc s i) (set_of ms)) by (apply set_of_vc; exact Hms).
      apply (rep_loop_noof e mx s i He).
      + exact Hst.
      + apply (set_of_eu s i). exact Hms.
      + apply set_of_vc. apply sh_vc; assumption.
      + lia.
  Qed.

  (* Rule reference: the definition at the same place, then the excluded rule on the text of
     every match (a slice of s starting at i) *)
  Lemma ref_noof r ru d s i : i <= length s -> G r = Some ru -> rdef ru = Some d ->
    rec d s i <> OOF ->
    (forall x, rexcl ru = Some x -> forall p, i <= p -> p <= length s ->
       rec (ERef x) (slice s i (p - i)) 0 <> OOF) ->
    ref sh G rec r s i <> OOF.
  Proof.
    intros Hi Er Ed Hd Hx. unfold ref. rewrite Er, Ed.
    destruct (rec d s i) as [ms| | |] eqn:E; try congruence.
    assert (Hf : filter_excl sh rec (rexcl ru) ms <> OOF).
    { apply filter_excl_noof. intros m Hm x Ex.
      destruct (proj1 (Forall_forall _ _) (Hvc _ _ _ _ E Hi) m Hm) as (A & B & C).
      rewrite C. apply (Hx x Ex); assumption. }
    destruct (filter_excl sh rec (rexcl ru) ms) as [ms'| | |] eqn:E2; try congruence.
    destruct (set_of ms'); discriminate.
  Qed.

  (* Concatenation: an element is called at i only after all the elements before it matched
     the empty string at i *)
  Hypothesis HrecD : soundD G rec.
  Variable en : expr -> bool.
  Hypothesis Hen : forall s y i, M G s y i i -> en y = true.

  Lemma cat_loop_noof es0 s i :
    (forall done x rest p, es0 = done ++ x :: rest -> i <= p -> p <= length s ->
        (p = i -> forallb en done = true) -> rec x s p <> OOF) ->
    Forall WB es0 ->
    forall es done cur, es0 = done ++ es ->
      (forall m, In m cur -> D G s (ECat done) i (nodes m) (mend m)) ->
      cat_loop rec es s cur <> OOF.
  Proof.
    intros Hcall Hwb. induction es as [|e es IH]; simpl; intros done cur E0 Hcur; [discriminate|].
    assert (Hwe : WB e).
    { apply (proj1 (Forall_forall _ _) Hwb). rewrite E0. apply in_app_iff. right. left. reflexivity. }
    assert (Hle : forall m, In m cur -> mend m <= length s).
    { intros m Hm. apply (D_bounds _ _ _ _ _ _ (Hcur m Hm)). }
    assert (Hx : extend rec e s cur <> OOF).
    { apply extend_noof. intros m Hm. pose proof (Hcur m Hm) as HD.
      destruct (D_bounds _ _ _ _ _ _ HD) as [B1 B2].
      apply (Hcall done e es (mend m) E0 B1 B2).
      intros Ep. apply forallb_forall. intros y Hy. apply (Hen s y i).
      apply (M_cat_empty G s i done); [|exact Hy].
      rewrite Ep in HD. eapply D_M. exact HD. }
    destruct (extend rec e s cur) as [nxt| | |] eqn:E; try congruence.
    destruct nxt as [|m1 nxt']; [discriminate|].
    apply (IH (done ++ [e])).
    - rewrite <- app_assoc. exact E0.
    - intros m Hm.
      destruct (extendD G rec HrecD e s cur _ Hwe E Hle m Hm) as [m0 [n2 [Hm0 [Hn HD]]]].
      rewrite Hn. eapply D_cat_snoc; [apply Hcur; exact Hm0|exact HD].
  Qed.

  Lemma cat_noof es s i : i <= length s -> Forall WB es ->
    (forall done x rest p, es = done ++ x :: rest -> i <= p -> p <= length s ->
        (p = i -> forallb en done = true) -> rec x s p <> OOF) ->
    cat rec es s i <> OOF.
  Proof.
    intros Hi Hwb Hcall. unfold cat.
    assert (Hc : cat_loop rec es s [mk [] i] <> OOF).
    { apply (cat_loop_noof es s i Hcall Hwb es [] [mk [] i] eq_refl).
      intros m Hm. destruct Hm as [Hm|[]]. subst m. simpl. apply D_cat_nil. exact Hi. }
    destruct (cat_loop rec es s [mk [] i]) as [out| | |] eqn:E; congruence.
  Qed.
End NoOOF.

(* ------------------------------------------------------------------ *)
(* 5. termination                                                       *)
(* ------------------------------------------------------------------ *)
Lemma choice_list {A} (P : A -> nat -> Prop) :
  (forall x f f', f <= f' -> P x f -> P x f') ->
  forall l, (forall x, In x l -> exists f, P x f) -> exists F, forall x, In x l -> P x F.
Proof.
  intros Hmono. induction l as [|a l IH]; intros H.
  - exists 0. intros x [].
  - destruct (H a (or_introl eq_refl)) as [f1 H1].
    destruct (IH (fun x Hx => H x (or_intror Hx))) as [f2 H2].
    exists (Nat.max f1 f2). intros x [Hx|Hx].
    + subst x. apply (Hmono _ f1); [lia|exact H1].
    + apply (Hmono _ f2); [lia|apply H2; exact Hx].
Qed.

Lemma firstn_len_app {A} (l1 l2 : list A) : firstn (length l1) (l1 ++ l2) = l1.
Proof.
  rewrite firstn_app, firstn_all, Nat.sub_diag. simpl. apply app_nil_r.
Qed.

Section Total.
  Variable sh : list mtch -> list mtch.
  Hypothesis Hsh : perm_oracle sh.
  Variable nul : rid -> bool.
  Variable rank : rid -> nat.
  Variable G : grammar.
  Hypothesis Hwf : wf nul rank G.

  Let HG : WBG G := proj1 Hwf.

  Definition term (e : expr) (s : str) (i : nat) : Prop := exists f, lparse sh G f e s i <> OOF.

  Lemma noof_mono f f' e s i : f <= f' -> lparse sh G f e s i <> OOF -> lparse sh G f' e s i <> OOF.
  Proof.
    intros Hf H. rewrite (lparse_mono sh G f f' e s i _ eq_refl H Hf). exact H.
  Qed.

  Definition smaller (e' : expr) (s' : str) (i' : nat) (e : expr) (s : str) (i : nat) : Prop :=
    length s' - i' < length s - i \/
    (length s' - i' = length s - i /\
      (erank nul rank e' < erank nul rank e \/
       (erank nul rank e' = erank nul rank e /\ size e' < size e))).

  Lemma lparse_soundD f : soundD G (lparse sh G f).
  Proof. exact (lparse_sound sh G Hsh HG f). Qed.

  Lemma step_term e s i : WB e -> i <= length s ->
    (forall e' s' i', WB e' -> i' <= length s' -> smaller e' s' i' e s i -> term e' s' i') ->
    term e s i.
  Proof.
    intros Hwb Hi Hsub.
    destruct e as [cs v|lo hi|fm es|es|id mn mx e'| |r].
    - (* literal *)
      exists 1. cbn [lparse step]. apply lit_noof.
    - exists 1. cbn [lparse step]. apply range_noof.
    - (* alternation *)
      inversion Hwb as [| |fm' es' Hes| | | |]; subst.
      destruct (choice_list (fun x f => lparse sh G f x s i <> OOF)
                  (fun x f f' Hf H => noof_mono f f' x s i Hf H) es) as [F HF].
      { intros x Hx. apply Hsub; [exact (proj1 (Forall_forall _ _) Hes x Hx)|exact Hi|].
        pose proof (erank_alt_in nul rank fm x es Hx) as A.
        pose proof (size_alt_in fm x es Hx) as B.
        unfold smaller. lia. }
      exists (S F). cbn [lparse step]. apply alt_loop_noof. exact HF.
    - (* concatenation *)
      inversion Hwb as [| | |es' Hes| | |]; subst.
      pose (P := fun (kp : nat * nat) (f : nat) =>
                   forall x, nth_error es (fst kp) = Some x ->
                     (snd kp = i -> forallb (enull nul) (firstn (fst kp) es) = true) ->
                     lparse sh G f x s (snd kp) <> OOF).
      destruct (choice_list P) with
        (l := list_prod (seq 0 (length es)) (seq i (length s - i + 1))) as [F HF].
      { intros kp f f' Hf H x Hx Hc. apply (noof_mono f f'); [exact Hf|]. apply H; assumption. }
      { intros [k p] Hkp. apply in_prod_iff in Hkp. destruct Hkp as [Hk Hp].
        apply in_seq in Hk. apply in_seq in Hp. unfold P. cbn [fst snd].
        destruct (nth_error es k) as [x|] eqn:Ex; [|exists 0; intros x Hx; discriminate].
        assert (Hwx : WB x).
        { apply (proj1 (Forall_forall _ _) Hes). eapply nth_error_In. exact Ex. }
        assert (Hsz : size x < size (ECat es)).
        { apply size_cat_in. eapply nth_error_In. exact Ex. }
        destruct (Nat.eq_dec p i) as [Ep|Np].
        - destruct (forallb (enull nul) (firstn k es)) eqn:Eb.
          + destruct (Hsub x s p Hwx ltac:(lia)) as [f Hf].
            { destruct (nth_error_split es k Ex) as [l1 [l2 [El Ek]]].
              assert (Er : erank nul rank x <= erank nul rank (ECat es)).
              { rewrite El. apply erank_cat_split. rewrite <- Ek, El, firstn_len_app in Eb. exact Eb. }
              unfold smaller. subst p. lia. }
            exists f. intros x0 Hx0 _. inversion Hx0; subst x0. exact Hf.
          + exists 0. intros x0 _ Hc. specialize (Hc Ep). discriminate.
        - destruct (Hsub x s p Hwx ltac:(lia)) as [f Hf].
          { unfold smaller. left. lia. }
          exists f. intros x0 Hx0 _. inversion Hx0; subst x0. exact Hf. }
      exists (S F). cbn [lparse step].
      apply (cat_noof G (lparse sh G F) (lparse_soundD F) (enull nul)
               (M_empty_enull nul rank G Hwf) es s i Hi Hes).
      intros done x rest p El L1 L2 Hc.
      apply (HF (length done, p)).
      + apply in_prod_iff. split; apply in_seq.
        * rewrite El, app_length. simpl. lia.
        * lia.
      + cbn [fst]. rewrite El. rewrite nth_error_app2 by lia. rewrite Nat.sub_diag. reflexivity.
      + cbn [fst snd]. intros Ep. rewrite El, firstn_len_app. apply Hc. exact Ep.
    - (* repetition *)
      inversion Hwb as [| | | |id' mn' mx' e0 Hb Hwe| |]; subst.
      destruct (choice_list (fun p f => lparse sh G f e' s p <> OOF)
                  (fun p f f' Hf H => noof_mono f f' e' s p Hf H)
                  (seq i (length s - i + 1))) as [F HF].
      { intros p Hp. apply in_seq in Hp. apply Hsub; [exact Hwe|lia|].
        pose proof (size_rep id mn mx e') as B.
        assert (C : erank nul rank (ERep id mn mx e') = erank nul rank e') by reflexivity.
        unfold smaller. lia. }
      exists (S (Nat.max F (length s - i + 2))). cbn [lparse step].
      apply (rep_noof sh Hsh (lparse sh G (Nat.max F (length s - i + 2)))
               (lparse_rec_vc sh G Hsh _)); [exact Hi| |lia].
      intros p L1 L2. apply (noof_mono F); [lia|]. apply HF. apply in_seq. lia.
    - (* prose *)
      exists 1. cbn [lparse step]. discriminate.
    - (* rule reference *)
      destruct (G r) as [ru|] eqn:Er;
        [|exists 1; cbn [lparse step]; unfold ref; rewrite Er; discriminate].
      destruct (rdef ru) as [d|] eqn:Ed;
        [|exists 1; cbn [lparse step]; unfold ref; rewrite Er, Ed; discriminate].
      pose proof Hwf as [_ Hw]. destruct (Hw r ru Er) as [Hwx Hwd].
      destruct (Hwd d Ed) as [_ Hrk].
      destruct (Hsub d s i (HG r ru d Er Ed) Hi) as [f1 Hf1].
      { unfold smaller. right. split; [reflexivity|]. left. simpl. lia. }
      assert (Hex : exists F, forall x, rexcl ru = Some x -> forall p, i <= p -> p <= length s ->
                      lparse sh G F (ERef x) (slice s i (p - i)) 0 <> OOF).
      { destruct (rexcl ru) as [x|] eqn:Ex; [|exists 0; intros x Hx; discriminate].
        pose proof (Hwx x eq_refl) as Hlt.
        destruct (choice_list (fun p f => lparse sh G f (ERef x) (slice s i (p - i)) 0 <> OOF)
                    (fun p f f' Hf H => noof_mono f f' (ERef x) (slice s i (p - i)) 0 Hf H)
                    (seq i (length s - i + 1))) as [F HF].
        { intros p Hp. apply in_seq in Hp. apply Hsub; [apply WB_ref|lia|].
          assert (Hlen : length (slice s i (p - i)) = p - i).
          { apply EngineSound.slice_length. lia. }
          unfold smaller. rewrite Hlen. simpl. lia. }
        exists F. intros x0 Hx0 p L1 L2. inversion Hx0; subst x0. apply HF. apply in_seq. lia. }
      destruct Hex as [f2 Hf2].
      exists (S (Nat.max f1 f2)). cbn [lparse step].
      apply (ref_noof sh G (lparse sh G (Nat.max f1 f2)) (lparse_rec_vc sh G Hsh _) r ru d s i Hi Er Ed).
      + apply (noof_mono f1); [lia|exact Hf1].
      + intros x Ex p L1 L2. apply (noof_mono f2); [lia|]. apply (Hf2 x Ex p L1 L2).
  Qed.

  Lemma total_aux : forall a b c e s i,
    length s - i = a -> erank nul rank e = b -> size e = c -> WB e -> i <= length s -> term e s i.
  Proof.
    induction a as [a IHa] using lt_wf_ind.
    induction b as [b IHb] using lt_wf_ind.
    induction c as [c IHc] using lt_wf_ind.
    intros e s i Ea Eb Ec Hwb Hi.
    apply step_term; [exact Hwb|exact Hi|].
    intros e' s' i' Hwb' Hi' Hsm. destruct Hsm as [H1|[H1 [H2|[H2 H3]]]].
    - apply (IHa (length s' - i') ltac:(lia) _ _ e' s' i' eq_refl eq_refl eq_refl Hwb' Hi').
    - apply (IHb (erank nul rank e') ltac:(lia) _ e' s' i' ltac:(lia) eq_refl eq_refl Hwb' Hi').
    - apply (IHc (size e') ltac:(lia) e' s' i' ltac:(lia) ltac:(lia) eq_refl Hwb' Hi').
  Qed.
End Total.

Theorem lparse_total sh nul rank G : perm_oracle sh -> wf nul rank G ->
  forall e s i, WB e -> i <= length s -> exists f, forall f', f <= f' -> lparse sh G f' e s i <> OOF.
Proof.
  intros Hsh Hwf e s i Hwb Hi.
  destruct (total_aux sh Hsh nul rank G Hwf _ _ _ e s i eq_refl eq_refl eq_refl Hwb Hi) as [f Hf].
  exists f. intros f' Hle. apply (noof_mono sh G f f'); assumption.
Qed.

(* ------------------------------------------------------------------ *)
(* 6. no GrammarError on closed grammars                                *)
(* ------------------------------------------------------------------ *)
Section NoGErr.
  Variable sh : list mtch -> list mtch.
  Variable G : grammar.
  Hypothesis Hcl : closed G.
  Variable rec : expr -> str -> nat -> res.
  Hypothesis Hrec : forall e s i, closed_expr G e -> rec e s i <> GErr.

  Lemma closed_alt_in fm es x : closed_expr G (EAlt fm es) -> In x es -> closed_expr G x.
  Proof.
    intros H Hx y Hy. apply H. simpl. apply in_flat_map. exists x. split; assumption.
  Qed.

  Lemma closed_cat_in es x : closed_expr G (ECat es) -> In x es -> closed_expr G x.
  Proof.
    intros H Hx y Hy. apply H. simpl. apply in_flat_map. exists x. split; assumption.
  Qed.

  Lemma alt_loop_nog fm s i : forall es acc, (forall x, In x es -> closed_expr G x) ->
    alt_loop rec fm es s i acc <> GErr.
  Proof.
    induction es as [|e es IH]; simpl; intros acc H.
    - destruct acc; discriminate.
    - pose proof (Hrec e s i (H e (or_introl eq_refl))) as He.
      assert (IH' : forall acc', alt_loop rec fm es s i acc' <> GErr).
      { intros acc'. apply IH. intros x Hx. apply H. right. exact Hx. }
      destruct (rec e s i) as [ms| | |] eqn:E; [|apply IH'|congruence|congruence].
      destruct fm; [discriminate|apply IH'].
  Qed.

  Lemma extend_nog e s : closed_expr G e -> forall ms, extend rec e s ms <> GErr.
  Proof.
    intros Hc. induction ms as [|m ms IH]; simpl; [discriminate|].
    pose proof (Hrec e s (mend m) Hc) as Hm.
    destruct (rec e s (mend m)) as [xs| | |] eqn:E; try congruence.
    destruct (extend rec e s ms) as [ys| | |] eqn:E2; congruence.
  Qed.

  Lemma cat_loop_nog s : forall es cur, (forall x, In x es -> closed_expr G x) ->
    cat_loop rec es s cur <> GErr.
  Proof.
    induction es as [|e es IH]; simpl; intros cur H; [discriminate|].
    pose proof (extend_nog e s (H e (or_introl eq_refl)) cur) as Hx.
    destruct (extend rec e s cur) as [nxt| | |] eqn:E; try congruence.
    destruct nxt as [|m1 nxt']; [discriminate|].
    apply IH. intros x Hin. apply H. right. exact Hin.
  Qed.

  Lemma cat_nog es s i : (forall x, In x es -> closed_expr G x) -> cat rec es s i <> GErr.
  Proof.
    intros H. unfold cat. pose proof (cat_loop_nog s es [mk [] i] H) as Hc.
    destruct (cat_loop rec es s [mk [] i]) as [out| | |] eqn:E; congruence.
  Qed.

  Lemma rep_loop_nog e mx s : closed_expr G e -> forall k count mset last,
    rep_loop sh rec k e mx s count mset last <> GErr.
  Proof.
    intros Hc. induction k as [|k IH]; intros count mset last; cbn [rep_loop]; [discriminate|].
    destruct (match mx with Some m0 => Nat.eqb count m0 | None => false end); [discriminate|].
    pose proof (extend_nog e s Hc (sort_desc (sh last))) as Hx.
    destruct (extend rec e s (sort_desc (sh last))) as [new| | |] eqn:E; try congruence.
    cbv zeta. destruct (subset (set_of new) mset); [discriminate|apply IH].
  Qed.

  Lemma rep_nog k mn mx e s i : closed_expr G e -> rep sh rec k mn mx e s i <> GErr.
  Proof.
    intros Hc. unfold rep. destruct mn as [|mn].
    - apply rep_loop_nog. exact Hc.
    - cbv beta match zeta.
      assert (Hcat : cat rec (repeat e (S mn)) s i <> GErr).
      { apply cat_nog. intros x Hx. apply repeat_spec in Hx. subst x. exact Hc. }
      destruct (cat rec (repeat e (S mn)) s i) as [ms| | |] eqn:E; try congruence.
      apply rep_loop_nog. exact Hc.
  Qed.

  Lemma excluded_nog x m : (forall r, x = Some r -> closed_expr G (ERef r)) ->
    excluded sh rec x m <> XG.
  Proof.
    unfold excluded. destruct x as [r|]; [|discriminate]. intros H. cbv zeta.
    pose proof (Hrec (ERef r) (nsvalue (nodes m)) 0 (H r eq_refl)) as Hr.
    destruct (rec (ERef r) (nsvalue (nodes m)) 0) as [ms| | |] eqn:E; try congruence.
    destruct (next_longest sh (set_of ms)); discriminate.
  Qed.

  Lemma filter_excl_nog x : (forall r, x = Some r -> closed_expr G (ERef r)) ->
    forall ms, filter_excl sh rec x ms <> GErr.
  Proof.
    intros H. induction ms as [|m ms IH]; simpl; [discriminate|].
    pose proof (excluded_nog x m H) as Hx.
    destruct (excluded sh rec x m) as [b| |] eqn:E; try congruence.
    destruct (filter_excl sh rec x ms) as [r| | |] eqn:E2; congruence.
  Qed.

  Lemma defined_closed_ref x : defined G x -> closed_expr G (ERef x).
  Proof. intros H y Hy. simpl in Hy. destruct Hy as [Hy|[]]. subst y. exact H. Qed.

  Lemma ref_nog r s i : closed_expr G (ERef r) -> ref sh G rec r s i <> GErr.
  Proof.
    intros Hc. destruct (Hc r (or_introl eq_refl)) as [ru [d [Er Ed]]].
    unfold ref. rewrite Er, Ed. destruct (Hcl r ru Er) as [Hx Hd].
    pose proof (Hrec d s i (Hd d Ed)) as Hr.
    destruct (rec d s i) as [ms| | |] eqn:E; try congruence.
    assert (Hf : filter_excl sh rec (rexcl ru) ms <> GErr).
    { apply filter_excl_nog. intros x Ex. apply defined_closed_ref. apply Hx. exact Ex. }
    destruct (filter_excl sh rec (rexcl ru) ms) as [ms'| | |] eqn:E2; try congruence.
    destruct (set_of ms'); discriminate.
  Qed.

  Lemma step_nog k e s i : closed_expr G e -> step sh G rec k e s i <> GErr.
  Proof.
    intros Hc. destruct e as [cs v|lo hi|fm es|es|id mn mx e'| |r]; cbn [step].
    - unfold lit. destruct (Nat.leb i (length s)); [|discriminate].
      destruct (str_eqb _ _); discriminate.
    - unfold range. destruct (nth_error s i) as [c|]; [|discriminate].
      destruct (_ && _); discriminate.
    - apply alt_loop_nog. intros x Hx. exact (closed_alt_in fm es x Hc Hx).
    - apply cat_nog. intros x Hx. exact (closed_cat_in es x Hc Hx).
    - apply rep_nog. exact Hc.
    - discriminate.
    - apply ref_nog. exact Hc.
  Qed.
End NoGErr.

Theorem lparse_closed sh G : closed G -> forall f e s i, closed_expr G e -> lparse sh G f e s i <> GErr.
Proof.
  intros Hcl. induction f as [|f IH]; intros e s i Hc.
  - discriminate.
  - cbn [lparse]. apply (step_nog sh G Hcl (lparse sh G f) IH f e s i Hc).
Qed.

(* the two together: on the valid domain, with enough fuel the model answers like the code —
   a list of matches or ParseError *)
Corollary lparse_answers sh nul rank G : perm_oracle sh -> wf nul rank G -> closed G ->
  forall e s i, WB e -> closed_expr G e -> i <= length s ->
  exists f, forall f', f <= f' ->
    lparse sh G f' e s i = PErr \/ exists ms, lparse sh G f' e s i = Ok ms /\ ms <> [].
Proof.
  intros Hsh Hwf Hcl e s i Hwb Hce Hi.
  destruct (lparse_total sh nul rank G Hsh Hwf e s i Hwb Hi) as [f Hf].
  exists f. intros f' Hle. specialize (Hf f' Hle).
  pose proof (lparse_closed sh G Hcl f' e s i Hce) as Hg.
  destruct (lparse sh G f' e s i) as [ms| | |] eqn:E; try congruence.
  - right. exists ms. split; [reflexivity|].
    exact (EngineSound.lparse_nonempty sh G Hsh f' e s i ms E).
  - left. reflexivity.
Qed.

Print Assumptions M_empty_enull.
Print Assumptions lparse_total.
Print Assumptions lparse_closed.
Print Assumptions lparse_answers.
