(* C05 — the built-in ABNF reader accepts exactly the ABNF of RFC 5234 + RFC 7405.
   l_meta = the core table and the meta-grammar table of parser.py, TRANSLATED on every run (tools/translate.py)
   and loaded by the loader model; l_rfc = the published grammar, read from the RFC text (RfcSpec.v) by the
   independent spec reader.  For each of the 24 meta rules and 16 core rules (paired by name), every hash-order
   oracle, every string over N and every offset: the engine on the library's tables answers, and lists exactly
   the end offsets the RFC grammar defines.  Obligations closed by kernel evaluation of VERIFIED checkers:
   wf / closed / plain certificate of the tables, language equivalence by simulation (LangEq.lang_eq_sound). *)
From Coq Require Import String List NArith.
From ABNF Require Import Base Engine Spec Registry Loader Bundled RfcSpec Tables L_C05.

Theorem C05 : forall a b, In (a, b) meta_pairs ->
  forall sh, perm_oracle sh -> forall s i, i <= List.length s ->
  exists f, forall f', f <= f' ->
    lparse sh (of_list l_meta) f' (ERef a) s i <> OOF /\ lparse sh (of_list l_meta) f' (ERef a) s i <> GErr /\
    (forall j, In j (ends (lparse sh (of_list l_meta) f' (ERef a) s i)) <-> M (of_list l_rfc) s (ERef b) i j).
Proof. exact c05. Qed.
Print Assumptions C05.

Theorem C05_all_40_rules_are_paired_by_name :
  forallb (pair_named 1%N) names24 = true /\ forallb (pair_named 0%N) names16 = true.
Proof. exact all_40_rules_paired. Qed.
Print Assumptions C05_all_40_rules_are_paired_by_name.

Theorem C05_rfc_text_is_read : match r_rfc tt with Some R => List.length (objs R) = 40 | None => False end.
Proof. exact rfc_text_reads. Qed.
Print Assumptions C05_rfc_text_is_read.
