(* C16 — a size-limited parse cache respects its limit and evicts least-recently-used.
   Over ALL operation sequences (get / set / del / len / clear / invalidate) from a freshly created
   cache, for every limit n >= 1 (and None), every key type with a correct equality. *)
From Coq Require Import List Arith Bool Permutation.
From ABNF Require Import Cache CacheSpec CacheProps.

Theorem C16_size_le : forall (K V : Type) (keqb : K -> K -> bool) (dflt arg : option nat) (g0 n : nat) (ops : list (op K V)),
  maxsz K V (snd (init K V dflt arg g0)) = Some n -> 1 <= n ->
  length (entries K V (snd (run K V keqb (init K V dflt arg g0) ops))) <= n.
Proof. exact size_le. Qed.
Print Assumptions C16_size_le.

(* the model's observable trace equals the trace of the abstract LRU specification (CacheSpec.v):
   lookups return the value most recently stored under that key or a miss *)
Theorem C16_refines_lru_spec : forall (K V : Type) (keqb : K -> K -> bool),
  (forall a b : K, keqb a b = true <-> a = b) ->
  forall (dflt arg : option nat) (g0 : nat) (ops : list (op K V)),
  let st0 := init K V dflt arg g0 in
  let s0 := snew (maxsz K V (snd st0)) in
  inv K V st0 /\ abs K V st0 s0 /\ inv K V (run K V keqb st0 ops) /\
  abs K V (run K V keqb st0 ops) (srun keqb s0 ops) /\ trace K V keqb st0 ops = strace K V keqb s0 ops.
Proof. exact refines_run. Qed.
Print Assumptions C16_refines_lru_spec.

Theorem C16_evict_lru : forall (K V : Type) (keqb : K -> K -> bool),
  (forall a b : K, keqb a b = true <-> a = b) ->
  forall (g : nat) (c : cache K V) (s : sstate K V) (k : K) (v : V) (k0 : K) (v0 : V) (r : list (K * V)) (n : nat),
  inv K V (g, c) -> abs K V (g, c) s -> maxsz K V c = Some n -> 1 <= n ->
  live K V (g, c) = (k0, v0) :: r -> length ((k0, v0) :: r) = n ->
  lookup K V keqb k ((k0, v0) :: r) = None ->
  entries K V (cset K V keqb g k v c) = r ++ (k, v) :: nil /\
  (exists t0 : nat,
     In (k0, v0, t0) (items s) /\
     (forall j : item K V, In j (items s) -> j <> (k0, v0, t0) -> t0 < istamp j) /\
     Permutation (items (fst (sstep keqb s (OSet k v)))) ((k, v, clock s) :: sdelete keqb k0 (items s))).
Proof. exact evict_lru. Qed.
Print Assumptions C16_evict_lru.

Theorem C16_counters : forall (K V : Type) (keqb : K -> K -> bool) (dflt arg : option nat) (g0 : nat) (ops : list (op K V)),
  let st0 := init K V dflt arg g0 in
  let c := snd (run K V keqb st0 ops) in
  (~ In OClear ops ->
   hits K V c + misses K V c = ngets K V ops /\
   hits K V c = nhit V (trace K V keqb st0 ops) /\ misses K V c = nmiss V (trace K V keqb st0 ops)) /\
  (forall ops1 ops2 : list (op K V),
   ops = ops1 ++ OClear :: ops2 -> ~ In OClear ops2 ->
   let st1 := run K V keqb st0 (ops1 ++ OClear :: nil) in
   hits K V c + misses K V c = ngets K V ops2 /\
   hits K V c = nhit V (trace K V keqb st1 ops2) /\ misses K V c = nmiss V (trace K V keqb st1 ops2)).
Proof. exact counters. Qed.
Print Assumptions C16_counters.

Theorem C16_clear_all : forall (K V : Type) (keqb : K -> K -> bool) (c : cache K V),
  entries K V (cclear K V c) = nil /\ hits K V (cclear K V c) = 0 /\ misses K V (cclear K V c) = 0 /\
  (forall g : nat, live K V (g, cclear K V c) = nil) /\
  (forall g : nat, fst (step K V keqb (g, c) OClear) = (g, cclear K V c)).
Proof. exact clear_all. Qed.
Print Assumptions C16_clear_all.
