(* C07 — parsing is deterministic across hash seeds.
   [sh] models the iteration order of a Python set (the only thing PYTHONHASHSEED can change in the
   engine); the theorem says that any two permutation oracles give the same answer: the same
   exception or the same matches with the same trees, node for node, in the same order. *)
From Coq Require Import List.
From ABNF Require Import Base Engine Spec EngineDet.

Theorem C07_lparse : forall sh1 sh2 G, perm_oracle sh1 -> perm_oracle sh2 ->
  forall f e s i, i <= length s -> lparse sh1 G f e s i = lparse sh2 G f e s i.
Proof. exact lparse_oracle_indep. Qed.
Print Assumptions C07_lparse.

Theorem C07_parse : forall sh1 sh2 G, perm_oracle sh1 -> perm_oracle sh2 ->
  forall f r s i, i <= length s -> parse sh1 G f r s i = parse sh2 G f r s i.
Proof. exact parse_oracle_indep. Qed.
Print Assumptions C07_parse.

Theorem C07_parse_all : forall sh1 sh2 G, perm_oracle sh1 -> perm_oracle sh2 ->
  forall f r s, parse_all sh1 G f r s = parse_all sh2 G f r s.
Proof. exact parse_all_oracle_indep. Qed.
Print Assumptions C07_parse_all.
