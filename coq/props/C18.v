(* C18 — NodeVisitor dispatches to the handler named after the node (name with "-" -> "_", ASCII
   case-insensitively), passes exactly that node, and returns None when no handler exists;
   Node / LiteralNode equality is structural. *)
From Coq Require Import List NArith Arith Bool.
From ABNF Require Import Base Visit VisitProps.
Import ListNotations.

Theorem C18_dispatch_key : forall name,
  forallb is_name_char name = true -> dispatch_key name = map lower_dash name.
Proof. exact dispatch_key_spec. Qed.
Print Assumptions C18_dispatch_key.

(* the key only depends on the name up to ASCII letter case, and distinguishes names that differ otherwise *)
Theorem C18_dispatch_key_case : forall n1 n2,
  forallb is_name_char n1 = true -> forallb is_name_char n2 = true ->
  (dispatch_key n1 = dispatch_key n2 <-> fold_str n1 = fold_str n2).
Proof. exact dispatch_key_case. Qed.
Print Assumptions C18_dispatch_key_case.

(* the handler registered under the key is the one invoked, with exactly that node; otherwise None, never an error *)
Theorem C18_visit_calls : forall v n h,
  NoDup (map fst v) -> In (dispatch_key (node_name n), h) v -> visit v n = Called h n.
Proof. exact visit_calls. Qed.
Print Assumptions C18_visit_calls.

Theorem C18_visit_none : forall v n,
  ~ In (dispatch_key (node_name n)) (map fst v) -> visit v n = RNone.
Proof. exact visit_none. Qed.
Print Assumptions C18_visit_none.

Theorem C18_visit_total : forall v n,
  visit v n = RNone \/
  exists h, visit v n = Called h n /\ In (dispatch_key (node_name n), h) v.
Proof. exact visit_total. Qed.
Print Assumptions C18_visit_total.

(* equality is structural *)
Theorem C18_node_eqb_spec : forall a b, node_eqb a b = true <-> a = b.
Proof. exact node_eqb_spec. Qed.
Print Assumptions C18_node_eqb_spec.
