(* C11 — first-match alternation and rule exclusion behave as documented.
   den sh G e s i j = "the engine lists end j for e at (s,i)" (fuel-independent).  For every hash-order oracle,
   every wf + closed grammar WITH flags and exclusions, every WB closed expression, string and offset:
   first-match ON = exactly the ends of the first alternative that has any match; OFF = the union;
   rule A excluding B matches a span iff A's definition matches it and B does not match that span's text
   entirely.  These clauses, with the RFC clauses for the other constructs (record Sem), have exactly ONE
   solution (sem_unique), so they DEFINE [[.]]_{G,flags,excl}; the engine is that solution (den_Sem). *)
From Coq Require Import List NArith.
From ABNF Require Import Base Engine Spec Wf EngineSem.

Theorem C11_first_match_on : forall sh, perm_oracle sh -> forall nul rank G, wf nul rank G -> closed G ->
  forall es s i j, WB (EAlt true es) -> closed_expr G (EAlt true es) -> i <= length s ->
  (den sh G (EAlt true es) s i j <->
   exists k e, nth_error es k = Some e /\ den sh G e s i j /\
     forall k' e', k' < k -> nth_error es k' = Some e' -> forall j', ~ den sh G e' s i j').
Proof. exact sem_alt_fm. Qed.
Print Assumptions C11_first_match_on.

Theorem C11_first_match_off : forall sh, perm_oracle sh -> forall nul rank G, wf nul rank G -> closed G ->
  forall es s i j, WB (EAlt false es) -> closed_expr G (EAlt false es) -> i <= length s ->
  (den sh G (EAlt false es) s i j <-> exists e, In e es /\ den sh G e s i j).
Proof. exact sem_alt_union. Qed.
Print Assumptions C11_first_match_off.

Theorem C11_exclusion : forall sh, perm_oracle sh -> forall nul rank G, wf nul rank G -> closed G ->
  forall r ru d s i j, WB (ERef r) -> closed_expr G (ERef r) -> i <= length s ->
  G r = Some ru -> rdef ru = Some d ->
  (den sh G (ERef r) s i j <->
   den sh G d s i j /\ forall x, rexcl ru = Some x -> ~ den sh G (ERef x) (slice s i (j - i)) 0 (j - i)).
Proof. exact sem_ref. Qed.
Print Assumptions C11_exclusion.

Theorem C11_engine_satisfies_all_clauses : forall sh nul rank G,
  perm_oracle sh -> wf nul rank G -> closed G -> Sem G (den sh G).
Proof. exact den_Sem. Qed.
Print Assumptions C11_engine_satisfies_all_clauses.

Theorem C11_clauses_have_one_solution : forall nul rank G (d1 d2 : expr -> str -> nat -> nat -> Prop),
  wf nul rank G -> closed G -> Sem G d1 -> Sem G d2 ->
  forall e s i j, WB e -> closed_expr G e -> i <= length s -> (d1 e s i j <-> d2 e s i j).
Proof. exact sem_unique. Qed.
Print Assumptions C11_clauses_have_one_solution.
