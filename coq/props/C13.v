(* C13 — grammar changes take effect immediately.  Every public mutation bumps the global epoch
   (RegistryProps: define / =/ / import / flag / exclusion); after a bump every cache whose stamp is not
   newer than the old epoch behaves as EMPTY, so the cache invariant holds for ANY new grammar, whatever was
   parsed (and cached) before; by C08 every later answer is the cold answer of the new grammar. *)
From Coq Require Import List NArith.
From ABNF Require Import Base Engine Cache EngineProg CacheRefine.

Theorem C13_after_invalidate_any_grammar : forall g (st : N -> cache ckey cval),
  (forall id, cep ckey cval (st id) <= g) ->
  forall sh' G' rep_of', cache_inv sh' G' rep_of' (S g) st.
Proof. exact cache_inv_after_invalidate. Qed.
Print Assumptions C13_after_invalidate_any_grammar.

Theorem C13_answers_of_new_grammar : forall sh G' rep_of' g (st : N -> cache ckey cval) e f s i r st',
  (forall id, cep ckey cval (st id) <= g) -> ids_ok G' rep_of' e ->
  run_cached (S g) st (lparse_p sh G' f e s i) = (r, st') -> r <> OOF ->
  (exists f', lparse sh G' f' e s i = r) /\ cache_inv sh G' rep_of' (S g) st' /\
  (forall id, cep ckey cval (st' id) <= S g).
Proof. exact run_cached_after_invalidate. Qed.
Print Assumptions C13_answers_of_new_grammar.

(* histories that interleave requests, clears, limit changes AND grammar changes (each with an epoch bump) *)
Theorem C13_histories_with_grammar_changes : forall sh ops w outs w',
  winv sh w -> gops_ok sh w ops -> grun sh w ops = (outs, w') -> gtrace sh (gspec sh) w ops outs /\ winv sh w'.
Proof. exact history_inval_correct. Qed.
Print Assumptions C13_histories_with_grammar_changes.
