(* C02 — parse returns the longest match; parse_all accepts only whole-input matches.
   Valid domain as C01 (wf, closed, plain); for every hash-order oracle, defined rule, string, offset. *)
From Coq Require Import List NArith.
Import ListNotations.
From ABNF Require Import Base Engine Spec Wf L_C03 L_C02.

Theorem C02_parse : forall sh nul rank G, perm_oracle sh -> wf nul rank G -> closed G -> plain G ->
  forall r s i, defined G r -> i <= length s ->
  exists f, forall f', f <= f' ->
    (forall m, parse sh G f' r s i = Ok [m] ->
        M G s (ERef r) i (mend m) /\ (forall j, M G s (ERef r) i j -> j <= mend m) /\
        tree_ok G s r i m /\ nsvalue (nodes m) = slice s i (mend m - i)) /\
    (parse sh G f' r s i = PErr <-> (forall j, ~ M G s (ERef r) i j)) /\
    ((exists m, parse sh G f' r s i = Ok [m]) \/ parse sh G f' r s i = PErr).
Proof. exact c02_parse. Qed.
Print Assumptions C02_parse.

Theorem C02_parse_all : forall sh nul rank G, perm_oracle sh -> wf nul rank G -> closed G -> plain G ->
  forall r s, defined G r ->
  exists f, forall f', f <= f' ->
    ((exists m, parse_all sh G f' r s = Ok [m]) <-> M G s (ERef r) 0 (length s)) /\
    (forall m, parse_all sh G f' r s = Ok [m] ->
        mend m = length s /\ nsvalue (nodes m) = s /\ tree_ok G s r 0 m) /\
    ((exists m, parse_all sh G f' r s = Ok [m]) \/ parse_all sh G f' r s = PErr).
Proof. exact c02_parse_all. Qed.
Print Assumptions C02_parse_all.
