(* C15 — the ABNF reader and the bundled ABNF-of-ABNF agree (self-description).
   l15 = a process that imported rfc7405 (and rfc5234), built by the loader model from the TRANSLATED texts.
   (i) each of the 24 rules of the hand-written meta-grammar and the rule of the same name in rfc7405.Rule accept the
   same strings, match the same ends at every offset of every string, for every oracle; (ii) each of the 21 rules of
   rfc5234.Rule does so w.r.t. the grammar read from the RFC 5234 section 4 TEXT (original char-val, i.e. "modulo the
   RFC 7405 string forms"; prose-val included wherever an element may appear). *)
From Coq Require Import String List NArith.
From ABNF Require Import Base Engine Spec Schema Registry Loader Bundled RfcSpec Tables L_C15.

Theorem C15_rfc7405_module_equals_reader : forall a b, In (a, b) pairs_7405 -> forall sh, perm_oracle sh ->
  (forall s, accepts sh (of_list l15) a s <-> accepts sh (of_list l15) b s) /\
  (forall s i j, M (of_list l15) s (ERef a) i j <-> M (of_list l15) s (ERef b) i j) /\
  (forall s i, i <= List.length s -> exists f, forall f', f <= f' -> forall j,
      In j (ends (lparse sh (of_list l15) f' (ERef a) s i)) <-> In j (ends (lparse sh (of_list l15) f' (ERef b) s i))).
Proof. exact c15_rfc7405. Qed.
Print Assumptions C15_rfc7405_module_equals_reader.

Theorem C15_rfc5234_module_equals_rfc_text : forall a b, In (a, b) pairs_5234 -> forall sh, perm_oracle sh ->
  (forall s, accepts sh (of_list l15) a s <-> accepts sh (of_list l_rfc5234) b s) /\
  (forall s i j, M (of_list l15) s (ERef a) i j <-> M (of_list l_rfc5234) s (ERef b) i j) /\
  (forall s i, i <= List.length s -> exists f, forall f', f <= f' -> forall j,
      In j (ends (lparse sh (of_list l15) f' (ERef a) s i)) <-> In j (ends (lparse sh (of_list l_rfc5234) f' (ERef b) s i))).
Proof. exact c15_rfc5234. Qed.
Print Assumptions C15_rfc5234_module_equals_rfc_text.

Theorem C15_all_rules_covered : (List.length pairs_7405, List.length pairs_5234) = (24, 21).
Proof. exact counts15. Qed.
Print Assumptions C15_all_rules_covered.
