(* C06 — the core rules are exactly RFC 5234 Appendix B.1.  Over the core table GENERATED from parser.py:
   each of the 14 single-character rules matches exactly one character and exactly the code points B.1 lists,
   for EVERY natural number c (not just c <= 0x10FFFF), every string and offset, HEXDIG in either ASCII case;
   CRLF matches exactly CR LF; every core rule (LWSP included) has the language of its B.1 text; a grammar
   class without its own rule of that name sees the core rule object. *)
From Coq Require Import String List NArith.
Import ListNotations.
From ABNF Require Import Base Engine Spec Wf Registry Loader Bundled RfcSpec Tables TablesAll LangEq L_C05 L_C06.

Theorem C06_single_character_rules : forall nm cls, In (nm, cls) b1_classes ->
  exists a, rid_of (r_boot tt) 0%N nm = Some a /\ defined G_meta a /\
    forall s i j, M G_meta s (ERef a) i j <->
      (j = i + 1 /\ exists c, nth_error s i = Some c /\ in_cc c cls = true).
Proof. exact c06_single. Qed.
Print Assumptions C06_single_character_rules.

Theorem C06_engine_on_every_code_point : forall nm cls, In (nm, cls) b1_classes ->
  exists a, rid_of (r_boot tt) 0%N nm = Some a /\
    forall sh, perm_oracle sh -> forall c : N,
    exists f, forall f', f <= f' ->
      (In 1 (ends (lparse sh G_meta f' (ERef a) [c] 0)) <-> in_cc c cls = true) /\
      (forall j, In j (ends (lparse sh G_meta f' (ERef a) [c] 0)) -> j = 1).
Proof. exact c06_engine. Qed.
Print Assumptions C06_engine_on_every_code_point.

Theorem C06_CRLF : exists a, rid_of (r_boot tt) 0%N "CRLF" = Some a /\
  forall s i j, M G_meta s (ERef a) i j <->
    (j = i + 2 /\ nth_error s i = Some 13%N /\ nth_error s (i + 1) = Some 10%N).
Proof. exact c06_crlf. Qed.
Print Assumptions C06_CRLF.

Theorem C06_every_core_rule_has_the_language_of_its_B1_text : forall nm, In nm names16 ->
  exists a b, rid_of (r_boot tt) 0%N nm = Some a /\ rid_of R_rfc 2%N nm = Some b /\
    forall s i j, M G_meta s (ERef a) i j <-> M (of_list l_rfc) s (ERef b) i j.
Proof. exact c06_as_text. Qed.
Print Assumptions C06_every_core_rule_has_the_language_of_its_B1_text.

Theorem C06_seen_from_any_class : forall R c name,
  find_obj c (fold_name name) (objs R) 0 = None -> rget R c name = find_obj 0%N (fold_name name) (objs R) 0.
Proof. exact core_seen_from_any_class. Qed.
Print Assumptions C06_seen_from_any_class.

Theorem C06_no_bundled_module_changes_a_core_rule :
  (same_class (r_boot tt) R_all 0%N && same_class (r_boot tt) R_all 1%N)%bool = true.
Proof. exact core_unchanged_by_bundled_modules. Qed.
Print Assumptions C06_no_bundled_module_changes_a_core_rule.
