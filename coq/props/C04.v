(* C04 — compiling ABNF text yields the parser the text denotes, whatever its layout.   PARTIAL PROOF.
   What "the text denotes" is fixed by the independent spec reader AbnfRead.read_rulelist (structure conventions of
   RFC 5234 section 3 / RFC 7405) followed by Registry.define_rules.  Proved here, for EVERY tree on which the
   visitor is defined (a superset of the derivations of the meta-grammar) and every registry:
     - the visitor IS "compile after ast_of" (ast_of = the tree's abstract syntax), for expressions, rules and
       rulelists: same parser objects, same rule objects, same order of creation;
     - layout (c-wsp, c-nl, comment nodes and literal leaves such as parentheses) never reaches the result;
     - numbers of ANY length decode positionally in base 2/10/16, dotted series of any length, ranges, the five
       repeat forms, the char-val case flag, <rulename> vs prose.
   NOT proved (stated as the gap in DESIGN.md): that for every derivation tree t of a text s the abstract syntax
   ast_of t equals read_rulelist s (semantic unambiguity of the meta-grammar modulo layout).  That link is
   covered by the three-way correspondence (implementation / spec reader / engine-on-translated-meta-grammar +
   visitor model) on generated texts and on all bundled grammar texts. *)
From Coq Require Import String Ascii List NArith.
Import ListNotations.
From ABNF Require Import Base Engine AbnfRead Registry GenTypes Visit Visitor VisitorProps.

Theorem C04_partial_visitor_is_compile : forall c n R a,
  ast_of n = Some a -> visit_e c n R = Some (compile c a R).
Proof. exact visit_e_compile. Qed.
Print Assumptions C04_partial_visitor_is_compile.

Theorem C04_partial_rulelist : forall c n R rs,
  arules_of (children n) = Some rs -> v_rulelist c n R = define_rules c rs R.
Proof. exact v_rulelist_define. Qed.
Print Assumptions C04_partial_rulelist.

Theorem C04_partial_layout_independent : forall c t t',
  same_modulo_layout t t' -> forall R, visit_e c t R = visit_e c t' R.
Proof. exact layout_independent_visit_all. Qed.
Print Assumptions C04_partial_layout_independent.

Theorem C04_partial_numbers_of_any_length : forall b ds,
  Forall (fun c => digit_ok b c = true) ds -> ds <> [] -> py_int b ds = Some (pos_val b ds).
Proof. exact py_int_pos. Qed.
Print Assumptions C04_partial_numbers_of_any_length.

Theorem C04_partial_num_val : forall nm b, digit_kind nm b ->
  (forall l dss, dotted nm b l dss -> read_value nm b l = Some (ELit true (map (pos_val b) dss))) /\
  (forall xs1 ds1 dash xs2 ds2,
     digit_nodes nm b xs1 ds1 -> ds1 <> [] -> sep_leaf "-" dash ->
     digit_nodes nm b xs2 ds2 -> ds2 <> [] ->
     read_value nm b (xs1 ++ dash :: xs2) = Some (ERange (pos_val b ds1) (pos_val b ds2))).
Proof. exact read_value_spec. Qed.
Print Assumptions C04_partial_num_val.

Theorem C04_partial_prose : forall c nm ch R t,
  let n := Nd nm ch in
  key_is n "prose_val" = true -> nvalue n = (60 :: t ++ [62])%N ->
  ast_of n = Some (if is_rulename t then ARef t else AProse t) /\
  visit_e c n R = Some (if is_rulename t
                        then let '(R1, k) := rnew R c t in (R1, ERef (N.of_nat k))
                        else (R, EProse)).
Proof. exact prose_spec. Qed.
Print Assumptions C04_partial_prose.
