(* C04 — compiling ABNF text yields the parser the text denotes, whatever its layout.   PARTIAL PROOF.
   What "the text denotes" is fixed by the independent spec reader AbnfRead.read_rulelist (structure conventions of
   RFC 5234 section 3 / RFC 7405) followed by Registry.define_rules.  Proved here, for EVERY tree on which the
   visitor is defined (a superset of the derivations of the meta-grammar) and every registry:
     - the visitor IS "compile after ast_of" (ast_of = the tree's abstract syntax), for expressions, rules and
       rulelists: same parser objects, same rule objects, same order of creation;
     - layout (c-wsp, c-nl, comment nodes and literal leaves such as parentheses) never reaches the result;
     - numbers of ANY length decode positionally in base 2/10/16, dotted series of any length, ranges, the five
       repeat forms, the char-val case flag, <rulename> vs prose.
   The former gap is CLOSED in both directions (ReaderDeriv1-3, ReaderDeriv, ReaderDerivE2E, ReaderComplete1-2):
     - for every derivation tree t of a text s from the meta-grammar (the association list computed from the TRANSLATED
       rule tables), the tree's abstract syntax IS what the spec reader reads from s, and conversely every text the
       spec reader reads has a derivation: the meta-grammar is semantically unambiguous modulo layout and generates
       exactly the texts the spec reader accepts;
     - hence THEOREM C04 / C04_create: from every registry that still holds the boot rules, the library route (its
       engine on its meta-grammar, then its visitor) succeeds, for all sufficiently large fuel, with registry R' if and
       only if the specification route (spec reader, then Registry.define_rules) yields R'.  The two routes define
       the same rule objects with the same parser objects, created in the same order.
     - and in the property's own form (RenderSpec.v: a declarative relation "text s is a rendering of the rule list rs"
       with exactly the freedom RFC 5234 / 7405 give: white space, comments, continuation lines, blank lines, the five
       repeat forms with leading zeros, %b/%d/%x in either marker case with leading zeros and either digit case, dotted
       series, ranges, "..." / %i"..." / %s"...", groups, options, <rulename>; RenderProof1-5: the spec reader inverts
       EVERY rendering, every normal syntax has a rendering, and the reader returns only normal syntax):
       THEOREM C04_every_rendering: for every rule list rs and every rendering s of it, the library route on s yields
       exactly Registry.define_rules c rs.
   The theorems named C04_partial_... predate this and are kept: they hold for every tree on which the visitor is defined,
   a superset of the derivation trees. *)
From Coq Require Import String Ascii List NArith.
Import ListNotations.
From ABNF Require Import Base Engine Spec AbnfRead Registry GenTypes Visit Visitor VisitorProps Tables Compile
     Bundled RegistryProps ReaderDeriv1 ReaderDeriv ReaderDerivE2E ReaderComplete1 ReaderComplete2
     RenderSpec RenderProof3 RenderProof4 RenderProof5 RenderExamples L_C04.
Open Scope string_scope.

Theorem C04_partial_visitor_is_compile : forall c n R a,
  ast_of n = Some a -> visit_e c n R = Some (compile c a R).
Proof. exact visit_e_compile. Qed.
Print Assumptions C04_partial_visitor_is_compile.

Theorem C04_partial_rulelist : forall c n R rs,
  arules_of (children n) = Some rs -> v_rulelist c n R = define_rules c rs R.
Proof. exact v_rulelist_define. Qed.
Print Assumptions C04_partial_rulelist.

Theorem C04_partial_layout_independent : forall c t t',
  same_modulo_layout t t' -> forall R, visit_e c t R = visit_e c t' R.
Proof. exact layout_independent_visit_all. Qed.
Print Assumptions C04_partial_layout_independent.

Theorem C04_partial_numbers_of_any_length : forall b ds,
  Forall (fun c => digit_ok b c = true) ds -> ds <> [] -> py_int b ds = Some (pos_val b ds).
Proof. exact py_int_pos. Qed.
Print Assumptions C04_partial_numbers_of_any_length.

Theorem C04_partial_num_val : forall nm b, digit_kind nm b ->
  (forall l dss, dotted nm b l dss -> read_value nm b l = Some (ELit true (map (pos_val b) dss))) /\
  (forall xs1 ds1 dash xs2 ds2,
     digit_nodes nm b xs1 ds1 -> ds1 <> [] -> sep_leaf "-" dash ->
     digit_nodes nm b xs2 ds2 -> ds2 <> [] ->
     read_value nm b (xs1 ++ dash :: xs2) = Some (ERange (pos_val b ds1) (pos_val b ds2))).
Proof. exact read_value_spec. Qed.
Print Assumptions C04_partial_num_val.

Theorem C04_partial_prose : forall c nm ch R t,
  let n := Nd nm ch in
  key_is n "prose_val" = true -> nvalue n = (60 :: t ++ [62])%N ->
  ast_of n = Some (if is_rulename t then ARef t else AProse t) /\
  visit_e c n R = Some (if is_rulename t
                        then let '(R1, k) := rnew R c t in (R1, ERef (N.of_nat k))
                        else (R, EProse)).
Proof. exact prose_spec. Qed.
Print Assumptions C04_partial_prose.

(* ---- the gap of the first version, now closed ------------------------------------------------------------------ *)
(* every derivation tree of a text has the abstract syntax the independent spec reader returns *)
Theorem C04_reader_agrees_with_every_derivation : forall s t,
  D (of_list l_meta) s (ERef (rid_meta "rulelist")) 0 [t] (length s) ->
  exists rs, arules_of (children t) = Some rs /\ read_rulelist s = Some rs.
Proof. exact reader_agrees_with_every_derivation. Qed.
Print Assumptions C04_reader_agrees_with_every_derivation.

Theorem C04_reader_agrees_rule : forall s t,
  D (of_list l_meta) s (ERef (rid_meta "rule")) 0 [t] (length s) ->
  exists a, arule_of t = Some a /\ read_rule s = Some (a, []).
Proof. exact reader_agrees_rule. Qed.
Print Assumptions C04_reader_agrees_rule.

Theorem C04_visitor_on_any_derivation : forall c s t R,
  D (of_list l_meta) s (ERef (rid_meta "rulelist")) 0 [t] (length s) ->
  exists rs, read_rulelist s = Some rs /\ v_rulelist c t R = define_rules c rs R.
Proof. exact visitor_on_any_derivation. Qed.
Print Assumptions C04_visitor_on_any_derivation.

(* the library's own route (its engine on its meta-grammar + its visitor), from any registry that still holds the boot
   rules, is the specification *)
Theorem C04_library_route_is_spec_load : forall fuel c text strict R R',
  boot_ok R -> lib_load_grammar fuel c text strict R = LOk R' -> load_grammar c text strict R = Some R'.
Proof. exact lib_load_grammar_is_spec. Qed.
Print Assumptions C04_library_route_is_spec_load.

Theorem C04_library_route_is_spec_create : forall fuel c text R R',
  boot_ok R -> lib_create fuel c text R = LOk R' -> create c text R = Some R'.
Proof. exact lib_create_is_spec. Qed.
Print Assumptions C04_library_route_is_spec_create.

(* the hypothesis is met by the boot registry and kept by definitions in any class other than the two library classes *)
Theorem C04_boot_ok_initially : boot_ok (r_boot tt).
Proof. exact boot_ok_boot. Qed.
Print Assumptions C04_boot_ok_initially.

Theorem C04_boot_ok_kept : forall c l R R', c <> 0%N -> c <> 1%N -> boot_reg R ->
  define_rules c l R = Some R' -> no_core_clash R l -> boot_reg R' /\ boot_ok R'.
Proof. intros c l R R' H0 H1 HB H Hn. pose proof (boot_reg_define_rules c l R R' H0 H1 HB H Hn) as HB'.
  split; [exact HB'|exact (boot_reg_ok R' HB')]. Qed.
Print Assumptions C04_boot_ok_kept.

(* not vacuous: a text with comments, a continuation line, a white line and =/ *)
Example C04_nonvacuous : exists t,
  D (of_list l_meta) ex_text (ERef (rid_meta "rulelist")) 0 [t] (length ex_text) /\
  arules_of (children t) = read_rulelist ex_text /\ read_rulelist ex_text <> None.
Proof. destruct ex_nonvacuous as (t & H1 & H2 & H3). exists t. split; [exact H1|]. split; [exact H2|].
  rewrite H3. discriminate. Qed.

(* ---- both directions: the library route IS the specification route -------------------------------------------------- *)
Theorem C04 : forall c text strict R R', boot_ok R ->
  (load_grammar c text strict R = Some R' <->
   exists fuel, forall f, fuel <= f -> lib_load_grammar f c text strict R = LOk R').
Proof. exact C04_full_stable. Qed.
Print Assumptions C04.

Theorem C04_create : forall c text R R', boot_ok R ->
  (create c text R = Some R' <-> exists fuel, lib_create fuel c text R = LOk R').
Proof. exact C04_full_create. Qed.
Print Assumptions C04_create.

Theorem C04_reader_accepts_exactly_the_meta_grammar : forall s rs,
  read_rulelist s = Some rs <->
  exists t, D (of_list l_meta) s (ERef (rid_meta "rulelist")) 0 [t] (length s) /\ arules_of (children t) = Some rs.
Proof. exact reader_iff_derivable. Qed.
Print Assumptions C04_reader_accepts_exactly_the_meta_grammar.

(* not vacuous, through the theorem: a text with comments, continuation lines and =/ is accepted by both routes with the
   same registry; a text that extends an undefined rule is rejected by both *)
Example C04_nonvacuous_accept : exists R', load_grammar 2%N ReaderComplete2.ex_text2 false (r_boot tt) = Some R' /\
  exists fuel, forall f, fuel <= f -> lib_load_grammar f 2%N ReaderComplete2.ex_text2 false (r_boot tt) = LOk R'.
Proof. exact ex_C04. Qed.
Example C04_nonvacuous_reject :
  load_grammar 2%N ReaderDeriv.ex_text false (r_boot tt) = None /\
  lib_load_grammar 150 2%N ReaderDeriv.ex_text false (r_boot tt) = LOther /\
  forall fuel R', lib_load_grammar fuel 2%N ReaderDeriv.ex_text false (r_boot tt) <> LOk R'.
Proof. exact ex_text_rejected_by_both. Qed.

(* ---- the property's own form: every rendering of every syntax ---------------------------------------------------- *)
Theorem C04_every_rendering : forall rs s c R R', boot_ok R -> renders_rulelist rs s ->
  (define_rules c rs R = Some R' <->
   exists fuel, forall f, fuel <= f -> lib_load_grammar f c s false R = LOk R').
Proof. exact c04_rendering_load. Qed.
Print Assumptions C04_every_rendering.

Theorem C04_every_rendering_strict : forall rs t c R R', boot_ok R -> renders_rulelist rs (normalise t) ->
  (define_rules c rs R = Some R' <->
   exists fuel, forall f, fuel <= f -> lib_load_grammar f c t true R = LOk R').
Proof. exact c04_rendering_load_strict. Qed.
Print Assumptions C04_every_rendering_strict.

Theorem C04_every_rendering_create : forall a t c R R', boot_ok R -> renders_rule a (ensure_crlf t) ->
  (define_rule c a R = Some R' <-> exists fuel, lib_create fuel c t R = LOk R').
Proof. exact c04_rendering_create. Qed.
Print Assumptions C04_every_rendering_create.

Theorem C04_layout_independent : forall rs s1 s2 c R f1 f2 R1 R2, boot_ok R ->
  renders_rulelist rs s1 -> renders_rulelist rs s2 ->
  lib_load_grammar f1 c s1 false R = LOk R1 -> lib_load_grammar f2 c s2 false R = LOk R2 -> R1 = R2.
Proof. exact c04_layout_independent. Qed.
Print Assumptions C04_layout_independent.

(* the rendering relation is neither empty nor too small: every syntax the reader can return has a rendering, the reader
   returns exactly the normal syntax, and a text renders at most one rule list *)
Theorem C04_renderings_exist : forall rs, Forall normal_rule rs -> renders_rulelist rs (print_rulelist rs).
Proof. exact print_rulelist_renders. Qed.
Theorem C04_reader_range : forall rs, Forall normal_rule rs <-> exists s, read_rulelist s = Some rs.
Proof. exact normal_rules_exact. Qed.
Theorem C04_rendering_functional : forall rs1 rs2 s, renders_rulelist rs1 s -> renders_rulelist rs2 s -> rs1 = rs2.
Proof. exact renders_rulelist_functional. Qed.
Print Assumptions C04_renderings_exist.
Print Assumptions C04_reader_range.
Print Assumptions C04_rendering_functional.

(* two very different texts (comments, continuation lines, leading zeros, radix, marker case, group, blank line) render the
   same two rules *)
Example C04_two_renderings : renders_rulelist ex_rs RenderExamples.ex_text1 /\ renders_rulelist ex_rs RenderExamples.ex_text2 /\ RenderExamples.ex_text1 <> RenderExamples.ex_text2.
Proof. split; [exact ex_render1|]. split; [exact ex_render2|]. vm_compute. discriminate. Qed.
