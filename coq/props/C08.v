(* C08 — caching is invisible.  The engine written as a program over cache events (EngineProg.v), run against
   one model ParseCache per repetition (Cache.v), returns exactly what the cache-free engine returns, for EVERY
   cache contents satisfying the invariant "each entry is a correct memo" — which holds for empty caches and is
   preserved by every run, every eviction (any size limit down to 1), every clear and every change of a limit.
   Hence over ALL histories of requests interleaved with clears and limit changes each answer is the cold answer. *)
From Coq Require Import List NArith.
From ABNF Require Import Base Engine Cache EngineProg CacheRefine.

Theorem C08_program_without_cache_is_the_engine : forall sh G f e s i,
  run_pure (lparse_p sh G f e s i) = lparse sh G f e s i.
Proof. exact run_pure_lparse. Qed.
Print Assumptions C08_program_without_cache_is_the_engine.

Theorem C08_cached_run_correct : forall sh G rep_of e, ids_ok G rep_of e ->
  forall g st f s i r st', cache_inv sh G rep_of g st ->
  run_cached g st (lparse_p sh G f e s i) = (r, st') -> r <> OOF ->
  (exists f', lparse sh G f' e s i = r) /\ cache_inv sh G rep_of g st'.
Proof. exact run_cached_correct. Qed.
Print Assumptions C08_cached_run_correct.

Theorem C08_parse_cached_run_correct : forall sh G rep_of, ids_ok_G G rep_of ->
  forall g st f r0 s i r st', cache_inv sh G rep_of g st ->
  run_cached g st (parse_p sh G f r0 s i) = (r, st') -> r <> OOF ->
  (exists f', parse sh G f' r0 s i = r) /\ cache_inv sh G rep_of g st'.
Proof. exact run_cached_parse_correct. Qed.
Print Assumptions C08_parse_cached_run_correct.

Theorem C08_fresh_caches_ok : forall sh G rep_of g (mk_cache : N -> option nat * option nat * nat),
  cache_inv sh G rep_of g (fun id => let '(dflt, arg, g0) := mk_cache id in cnew ckey cval dflt arg g0).
Proof. exact cache_inv_empty. Qed.
Print Assumptions C08_fresh_caches_ok.

Theorem C08_clear_ok : forall sh G rep_of g st,
  cache_inv sh G rep_of g st -> cache_inv sh G rep_of g (fun id => cclear ckey cval (st id)).
Proof. exact cache_inv_clear. Qed.
Print Assumptions C08_clear_ok.

Theorem C08_limit_change_ok : forall sh G rep_of g st id m,
  cache_inv sh G rep_of g st -> cache_inv sh G rep_of g (upd st id (csetmax ckey cval m (st id))).
Proof. exact cache_inv_setmax. Qed.
Print Assumptions C08_limit_change_ok.

(* every history: requests (lparse / parse / parse_all), clears, limit changes *)
Theorem C08_histories : forall sh G rep_of, ids_ok_G G rep_of ->
  forall g ops st outs st', cache_inv sh G rep_of g st -> Forall (hop_ok rep_of) ops ->
  hrun sh G g st ops = (outs, st') -> Forall2 (hspec sh G) ops outs /\ cache_inv sh G rep_of g st'.
Proof. exact history_correct. Qed.
Print Assumptions C08_histories.
