(* C17 — concurrent and interleaved parsing gives the sequential results.
   Two granularities.
   (1) COARSE (CacheRefine): one ParseCache method is one atomic step; ANY schedule over a pool of suspended requests —
       including schedules that never resume some of them (abandoned generators / starved threads): C17_partial_... below.
   (2) FINE (CacheFine2*.v): every ParseCache method is split into micro-steps, ONE shared access each (one attribute read
       or write on the cache, or one C-level operation on one OrderedDict object; `self.dict[key] = value` is two steps: the
       attribute read and the store into the dict object that was read; dict objects have identity, so "self.dict =
       OrderedDict()" by one thread while another still holds the old object is representable); ANY schedule of
       micro-steps of any number of threads, any size limits, caches stale (arbitrary contents) or valid at the start:
       THEOREM C17: no request dies, and every request that completes returns what the cache-free sequential engine
       returns.  The theorem is about the code AS REPAIRED by fix 5ac99f3: while proving it the unrepaired eviction
       (test len > max_size, then popitem, each re-reading self.dict) was REFUTED — three identical requests in lock step with
       max_size 1 make the third popitem hit an empty dictionary: KeyError out of a parse request
       (C17_unguarded_eviction_refuted; replayed on the real library by the lock-step scenario of the C17 check) —
       and so is the other statement order of _drop_stale (C17_stamp_before_drop_refuted: a stale entry is served).
   Assumed (CPython): a single C-level dict operation on (str, int) keys is atomic under the GIL; the global epoch and the
   limits do not change while requests run.  Not modelled: free-threaded builds, RecursionError, the WeakSet of live
   caches, __delitem__/__iter__/__len__/clear_caches concurrent with requests. *)
From Coq Require Import List NArith.
From ABNF Require Import Base Engine Cache EngineProg CacheRefine CacheFine2 CacheFine2Proofs1 CacheFine2Proofs2 CacheFine2Refute.
Import ListNotations.

Theorem C17_partial_any_schedule : forall sh G rep_of (A : Type) (Qs : list (A -> Prop)) g sched st pool pool' st',
  cache_inv sh G rep_of g st ->
  Forall2 (fun Q p => good sh G rep_of Q p) Qs pool ->
  run_sched g st pool sched = (pool', st') ->
  cache_inv sh G rep_of g st' /\ Forall2 (fun Q p => good sh G rep_of Q p) Qs pool'.
Proof. exact sched_correct. Qed.
Print Assumptions C17_partial_any_schedule.

Theorem C17_partial_completed_requests_are_sequential : forall sh G rep_of, ids_ok_G G rep_of ->
  forall g sched st reqs pool' st', cache_inv sh G rep_of g st -> Forall (req_ok rep_of) reqs ->
  run_sched g st (map (req_prog sh G) reqs) sched = (pool', st') ->
  cache_inv sh G rep_of g st' /\
  (forall t f e s i r, nth_error reqs t = Some (f, e, s, i) -> nth_error pool' t = Some (Ret r) ->
     r <> OOF -> exists f', lparse sh G f' e s i = r).
Proof. exact sched_requests. Qed.
Print Assumptions C17_partial_completed_requests_are_sequential.

Theorem C17_engine_requests_are_good_programs : forall sh G rep_of e, ids_ok G rep_of e ->
  forall f s i, good sh G rep_of (fun r => r <> OOF -> exists f', lparse sh G f' e s i = r) (lparse_p sh G f e s i).
Proof. exact lparse_p_good. Qed.
Print Assumptions C17_engine_requests_are_good_programs.

(* ---- micro-step granularity, the code as repaired --------------------------------------------------------------------- *)
Theorem C17 : forall sh G rep_of g, ids_ok_G G rep_of -> forall sched st reqs pool' st',
  fine_inv sh G rep_of g st -> Forall (req_ok rep_of) reqs ->
  run_fine false true g st (map start (map (req_prog sh G) reqs)) sched = (pool', st') ->
  (forall t, nth_error pool' t <> Some TCrash) /\
  fine_inv sh G rep_of g st' /\
  forall t f e s i r q, nth_error reqs t = Some (f, e, s, i) -> nth_error pool' t = Some (TRun (Ret r) q) ->
    r <> OOF ->
    (exists f', lparse sh G f' e s i = r) /\
    (run_pure (req_prog sh G (f, e, s, i)) <> OOF -> r = run_pure (req_prog sh G (f, e, s, i))).
Proof. exact C17_fine. Qed.
Print Assumptions C17.

(* the initial states covered: after ANY grammar change (all stamps older than or equal to the epoch, arbitrary contents) *)
Theorem C17_holds_after_any_grammar_change : forall sh G rep_of g st,
  (forall id, fep ckey cval (st id) <= g) -> fine_inv sh G rep_of (S g) st.
Proof. intros sh G rep_of g st H. apply fine_inv_after_invalidate. intros id. specialize (H id). auto with arith. Qed.
Print Assumptions C17_holds_after_any_grammar_change.

(* not vacuous: three identical requests, every cache limited to one entry, EVERY schedule *)
Example C17_three_threads_limit_one : forall sched pool' st',
  run_fine false true 0 k_st0 (map start (map (req_prog sh_id ex_G) (repeat k_req 3))) sched = (pool', st') ->
  (forall t, nth_error pool' t <> Some TCrash) /\
  (forall t r q, t < 3 -> nth_error pool' t = Some (TRun (Ret r) q) -> r <> OOF -> r = run_pure ex_p).
Proof. exact C17_fine_example. Qed.

(* the defect found by this proof (repaired by fix 5ac99f3): with the UNGUARDED eviction the lock-step schedule kills
   thread 2 — caches current, max_size 1, three identical requests *)
Theorem C17_unguarded_eviction_refuted :
  fine_inv sh_id ex_G ex_rep_of 0 k_st0 /\
  (forall id, fep ckey cval (k_st0 id) = 0) /\
  nth_error (fst (run_fine false false 0 k_st0 (map start (map (req_prog sh_id ex_G) (repeat k_req 3)))
                           (flat_map (fun _ => [0; 1; 2]) (seq 0 27)))) 2
  = Some TCrash.
Proof. exact setitem_keyerror_fresh_refuted. Qed.
Print Assumptions C17_unguarded_eviction_refuted.

(* the order of the two assignments in _drop_stale matters: stamp first, then the fresh dict => a stale entry is served *)
Theorem C17_stamp_before_drop_refuted :
  ids_ok_G cx_G cx_rep_of /\ fine_inv sh_id cx_G cx_rep_of 1 m_st /\ Forall (req_ok cx_rep_of) [m_req; m_req] /\
  exists r, nth_error (fst (run_fine true true 1 m_st (map start (map (req_prog sh_id cx_G) [m_req; m_req])) m_sched)) 1
            = Some (TRun (Ret r) D1) /\
            r <> OOF /\ r <> run_pure m_p /\ forall f', lparse sh_id cx_G f' cx_rep [97%N] 0 <> r.
Proof. exact stamp_first_refuted. Qed.
Print Assumptions C17_stamp_before_drop_refuted.

(* the fine model refines the coarse one: a method run without interleaving is Cache.cget / cset, and every coarse schedule
   is realised by a fine one *)
Theorem C17_fine_refines_coarse : forall (A : Type) g sched st ast (pool : list (prog A)), sim st ast ->
  exists fsched st', run_fine false true g st (map start pool) fsched = (map start (fst (run_sched g ast pool sched)), st') /\
                     sim st' (snd (run_sched g ast pool sched)).
Proof. intros A g sched st ast pool H. exact (coarse_sched_sim_repaired g sched st ast pool H). Qed.
Print Assumptions C17_fine_refines_coarse.
