(* C17 — concurrent and interleaved parsing gives the sequential results, at the granularity "one cache
   primitive (ParseCache.__getitem__ / __setitem__) is atomic": for ANY schedule over a pool of requests —
   including schedules that never resume some of them (abandoned generators / starved threads) — the cache
   invariant holds after every step and every request that has completed returned what the cache-free
   sequential engine returns.
   PARTIAL: GIL atomicity of the OrderedDict primitives is assumed; pre-emption inside __getitem__/__setitem__,
   free-threaded builds, RecursionError and the WeakSet of live caches are not modelled. *)
From Coq Require Import List NArith.
From ABNF Require Import Base Engine Cache EngineProg CacheRefine.

Theorem C17_partial_any_schedule : forall sh G rep_of (A : Type) (Qs : list (A -> Prop)) g sched st pool pool' st',
  cache_inv sh G rep_of g st ->
  Forall2 (fun Q p => good sh G rep_of Q p) Qs pool ->
  run_sched g st pool sched = (pool', st') ->
  cache_inv sh G rep_of g st' /\ Forall2 (fun Q p => good sh G rep_of Q p) Qs pool'.
Proof. exact sched_correct. Qed.
Print Assumptions C17_partial_any_schedule.

Theorem C17_partial_completed_requests_are_sequential : forall sh G rep_of, ids_ok_G G rep_of ->
  forall g sched st reqs pool' st', cache_inv sh G rep_of g st -> Forall (req_ok rep_of) reqs ->
  run_sched g st (map (req_prog sh G) reqs) sched = (pool', st') ->
  cache_inv sh G rep_of g st' /\
  (forall t f e s i r, nth_error reqs t = Some (f, e, s, i) -> nth_error pool' t = Some (Ret r) ->
     r <> OOF -> exists f', lparse sh G f' e s i = r).
Proof. exact sched_requests. Qed.
Print Assumptions C17_partial_completed_requests_are_sequential.

Theorem C17_engine_requests_are_good_programs : forall sh G rep_of e, ids_ok G rep_of e ->
  forall f s i, good sh G rep_of (fun r => r <> OOF -> exists f', lparse sh G f' e s i = r) (lparse_p sh G f e s i).
Proof. exact lparse_p_good. Qed.
Print Assumptions C17_engine_requests_are_good_programs.
