(* C02 (with flags) — parse returns the longest match; parse_all accepts only whole-input matches.
   Valid domain: wf, closed — first-match flags and rule exclusions ALLOWED; stated against the
   engine's denotation [den] (EngineSem.v), for every hash-order oracle, defined rule, string, offset. *)
From Coq Require Import List NArith.
Import ListNotations.
From ABNF Require Import Base Engine Spec Wf EngineSem L_C03 L_C02den.

Theorem C02_parse_with_flags : forall sh nul rank G, perm_oracle sh -> wf nul rank G -> closed G ->
  forall r s i, defined G r -> i <= length s ->
  exists f, forall f', f <= f' ->
    (forall m, parse sh G f' r s i = Ok [m] ->
        den sh G (ERef r) s i (mend m) /\ (forall j, den sh G (ERef r) s i j -> j <= mend m) /\
        tree_ok G s r i m /\ nsvalue (nodes m) = slice s i (mend m - i)) /\
    (parse sh G f' r s i = PErr <-> (forall j, ~ den sh G (ERef r) s i j)) /\
    ((exists m, parse sh G f' r s i = Ok [m]) \/ parse sh G f' r s i = PErr).
Proof. exact c02den_parse. Qed.
Print Assumptions C02_parse_with_flags.

Theorem C02_parse_all_with_flags : forall sh nul rank G, perm_oracle sh -> wf nul rank G -> closed G ->
  forall r s, defined G r ->
  exists f, forall f', f <= f' ->
    ((exists m, parse_all sh G f' r s = Ok [m]) <-> den sh G (ERef r) s 0 (length s)) /\
    (forall m, parse_all sh G f' r s = Ok [m] ->
        mend m = length s /\ nsvalue (nodes m) = s /\ tree_ok G s r 0 m) /\
    ((exists m, parse_all sh G f' r s = Ok [m]) \/ parse_all sh G f' r s = PErr).
Proof. exact c02den_parse_all. Qed.
Print Assumptions C02_parse_all_with_flags.
