(* C14 — importing one bundled grammar never changes another.
   Over the loader model run on the module descriptions TRANSLATED from /repo (texts, import lists, flag statements).
   THEOREM C14 (all import sets, all orders): for EVERY list ms of bundled module names (any subset, any order,
   repetitions allowed; Python imports the dependencies of each first), the import succeeds and every class of every
   module that got imported — and the core class — has exactly the configuration (rule spellings, definitions with their
   first-match flags, exclusions; canonical, independent of rule ids) it has when all modules are imported in the
   standard order, which C14_partial_alone_vs_all shows equal to the module imported alone.  Proved by a frame theorem
   for load_class over ALL registries (LoadFrame1-2), an abstract rid-free loader that the concrete one simulates
   (LoadAbs, LoadSim1-3), order independence (LoadOrder, LoadDet), and side conditions on the bundled data discharged by
   verified boolean checks (LoadBundled): no core-name clash, imports are foreign, flag statements are local
   (flags_local: the guarded loop of rfc3987 is, an unguarded one is not — LoadSharp.unguarded_flag_loop_refuted).
   The bound 192 on the length of ms is an artefact of the fuel of dep_closure in the model, not of the library.
   The earlier kernel-evaluated samples (C14_partial_...) are kept. *)
From Coq Require Import String List NArith.
From ABNF Require Import Base Engine Registry GenTypes Loader GenBundled Bundled TablesAll L_C14 LoadOrder LoadBundled LoadSharp LoadBehave LoadBundled2.
Import ListNotations.

Theorem C14_partial_alone_vs_all : alone_vs_all = true.
Proof. exact c14_alone_vs_all. Qed.
Print Assumptions C14_partial_alone_vs_all.

Theorem C14_partial_orders : orders_vs_all = true.
Proof. exact c14_orders_vs_all. Qed.
Print Assumptions C14_partial_orders.

Theorem C14_partial_pairs_in_both_orders : pair_orders_ok = true.
Proof. exact c14_pairs. Qed.
Print Assumptions C14_partial_pairs_in_both_orders.

(* ---- all import sets and orders ---------------------------------------------------------------------------------- *)
Theorem C14 : forall ms, (forall m, In m ms -> In m module_names) -> length ms <= 192 ->
  exists R, r_order ms = Some R /\ same_class R R_all 0%N = true /\
            forall m, In m (dep_closure 400 ms []) -> same_module R R_all m = true.
Proof. exact C14_all_orders. Qed.
Print Assumptions C14.

(* at the level of classes: any duplicate-free list of bundled classes in which every import source comes earlier *)
Theorem C14_any_class_order : forall L, (forall g, In g L -> In g bundled) -> dep_ok bundled [] L ->
  exists R, load_classes bundled L (r_boot tt) = Some R /\ same_class R R_all 0%N = true /\
            forall g c, In g L -> cls_of bundled (gmod g) (gcls g) = Some c -> same_class R R_all c = true.
Proof. exact C14_class_orders. Qed.
Print Assumptions C14_any_class_order.

Theorem C14_two_orders_agree : forall L1 L2,
  (forall g, In g L1 -> In g bundled) -> (forall g, In g L2 -> In g bundled) ->
  dep_ok bundled [] L1 -> dep_ok bundled [] L2 ->
  exists R1 R2, load_classes bundled L1 (r_boot tt) = Some R1 /\ load_classes bundled L2 (r_boot tt) = Some R2 /\
    same_class R1 R2 0%N = true /\
    forall g c, In g L1 -> In g L2 -> cls_of bundled (gmod g) (gcls g) = Some c -> same_class R1 R2 c = true.
Proof. exact C14_two_class_orders. Qed.
Print Assumptions C14_two_orders_agree.

(* the flag side condition is sharp: rfc3987 with an UNGUARDED first-match loop fails flags_local, and loading it after
   rfc3986 changes the configuration of the rfc3986 class (the defect the guarded loop repairs) *)
Theorem C14_unguarded_flag_loop_refuted : sharp_check = true.
Proof. exact unguarded_flag_loop_refuted. Qed.
Print Assumptions C14_unguarded_flag_loop_refuted.

(* ---- with the library's own reader class, and from configuration to BEHAVIOUR ------------------------------------- *)
Theorem C14_with_reader_class : forall ms, (forall m, In m ms -> In m module_names) -> length ms <= 192 ->
  exists R, r_order ms = Some R /\ same_class R R_all 0%N = true /\ same_class R R_all 1%N = true /\
            forall m, In m (dep_closure 400 ms []) -> same_module R R_all m = true.
Proof. exact C14_all_orders'. Qed.
Print Assumptions C14_with_reader_class.

(* for every import list, every module that got imported, every class of it and every rule name: the rule exists in both
   registries or in neither, and the match-listing API, parse and parse_all give identical results (trees included) for
   every hash-order oracle, fuel, string and offset; likewise for the core rules and the library's ABNF reader rules *)
Theorem C14_parse_results : forall ms, (forall m, In m ms -> In m module_names) -> length ms <= 192 ->
  exists R, r_order ms = Some R /\
    (forall m g c name, In m (dep_closure 400 ms []) -> In g bundled -> gmod g = m ->
        cls_of bundled (gmod g) (gcls g) = Some c -> beh_eq R_all R c name) /\
    (forall name, beh_eq R_all R 0%N name) /\ (forall name, beh_eq R_all R 1%N name).
Proof. exact C14_behaviour. Qed.
Print Assumptions C14_parse_results.
