(* C14 — importing one bundled grammar never changes another.   PARTIAL PROOF.
   Over the loader model run on the module descriptions TRANSLATED from /repo (texts, import lists, flag statements):
   kernel-evaluated for (a) every module imported alone vs all modules imported, (b) four further orders of all
   modules (reversed, two rotations, evens-then-odds), (c) 36 ordered pairs of modules: in each case every class of
   every module involved, and the core and meta classes, have identical configuration (rule spellings, definitions
   with first-match flags, exclusions).  NOT proved: the statement for ALL import sets and orders (it would need a
   frame/commutation theorem about the loader up to renaming of rule ids); the remaining orders are sampled by the
   correspondence harness on the real library. *)
From Coq Require Import String List NArith.
From ABNF Require Import Base Engine Registry Loader Bundled TablesAll L_C14.

Theorem C14_partial_alone_vs_all : alone_vs_all = true.
Proof. exact c14_alone_vs_all. Qed.
Print Assumptions C14_partial_alone_vs_all.

Theorem C14_partial_orders : orders_vs_all = true.
Proof. exact c14_orders_vs_all. Qed.
Print Assumptions C14_partial_orders.

Theorem C14_partial_pairs_in_both_orders : pair_orders_ok = true.
Proof. exact c14_pairs. Qed.
Print Assumptions C14_partial_pairs_in_both_orders.
