(* C10 — grammar classes are isolated from one another (PARTIAL) and rule lookup.
   Lookup: rule names are case-insensitive (ASCII fold); looking a name up twice in the same class
   yields the same rule object; a class resolves a name to its own rule or else to the core (class 0)
   rule of that name, never to another class's rule.
   Isolation: defining / extending / redefining a rule in class c leaves every rule object of every
   other class and every existing definition object untouched, PROVIDED the name does not resolve to a
   base-class object.  Without that proviso the claim is FALSE (C10_refuted): Rule.get falls back to the
   base class, so defining DIGIT in a subclass rebinds the core rule DIGIT.
   BEHAVIOUR AND HISTORIES (IsolateBehave.v): along ANY history of operations of a class c (create, load_grammar, setting
   the first-match flag of an own rule, exclude_rule), every rule of every class set S that does not contain c and is
   closed under reference — the core rules, the library's ABNF reader — gives identical lparse / parse / parse_all
   results (trees included) before and after, for every oracle, fuel, string and offset, PROVIDED each step passes a
   boolean guard: no defined name clashes with a core name (when the core class is in S), a flagged rule's definition
   is not shared with a rule of S, an exclusion is attached to a rule outside S.  Each guard is necessary: without the
   first the behaviour of core DIGIT changes (C10_isolation_without_guard_refuted, a string exhibited in the kernel);
   the second is the import-sharing finding (LoadSharp).  The property as stated — without guards — is false of the
   library; the two known findings of C10 are exactly the two guards. *)
From Coq Require Import List NArith.
Import ListNotations.
From ABNF Require Import Base Engine AbnfRead Registry RegistryProps Loader Bundled LoadBehave IsolateBehave.

Theorem C10_lookup_case : forall R c n1 n2, fold_name n1 = fold_name n2 -> rget R c n1 = rget R c n2.
Proof. exact rget_case. Qed.
Print Assumptions C10_lookup_case.

Theorem C10_lookup_own_or_core : forall R c n k, rget R c n = Some k ->
  exists o, nth_error (objs R) k = Some o /\ okey o = fold_name n /\ (ocls o = c \/ ocls o = 0%N).
Proof. exact rget_own_or_core. Qed.
Print Assumptions C10_lookup_own_or_core.

Theorem C10_lookup_idem : forall R c n R1 k n', rnew R c n = (R1, k) -> fold_name n' = fold_name n ->
  rnew R1 c n' = (R1, k).
Proof. exact rnew_idem. Qed.
Print Assumptions C10_lookup_idem.

Theorem C10_partial_isolated : forall c a R R', c <> 0%N -> define_rule c a R = Some R' ->
  (forall k o, rget R c (aname a) = Some k -> nth_error (objs R) k = Some o -> ocls o = c) ->
  (forall j o, nth_error (objs R) j = Some o -> ocls o <> c -> nth_error (objs R') j = Some o) /\
  (forall d e, nth_error (defs R) d = Some e -> nth_error (defs R') d = Some e).
Proof. exact define_rule_isolated. Qed.
Print Assumptions C10_partial_isolated.

Theorem C10_refuted : exists c a R R' j o o', c <> 0%N /\ define_rule c a R = Some R' /\
  nth_error (objs R) j = Some o /\ ocls o = 0%N /\ nth_error (objs R') j = Some o' /\ odef o' <> odef o.
Proof. exact define_rule_refuted. Qed.
Print Assumptions C10_refuted.

(* ---- behaviour, along any history, under the guards ------------------------------------------------------------- *)
Theorem C10_partial_history_behaviour : forall S c ops R R',
  run_ops c ops R = Some R' -> reg_ok R -> inS S c = false -> closedb R S = true -> guardsb S c ops R = true ->
  (forall k o, nth_error (objs R) k = Some o -> inS S (ocls o) = true -> same_beh R R' k) /\
  closedb R' S = true /\ reg_ok R'.
Proof. exact run_ops_behaviour. Qed.
Print Assumptions C10_partial_history_behaviour.

Theorem C10_partial_core_rules_unchanged : forall c ops R R', c <> 0%N ->
  run_ops c ops R = Some R' -> reg_ok R -> closedb R [0%N] = true -> guardsb [0%N] c ops R = true ->
  forall k o, nth_error (objs R) k = Some o -> ocls o = 0%N -> same_beh R R' k.
Proof. exact run_ops_core. Qed.
Print Assumptions C10_partial_core_rules_unchanged.

Theorem C10_partial_reader_unchanged : forall c ops R R', (2 <= c)%N ->
  run_ops c ops R = Some R' -> reg_ok R -> closedb R [0%N; 1%N] = true -> guardsb [0%N; 1%N] c ops R = true ->
  forall k o, nth_error (objs R) k = Some o -> (ocls o = 0%N \/ ocls o = 1%N) -> same_beh R R' k.
Proof. exact run_ops_reader. Qed.
Print Assumptions C10_partial_reader_unchanged.

(* not vacuous: two creates, one =/, a flag and an exclusion in class 2 on the boot registry *)
Example C10_history_on_boot : exists R', run_ops 2%N ex_ops (r_boot tt) = Some R' /\
  forall k o, nth_error (objs (r_boot tt)) k = Some o -> (ocls o = 0%N \/ ocls o = 1%N) -> same_beh (r_boot tt) R' k.
Proof. exact history_on_boot. Qed.

(* the guard is necessary: every other hypothesis of C10_partial_core_rules_unchanged holds, the conclusion fails *)
Theorem C10_isolation_without_guard_refuted :
  exists c ops R' k o, c <> 0%N /\ run_ops c ops (r_boot tt) = Some R' /\ reg_ok (r_boot tt) /\
    closedb (r_boot tt) [0%N] = true /\ guardsb [0%N] c ops (r_boot tt) = false /\
    nth_error (objs (r_boot tt)) k = Some o /\ ocls o = 0%N /\ ~ same_beh (r_boot tt) R' k.
Proof. exact isolation_without_guard_refuted. Qed.
Print Assumptions C10_isolation_without_guard_refuted.
