(* C10 — grammar classes are isolated from one another (PARTIAL) and rule lookup.
   Lookup: rule names are case-insensitive (ASCII fold); looking a name up twice in the same class
   yields the same rule object; a class resolves a name to its own rule or else to the core (class 0)
   rule of that name, never to another class's rule.
   Isolation: defining / extending / redefining a rule in class c leaves every rule object of every
   other class and every existing definition object untouched, PROVIDED the name does not resolve to a
   base-class object.  Without that proviso the claim is FALSE (C10_refuted): Rule.get falls back to the
   base class, so defining DIGIT in a subclass rebinds the core rule DIGIT. *)
From Coq Require Import List NArith.
Import ListNotations.
From ABNF Require Import Base Engine AbnfRead Registry RegistryProps.

Theorem C10_lookup_case : forall R c n1 n2, fold_name n1 = fold_name n2 -> rget R c n1 = rget R c n2.
Proof. exact rget_case. Qed.
Print Assumptions C10_lookup_case.

Theorem C10_lookup_own_or_core : forall R c n k, rget R c n = Some k ->
  exists o, nth_error (objs R) k = Some o /\ okey o = fold_name n /\ (ocls o = c \/ ocls o = 0%N).
Proof. exact rget_own_or_core. Qed.
Print Assumptions C10_lookup_own_or_core.

Theorem C10_lookup_idem : forall R c n R1 k n', rnew R c n = (R1, k) -> fold_name n' = fold_name n ->
  rnew R1 c n' = (R1, k).
Proof. exact rnew_idem. Qed.
Print Assumptions C10_lookup_idem.

Theorem C10_partial_isolated : forall c a R R', c <> 0%N -> define_rule c a R = Some R' ->
  (forall k o, rget R c (aname a) = Some k -> nth_error (objs R) k = Some o -> ocls o = c) ->
  (forall j o, nth_error (objs R) j = Some o -> ocls o <> c -> nth_error (objs R') j = Some o) /\
  (forall d e, nth_error (defs R) d = Some e -> nth_error (defs R') d = Some e).
Proof. exact define_rule_isolated. Qed.
Print Assumptions C10_partial_isolated.

Theorem C10_refuted : exists c a R R' j o o', c <> 0%N /\ define_rule c a R = Some R' /\
  nth_error (objs R) j = Some o /\ ocls o = 0%N /\ nth_error (objs R') j = Some o' /\ odef o' <> odef o.
Proof. exact define_rule_refuted. Qed.
Print Assumptions C10_refuted.
