(* C12 — parsing is total (engine part).  For every wf grammar (first-match flags and exclusions
   allowed, nullable repetition bodies allowed), every string over N (NUL, non-BMP, lone surrogates
   are just numbers), every offset 0..|s|: some fuel suffices and every larger fuel gives an answer,
   which is a list of matches, ParseError or GrammarError; on closed grammars never GrammarError;
   a rule without definition gives GrammarError.
   Loader clause (RejectInvalid.v): for every registry that still holds the boot rules and EVERY text, for all sufficiently
   large fuel the library route (engine on the translated meta-grammar + visitor) answers exactly one of: the new registry
   (iff the text is a valid rulelist / rule whose definitions succeed), ParseError (iff the spec reader rejects the text;
   for create also when only a proper prefix is a rule), or the "other exception" outcome (iff the text IS valid but a
   definition fails: "=/" on an undefined rule) — never out-of-fuel, never GrammarError; a failing call returns no
   registry (the whole text is parsed before any rule is created).
   NOT proved (the gap, and false of the library: two known findings): a polynomial work bound, interpreter stack depth.
   Partial effects of the "other exception" outcome on the real registry are checked by the correspondence harness. *)
From Coq Require Import List NArith.
Import ListNotations.
From ABNF Require Import Base Engine Spec Wf EngineTerm L_C12 AbnfRead Registry Compile ReaderDerivE2E RejectInvalid.

Theorem C12_terminates : forall sh nul rank G, perm_oracle sh -> wf nul rank G ->
  forall e s i, WB e -> i <= length s ->
  exists f, forall f', f <= f' -> lparse sh G f' e s i <> OOF.
Proof. exact lparse_total. Qed.
Print Assumptions C12_terminates.

Theorem C12_outcomes : forall sh nul rank G, perm_oracle sh -> wf nul rank G ->
  forall e s i, WB e -> i <= length s ->
  exists f, forall f', f <= f' ->
    (exists ms, lparse sh G f' e s i = Ok ms) \/ lparse sh G f' e s i = PErr \/ lparse sh G f' e s i = GErr.
Proof. exact outcomes. Qed.
Print Assumptions C12_outcomes.

Theorem C12_closed_no_grammar_error : forall sh G, closed G ->
  forall f e s i, closed_expr G e -> lparse sh G f e s i <> GErr.
Proof. exact lparse_closed. Qed.
Print Assumptions C12_closed_no_grammar_error.

Theorem C12_undefined_grammar_error : forall sh G f r s i,
  (G r = None \/ exists ru, G r = Some ru /\ rdef ru = None) -> lparse sh G (S f) (ERef r) s i = GErr.
Proof. exact undefined_gerr. Qed.
Print Assumptions C12_undefined_grammar_error.

(* ---- the loader clause --------------------------------------------------------------------------------------------- *)
Theorem C12_invalid_rulelist_rejected_with_ParseError : forall c text (strict : bool) R, boot_ok R ->
  read_rulelist (if strict then normalise text else text) = None ->
  exists fuel, forall f, fuel <= f -> lib_load_grammar f c text strict R = LParseError.
Proof. exact invalid_rulelist_rejected. Qed.
Print Assumptions C12_invalid_rulelist_rejected_with_ParseError.

Theorem C12_invalid_rule_rejected_with_ParseError : forall c text R, boot_ok R ->
  (forall a, read_rule (ensure_crlf text) <> Some (a, [])) ->
  exists fuel, forall f, fuel <= f -> lib_create f c text R = LParseError.
Proof. exact invalid_rule_rejected. Qed.
Print Assumptions C12_invalid_rule_rejected_with_ParseError.

Theorem C12_load_outcomes : forall c text strict R, boot_ok R ->
  exists fuel, forall f, fuel <= f ->
    (exists R', lib_load_grammar f c text strict R = LOk R' /\ load_grammar c text strict R = Some R') \/
    (lib_load_grammar f c text strict R = LParseError /\ read_rulelist (if strict then normalise text else text) = None) \/
    (lib_load_grammar f c text strict R = LOther /\
     exists rs, read_rulelist (if strict then normalise text else text) = Some rs /\ define_rules c rs R = None).
Proof. exact load_trichotomy. Qed.
Print Assumptions C12_load_outcomes.

Theorem C12_create_outcomes : forall c text R, boot_ok R ->
  exists fuel, forall f, fuel <= f ->
    (exists R', lib_create f c text R = LOk R' /\ create c text R = Some R') \/
    (lib_create f c text R = LParseError /\ forall a, read_rule (ensure_crlf text) <> Some (a, [])) \/
    (lib_create f c text R = LOther /\ exists a, read_rule (ensure_crlf text) = Some (a, []) /\ define_rule c a R = None).
Proof. exact create_trichotomy. Qed.
Print Assumptions C12_create_outcomes.
