(* C12 — parsing is total (engine part).  For every wf grammar (first-match flags and exclusions
   allowed, nullable repetition bodies allowed), every string over N (NUL, non-BMP, lone surrogates
   are just numbers), every offset 0..|s|: some fuel suffices and every larger fuel gives an answer,
   which is a list of matches, ParseError or GrammarError; on closed grammars never GrammarError;
   a rule without definition gives GrammarError.
   NOT proved here (stated in DESIGN.md as the gap): a polynomial work bound, interpreter stack depth;
   the loader-atomicity clause is checked by the correspondence harness (registry snapshots). *)
From Coq Require Import List NArith.
From ABNF Require Import Base Engine Spec Wf EngineTerm L_C12.

Theorem C12_terminates : forall sh nul rank G, perm_oracle sh -> wf nul rank G ->
  forall e s i, WB e -> i <= length s ->
  exists f, forall f', f <= f' -> lparse sh G f' e s i <> OOF.
Proof. exact lparse_total. Qed.
Print Assumptions C12_terminates.

Theorem C12_outcomes : forall sh nul rank G, perm_oracle sh -> wf nul rank G ->
  forall e s i, WB e -> i <= length s ->
  exists f, forall f', f <= f' ->
    (exists ms, lparse sh G f' e s i = Ok ms) \/ lparse sh G f' e s i = PErr \/ lparse sh G f' e s i = GErr.
Proof. exact outcomes. Qed.
Print Assumptions C12_outcomes.

Theorem C12_closed_no_grammar_error : forall sh G, closed G ->
  forall f e s i, closed_expr G e -> lparse sh G f e s i <> GErr.
Proof. exact lparse_closed. Qed.
Print Assumptions C12_closed_no_grammar_error.

Theorem C12_undefined_grammar_error : forall sh G f r s i,
  (G r = None \/ exists ru, G r = Some ru /\ rdef ru = None) -> lparse sh G (S f) (ERef r) s i = GErr.
Proof. exact undefined_gerr. Qed.
Print Assumptions C12_undefined_grammar_error.
