(* C03 — every returned tree is a faithful derivation of the text it covers.
   For EVERY grammar with min<=max bounds (flags and exclusions allowed), every hash-order oracle,
   every fuel, rule, string and offset: each tree offered by lparse / parse / parse_all has the rule's
   name at the root, is a derivation (relation D of Spec.v) of the rule over s[i..end), its leaves tile
   s[i..end) with offsets/lengths/texts equal to the source slices, and (for parse_all) end = |s|. *)
From Coq Require Import List.
From ABNF Require Import Base Engine Spec L_C03.

Theorem C03_lparse : forall sh G, perm_oracle sh -> WBG G ->
  forall f r s i ms m, i <= length s -> lparse sh G f (ERef r) s i = Ok ms -> In m ms ->
  tree_ok G s r i m.
Proof. exact c03_lparse. Qed.
Print Assumptions C03_lparse.

Theorem C03_parse : forall sh G, perm_oracle sh -> WBG G ->
  forall f r s i m, i <= length s -> parse sh G f r s i = Ok (m :: nil) -> tree_ok G s r i m.
Proof. exact c03_parse. Qed.
Print Assumptions C03_parse.

Theorem C03_parse_all : forall sh G, perm_oracle sh -> WBG G ->
  forall f r s m, parse_all sh G f r s = Ok (m :: nil) -> tree_ok G s r 0 m /\ mend m = length s.
Proof. exact c03_parse_all. Qed.
Print Assumptions C03_parse_all.
