(* C01 — matching conforms to RFC 5234 / RFC 7405 for every grammar and input.
   Valid domain: wf (bounds min<=max, no left recursion also through nullable prefixes, given by a
   certificate (nul, rank), see Wf.v), closed, plain (no first-match flag, no exclusion).
   For every hash-order oracle, rule r with a definition, string s over N, offset 0 <= i <= |s|:
   there is a fuel from which on the engine answers (never runs out of fuel, never GrammarError) and
   the set of end offsets it lists is EXACTLY { j | M G s (ERef r) i j }, M = the RFC relation of
   Spec.v (alternation = union, concatenation = sequencing, a*b = a..b iterations, [x] = 0*1,
   quoted strings case-insensitive over US-ASCII letters only, %s exact, ranges by code point, the empty
   string matches at every position incl. end of input, prose never matches). *)
From Coq Require Import List NArith Bool.
From ABNF Require Import Base Engine Spec Wf L_C01.

Theorem C01 : forall sh nul rank G, perm_oracle sh -> wf nul rank G -> closed G -> plain G ->
  forall r s i, defined G r -> i <= length s ->
  exists f, forall f', f <= f' ->
    lparse sh G f' (ERef r) s i <> OOF /\ lparse sh G f' (ERef r) s i <> GErr /\
    (forall j, In j (ends (lparse sh G f' (ERef r) s i)) <-> M G s (ERef r) i j).
Proof. exact c01. Qed.
Print Assumptions C01.

Theorem C01_fold_ascii_only : forall c,
  fold_cp c = (if (65 <=? c)%N && (c <=? 90)%N then (c + 32)%N else c).
Proof. exact fold_ascii_only. Qed.
Print Assumptions C01_fold_ascii_only.

Theorem C01_option_is_0_1 : forall G s id e i j,
  M G s (ERep id 0 (Some 1) e) i j <-> (i = j /\ i <= length s) \/ M G s e i j.
Proof. exact M_opt_iff. Qed.
Print Assumptions C01_option_is_0_1.

Theorem C01_empty_string_everywhere : forall G s cs i, M G s (ELit cs nil) i i <-> i <= length s.
Proof. exact M_empty_lit. Qed.
Print Assumptions C01_empty_string_everywhere.

Theorem C01_prose_never : forall G s i j, ~ M G s EProse i j.
Proof. exact M_prose_never. Qed.
Print Assumptions C01_prose_never.
