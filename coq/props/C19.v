(* C19 — constructs shared by several bundled grammars denote the same language.
   Pairs.c19_pairs lists the 46 (module, rule, module, rule) pairs.  For the 37 pairs in c19_proved the two rules
   accept the same strings and match the same ends at every offset of every string (verified simulation checker on the
   grammars built from the TRANSLATED texts + C01 on the reachable sub-grammars).  7 pairs (rfc2616 date rules vs RFC
   7231) are a KNOWN FINDING: they differ in letter case, witnessed in the kernel below.  The remaining 2 pairs (rfc5987 vs
   rfc8187 charset / ext-value) are language-equal but not structurally ("ISO-8859-1" is subsumed by mime-charset): proved with
   the subsumption-pruning checker LangEq2 (C19_subsumed_alternative_pairs).  So 39 of 46 pairs are proved equal, 7 refuted. *)
From Coq Require Import String List NArith Bool.
From ABNF Require Import Base Engine Spec Schema Registry Loader Bundled TablesAll Pairs L_C19.

Theorem C19 : forall a b, In (a, b) pairs19 -> forall sh, perm_oracle sh ->
  (forall s, accepts sh (of_list l_all) a s <-> accepts sh (of_list l_all) b s) /\
  (forall s i j, M (of_list l_all) s (ERef a) i j <-> M (of_list l_all) s (ERef b) i j) /\
  (forall s i, i <= List.length s -> exists f, forall f', f <= f' -> forall j,
      In j (ends (lparse sh (of_list l_all) f' (ERef a) s i)) <-> In j (ends (lparse sh (of_list l_all) f' (ERef b) s i))).
Proof. exact c19. Qed.
Print Assumptions C19.

(* the two rfc5987 / rfc8187 pairs (charset, ext-value): equal although not structurally equal — shown with the verified
   subsumption rule of LangEq2 (every case variant of "ISO-8859-1" is accepted by mime-charset, decided by running the engine) *)
Theorem C19_subsumed_alternative_pairs : forall a b, In (a, b) pairs19u -> forall sh, perm_oracle sh ->
  (forall s i j, M (of_list l_all) s (ERef a) i j <-> M (of_list l_all) s (ERef b) i j) /\
  (forall s, accepts sh (of_list l_all) a s <-> accepts sh (of_list l_all) b s).
Proof. exact c19u. Qed.
Print Assumptions C19_subsumed_alternative_pairs.

Theorem C19_every_listed_pair_names_existing_rules :
  forallb (fun p => match pair_rids R_all p with Some _ => true | None => false end) c19_pairs = true.
Proof. exact all_pairs_resolve. Qed.
Print Assumptions C19_every_listed_pair_names_existing_rules.

Theorem C19_coverage_of_the_list : (List.length c19_pairs, List.length c19_proved) = (46, 37).
Proof. exact counts19. Qed.
Print Assumptions C19_coverage_of_the_list.

Theorem C19_refuted_for_rfc2616_dates :
  match pair_rids R_all ("rfc2616", "HTTP-date", "rfc7231", "HTTP-date")%string with
  | Some (a, b) => accepts_b a sun_lower && negb (accepts_b b sun_lower)
  | None => false
  end = true.
Proof. exact known_difference_witness. Qed.
Print Assumptions C19_refuted_for_rfc2616_dates.
