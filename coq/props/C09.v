(* C09 — bundled RFC grammars recognise exactly what their own ABNF text denotes.
   l_all = every bundled class loaded by the loader model from the grammar TEXTS, import lists and flag statements
   TRANSLATED from /repo on every run (tools/translate.py), the texts read by the independent spec reader.
   Obligations closed by kernel evaluation: all modules load; every rule is defined; every reference/exclusion is defined;
   bounds min<=max; NO LEFT RECURSION (certificate computed, then checked by the verified checker); no prose left;
   EVERY rule accepts at least one string (witness computed, acceptance checked by running the engine in the kernel).
   Theorems: for every rule that reaches no first-match flag / exclusion, the ends the engine lists are exactly the RFC
   relation M over that grammar (every oracle, string, offset); for ALL rules (flags of rfc3986 host and rfc3987 included)
   the engine's denotation is THE solution of the semantic equations (RFC clauses + documented first-match clauses). *)
From Coq Require Import String List NArith Arith Bool.
Import ListNotations.
From ABNF Require Import Base Engine Spec Wf Checks WfCheck Cert Restrict Schema Sentences EngineSem
     Registry Loader Bundled TablesAll L_C09.

Theorem C09_all_modules_load : match r_all tt with Some _ => true | None => false end = true.
Proof. exact all_modules_load. Qed.
Print Assumptions C09_all_modules_load.

Theorem C09_defined_closed_bounded_no_left_recursion :
  auto_wf_n 40 l_all = true /\ closed_check l_all = true /\ no_prose_check l_all = true.
Proof. exact (conj all_wf (conj all_closed no_prose_left)). Qed.
Print Assumptions C09_defined_closed_bounded_no_left_recursion.

Theorem C09_every_rule_defined_and_productive : forall r ru, In (r, ru) l_all ->
  (exists d, rdef ru = Some d) /\ exists w m, parse_all sh_id (of_list l_all) 400 r w = Ok [m].
Proof. exact c09_productive. Qed.
Print Assumptions C09_every_rule_defined_and_productive.

Theorem C09_plain_rules : forall r, In r plain_rules -> forall sh, perm_oracle sh ->
  (forall s i, i <= List.length s -> exists f, forall f', f <= f' ->
      lparse sh (of_list l_all) f' (ERef r) s i <> OOF /\ lparse sh (of_list l_all) f' (ERef r) s i <> GErr /\
      (forall j, In j (ends (lparse sh (of_list l_all) f' (ERef r) s i)) <-> M (of_list l_all) s (ERef r) i j)) /\
  (forall s, accepts sh (of_list l_all) r s <-> M (of_list l_all) s (ERef r) 0 (List.length s)).
Proof. exact c09_plain. Qed.
Print Assumptions C09_plain_rules.

Theorem C09_all_rules_with_flags : forall sh, perm_oracle sh ->
  Sem (of_list l_all) (den sh (of_list l_all)) /\
  (forall d, Sem (of_list l_all) d -> forall e s i j, WB e -> closed_expr (of_list l_all) e -> i <= List.length s ->
     (d e s i j <-> den sh (of_list l_all) e s i j)).
Proof. exact c09_all. Qed.
Print Assumptions C09_all_rules_with_flags.
