(* RfcSpec.v — SPECIFICATION (trusted; transcribed from the RFCs): the ABNF definition of ABNF of
   RFC 5234 section 4, the RFC 7405 replacement of char-val, and the core rules of RFC 5234 Appendix B.1,
   as ABNF TEXT; read by the independent spec reader (AbnfRead) into a self-contained registry. *)
From Coq Require Import List NArith Arith Bool String.
Import ListNotations.
From ABNF Require Import Base Engine AbnfRead Registry GenTypes.
Open Scope string_scope.

Definition crlf : str := [13%N; 10%N].
Definition lines (l : list string) : str := flat_map (fun x => (s_of x ++ crlf)%list) l.

(* RFC 5234, section 4 (without char-val, which RFC 7405 section 2.1 replaces) *)
Definition rfc5234_section4 : list string := [
  "rulelist       =  1*( rule / (*c-wsp c-nl) )";
  "";
  "rule           =  rulename defined-as elements c-nl";
  "                       ; continues if next line starts";
  "                       ;  with white space";
  "";
  "rulename       =  ALPHA *(ALPHA / DIGIT / ""-"")";
  "";
  "defined-as     =  *c-wsp (""="" / ""=/"") *c-wsp";
  "                       ; basic rules definition and";
  "                       ;  incremental alternatives";
  "";
  "elements       =  alternation *c-wsp";
  "";
  "c-wsp          =  WSP / (c-nl WSP)";
  "";
  "c-nl           =  comment / CRLF";
  "                       ; comment or newline";
  "";
  "comment        =  "";"" *(WSP / VCHAR) CRLF";
  "";
  "alternation    =  concatenation";
  "                  *(*c-wsp ""/"" *c-wsp concatenation)";
  "";
  "concatenation  =  repetition *(1*c-wsp repetition)";
  "";
  "repetition     =  [repeat] element";
  "";
  "repeat         =  1*DIGIT / (*DIGIT ""*"" *DIGIT)";
  "";
  "element        =  rulename / group / option /";
  "                  char-val / num-val / prose-val";
  "";
  "group          =  ""("" *c-wsp alternation *c-wsp "")""";
  "";
  "option         =  ""["" *c-wsp alternation *c-wsp ""]""";
  "";
  "num-val        =  ""%"" (bin-val / dec-val / hex-val)";
  "";
  "bin-val        =  ""b"" 1*BIT";
  "                  [ 1*(""."" 1*BIT) / (""-"" 1*BIT) ]";
  "                       ; series of concatenated bit values";
  "                       ;  or single ONEOF range";
  "";
  "dec-val        =  ""d"" 1*DIGIT";
  "                  [ 1*(""."" 1*DIGIT) / (""-"" 1*DIGIT) ]";
  "";
  "hex-val        =  ""x"" 1*HEXDIG";
  "                  [ 1*(""."" 1*HEXDIG) / (""-"" 1*HEXDIG) ]";
  "";
  "prose-val      =  ""<"" *(%x20-3D / %x3F-7E) "">""";
  "                       ; bracketed string of SP and VCHAR";
  "                       ;  without angles";
  "                       ; prose description, to be used as";
  "                       ;  last resort"
].

(* RFC 5234 section 4, the original char-val (used for the RFC 5234 module, C15) *)
Definition rfc5234_char_val : list string := [
  "char-val       =  DQUOTE *(%x20-21 / %x23-7E) DQUOTE";
  "                       ; quoted string of SP and VCHAR";
  "                       ;  without DQUOTE"
].

(* RFC 7405, section 2.1 and 2.2 *)
Definition rfc7405_rules : list string := [
  "char-val       =  case-insensitive-string /";
  "                  case-sensitive-string";
  "";
  "case-insensitive-string =";
  "                  [ ""%i"" ] quoted-string";
  "";
  "case-sensitive-string =";
  "                  ""%s"" quoted-string";
  "";
  "quoted-string  =  DQUOTE *(%x20-21 / %x23-7E) DQUOTE";
  "                       ; quoted string of SP and VCHAR";
  "                       ;  without DQUOTE"
].

(* RFC 5234, Appendix B.1 *)
Definition rfc5234_B1 : list string := [
  "ALPHA          =  %x41-5A / %x61-7A   ; A-Z / a-z";
  "";
  "BIT            =  ""0"" / ""1""";
  "";
  "CHAR           =  %x01-7F";
  "                       ; any 7-bit US-ASCII character,";
  "                       ;  excluding NUL";
  "";
  "CR             =  %x0D";
  "                       ; carriage return";
  "";
  "CRLF           =  CR LF";
  "                       ; Internet standard newline";
  "";
  "CTL            =  %x00-1F / %x7F";
  "                       ; controls";
  "";
  "DIGIT          =  %x30-39";
  "                       ; 0-9";
  "";
  "DQUOTE         =  %x22";
  "                       ; "" (Double Quote)";
  "";
  "HEXDIG         =  DIGIT / ""A"" / ""B"" / ""C"" / ""D"" / ""E"" / ""F""";
  "";
  "HTAB           =  %x09";
  "                       ; horizontal tab";
  "";
  "LF             =  %x0A";
  "                       ; linefeed";
  "";
  "LWSP           =  *(WSP / CRLF WSP)";
  "";
  "OCTET          =  %x00-FF";
  "                       ; 8 bits of data";
  "";
  "SP             =  %x20";
  "";
  "VCHAR          =  %x21-7E";
  "                       ; visible (printing) characters";
  "";
  "WSP            =  SP / HTAB";
  "                       ; white space"
].

(* the published grammar of ABNF: RFC 5234 section 4 as updated by RFC 7405, over the B.1 core rules;
   everything in one class (2) of an otherwise empty registry *)
Definition rfc_abnf_text : str := lines (rfc5234_B1 ++ rfc5234_section4 ++ rfc7405_rules).
Definition rfc5234_only_text : str := lines (rfc5234_B1 ++ rfc5234_section4 ++ rfc5234_char_val).
Definition r_rfc (_ : unit) : option reg := load_grammar 2%N rfc_abnf_text false reg0.
Definition r_rfc5234 (_ : unit) : option reg := load_grammar 2%N rfc5234_only_text false reg0.

(* B.1 as explicit character sets (what "exactly the listed code points" means in C06) *)
Definition b1_classes : list (string * list (N * N)) := [
  ("ALPHA", [(65, 90); (97, 122)]); ("BIT", [(48, 49)]); ("CHAR", [(1, 127)]); ("CR", [(13, 13)]);
  ("CTL", [(0, 31); (127, 127)]); ("DIGIT", [(48, 57)]); ("DQUOTE", [(34, 34)]);
  ("HEXDIG", [(48, 57); (65, 70); (97, 102)]); ("HTAB", [(9, 9)]); ("LF", [(10, 10)]);
  ("OCTET", [(0, 255)]); ("SP", [(32, 32)]); ("VCHAR", [(33, 126)]); ("WSP", [(32, 32); (9, 9)])]%N.
