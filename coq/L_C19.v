(* L_C19.v — constructs shared by several bundled grammars denote the same language: obligations over the registry
   with EVERY bundled module loaded (loader model on the GENERATED texts). *)
From Coq Require Import String List NArith Arith Bool.
Import ListNotations.
From ABNF Require Import Base Engine Spec Wf Checks WfCheck Cert LangEq LangEq2 Restrict Schema
     AbnfRead Registry GenTypes Loader GenBundled Bundled TablesAll Pairs.
Open Scope string_scope.

(* the pairs listed in Pairs.c19_pairs fall in three groups *)
(* (1) known finding: rfc2616 writes the date literals as case-insensitive quoted strings, RFC 7231/9110 as %x series *)
Definition is_known_different (p : string * string * string * string) : bool :=
  let '(m1, r1, m2, _) := p in
  String.eqb m1 "rfc2616" && String.eqb m2 "rfc7231" &&
  existsb (String.eqb r1) ["HTTP-date"; "rfc850-date"; "asctime-date"; "date1"; "date2"; "date3"; "month"].
(* (2) equal languages that the structural checker cannot show (an alternative subsumed by another one):
       rfc5987 charset = "UTF-8" / "ISO-8859-1" / mime-charset   vs   rfc8187 charset = "UTF-8" / mime-charset *)
Definition is_undecided (p : string * string * string * string) : bool :=
  let '(m1, r1, m2, _) := p in
  String.eqb m1 "rfc5987" && String.eqb m2 "rfc8187" && existsb (String.eqb r1) ["charset"; "ext-value"].
Definition c19_proved : list (string * string * string * string) :=
  filter (fun p => negb (is_known_different p) && negb (is_undecided p)) c19_pairs.

Definition rid_pairs (ps : list (string * string * string * string)) : list (rid * rid) :=
  flat_map (fun p => match pair_rids R_all p with Some ab => [ab] | None => [] end) ps.
Definition pairs19 : list (rid * rid) := rid_pairs c19_proved.
Definition keep19a : list rid := reach l_all 60 (map fst pairs19).
Definition keep19b : list rid := reach l_all 60 (map snd pairs19).

(* every listed pair names two existing rules (a renamed rule must not silently drop out of the theorem) *)
Lemma all_pairs_resolve :
  forallb (fun p => match pair_rids R_all p with Some _ => true | None => false end) c19_pairs = true.
Proof. vm_cast_no_check (eq_refl true). Qed.
Lemma counts19 : (List.length c19_pairs, List.length c19_proved) = (46, 37).
Proof. vm_compute. reflexivity. Qed.
Lemma ok19a : sub_ok 40 l_all keep19a = true. Proof. vm_cast_no_check (eq_refl true). Qed.
Lemma ok19b : sub_ok 40 l_all keep19b = true. Proof. vm_cast_no_check (eq_refl true). Qed.
Lemma pairs_ok19 : pairs_ok l_all l_all keep19a keep19b pairs19 = true. Proof. vm_cast_no_check (eq_refl true). Qed.
Lemma eq19 : lang_eq_check (of_list l_all) (of_list l_all) pairs19 60 = true. Proof. vm_cast_no_check (eq_refl true). Qed.
(* the known-different pairs really are different in the model: the checker says no, and a distinguishing string is
   exhibited by running the engine model in the kernel *)
Definition sun_lower : str := s_of "sun, 06 nov 1994 08:49:37 gmt".
Definition accepts_b (r : rid) (w : str) : bool :=
  match parse_all sh_id (of_list l_all) 400 r w with Ok [_] => true | _ => false end.
Lemma known_difference_witness :
  match pair_rids R_all ("rfc2616", "HTTP-date", "rfc7231", "HTTP-date") with
  | Some (a, b) => accepts_b a sun_lower && negb (accepts_b b sun_lower)
  | None => false
  end = true.
Proof. vm_cast_no_check (eq_refl true). Qed.

(* generic: language equality shown on the sub-grammar restricted to [keep] holds in the whole grammar and for the engine *)
Lemma sub_langeq2_gen l keep pairs n f ef :
  sub_ok n l keep = true -> pairs_ok l l keep keep pairs = true ->
  lang_eq_check2 (restrict l keep) (restrict l keep) pairs f ef = true ->
  forall a b, In (a, b) pairs -> forall sh, perm_oracle sh ->
  (forall s i j, M (of_list l) s (ERef a) i j <-> M (of_list l) s (ERef b) i j) /\
  (forall s, accepts sh (of_list l) a s <-> accepts sh (of_list l) b s).
Proof.
  intros Hok Hpo Heq a b Hab sh Hsh.
  pose proof Hpo as Hp. unfold pairs_ok in Hp. rewrite forallb_forall in Hp. specialize (Hp (a, b) Hab).
  cbn [fst snd] in Hp.
  apply andb_true_iff in Hp. destruct Hp as [Hp Hdb]. apply andb_true_iff in Hp. destruct Hp as [Hp Hmb].
  apply andb_true_iff in Hp. destruct Hp as [Hma Hda].
  assert (Hcu : closed_under_check l keep = true).
  { pose proof Hok as H. unfold sub_ok in H. apply andb_true_iff in H. destruct H as [H _].
    apply andb_true_iff in H. destruct H as [H _]. apply andb_true_iff in H. destruct H as [H _]. exact H. }
  assert (HM : forall s i j, M (of_list l) s (ERef a) i j <-> M (of_list l) s (ERef b) i j).
  { intros s i j.
    rewrite (M_restrict_transfer l keep Hcu s (ERef a) i j (incl_ref_keep a keep Hma)).
    rewrite (M_restrict_transfer l keep Hcu s (ERef b) i j (incl_ref_keep b keep Hmb)).
    exact (lang_eq_sound2 _ _ pairs f ef Heq a b Hab s i j). }
  split; [exact HM|]. intros s.
  destruct (sub_engine_M n l keep Hok a Hma Hda sh Hsh) as [_ Ha].
  destruct (sub_engine_M n l keep Hok b Hmb Hdb sh Hsh) as [_ Hb].
  rewrite (Ha s), (Hb s). apply HM.
Qed.

(* the two pairs whose equality needs the subsumption rule of LangEq2 ("ISO-8859-1" is subsumed by mime-charset): checked on the
   sub-grammar reachable from them, then transferred *)
Definition pairs19u : list (rid * rid) := rid_pairs (filter is_undecided c19_pairs).
Definition keep19u : list rid := Restrict.reach l_all 60 (map fst pairs19u ++ map snd pairs19u).
Lemma count19u : List.length pairs19u = 2. Proof. vm_compute. reflexivity. Qed.
Lemma ok19u : sub_ok 40 l_all keep19u = true. Proof. vm_cast_no_check (eq_refl true). Qed.
Lemma pairs_ok19u : pairs_ok l_all l_all keep19u keep19u pairs19u = true. Proof. vm_cast_no_check (eq_refl true). Qed.
Lemma eq19u : lang_eq_check2 (restrict l_all keep19u) (restrict l_all keep19u) pairs19u 60 60 = true. Proof. vm_cast_no_check (eq_refl true). Qed.

Opaque l_all pairs19 keep19a keep19b R_all pairs19u keep19u.

Lemma c19u : forall a b, In (a, b) pairs19u -> forall sh, perm_oracle sh ->
  (forall s i j, M (of_list l_all) s (ERef a) i j <-> M (of_list l_all) s (ERef b) i j) /\
  (forall s, accepts sh (of_list l_all) a s <-> accepts sh (of_list l_all) b s).
Proof. exact (sub_langeq2_gen l_all keep19u pairs19u 40 60 60 ok19u pairs_ok19u eq19u). Qed.


Lemma c19 : forall a b, In (a, b) pairs19 -> forall sh, perm_oracle sh ->
  (forall s, accepts sh (of_list l_all) a s <-> accepts sh (of_list l_all) b s) /\
  (forall s i j, M (of_list l_all) s (ERef a) i j <-> M (of_list l_all) s (ERef b) i j) /\
  (forall s i, i <= List.length s -> exists f, forall f', f <= f' -> forall j,
      In j (ends (lparse sh (of_list l_all) f' (ERef a) s i)) <-> In j (ends (lparse sh (of_list l_all) f' (ERef b) s i))).
Proof. exact (pair_schema 40 l_all l_all keep19a keep19b pairs19 60 ok19a ok19b pairs_ok19 eq19). Qed.
