(* LoadFrame2.v — C14, stage 2: the frame theorem lifted to the canonical (rid-independent) snapshots of
   TablesAll.v.  Loading a class c leaves the snapshot of every other class c' unchanged, provided no core name is
   redefined and the top-level first-match flag of no definition used by c' is rewritten ([flags_kept], a boolean
   check on the two states; LoadFlags.v derives it from static facts about the class description).
   HISTORY form: once a class is loaded, any later sequence of loads of other classes leaves its snapshot unchanged. *)
From Coq Require Import List NArith Arith Bool Lia.
Import ListNotations.
From ABNF Require Import Base Engine AbnfRead Registry EngineSound Checks RegistryProps GenTypes Loader
     GenBundled Bundled TablesAll LoadFrame1 LoadWf.

(* ------------------------------------------------------------------------------------------ *)
(* A. the boolean equalities of TablesAll are equalities                                       *)
(* ------------------------------------------------------------------------------------------ *)
Section TInd.
  Variable P : texpr -> Prop.
  Hypothesis Hlit : forall cs v, P (TLit cs v).
  Hypothesis Hrange : forall lo hi, P (TRange lo hi).
  Hypothesis Halt : forall fm es, Forall P es -> P (TAlt fm es).
  Hypothesis Hcat : forall es, Forall P es -> P (TCat es).
  Hypothesis Hrep : forall mn mx e, P e -> P (TRep mn mx e).
  Hypothesis Hopt : forall e, P e -> P (TOpt e).
  Hypothesis Hprose : P TProse.
  Hypothesis Href : forall c n, P (TRef c n).
  Fixpoint texpr_ind2 (t : texpr) : P t :=
    match t with
    | TLit cs v => Hlit cs v
    | TRange lo hi => Hrange lo hi
    | TAlt fm es => Halt fm es ((fix go (l : list texpr) : Forall P l :=
        match l with [] => Forall_nil P | x :: r => Forall_cons x (texpr_ind2 x) (go r) end) es)
    | TCat es => Hcat es ((fix go (l : list texpr) : Forall P l :=
        match l with [] => Forall_nil P | x :: r => Forall_cons x (texpr_ind2 x) (go r) end) es)
    | TRep mn mx e => Hrep mn mx e (texpr_ind2 e)
    | TOpt e => Hopt e (texpr_ind2 e)
    | TProse => Hprose
    | TRef c n => Href c n
    end.
End TInd.

Lemma list_eqb_sound {A} (f : A -> A -> bool) (x : list A) :
  Forall (fun a => forall b, f a b = true -> a = b) x -> forall y, list_eqb f x y = true -> x = y.
Proof.
  induction 1 as [|a r Ha Hr IH]; intros [|b y] H; simpl in H; try discriminate; [reflexivity|].
  apply andb_true_iff in H. destruct H as [H1 H2]. rewrite (Ha b H1), (IH y H2). reflexivity.
Qed.
Lemma list_eqb_refl {A} (f : A -> A -> bool) (x : list A) :
  Forall (fun a => f a a = true) x -> list_eqb f x x = true.
Proof. induction 1 as [|a r Ha Hr IH]; simpl; [reflexivity|]. rewrite Ha, IH. reflexivity. Qed.

Lemma texpr_alt_eq f1 e1 f2 e2 :
  texpr_eqb (TAlt f1 e1) (TAlt f2 e2) = Bool.eqb f1 f2 && list_eqb texpr_eqb e1 e2.
Proof.
  simpl. f_equal. revert e2. induction e1 as [|p x IH]; intros [|q y]; simpl; try reflexivity.
  rewrite IH. reflexivity.
Qed.
Lemma texpr_cat_eq e1 e2 : texpr_eqb (TCat e1) (TCat e2) = list_eqb texpr_eqb e1 e2.
Proof.
  simpl. revert e2. induction e1 as [|p x IH]; intros [|q y]; simpl; try reflexivity.
  rewrite IH. reflexivity.
Qed.

Lemma texpr_eqb_sound a : forall b, texpr_eqb a b = true -> a = b.
Proof.
  induction a as [cs v|lo hi|fm es IH|es IH|mn mx a IH|a IH| |c n] using texpr_ind2; intros b H.
  - destruct b; simpl in H; try discriminate. apply andb_true_iff in H. destruct H as [H1 H2].
    apply eqb_prop in H1. apply (proj1 (str_eqb_eq _ _)) in H2. congruence.
  - destruct b; simpl in H; try discriminate. apply andb_true_iff in H. destruct H as [H1 H2].
    apply N.eqb_eq in H1. apply N.eqb_eq in H2. congruence.
  - destruct b as [| |fm2 es2| | | | |]; try (simpl in H; discriminate). rewrite texpr_alt_eq in H.
    apply andb_true_iff in H. destruct H as [H1 H2]. apply eqb_prop in H1.
    rewrite (list_eqb_sound _ _ IH _ H2), H1. reflexivity.
  - destruct b as [| | |es2| | | |]; try (simpl in H; discriminate). rewrite texpr_cat_eq in H.
    rewrite (list_eqb_sound _ _ IH _ H). reflexivity.
  - destruct b as [| | | |mn2 mx2 b| | |]; try (simpl in H; discriminate). simpl in H.
    apply andb_true_iff in H. destruct H as [H H3]. apply andb_true_iff in H. destruct H as [H1 H2].
    apply Nat.eqb_eq in H1. rewrite (IH _ H3), H1.
    destruct mx as [p|], mx2 as [q|]; try discriminate; [apply Nat.eqb_eq in H2; subst|]; reflexivity.
  - destruct b; simpl in H; try discriminate. rewrite (IH _ H). reflexivity.
  - destruct b; simpl in H; try discriminate. reflexivity.
  - destruct b; simpl in H; try discriminate. apply andb_true_iff in H. destruct H as [H1 H2].
    apply N.eqb_eq in H1. apply (proj1 (str_eqb_eq _ _)) in H2. congruence.
Qed.
Lemma texpr_eqb_refl a : texpr_eqb a a = true.
Proof.
  induction a as [cs v|lo hi|fm es IH|es IH|mn mx a IH|a IH| |c n] using texpr_ind2.
  - simpl. rewrite eqb_reflx, str_eqb_refl. reflexivity.
  - simpl. rewrite !N.eqb_refl. reflexivity.
  - rewrite texpr_alt_eq, eqb_reflx, list_eqb_refl; [reflexivity|exact IH].
  - rewrite texpr_cat_eq, list_eqb_refl; [reflexivity|exact IH].
  - simpl. rewrite Nat.eqb_refl, IH. destruct mx; [rewrite Nat.eqb_refl|]; reflexivity.
  - simpl. exact IH.
  - reflexivity.
  - simpl. rewrite N.eqb_refl, str_eqb_refl. reflexivity.
Qed.

Lemma snap_eqb_sound a b : snap_eqb a b = true -> a = b.
Proof.
  destruct a as [[[k1 n1] d1] x1], b as [[[k2 n2] d2] x2]. simpl. intros H.
  apply andb_true_iff in H. destruct H as [H H4]. apply andb_true_iff in H. destruct H as [H H3].
  apply andb_true_iff in H. destruct H as [H1 H2].
  apply (proj1 (str_eqb_eq _ _)) in H1. apply (proj1 (str_eqb_eq _ _)) in H2. subst.
  assert (d1 = d2).
  { destruct d1, d2; try discriminate; [apply texpr_eqb_sound in H3; congruence|reflexivity]. }
  assert (x1 = x2).
  { destruct x1 as [[c1 s1]|], x2 as [[c2 s2]|]; try discriminate; [|reflexivity].
    apply andb_true_iff in H4. destruct H4 as [A B]. apply N.eqb_eq in A.
    apply (proj1 (str_eqb_eq _ _)) in B. congruence. }
  congruence.
Qed.
Lemma snap_eqb_refl a : snap_eqb a a = true.
Proof.
  destruct a as [[[k n] d] x]. simpl. rewrite !str_eqb_refl. simpl.
  destruct d; [rewrite texpr_eqb_refl|]; simpl; (destruct x as [[c s]|]; [rewrite N.eqb_refl, str_eqb_refl|]; reflexivity).
Qed.

Theorem same_class_iff R1 R2 c : same_class R1 R2 c = true <-> class_snapshot R1 c = class_snapshot R2 c.
Proof.
  unfold same_class. split.
  - apply list_eqb_sound. apply Forall_forall. intros a _ b. apply snap_eqb_sound.
  - intros ->. apply list_eqb_refl. apply Forall_forall. intros a _. apply snap_eqb_refl.
Qed.

(* ------------------------------------------------------------------------------------------ *)
(* B. stability of the canonical forms                                                         *)
(* ------------------------------------------------------------------------------------------ *)
Definition keys_kept (R R' : reg) : Prop :=
  forall j o, nth_error (objs R) j = Some o -> exists o', nth_error (objs R') j = Some o' /\ sbd o o'.

Lemma canon_stable R R' e : keys_kept R R' -> refs_ltb (length (objs R)) e = true -> canon R' e = canon R e.
Proof.
  intros HK. induction e as [cs v|lo hi|fm es IH|es IH|id mn mx e IH| |r] using expr_ind2; simpl; intros H;
    try reflexivity.
  - f_equal. apply map_ext_in. intros x Hx. rewrite Forall_forall in IH. rewrite forallb_forall in H. auto.
  - f_equal. apply map_ext_in. intros x Hx. rewrite Forall_forall in IH. rewrite forallb_forall in H. auto.
  - f_equal. auto.
  - apply Nat.ltb_lt in H. destruct (nth_error (objs R) (N.to_nat r)) as [o|] eqn:E;
      [|apply nth_error_None in E; lia].
    destruct (HK _ _ E) as (o' & E' & (S1 & S2 & _)). rewrite E'. congruence.
Qed.

Lemma snap_obj_stable R R' o : wf R -> keys_kept R R' -> In o (objs R) ->
  (forall d, odef o = Some d -> nth_error (defs R') d = nth_error (defs R) d) ->
  snap_obj R' o = snap_obj R o.
Proof.
  intros W HK Hin Hd. unfold snap_obj. f_equal; [f_equal|].
  - destruct (odef o) as [d|] eqn:Ed; [|reflexivity]. rewrite (Hd d eq_refl).
    destruct (nth_error (defs R) d) as [e|] eqn:Ee; [|reflexivity]. f_equal.
    apply canon_stable; [exact HK|]. pose proof (wf_refs _ W) as F. rewrite Forall_forall in F.
    apply F. eapply nth_error_In; eauto.
  - destruct (oexcl o) as [x|] eqn:Ex; [|reflexivity].
    pose proof (wf_excl _ W) as F. rewrite Forall_forall in F. specialize (F o Hin x Ex).
    destruct (nth_error (objs R) (N.to_nat x)) as [ox|] eqn:E; [|apply nth_error_None in E; lia].
    destruct (HK _ _ E) as (o' & E' & (S1 & S2 & _)). rewrite E'. congruence.
Qed.

Lemma filter_none c' (l' : list robj) :
  (forall j o', nth_error l' j = Some o' -> ocls o' <> c') -> filter (fun o => N.eqb (ocls o) c') l' = [].
Proof.
  induction l' as [|a r IH]; intros H; simpl; [reflexivity|].
  destruct (N.eqb (ocls a) c') eqn:E.
  - apply N.eqb_eq in E. exfalso. apply (H 0 a eq_refl E).
  - apply IH. intros j o' Hj. apply (H (S j) o' Hj).
Qed.
Lemma filter_frame c' : forall (l l' : list robj),
  (forall j o, nth_error l j = Some o ->
     exists o', nth_error l' j = Some o' /\ ocls o' = ocls o /\ (ocls o = c' -> o' = o)) ->
  (forall j o', nth_error l' j = Some o' -> length l <= j -> ocls o' <> c') ->
  filter (fun o => N.eqb (ocls o) c') l' = filter (fun o => N.eqb (ocls o) c') l.
Proof.
  induction l as [|o r IH]; intros l' H1 H2.
  - simpl. apply filter_none. intros j o' Hj. apply (H2 j o' Hj). simpl. lia.
  - destruct (H1 0 o eq_refl) as (o' & Ho' & Hc & He). destruct l' as [|o2 r']; [discriminate|].
    simpl in Ho'. inversion Ho'; subst o2. simpl. rewrite Hc.
    assert (IHr : filter (fun o => N.eqb (ocls o) c') r' = filter (fun o => N.eqb (ocls o) c') r).
    { apply IH.
      - intros j x Hj. apply (H1 (S j) x Hj).
      - intros j x Hj Hle. apply (H2 (S j) x Hj). simpl. lia. }
    rewrite IHr. destruct (N.eqb (ocls o) c') eqn:E; [|reflexivity].
    apply N.eqb_eq in E. rewrite (He E). reflexivity.
Qed.

(* ------------------------------------------------------------------------------------------ *)
(* C. one class                                                                                *)
(* ------------------------------------------------------------------------------------------ *)
(* generic: a step that keeps the objects of class c', appends none of class c', keeps all keys and the
   definitions used by c' *)
Lemma snapshot_frame R R' c' : wf R -> keys_kept R R' ->
  (forall j o, nth_error (objs R) j = Some o -> ocls o = c' -> nth_error (objs R') j = Some o) ->
  (forall j o', nth_error (objs R') j = Some o' -> length (objs R) <= j -> ocls o' <> c') ->
  (forall o d, In o (objs R) -> ocls o = c' -> odef o = Some d ->
               nth_error (defs R') d = nth_error (defs R) d) ->
  class_snapshot R' c' = class_snapshot R c'.
Proof.
  intros W HK HP HN HD. unfold class_snapshot.
  rewrite (filter_frame c' (objs R) (objs R')).
  - apply map_ext_in. intros o Ho. apply filter_In in Ho. destruct Ho as [Hin Hc]. apply N.eqb_eq in Hc.
    apply snap_obj_stable; auto. intros d Hd. eapply HD; eauto.
  - intros j o Hj. destruct (HK j o Hj) as (o' & Hj' & (S1 & _)). exists o'. split; [exact Hj'|].
    split; [exact S1|]. intros Hc. rewrite (HP j o Hj Hc) in Hj'. congruence.
  - exact HN.
Qed.

Definition top_flag (e : expr) : bool := match e with EAlt fm _ => fm | _ => false end.
Lemma flag_eq_top e e' : flag_eq e e' -> top_flag e = top_flag e' -> e' = e.
Proof. intros [H|(fm & fm' & es & -> & ->)] Ht; [exact H|]. simpl in Ht. congruence. Qed.

(* the side condition on flags as a boolean check on the states before and after *)
Definition flags_kept (R R' : reg) (c' : cls) : bool :=
  forallb (fun o => if N.eqb (ocls o) c'
                    then match odef o with
                         | Some d => match nth_error (defs R) d, nth_error (defs R') d with
                                     | Some e, Some e' => Bool.eqb (top_flag e) (top_flag e')
                                     | _, _ => true
                                     end
                         | None => true
                         end
                    else true) (objs R).

Theorem load_class_snapshot classes g R R' c c' :
  wf R -> load_class classes g R = Some R' -> cls_of classes (gmod g) (gcls g) = Some c ->
  (forall l, own_rules g = Some l -> no_core_names R (all_names g l)) ->
  c' <> c -> flags_kept R R' c' = true ->
  class_snapshot R' c' = class_snapshot R c'.
Proof.
  intros W H Hc Hn Hne Hf.
  destruct (load_class_frame _ _ _ _ _ H Hc Hn) as (A1 & A2 & A3 & A4 & A5).
  apply snapshot_frame; auto.
  - intros j o Hj Ho. apply A1; [exact Hj|congruence].
  - intros j o' Hj Hle. rewrite (A3 j o' Hj Hle). congruence.
  - intros o d Hin Ho Hd. unfold flags_kept in Hf. rewrite forallb_forall in Hf.
    specialize (Hf o Hin). rewrite Ho, N.eqb_refl, Hd in Hf.
    apply In_nth_error in Hin. destruct Hin as [j Hj].
    pose proof (reg_ok_nth _ _ _ _ (wf_ok _ W) Hj Hd) as Hlt.
    destruct (nth_error (defs R) d) as [e|] eqn:Ee; [|apply nth_error_None in Ee; lia].
    destruct (A5 d e Ee) as (e' & Ee' & FE & _). rewrite Ee' in Hf |- *.
    apply eqb_prop in Hf. rewrite (flag_eq_top _ _ FE Hf). reflexivity.
Qed.

Corollary load_class_same_class classes g R R' c c' :
  wf R -> load_class classes g R = Some R' -> cls_of classes (gmod g) (gcls g) = Some c ->
  (forall l, own_rules g = Some l -> no_core_names R (all_names g l)) ->
  c' <> c -> flags_kept R R' c' = true ->
  same_class R R' c' = true.
Proof. intros. apply same_class_iff. symmetry. eapply load_class_snapshot; eauto. Qed.

(* ------------------------------------------------------------------------------------------ *)
(* D. HISTORY form                                                                             *)
(* ------------------------------------------------------------------------------------------ *)
(* the flag check along a sequence of loads (a boolean function of the start state) *)
Fixpoint hist_flags_kept (classes L : list gclass) (R : reg) (c' : cls) : bool :=
  match L with
  | [] => true
  | g :: r => match load_class classes g R with
              | Some Ra => flags_kept R Ra c' && hist_flags_kept classes r Ra c'
              | None => true
              end
  end.

Theorem load_classes_snapshot classes L c' : forall R R',
  wf R -> load_classes classes L R = Some R' ->
  no_core_names R (flat_map gnames L) -> ~ in_classes classes L c' ->
  hist_flags_kept classes L R c' = true ->
  class_snapshot R' c' = class_snapshot R c'.
Proof.
  induction L as [|g r IH]; intros R R' W H Hn Hni Hf; simpl in H.
  - inversion H; subst. reflexivity.
  - simpl in Hf. destruct (load_class classes g R) as [Ra|] eqn:E; [|discriminate].
    apply andb_true_iff in Hf. destruct Hf as [Hf1 Hf2].
    destruct (load_class_own_rules _ _ _ _ E) as (c & l & Hc & Hl).
    assert (Hg : gnames g = all_names g l) by (unfold gnames; rewrite Hl; reflexivity).
    assert (Hn1 : forall l0, own_rules g = Some l0 -> no_core_names R (all_names g l0)).
    { intros l0 Hl0. assert (l0 = l) by congruence. subst l0. rewrite <- Hg.
      eapply no_core_names_incl; [|exact Hn]. simpl. intros x Hx. apply in_or_app; left; exact Hx. }
    destruct (load_class_frame_gen _ _ _ _ _ _ E Hc Hl) as (M & N & _).
    assert (Hn2 : no_core_names Ra (flat_map gnames r)).
    { eapply no_core_names_step; [eapply cls_of_ge2; eauto|exact M|exact N|].
      eapply no_core_names_incl; [|exact Hn]. simpl. intros x Hx. apply in_or_app; right; exact Hx. }
    assert (Hne : c' <> c).
    { intros ->. apply Hni. exists g. split; [left; reflexivity|exact Hc]. }
    rewrite (IH Ra R' (wf_load_class _ _ _ _ E W) H Hn2); [| |exact Hf2].
    + eapply load_class_snapshot; eauto.
    + intros (g0 & G1 & G2). apply Hni. exists g0. split; [right; exact G1|exact G2].
Qed.

(* C14, history form: after the classes L0 (among them class c') have been loaded, loading any further classes L
   — none of them c', none redefining a core name, none rewriting a flag of a definition c' uses — leaves the
   snapshot of c' as it was. *)
Corollary C14_history classes L0 L R0 R R' c' :
  wf R0 -> load_classes classes L0 R0 = Some R -> load_classes classes L R = Some R' ->
  no_core_names R (flat_map gnames L) -> ~ in_classes classes L c' ->
  hist_flags_kept classes L R c' = true ->
  same_class R R' c' = true.
Proof.
  intros W H0 H Hn Hni Hf. apply same_class_iff. symmetry.
  eapply load_classes_snapshot; eauto. eapply wf_load_classes; eauto.
Qed.

Print Assumptions same_class_iff.
Print Assumptions load_class_snapshot.
Print Assumptions load_classes_snapshot.
Print Assumptions C14_history.
