(* L_C12.v — assembles the engine part of property C12 (totality). *)
From Coq Require Import List NArith Arith Bool Lia Permutation.
Import ListNotations.
From ABNF Require Import Base Engine Spec Wf EngineTerm.

(* reaching a rule without definition raises GrammarError *)
Lemma undefined_gerr sh G f r s i :
  (G r = None \/ exists ru, G r = Some ru /\ rdef ru = None) -> lparse sh G (S f) (ERef r) s i = GErr.
Proof.
  intros [H|[ru [H1 H2]]]; simpl; unfold ref; [rewrite H|rewrite H1, H2]; reflexivity.
Qed.

(* the only outcomes are: a non-empty list of matches, ParseError, GrammarError (OOF is excluded) *)
Lemma outcomes sh nul rank G : perm_oracle sh -> wf nul rank G ->
  forall e s i, WB e -> i <= length s ->
  exists f, forall f', f <= f' ->
    (exists ms, lparse sh G f' e s i = Ok ms) \/ lparse sh G f' e s i = PErr \/ lparse sh G f' e s i = GErr.
Proof.
  intros Hsh Hwf e s i HWB Hi.
  destruct (lparse_total sh nul rank G Hsh Hwf e s i HWB Hi) as [f Hf].
  exists f. intros f' Hle. specialize (Hf f' Hle).
  destruct (lparse sh G f' e s i) as [ms| | |]; eauto. exfalso; apply Hf; reflexivity.
Qed.
