(* L_C03.v — assembles the statement of property C03 from EngineSound. *)
From Coq Require Import List NArith Arith Bool Lia Permutation.
Import ListNotations.
From ABNF Require Import Base Engine Spec EngineSound Checks.

(* what C03 demands of one returned tree: the root is named after the rule, the tree is a legal
   derivation of the rule over s[i..end) (recursively: D_ref is the only way to build an interior
   node, and it demands a derivation of the named rule's definition), and it is faithful to the text *)
Definition tree_ok (G : grammar) (s : str) (r : rid) (i : nat) (m : mtch) : Prop :=
  (exists ru ch, G r = Some ru /\ nodes m = [Nd (rname ru) ch]) /\
  D G s (ERef r) i (nodes m) (mend m) /\ faithful s i (nodes m) (mend m).

Lemma D_ref_root G s r i ns j : D G s (ERef r) i ns j ->
  exists ru ch, G r = Some ru /\ ns = [Nd (rname ru) ch].
Proof. intros H; inversion H; subst; eauto. Qed.

Lemma tree_ok_of_D G s r i m : D G s (ERef r) i (nodes m) (mend m) -> tree_ok G s r i m.
Proof.
  intros HD. split; [eapply D_ref_root; exact HD|]. split; [exact HD|eapply D_faithful; exact HD].
Qed.

Lemma c03_lparse sh G : perm_oracle sh -> WBG G ->
  forall f r s i ms m, i <= length s -> lparse sh G f (ERef r) s i = Ok ms -> In m ms ->
  tree_ok G s r i m.
Proof.
  intros Hsh Hwb f r s i ms m Hi Hl Hm. apply tree_ok_of_D.
  eapply lparse_sound; eauto. constructor.
Qed.

Lemma c03_parse sh G : perm_oracle sh -> WBG G ->
  forall f r s i m, i <= length s -> parse sh G f r s i = Ok [m] -> tree_ok G s r i m.
Proof.
  intros Hsh Hwb f r s i m Hi Hp. apply tree_ok_of_D. eapply parse_sound; eauto.
Qed.

Lemma c03_parse_all sh G : perm_oracle sh -> WBG G ->
  forall f r s m, parse_all sh G f r s = Ok [m] -> tree_ok G s r 0 m /\ mend m = length s.
Proof.
  intros Hsh Hwb f r s m Hp.
  destruct (parse_all_sound sh G Hsh Hwb f r s m Hp) as [HD He].
  split; [|exact He]. apply tree_ok_of_D. rewrite He. exact HD.
Qed.

(* non-vacuity: a concrete grammar s = *x, x = "a" / "aa" satisfies the hypotheses and the engine
   returns several trees on "aaa" *)
Definition ex_l : list (rid * rule) :=
  [(0%N, {| rname := [115%N]; rdef := Some (ERep 0 0 None (ERef 1%N)); rexcl := None |});
   (1%N, {| rname := [120%N]; rdef := Some (EAlt false [ELit false [97%N]; ELit false [97%N; 97%N]]); rexcl := None |})].
Definition ex_G : grammar := of_list ex_l.
Lemma ex_G_WBG : WBG ex_G.
Proof. apply wbg_check_sound. vm_compute. reflexivity. Qed.
Example ex_G_runs : ends (lparse sh_id ex_G 20 (ERef 0%N) [97%N;97%N;97%N] 0) = [3;2;1;0].
Proof. vm_compute. reflexivity. Qed.
