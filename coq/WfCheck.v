(* WfCheck.v — boolean checkers for the certificate of Wf.v ([wf], [closed]) on grammars given as
   association lists, with soundness proofs, so that the side conditions of the termination
   theorem (EngineTerm.v) over concrete / generated grammars close by vm_compute. *)
From Coq Require Import List NArith Arith Bool Lia.
Import ListNotations.
From ABNF Require Import Base Engine Spec Wf Checks.

(* the certificate as association lists: first binding wins, like [of_list] *)
Definition nul_of (nl : list (rid * bool)) (r : rid) : bool :=
  match find (fun p => N.eqb (fst p) r) nl with Some p => snd p | None => false end.
Definition rank_of (rk : list (rid * nat)) (r : rid) : nat :=
  match find (fun p => N.eqb (fst p) r) rk with Some p => snd p | None => 0 end.

(* the three conditions of [wf] for one binding (r, ru) *)
Definition wf_rule (nul : rid -> bool) (rank : rid -> nat) (p : rid * rule) : bool :=
  match rexcl (snd p) with Some x => Nat.ltb (rank x) (rank (fst p)) | None => true end &&
  match rdef (snd p) with
  | Some d => implb (enull nul d) (nul (fst p)) && Nat.leb (erank nul rank d) (rank (fst p))
  | None => true
  end.

Definition wf_check (l : list (rid * rule)) (nl : list (rid * bool)) (rk : list (rid * nat)) : bool :=
  wbg_check l && forallb (wf_rule (nul_of nl) (rank_of rk)) l.

Theorem wf_check_sound l nl rk : wf_check l nl rk = true -> wf (nul_of nl) (rank_of rk) (of_list l).
Proof.
  unfold wf_check. intros H. destruct (proj1 (andb_true_iff _ _) H) as [H1 H2].
  split; [apply wbg_check_sound; exact H1|].
  intros r ru Hr. pose proof (of_list_In _ _ _ Hr) as Hin.
  pose proof (proj1 (forallb_forall _ _) H2 _ Hin) as Hp.
  unfold wf_rule in Hp. cbn [fst snd] in Hp.
  destruct (proj1 (andb_true_iff _ _) Hp) as [Hx Hd]. split.
  - intros x Ex. rewrite Ex in Hx. apply Nat.ltb_lt. exact Hx.
  - intros d Ed. rewrite Ed in Hd. destruct (proj1 (andb_true_iff _ _) Hd) as [Hn Hk]. split.
    + intros En. rewrite En in Hn. exact Hn.
    + apply Nat.leb_le. exact Hk.
Qed.

(* closedness *)
Definition definedb (l : list (rid * rule)) (x : rid) : bool :=
  match of_list l x with
  | Some ru => match rdef ru with Some _ => true | None => false end
  | None => false
  end.

Definition closed_check (l : list (rid * rule)) : bool :=
  forallb (fun p =>
    match rexcl (snd p) with Some x => definedb l x | None => true end &&
    match rdef (snd p) with Some d => forallb (definedb l) (refs d) | None => true end) l.

Lemma definedb_sound l x : definedb l x = true -> defined (of_list l) x.
Proof.
  unfold definedb, defined. destruct (of_list l x) as [ru|]; [|discriminate].
  destruct (rdef ru) as [d|] eqn:Ed; [|discriminate].
  intros _. exists ru, d. split; [reflexivity|exact Ed].
Qed.

Theorem closed_check_sound l : closed_check l = true -> closed (of_list l).
Proof.
  unfold closed_check. intros H r ru Hr. pose proof (of_list_In _ _ _ Hr) as Hin.
  pose proof (proj1 (forallb_forall _ _) H _ Hin) as Hp. cbn [fst snd] in Hp.
  destruct (proj1 (andb_true_iff _ _) Hp) as [Hx Hd]. split.
  - intros x Ex. rewrite Ex in Hx. apply definedb_sound. exact Hx.
  - intros d Ed x Hin'. rewrite Ed in Hd. apply definedb_sound.
    apply (proj1 (forallb_forall _ _) Hd). exact Hin'.
Qed.

(* closed expressions (the start expression of a parse) *)
Definition closed_expr_check (l : list (rid * rule)) (e : expr) : bool := forallb (definedb l) (refs e).

Lemma closed_expr_check_sound l e : closed_expr_check l e = true -> closed_expr (of_list l) e.
Proof.
  unfold closed_expr_check. intros H x Hx. apply definedb_sound.
  apply (proj1 (forallb_forall _ _) H). exact Hx.
Qed.

(* ---- non-vacuity: a grammar with a nullable repetition body, right recursion and an exclusion
   0:  s = *( "" / "a" )        1:  r = "x" r / "x"        2:  t = <r, but not s> ---- *)
Definition ex_grammar : list (rid * rule) :=
  [ (0%N, {| rname := [115%N];
             rdef := Some (ERep 0%N 0 None (EAlt false [ELit false []; ELit false [97%N]]));
             rexcl := None |});
    (1%N, {| rname := [114%N];
             rdef := Some (EAlt false [ECat [ELit false [120%N]; ERef 1%N]; ELit false [120%N]]);
             rexcl := None |});
    (2%N, {| rname := [116%N]; rdef := Some (ERef 1%N); rexcl := Some 0%N |}) ].
Definition ex_nul : list (rid * bool) := [(0%N, true); (1%N, false); (2%N, false)].
Definition ex_rank : list (rid * nat) := [(0%N, 0); (1%N, 0); (2%N, 1)].

Example ex_wf_check : wf_check ex_grammar ex_nul ex_rank = true.
Proof. vm_compute. reflexivity. Qed.

Example ex_closed_check : closed_check ex_grammar = true.
Proof. vm_compute. reflexivity. Qed.

Example ex_wf : wf (nul_of ex_nul) (rank_of ex_rank) (of_list ex_grammar).
Proof. apply wf_check_sound. exact ex_wf_check. Qed.

(* the checker rejects left recursion, also through a nullable prefix:  r = *"a" r "b" *)
Example ex_left_rec_rejected : forall nu rk,
  wf_check [ (0%N, {| rname := [114%N];
                      rdef := Some (ECat [ERep 0%N 0 None (ELit false [97%N]); ERef 0%N; ELit false [98%N]]);
                      rexcl := None |}) ] [(0%N, nu)] [(0%N, rk)] = false.
Proof.
  intros nu rk.
  assert (L : Nat.leb (S rk) rk = false) by (apply Nat.leb_gt; lia).
  unfold wf_check, wf_rule, nul_of, rank_of. cbn -[Nat.leb].
  destruct nu; cbn -[Nat.leb]; rewrite L; reflexivity.
Qed.

Print Assumptions wf_check_sound.
Print Assumptions closed_check_sound.
