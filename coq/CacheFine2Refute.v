(* CacheFine2Refute.v — the refutations as theorems about the OLD variants of the two-switch model
   (CacheFine2.v: run_fine stamp_first guarded_pop), and the summary theorem C17_fine instantiated.

   1. stamp_first_refuted            stamp_first = true (D3 before D2), even WITH the guarded popitem:
        T0: D1 (stale) D3 (stamp := epoch) | T1: D1 (sees the stamp current) G1a (reads self.dict = the OLD,
        stale object) G1b (finds the stale entry) ... returns it: a ParseError where the pure engine matches.
        [as_written_same_prefix], [as_written_drop_race_ok], [as_written_exhaustive_9]: the repaired code on the
        same state.
   2. setitem_keyerror_refuted       guarded_pop = false (the code before the repair), max_size = 1, stale start,
        2 threads: the test [len(self.dict) > self.max_size] (S2) and the act [self.dict.popitem(last=False)]
        (S3) each re-read self.dict; in between another thread that had passed D1 while the cache was stale
        executes D2 and installs an EMPTY dict: popitem raises KeyError('dictionary is empty'), uncaught.
      setitem_keyerror_fresh_refuted guarded_pop = false, caches CURRENT, max_size = 1, three identical requests
        in lock step: all three saw len = 2; the third popitem is on an empty dict.
      This is why the guard is needed.  [repaired_same_schedules]: the same two schedules with
      guarded_pop = true, continued to the end: nobody dies, everybody has the pure answer.
   3. C17_fine_example               the summary theorem on the grammar s = *x, x = "a" / 2"a", every cache
        with max_size 1, three threads: for EVERY schedule no thread dies and every finished thread has the pure
        answer; by vm_compute, on the lock-step schedule that kills the unrepaired variant all three finish.
   4. move_to_end_keyerror_harmless  G4b: KeyError out of __getitem__ after the hit was counted = a miss. *)
From Coq Require Import List NArith Arith Bool Lia.
Import ListNotations.
From ABNF Require Import Base Engine Cache EngineProg CacheRefine CacheFine2 CacheFine2Proofs1.
From ABNF Require EngineComplete.

Lemma never_pure sh G e s i f0 r :
  lparse sh G f0 e s i <> OOF -> lparse sh G f0 e s i <> r -> r <> OOF -> forall f', lparse sh G f' e s i <> r.
Proof.
  intros H0 Hne Hr f' H. destruct (Nat.le_ge_cases f' f0) as [Hle|Hle].
  - apply Hne. exact (EngineComplete.lparse_mono sh G f' f0 e s i r H Hr Hle).
  - pose proof (EngineComplete.lparse_mono sh G f0 f' e s i _ eq_refl H0 Hle) as H'. congruence.
Qed.

(* ============================================================================================ *)
(* 1. the order of D2 / D3                                                                       *)
(*    grammar: the single repetition  *"a"  (cache 0);  request: match it on "a" at 0            *)
(*    epoch 1; cache 0 is stamped 0 and holds a leftover entry (a ParseError for that key)       *)
(* ============================================================================================ *)
Definition m_key : ckey := ([97%N], 0).
Definition m_st : fstate := fun _ => mkf ckey cval [[(m_key, CErr)]] 0 None 0 0 0.
Definition m_req : req := (5, cx_rep, [97%N], 0).
Definition m_p : prog res := req_prog sh_id cx_G m_req.
Definition m_pure : res := Ok [mk [Leaf [97%N] 0 1] 1; mk [] 0].

Lemma m_pure_ok : run_pure m_p = m_pure.
Proof. vm_compute. reflexivity. Qed.
Lemma m_ids : ids_ok_G cx_G cx_rep_of.
Proof. intros r ru d H. discriminate H. Qed.
Lemma m_reqs_ok : Forall (req_ok cx_rep_of) [m_req; m_req].
Proof. repeat constructor. Qed.
Lemma m_inv : fine_inv sh_id cx_G cx_rep_of 1 m_st.
Proof. apply fine_inv_after_invalidate. intros id. cbn. lia. Qed.

Definition m_sched : list nat := [0; 0] ++ repeat 1 7.

Theorem stamp_first_refuted :
  ids_ok_G cx_G cx_rep_of /\ fine_inv sh_id cx_G cx_rep_of 1 m_st /\ Forall (req_ok cx_rep_of) [m_req; m_req] /\
  exists r, nth_error (fst (run_fine true true 1 m_st (map start (map (req_prog sh_id cx_G) [m_req; m_req])) m_sched)) 1
            = Some (TRun (Ret r) D1) /\
            r <> OOF /\ r <> run_pure m_p /\ forall f', lparse sh_id cx_G f' cx_rep [97%N] 0 <> r.
Proof.
  split; [exact m_ids|]. split; [exact m_inv|]. split; [exact m_reqs_ok|].
  exists PErr. split; [vm_compute; reflexivity|]. split; [discriminate|]. split; [rewrite m_pure_ok; discriminate|].
  apply (never_pure sh_id cx_G cx_rep [97%N] 0 5); [vm_compute; discriminate|vm_compute; discriminate|discriminate].
Qed.

(* the repaired code, same state, same schedule prefix: T1 does not see the stamp current and goes to D2 *)
Example as_written_same_prefix :
  nth_error (fst (run_fine false true 1 m_st [start m_p; start m_p] [0; 0; 1])) 1
  = Some (TRun m_p D2).
Proof. vm_compute. reflexivity. Qed.

(* T0 passes D1 (stale) | T1: D1 D2 D3, miss, computes, stores | T0: D2 (T1's entry is thrown away) D3, miss,
   computes, stores.  Three dict objects have existed: the stale one, T1's, T0's (current). *)
Example as_written_drop_race_ok :
  let '(pool', st') := run_fine false true 1 m_st [start m_p; start m_p] ([0] ++ repeat 1 11 ++ repeat 0 10) in
  pool' = [TRun (Ret m_pure) D1; TRun (Ret m_pure) D1] /\
  length (fobjs ckey cval (st' 0%N)) = 3 /\ fcur ckey cval (st' 0%N) = 2 /\ fep ckey cval (st' 0%N) = 1 /\
  obj ckey cval (st' 0%N) 0 = [(m_key, CErr)] /\
  obj ckey cval (st' 0%N) 1 = obj ckey cval (st' 0%N) 2 /\ length (obj ckey cval (st' 0%N) 2) = 1.
Proof. vm_compute. repeat split; reflexivity. Qed.

(* every interleaving of up to 9 micro-steps of the two requests, code as written: whoever has finished has
   the pure answer (an exhaustive check of 2^9 schedules, redundant with the theorem: a test of the model) *)
Fixpoint all_scheds (n : nat) : list (list nat) :=
  match n with
  | 0 => [[]]
  | S n' => flat_map (fun s => [0 :: s; 1 :: s]) (all_scheds n')
  end.
Definition done_ok (t : thread res) : bool :=
  match t with
  | TRun (Ret (Ok [m1; m2])) _ => Nat.eqb (mend m1) 1 && Nat.eqb (mend m2) 0
  | TRun (Ret _) _ => false
  | TRun _ _ => true
  | TCrash => false
  end.
Example as_written_exhaustive_9 :
  forallb (fun s => forallb done_ok (fst (run_fine false true 1 m_st [start m_p; start m_p] (s ++ repeat 1 11))))
          (all_scheds 9) = true /\
  forallb (fun s => forallb done_ok (fst (run_fine true true 1 m_st [start m_p; start m_p] (s ++ repeat 1 11))))
          (all_scheds 9) = false.
Proof. vm_compute. split; reflexivity. Qed.

(* ============================================================================================ *)
(* 2. KeyError out of __setitem__ (code as written, caches with a size limit)                    *)
(*    grammar of CacheRefine.v §6:  s = *x (cache 0),  x = "a" / 2"a" (cache 1);  source "aaa"  *)
(* ============================================================================================ *)
Definition k_req : req := (20, ERef 0%N, ex_src, 0).
Lemma k_p_eq : req_prog sh_id ex_G k_req = ex_p.
Proof. reflexivity. Qed.
Lemma k_reqs_ok n : Forall (req_ok ex_rep_of) (repeat k_req n).
Proof. induction n; cbn [repeat]; constructor; [exact I|assumption]. Qed.

(* (a) every cache: max_size 1, stamped 0, epoch 1 (the grammar has just changed) *)
Definition k_st : fstate := fun _ => mkf ckey cval [[]] 0 (Some 1) 0 0 0.
Lemma k_inv : fine_inv sh_id ex_G ex_rep_of 1 k_st.
Proof. apply fine_inv_after_invalidate. intros id. cbn. lia. Qed.

(* T1: lookup in cache 0 (7 steps), then D1 of the lookup in cache 1: stale, about to D2.
   T0: lookup 0; lookup 1 (D1 D2 D3 ..miss); store 1 ("aaa",0); lookup 1 ("aaa",2) miss; store 1 ("aaa",2):
       D1 S1a S1b S2a S2b: len = 2 > 1, about to S3a.
   T1: D2: self.dict = OrderedDict().
   T0: S3a reads the new empty dict, S3b popitem: KeyError. *)
Definition k_sched : list nat := repeat 1 8 ++ repeat 0 27 ++ [1] ++ [0; 0].

Theorem setitem_keyerror_refuted :
  ids_ok_G ex_G ex_rep_of /\ fine_inv sh_id ex_G ex_rep_of 1 k_st /\ Forall (req_ok ex_rep_of) [k_req; k_req] /\
  nth_error (fst (run_fine false false 1 k_st (map start (map (req_prog sh_id ex_G) [k_req; k_req])) k_sched)) 0
  = Some TCrash /\
  run_pure ex_p <> OOF.
Proof.
  split; [exact (proj1 ex_ids_ok)|]. split; [exact k_inv|]. split; [exact (k_reqs_ok 2)|].
  split; [vm_compute; reflexivity|vm_compute; discriminate].
Qed.

(* the step before: what T0 and T1 are about to execute *)
Example setitem_keyerror_before :
  let pool := fst (run_fine false false 1 k_st [start ex_p; start ex_p] (repeat 1 8 ++ repeat 0 27)) in
  (match nth_error pool 0 with Some (TRun (Store 1%N (_, 2) CErr _) S3a) => true | _ => false end) = true /\
  (match nth_error pool 1 with Some (TRun (Lookup 1%N (_, 0) _) D2) => true | _ => false end) = true.
Proof. vm_compute. split; reflexivity. Qed.

(* (b) caches CURRENT (stamp = epoch = 0), max_size 1, three identical requests in lock step *)
Definition k_st0 : fstate := fun _ => mkf ckey cval [[]] 0 (Some 1) 0 0 0.
Lemma k_inv0 : fine_inv sh_id ex_G ex_rep_of 0 k_st0.
Proof. intros id _. unfold obj. cbn. intros k v []. Qed.

Theorem setitem_keyerror_fresh_refuted :
  fine_inv sh_id ex_G ex_rep_of 0 k_st0 /\
  (forall id, fep ckey cval (k_st0 id) = 0) /\
  nth_error (fst (run_fine false false 0 k_st0 (map start (map (req_prog sh_id ex_G) (repeat k_req 3)))
                           (flat_map (fun _ => [0; 1; 2]) (seq 0 27)))) 2
  = Some TCrash.
Proof. split; [exact k_inv0|]. split; [reflexivity|]. vm_compute. reflexivity. Qed.

(* values are still right in those runs: the general theorem applies to the crash states *)
Example crash_state_values_ok : forall sched pool' st',
  run_fine false false 1 k_st (map start (map (req_prog sh_id ex_G) [k_req; k_req])) sched = (pool', st') ->
  forall t r q, t < 2 -> nth_error pool' t = Some (TRun (Ret r) q) -> r <> OOF -> r = run_pure ex_p.
Proof.
  intros sched pool' st' Hrun t r q Ht Hr Hne.
  assert (Hq : nth_error [k_req; k_req] t = Some k_req) by (destruct t as [|[|t]]; [reflexivity|reflexivity|lia]).
  apply (fine_sched_run_pure sh_id ex_G ex_rep_of 1 false (proj1 ex_ids_ok) sched k_st [k_req; k_req] pool' st'
           k_inv (k_reqs_ok 2) Hrun t k_req r q Hq Hr Hne).
  vm_compute. discriminate.
Qed.

(* the same two schedules with the guard, continued until everybody has finished *)
Example repaired_same_schedules :
  fst (run_fine false true 1 k_st [start ex_p; start ex_p] (k_sched ++ repeat 0 80 ++ repeat 1 80))
  = [TRun (Ret (run_pure ex_p)) D1; TRun (Ret (run_pure ex_p)) D1] /\
  fst (run_fine false true 0 k_st0 [start ex_p; start ex_p; start ex_p] (flat_map (fun _ => [0; 1; 2]) (seq 0 90)))
  = [TRun (Ret (run_pure ex_p)) D1; TRun (Ret (run_pure ex_p)) D1; TRun (Ret (run_pure ex_p)) D1].
Proof. vm_compute. split; reflexivity. Qed.

(* C17_fine on this grammar, every cache with max_size 1 and current, three threads: EVERY schedule *)
Example C17_fine_example : forall sched pool' st',
  run_fine false true 0 k_st0 (map start (map (req_prog sh_id ex_G) (repeat k_req 3))) sched = (pool', st') ->
  (forall t, nth_error pool' t <> Some TCrash) /\
  (forall t r q, t < 3 -> nth_error pool' t = Some (TRun (Ret r) q) -> r <> OOF -> r = run_pure ex_p).
Proof.
  intros sched pool' st' Hrun.
  destruct (C17_fine sh_id ex_G ex_rep_of 0 (proj1 ex_ids_ok) sched k_st0 (repeat k_req 3) pool' st'
              k_inv0 (k_reqs_ok 3) Hrun) as [Hnc [_ Hres]].
  split; [exact Hnc|]. intros t r q Ht Hr Hne.
  assert (Hq : nth_error (repeat k_req 3) t = Some k_req)
    by (destruct t as [|[|[|t]]]; [reflexivity|reflexivity|reflexivity|lia]).
  apply (proj2 (Hres t 20 (ERef 0%N) ex_src 0 r q Hq Hr Hne)). vm_compute. discriminate.
Qed.

(* ... and the lock-step schedule that kills thread 2 of the unrepaired variant at round 27 (see
   setitem_keyerror_fresh_refuted): with the guard the eviction on the emptied dict is skipped, all three
   requests run to the end and return the pure answer; cache 1 ends within its limit *)
Example C17_fine_lockstep :
  let pool0 := map start (map (req_prog sh_id ex_G) (repeat k_req 3)) in
  let lock n := flat_map (fun _ => [0; 1; 2]) (seq 0 n) in
  nth_error (fst (run_fine false false 0 k_st0 pool0 (lock 27))) 2 = Some TCrash /\
  (match nth_error (fst (run_fine false true 0 k_st0 pool0 (lock 27))) 2 with
   | Some (TRun (Lookup 1%N (_, 1) _) D1) => true | _ => false end) = true /\
  let '(pool', st') := run_fine false true 0 k_st0 pool0 (lock 90) in
  pool' = [TRun (Ret (run_pure ex_p)) D1; TRun (Ret (run_pure ex_p)) D1; TRun (Ret (run_pure ex_p)) D1] /\
  length (obj ckey cval (st' 1%N) (fcur ckey cval (st' 1%N))) <= 1.
Proof. vm_compute. repeat split; reflexivity. Qed.

(* ============================================================================================ *)
(* 3. KeyError out of __getitem__ at move_to_end: taken for a miss, harmless                     *)
(* ============================================================================================ *)
Definition h_p1 : prog res := lparse_p sh_id ex_G 20 (ERef 1%N) ex_src 2.   (* x on "aaa" at 2 *)
Definition h_p2 : prog res := lparse_p sh_id ex_G 20 (ERef 1%N) ex_src 0.   (* x on "aaa" at 0 *)

(* T0 runs to the end (cache 1 = {("aaa",2): ParseError}); T1: D1 G1a G1b (hit) G3a G3b G4a, about to
   move_to_end; T2: miss, computes, stores ("aaa",0): len 2 > 1, popitem evicts ("aaa",2);
   T1: move_to_end raises KeyError -> a miss -> recomputes *)
Example move_to_end_keyerror_harmless :
  let pool0 := [start ex_p; start h_p1; start h_p2] in
  let s1 := repeat 0 80 ++ repeat 1 6 ++ repeat 2 12 in
  let '(pool1, st1) := run_fine false true 0 k_st0 pool0 s1 in
  let '(pool2, st2) := run_fine false true 0 k_st0 pool0 (s1 ++ [1]) in
  let '(pool3, st3) := run_fine false true 0 k_st0 pool0 (s1 ++ repeat 1 30) in
  (match nth_error pool1 1 with Some (TRun (Lookup 1%N (_, 2) _) (G4b CErr 0)) => true | _ => false end) = true /\
  lookup ckey cval ckey_eqb (ex_src, 2) (obj ckey cval (st1 1%N) 0) = None /\
  (match nth_error pool2 1 with Some (TRun (Store 1%N (_, 2) CErr _) D1) => true | _ => false end) = true /\
  fhits ckey cval (st2 1%N) = 1 /\
  pool3 = [TRun (Ret (run_pure ex_p)) D1; TRun (Ret (run_pure h_p1)) D1; TRun (Ret (run_pure h_p2)) D1].
Proof. vm_compute. repeat split; reflexivity. Qed.

Print Assumptions stamp_first_refuted.
Print Assumptions as_written_drop_race_ok.
Print Assumptions as_written_exhaustive_9.
Print Assumptions setitem_keyerror_refuted.
Print Assumptions setitem_keyerror_fresh_refuted.
Print Assumptions crash_state_values_ok.
Print Assumptions move_to_end_keyerror_harmless.
Print Assumptions repaired_same_schedules.
Print Assumptions C17_fine_example.
Print Assumptions C17_fine_lockstep.
