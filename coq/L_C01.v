(* L_C01.v — assembles the statement of property C01 from soundness, completeness, termination. *)
From Coq Require Import List NArith Arith Bool Lia Permutation.
Import ListNotations.
From ABNF Require Import Base Engine Spec Wf Checks EngineSound EngineComplete EngineTerm.

Lemma defined_closed_expr G r : defined G r -> closed_expr G (ERef r).
Proof. intros H x [<-|[]]. exact H. Qed.

(* ends_lib(G,r,s,i) = [[r]]_G(s,i): from some fuel on, the engine answers, and the set of end
   offsets it lists is exactly the set the RFC relation M defines *)
Lemma c01 sh nul rank G : perm_oracle sh -> wf nul rank G -> closed G -> plain G ->
  forall r s i, defined G r -> i <= length s ->
  exists f, forall f', f <= f' ->
    lparse sh G f' (ERef r) s i <> OOF /\ lparse sh G f' (ERef r) s i <> GErr /\
    (forall j, In j (ends (lparse sh G f' (ERef r) s i)) <-> M G s (ERef r) i j).
Proof.
  intros Hsh Hwf Hcl Hpl r s i Hdef Hi.
  assert (HWBG : WBG G) by exact (proj1 Hwf).
  assert (HWB : WB (ERef r)) by constructor.
  assert (HNF : NoFM (ERef r)) by constructor.
  destruct (lparse_total sh nul rank G Hsh Hwf (ERef r) s i HWB Hi) as [f Hf].
  exists f. intros f' Hle. specialize (Hf f' Hle).
  assert (Hg : lparse sh G f' (ERef r) s i <> GErr).
  { apply lparse_closed; [exact Hcl|apply defined_closed_expr; exact Hdef]. }
  split; [exact Hf|]. split; [exact Hg|].
  intros j. destruct (lparse sh G f' (ERef r) s i) as [ms| | |] eqn:E; simpl.
  - split.
    + intros Hin. apply in_map_iff in Hin. destruct Hin as [m [<- Hm]].
      eapply lparse_sound_ends; eauto.
    + intros HM. destruct (lparse_complete sh G Hsh Hpl HWBG f' (ERef r) s i ms j HNF HWB E Hi HM) as [m [Hm <-]].
      apply in_map. exact Hm.
  - split; [intros []|]. intros HM. exfalso.
    exact (lparse_perr sh G Hsh Hpl HWBG f' (ERef r) s i j HNF HWB E Hi HM).
  - exfalso; apply Hg; reflexivity.
  - exfalso; apply Hf; reflexivity.
Qed.

(* the literal clause of M: case-insensitivity is over US-ASCII letters only *)
Lemma fold_ascii_only c :
  fold_cp c = (if (65 <=? c)%N && (c <=? 90)%N then (c + 32)%N else c).
Proof. reflexivity. Qed.
Lemma fold_cp_nonascii c : (127 < c)%N -> fold_cp c = c.
Proof.
  intros H. unfold fold_cp. destruct (c <=? 90)%N eqn:E; [|rewrite andb_false_r; reflexivity].
  apply N.leb_le in E. lia.
Qed.

(* clause-by-clause reading of M (inversion lemmas), so that the property's text can be checked
   against the relation: *)
Lemma M_alt_iff G s fm es i j : M G s (EAlt fm es) i j <-> exists e, In e es /\ M G s e i j.
Proof. split; [intros H; inversion H; subst; eauto|intros [e [H1 H2]]; econstructor; eauto]. Qed.
Lemma M_cat_cons_iff G s e es i k : M G s (ECat (e :: es)) i k <-> exists j, M G s e i j /\ M G s (ECat es) j k.
Proof. split; [intros H; inversion H; subst; eauto|intros [j [H1 H2]]; econstructor; eauto]. Qed.
Lemma M_rep_iff G s id mn mx e i j :
  M G s (ERep id mn mx e) i j <-> exists n, mn <= n /\ (forall m, mx = Some m -> n <= m) /\ MI G s e n i j.
Proof. split; [intros H; inversion H; subst; eauto|intros [n [H1 [H2 H3]]]; econstructor; eauto]. Qed.
Lemma M_opt_iff G s id e i j :
  M G s (ERep id 0 (Some 1) e) i j <-> (i = j /\ i <= length s) \/ M G s e i j.
Proof.
  rewrite M_rep_iff. split.
  - intros [n [_ [Hmx HMI]]]. specialize (Hmx 1 eq_refl).
    destruct n as [|[|n]]; [|inversion HMI as [|? ? ? ? ? Ha Hb]; subst; inversion Hb; subst; right; exact Ha|lia].
    inversion HMI; subst. left; auto.
  - intros [[<- Hi]|HM].
    + exists 0. repeat split; auto. intros m Hm; inversion Hm; lia. constructor; exact Hi.
    + exists 1. repeat split; auto. intros m Hm; inversion Hm; lia.
      econstructor; [exact HM|]. constructor.
      destruct (M_bounds G s e i j HM) as [_ Hj]. exact Hj.
Qed.
Lemma M_empty_lit G s cs i : M G s (ELit cs []) i i <-> i <= length s.
Proof.
  split.
  - intros H. inversion H as [cs' v i' [Hl _]| | | | | |]; subst. simpl in Hl. lia.
  - intros Hi. replace i with (i + length (@nil cp)) at 2 by (simpl; lia). constructor.
    split; [simpl; lia|]. unfold slice. simpl. destruct cs; reflexivity.
Qed.
Lemma M_prose_never G s i j : ~ M G s EProse i j.
Proof. intros H; inversion H. Qed.
