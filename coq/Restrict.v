(* Restrict.v — the engine and the relation M, run on an expression e, depend only on the part of the
   grammar REACHABLE from e.  A theorem proved for a restricted (e.g. plain) sub-grammar therefore
   transfers to the big grammar that contains it.
   Executable side: [restrict] (filter an association list), [reach] (untrusted fuel-bounded closure),
   [closed_under_check] (the verified check; only this one is trusted). *)
From Coq Require Import List NArith Arith Bool Lia.
Import ListNotations.
From ABNF Require Import Base Engine Spec Wf Checks EngineSound.

Definition agree_on (keep : list rid) (G1 G2 : grammar) : Prop :=
  forall r, In r keep -> G1 r = G2 r.

(* keep is closed under "is referenced by" and "is excluded by" in G *)
Definition closed_under (keep : list rid) (G : grammar) : Prop :=
  forall r ru, In r keep -> G r = Some ru ->
    (forall x, rexcl ru = Some x -> In x keep) /\
    (forall d, rdef ru = Some d -> incl (refs d) keep).

Lemma agree_on_sym keep G1 G2 : agree_on keep G1 G2 -> agree_on keep G2 G1.
Proof. intros H r Hr. symmetry. apply H. exact Hr. Qed.

Lemma closed_under_agree keep G1 G2 :
  agree_on keep G1 G2 -> closed_under keep G1 -> closed_under keep G2.
Proof.
  intros Ha Hc r ru Hr HG. apply (Hc r ru Hr). rewrite (Ha r Hr). exact HG.
Qed.

Lemma incl_flat_map_refs (es : list expr) keep :
  incl (flat_map refs es) keep -> Forall (fun e => incl (refs e) keep) es.
Proof.
  intros H. apply Forall_forall. intros e He x Hx. apply H. apply in_flat_map.
  exists e. split; assumption.
Qed.

(* ------------------------------------------------------------------ *)
(* the engine                                                           *)
(* ------------------------------------------------------------------ *)
Section Restrict.
  Variable sh : list mtch -> list mtch.
  Variables G1 G2 : grammar.
  Variable keep : list rid.
  Hypothesis HA : agree_on keep G1 G2.
  Hypothesis HC : closed_under keep G1.

  Let K (e : expr) : Prop := incl (refs e) keep.

  Lemma step_restrict rec1 rec2 k :
    (forall e, incl (refs e) keep -> forall s i, rec1 e s i = rec2 e s i) ->
    forall e, incl (refs e) keep -> forall s i, step sh G1 rec1 k e s i = step sh G2 rec2 k e s i.
  Proof.
    intros Hrec.
    assert (Halt : forall fm es, Forall K es ->
               forall s i acc, alt_loop rec1 fm es s i acc = alt_loop rec2 fm es s i acc).
    { intros fm es HF; induction HF as [|e es He HF IH]; intros s i acc; simpl; [reflexivity|].
      rewrite (Hrec e He). destruct (rec2 e s i); auto. destruct fm; auto. }
    assert (Hext : forall e, K e -> forall s ms, extend rec1 e s ms = extend rec2 e s ms).
    { intros e He s ms; induction ms as [|m ms IH]; simpl; [reflexivity|].
      rewrite (Hrec e He), IH. reflexivity. }
    assert (Hcl : forall es, Forall K es ->
               forall s cur, cat_loop rec1 es s cur = cat_loop rec2 es s cur).
    { intros es HF; induction HF as [|e es He HF IH]; intros s cur; simpl; [reflexivity|].
      rewrite (Hext e He). destruct (extend rec2 e s cur) as [[|x xs]| | |]; auto. }
    assert (Hcat : forall es, Forall K es -> forall s i, cat rec1 es s i = cat rec2 es s i).
    { intros es HF s i. unfold cat. rewrite (Hcl es HF). reflexivity. }
    assert (Hrl : forall e, K e -> forall k0 mx s count mset last,
               rep_loop sh rec1 k0 e mx s count mset last = rep_loop sh rec2 k0 e mx s count mset last).
    { intros e He k0; induction k0 as [|k0 IH]; intros mx s count mset last; simpl; [reflexivity|].
      destruct (match mx with Some m => Nat.eqb count m | None => false end); [reflexivity|].
      rewrite (Hext e He). destruct (extend rec2 e s (sort_desc (sh last))); auto.
      destruct (subset (set_of ms) mset); auto. }
    assert (Hrep : forall e, K e -> forall k0 mn mx s i,
               rep sh rec1 k0 mn mx e s i = rep sh rec2 k0 mn mx e s i).
    { intros e He k0 mn mx s i. unfold rep. destruct mn; [apply Hrl; exact He|].
      assert (HF : Forall K (repeat e (S mn))).
      { apply Forall_forall. intros x Hx. apply repeat_spec in Hx. subst x. exact He. }
      rewrite (Hcat _ HF).
      destruct (cat rec2 (repeat e (S mn)) s i); auto. }
    assert (Hex : forall x, (forall r, x = Some r -> In r keep) ->
               forall m, excluded sh rec1 x m = excluded sh rec2 x m).
    { intros x Hx m. unfold excluded. destruct x as [r|]; [|reflexivity].
      assert (Hr : K (ERef r)).
      { intros y Hy. simpl in Hy. destruct Hy as [<-|[]]. apply Hx. reflexivity. }
      rewrite (Hrec _ Hr). reflexivity. }
    assert (Hfe : forall x, (forall r, x = Some r -> In r keep) ->
               forall ms, filter_excl sh rec1 x ms = filter_excl sh rec2 x ms).
    { intros x Hx ms; induction ms as [|m ms IH]; simpl; [reflexivity|].
      rewrite (Hex x Hx), IH. reflexivity. }
    intros e He s i. destruct e as [cs v|lo hi|fm es|es|id mn mx e'| |r]; simpl.
    - reflexivity.
    - reflexivity.
    - apply Halt. apply incl_flat_map_refs. exact He.
    - apply Hcat. apply incl_flat_map_refs. exact He.
    - apply Hrep. exact He.
    - reflexivity.
    - assert (Hr : In r keep) by (apply He; simpl; auto).
      unfold ref. rewrite <- (HA r Hr). destruct (G1 r) as [ru|] eqn:EG; [|reflexivity].
      destruct (HC r ru Hr EG) as [Hx Hd].
      destruct (rdef ru) as [d|] eqn:Ed; [|reflexivity].
      rewrite (Hrec d (Hd d eq_refl)). destruct (rec2 d s i); auto.
      rewrite (Hfe _ Hx). reflexivity.
  Qed.

  Theorem lparse_restrict_sec :
    forall f e s i, incl (refs e) keep -> lparse sh G1 f e s i = lparse sh G2 f e s i.
  Proof.
    induction f as [|f IH]; intros e s i He; simpl; [reflexivity|].
    apply step_restrict; [|exact He]. intros e' He' s' i'. apply IH. exact He'.
  Qed.
End Restrict.

Theorem lparse_restrict sh G1 G2 keep : agree_on keep G1 G2 -> closed_under keep G1 ->
  forall f e s i, incl (refs e) keep -> lparse sh G1 f e s i = lparse sh G2 f e s i.
Proof. intros HA HC. apply lparse_restrict_sec; assumption. Qed.

Theorem parse_restrict sh G1 G2 keep : agree_on keep G1 G2 -> closed_under keep G1 ->
  forall f r s i, In r keep -> parse sh G1 f r s i = parse sh G2 f r s i.
Proof.
  intros HA HC f r s i Hr. unfold parse.
  rewrite (lparse_restrict sh G1 G2 keep HA HC f (ERef r) s i); [reflexivity|].
  intros x Hx. simpl in Hx. destruct Hx as [<-|[]]. exact Hr.
Qed.

Theorem parse_all_restrict sh G1 G2 keep : agree_on keep G1 G2 -> closed_under keep G1 ->
  forall f r s, In r keep -> parse_all sh G1 f r s = parse_all sh G2 f r s.
Proof.
  intros HA HC f r s Hr. unfold parse_all.
  rewrite (parse_restrict sh G1 G2 keep HA HC f r s 0 Hr). reflexivity.
Qed.

(* ------------------------------------------------------------------ *)
(* the relation M                                                       *)
(* ------------------------------------------------------------------ *)
Lemma M_restrict_fwd G1 G2 keep : agree_on keep G1 G2 -> closed_under keep G1 ->
  forall s,
  (forall e i j, M G1 s e i j -> incl (refs e) keep -> M G2 s e i j) /\
  (forall e n i j, MI G1 s e n i j -> incl (refs e) keep -> MI G2 s e n i j).
Proof.
  intros HA HC s.
  apply (M_MI_mut G1 s (fun e i j => incl (refs e) keep -> M G2 s e i j)
                       (fun e n i j => incl (refs e) keep -> MI G2 s e n i j)).
  - intros cs v i Hl _. apply M_lit. exact Hl.
  - intros lo hi i c Hn Hlo Hhi _. eapply M_range; eassumption.
  - intros fm es e i j Hin _ IH HK. eapply M_alt; [exact Hin|]. apply IH.
    intros x Hx. apply HK. simpl. apply in_flat_map. exists e. split; assumption.
  - intros i Hi _. apply M_cat_nil. exact Hi.
  - intros e es i j k _ IH1 _ IH2 HK. simpl in HK.
    apply incl_app_inv in HK. destruct HK as [HK1 HK2].
    eapply M_cat_cons; [apply IH1; exact HK1|apply IH2; exact HK2].
  - intros id mn mx e i j n _ IH Hmn Hmx HK. eapply M_rep; [apply IH; exact HK|exact Hmn|exact Hmx].
  - intros r ru d i j HG Hd _ IH HK.
    assert (Hr : In r keep) by (apply HK; simpl; auto).
    destruct (HC r ru Hr HG) as [_ Hdd].
    eapply M_ref; [rewrite <- (HA r Hr); exact HG|exact Hd|]. apply IH. apply Hdd. exact Hd.
  - intros e i Hi _. apply MI_0. exact Hi.
  - intros e n i j k _ IH1 _ IH2 HK. eapply MI_S; [apply IH1; exact HK|apply IH2; exact HK].
Qed.

Theorem M_restrict G1 G2 keep : agree_on keep G1 G2 -> closed_under keep G1 ->
  forall s e i j, incl (refs e) keep -> (M G1 s e i j <-> M G2 s e i j).
Proof.
  intros HA HC s e i j HK. split; intros HM.
  - exact (proj1 (M_restrict_fwd G1 G2 keep HA HC s) e i j HM HK).
  - exact (proj1 (M_restrict_fwd G2 G1 keep (agree_on_sym _ _ _ HA)
                                 (closed_under_agree _ _ _ HA HC) s) e i j HM HK).
Qed.

Theorem MI_restrict G1 G2 keep : agree_on keep G1 G2 -> closed_under keep G1 ->
  forall s e n i j, incl (refs e) keep -> (MI G1 s e n i j <-> MI G2 s e n i j).
Proof.
  intros HA HC s e n i j HK. split; intros HM.
  - exact (proj2 (M_restrict_fwd G1 G2 keep HA HC s) e n i j HM HK).
  - exact (proj2 (M_restrict_fwd G2 G1 keep (agree_on_sym _ _ _ HA)
                                 (closed_under_agree _ _ _ HA HC) s) e n i j HM HK).
Qed.

(* ------------------------------------------------------------------ *)
(* executable side: grammars as association lists                       *)
(* ------------------------------------------------------------------ *)
Definition memr (x : rid) (keep : list rid) : bool := existsb (N.eqb x) keep.

Lemma memr_In x keep : memr x keep = true <-> In x keep.
Proof.
  unfold memr. rewrite existsb_exists. split.
  - intros [y [Hy He]]. apply N.eqb_eq in He. subst y. exact Hy.
  - intros H. exists x. split; [exact H|apply N.eqb_refl].
Qed.

Definition restrict (l : list (rid * rule)) (keep : list rid) : list (rid * rule) :=
  filter (fun p => existsb (N.eqb (fst p)) keep) l.

(* of_list = first binding wins, and filtering keeps every binding of a kept key *)
Lemma of_list_restrict l keep r : In r keep -> of_list (restrict l keep) r = of_list l r.
Proof.
  intros Hr. unfold of_list, restrict.
  match goal with |- match ?a with _ => _ end = match ?b with _ => _ end => assert (H : a = b) end.
  { induction l as [|p l IH]; [reflexivity|].
    cbn [filter find].
    match goal with |- context [if ?b then _ :: _ else _] => destruct b eqn:Ek end; cbn [find].
    - match goal with |- context [if ?b then Some _ else _] => destruct b end;
        [reflexivity|exact IH].
    - match goal with |- context [if ?b then Some _ else _] => destruct b eqn:Er end; [|exact IH].
      apply N.eqb_eq in Er. subst r. apply memr_In in Hr. unfold memr in Hr.
      discriminate (eq_trans (eq_sym Hr) Ek). }
  rewrite H. reflexivity.
Qed.

Lemma agree_on_restrict l keep : agree_on keep (of_list l) (of_list (restrict l keep)).
Proof. intros r Hr. symmetry. apply of_list_restrict. exact Hr. Qed.

(* the rules that rule r mentions directly: its exclusion and the references of its definition *)
Definition succs (l : list (rid * rule)) (r : rid) : list rid :=
  match of_list l r with
  | None => []
  | Some ru =>
    (match rexcl ru with Some x => [x] | None => [] end) ++
    (match rdef ru with Some d => refs d | None => [] end)
  end.

(* reachable closure: [fuel] rounds; each round adds the not-yet-seen successors of everything seen.
   [length l] rounds always suffice.  UNTRUSTED: only [closed_under_check] below is relied on. *)
Fixpoint reach (l : list (rid * rule)) (fuel : nat) (roots : list rid) : list rid :=
  match fuel with
  | 0 => roots
  | S f =>
    match nodup N.eq_dec (filter (fun x => negb (memr x roots)) (flat_map (succs l) roots)) with
    | [] => roots
    | new => reach l f (roots ++ new)
    end
  end.

Definition closed_under_check (l : list (rid * rule)) (keep : list rid) : bool :=
  forallb (fun r =>
    match of_list l r with
    | None => true
    | Some ru =>
      match rexcl ru with Some x => memr x keep | None => true end &&
      match rdef ru with Some d => forallb (fun x => memr x keep) (refs d) | None => true end
    end) keep.

Lemma closed_under_check_sound l keep :
  closed_under_check l keep = true -> closed_under keep (of_list l).
Proof.
  unfold closed_under_check. rewrite forallb_forall. intros H r ru Hr HG.
  specialize (H r Hr). rewrite HG in H. apply andb_true_iff in H. destruct H as [Hx Hd]. split.
  - intros x Ex. rewrite Ex in Hx. apply memr_In. exact Hx.
  - intros d Ed x Hin. rewrite Ed in Hd. apply memr_In.
    apply (proj1 (forallb_forall _ _) Hd). exact Hin.
Qed.

Corollary restrict_transfer sh l keep : closed_under_check l keep = true ->
  forall f e s i, incl (refs e) keep ->
    lparse sh (of_list l) f e s i = lparse sh (of_list (restrict l keep)) f e s i.
Proof.
  intros H. apply (lparse_restrict sh _ _ keep).
  - apply agree_on_restrict.
  - apply closed_under_check_sound. exact H.
Qed.

Corollary parse_restrict_transfer sh l keep : closed_under_check l keep = true ->
  forall f r s i, In r keep ->
    parse sh (of_list l) f r s i = parse sh (of_list (restrict l keep)) f r s i.
Proof.
  intros H. apply (parse_restrict sh _ _ keep).
  - apply agree_on_restrict.
  - apply closed_under_check_sound. exact H.
Qed.

Corollary parse_all_restrict_transfer sh l keep : closed_under_check l keep = true ->
  forall f r s, In r keep ->
    parse_all sh (of_list l) f r s = parse_all sh (of_list (restrict l keep)) f r s.
Proof.
  intros H. apply (parse_all_restrict sh _ _ keep).
  - apply agree_on_restrict.
  - apply closed_under_check_sound. exact H.
Qed.

Corollary M_restrict_transfer l keep : closed_under_check l keep = true ->
  forall s e i j, incl (refs e) keep ->
    (M (of_list l) s e i j <-> M (of_list (restrict l keep)) s e i j).
Proof.
  intros H. apply (M_restrict _ _ keep).
  - apply agree_on_restrict.
  - apply closed_under_check_sound. exact H.
Qed.

(* ------------------------------------------------------------------ *)
(* non-vacuity: rule 3 has a first-match alternation (and mentions rule 0), but is not reachable
   from rule 0; the restriction to what rule 0 reaches is plain although the whole list is not.
   0: a = b c      1: b = "x" b / "x"      2: c = "y"      3: d = first-match( "a" / a ) *)
Definition ex_list : list (rid * rule) :=
  [ (0%N, {| rname := [97%N];  rdef := Some (ECat [ERef 1%N; ERef 2%N]); rexcl := None |});
    (1%N, {| rname := [98%N];
             rdef := Some (EAlt false [ECat [ELit false [120%N]; ERef 1%N]; ELit false [120%N]]);
             rexcl := None |});
    (2%N, {| rname := [99%N];  rdef := Some (ELit false [121%N]); rexcl := None |});
    (3%N, {| rname := [100%N]; rdef := Some (EAlt true [ELit false [97%N]; ERef 0%N]); rexcl := None |}) ].

Example ex_reach : reach ex_list 10 [0%N] = [0%N; 1%N; 2%N].
Proof. vm_compute. reflexivity. Qed.

Example ex_reach_no3 : memr 3%N (reach ex_list 10 [0%N]) = false.
Proof. vm_compute. reflexivity. Qed.

Example ex_closed : closed_under_check ex_list (reach ex_list 10 [0%N]) = true.
Proof. vm_compute. reflexivity. Qed.

Example ex_plain_big : plain_check ex_list = false.
Proof. vm_compute. reflexivity. Qed.

Example ex_plain_restricted : plain_check (restrict ex_list (reach ex_list 10 [0%N])) = true.
Proof. vm_compute. reflexivity. Qed.

(* the transfer in action: the engine on rule 0 in the big list = the engine on the plain sub-list *)
Example ex_transfer f s i :
  lparse sh_id (of_list ex_list) f (ERef 0%N) s i =
  lparse sh_id (of_list (restrict ex_list (reach ex_list 10 [0%N]))) f (ERef 0%N) s i.
Proof.
  apply restrict_transfer; [exact ex_closed|].
  rewrite ex_reach. intros x Hx. simpl in Hx. destruct Hx as [<-|[]]. simpl. auto.
Qed.

(* the check is not vacuous: it rejects a keep-set that is not closed *)
Example ex_not_closed : closed_under_check ex_list [0%N; 1%N] = false.
Proof. vm_compute. reflexivity. Qed.

Print Assumptions lparse_restrict.
Print Assumptions parse_restrict.
Print Assumptions parse_all_restrict.
Print Assumptions M_restrict.
Print Assumptions of_list_restrict.
Print Assumptions restrict_transfer.
Print Assumptions M_restrict_transfer.
Print Assumptions closed_under_check_sound.
