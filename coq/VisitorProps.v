(* VisitorProps.v — properties of the Visitor.v model (ABNFGrammarNodeVisitor, CharValNodeVisitor,
   NumValVisitor of src/abnf/parser.py).

   1. [ast_of]: a pure abstraction tree -> aexpr (no registry), same structure as [visit_e].
   2. [visit_e_compile]: the visitor is "compile after ast_of" (registry, ids and expression EXACTLY equal);
      [visit_e_total_partial]: the converse, for trees whose first-argument nodes have one argument
      ([visit_e_total_counterexample] shows why the restriction is needed).
   3. [v_rule_define], [v_rulelist_define]: rule level.
   4. decoding specs: [py_int_dec], [v_repeat_spec], [read_value_spec], [v_num_val_spec], [v_char_val_spec],
      [prose_spec]; digit strings of ARBITRARY length.
   5. [same_modulo_layout], [layout_independent], [layout_independent_visit], [ast_of_insert_layout].  *)
From Coq Require Import String Ascii List NArith Arith Bool Lia.
Import ListNotations.
From ABNF Require Import Base Engine AbnfRead Registry GenTypes Visit Visitor.

Arguments key_is : simpl never.
Arguments name_is : simpl never.
Arguments s_of : simpl never.
Arguments produces_expr : simpl never.
Arguments nvalue : simpl never.

(* ------------------------------------------------------------------------------------------ *)
(** * 0. Tools *)

Section NodeInd.
  Variable P : node -> Prop.
  Hypothesis Hleaf : forall v off len, P (Leaf v off len).
  Hypothesis Hnd : forall nm ch, Forall P ch -> P (Nd nm ch).
  Fixpoint node_ind3 (n : node) : P n :=
    match n with
    | Leaf v off len => Hleaf v off len
    | Nd nm ch => Hnd nm ch ((fix go (l : list node) : Forall P l :=
        match l with [] => Forall_nil P | x :: r => Forall_cons x (node_ind3 x) (go r) end) ch)
    end.
End NodeInd.

Lemma seqb_eq : forall a b, str_eqb a b = true <-> a = b.
Proof.
  induction a as [|x a IH]; destruct b as [|y b]; simpl; split; intros H;
    try reflexivity; try discriminate.
  - apply andb_true_iff in H. destruct H as [H1 H2]. apply N.eqb_eq in H1. apply IH in H2.
    subst. reflexivity.
  - inversion H; subst. apply andb_true_iff. split; [apply N.eqb_refl | apply IH; reflexivity].
Qed.
Lemma seqb_refl : forall a, str_eqb a a = true.
Proof. intros a. apply seqb_eq. reflexivity. Qed.

(* dispatch keys: a node has ONE key *)
Lemma key_is_true : forall n k, key_is n k = true -> dispatch_key (node_name n) = s_of k.
Proof. intros n k H. unfold key_is in H. apply seqb_eq in H. exact H. Qed.

Lemma key_excl : forall n k1 k2,
  key_is n k1 = true -> str_eqb (s_of k1) (s_of k2) = false -> key_is n k2 = false.
Proof. intros n k1 k2 H1 H2. unfold key_is. rewrite (key_is_true n k1 H1). exact H2. Qed.

Lemma key_is_name : forall nm ch ch' k, key_is (Nd nm ch) k = key_is (Nd nm ch') k.
Proof. reflexivity. Qed.

Lemma name_is_node_name : forall x k, name_is x k = str_eqb (node_name x) (s_of k).
Proof. intros [v o l|nm ch] k; reflexivity. Qed.

(* [key_no H]: from H : key_is n k1 = true, solve  key_is n k2 = false  for concrete k1 <> k2 *)
Ltac key_no H := apply (key_excl _ _ _ H); vm_compute; reflexivity.

(* ------------------------------------------------------------------------------------------ *)
(** * 1. The pure abstraction *)

(* the two leaf visitors return Literal objects: as syntax *)
Definition unexpr (e : expr) : option aexpr :=
  match e with
  | ELit cs v => Some (ALit cs v)
  | ERange lo hi => Some (ARange lo hi)
  | _ => None
  end.

(* what the handler of node [n] (children [ch]) does with the list of its arguments; the handlers that
   take "the first argument" are given EXACTLY one (see visit_e_total_counterexample) *)
Definition ast_combine (n : node) (ch : list node) (es : list aexpr) : option aexpr :=
  if key_is n "alternation" then
    match es with [] => None | [e] => Some e | _ => Some (AAlt es) end
  else if key_is n "concatenation" then
    match es with [] => None | [e] => Some e | _ => Some (ACat es) end
  else if key_is n "repetition" then
    match ch, es with
    | r0 :: _, [e] =>
      if name_is r0 "repeat" then
        match v_repeat r0 with Some (mn, mx) => Some (ARep mn mx e) | None => None end
      else if name_is r0 "element" then Some e else None
    | _, _ => None
    end
  else if key_is n "option" then
    match es with [e] => Some (AOpt e) | _ => None end
  else if key_is n "element" || key_is n "elements" || key_is n "group" then
    match es with [e] => Some e | _ => None end
  else None.

Fixpoint ast_of (n : node) : option aexpr :=
  match n with
  | Leaf _ _ _ => None
  | Nd nm ch =>
    if key_is n "rulename" then Some (ARef (nvalue n))
    else if key_is n "char_val" then match v_char_val n with Some e => unexpr e | None => None end
    else if key_is n "num_val" then match v_num_val n with Some e => unexpr e | None => None end
    else if key_is n "prose_val" then
      let t := strip_ends (nvalue n) in
      if is_rulename t then Some (ARef t) else Some (AProse t)
    else
      match (fix go (l : list node) : option (list aexpr) :=
               match l with
               | [] => Some []
               | x :: r =>
                 if produces_expr x then
                   match ast_of x with
                   | Some a => match go r with Some es => Some (a :: es) | None => None end
                   | None => None
                   end
                 else go r
               end) ch with
      | None => None
      | Some es => ast_combine n ch es
      end
  end.

(* the nested [fix]es, named *)
Definition args_a := fix go (l : list node) : option (list aexpr) :=
  match l with
  | [] => Some []
  | x :: r =>
    if produces_expr x then
      match ast_of x with
      | Some a => match go r with Some es => Some (a :: es) | None => None end
      | None => None
      end
    else go r
  end.

Lemma ast_of_Nd : forall nm ch,
  ast_of (Nd nm ch) =
  let n := Nd nm ch in
  if key_is n "rulename" then Some (ARef (nvalue n))
  else if key_is n "char_val" then match v_char_val n with Some e => unexpr e | None => None end
  else if key_is n "num_val" then match v_num_val n with Some e => unexpr e | None => None end
  else if key_is n "prose_val" then
    let t := strip_ends (nvalue n) in
    if is_rulename t then Some (ARef t) else Some (AProse t)
  else match args_a ch with None => None | Some es => ast_combine n ch es end.
Proof. reflexivity. Qed.

Definition args_v (c : cls) := fix go (l : list node) (R0 : reg) : option (reg * list expr) :=
  match l with
  | [] => Some (R0, [])
  | x :: r =>
    if produces_expr x then
      match visit_e c x R0 with
      | Some (R1, e) => match go r R1 with Some (R2, es) => Some (R2, e :: es) | None => None end
      | None => None
      end
    else go r R0
  end.

Definition v_combine (n : node) (ch : list node) (R1 : reg) (es : list expr) : option (reg * expr) :=
  if key_is n "alternation" then
    match es with [] => None | [e] => Some (R1, e) | _ => Some (R1, EAlt false es) end
  else if key_is n "concatenation" then
    match es with [] => None | [e] => Some (R1, e) | _ => Some (R1, ECat es) end
  else if key_is n "repetition" then
    match ch, es with
    | r0 :: _, e :: _ =>
      if name_is r0 "repeat" then
        match v_repeat r0 with Some (mn, mx) => Some (fresh_rep R1 mn mx e) | None => None end
      else if name_is r0 "element" then Some (R1, e) else None
    | _, _ => None
    end
  else if key_is n "option" then
    match es with e :: _ => Some (fresh_rep R1 0 (Some 1) e) | [] => None end
  else if key_is n "element" || key_is n "elements" || key_is n "group" then
    match es with e :: _ => Some (R1, e) | [] => None end
  else None.

Lemma visit_e_Nd : forall c nm ch R,
  visit_e c (Nd nm ch) R =
  let n := Nd nm ch in
  if key_is n "rulename" then let '(R1, k) := rnew R c (nvalue n) in Some (R1, ERef (N.of_nat k))
  else if key_is n "char_val" then match v_char_val n with Some e => Some (R, e) | None => None end
  else if key_is n "num_val" then match v_num_val n with Some e => Some (R, e) | None => None end
  else if key_is n "prose_val" then
    let t := strip_ends (nvalue n) in
    if is_rulename t then let '(R1, k) := rnew R c t in Some (R1, ERef (N.of_nat k)) else Some (R, EProse)
  else match args_v c ch R with None => None | Some (R1, es) => v_combine n ch R1 es end.
Proof. reflexivity. Qed.

(* [compile], one step *)
Definition compile_list (c : cls) := fix go (l : list aexpr) (R0 : reg) : reg * list expr :=
  match l with
  | [] => (R0, [])
  | x :: r => let '(R1, e1) := compile c x R0 in
              let '(R2, r2) := go r R1 in (R2, e1 :: r2)
  end.
Lemma compile_AAlt : forall c es R,
  compile c (AAlt es) R = let '(R', es') := compile_list c es R in (R', EAlt false es').
Proof. reflexivity. Qed.
Lemma compile_ACat : forall c es R,
  compile c (ACat es) R = let '(R', es') := compile_list c es R in (R', ECat es').
Proof. reflexivity. Qed.
Lemma compile_ARep : forall c mn mx e R,
  compile c (ARep mn mx e) R = let '(R1, e1) := compile c e R in fresh_rep R1 mn mx e1.
Proof. reflexivity. Qed.
Lemma compile_AOpt : forall c e R,
  compile c (AOpt e) R = let '(R1, e1) := compile c e R in fresh_rep R1 0 (Some 1) e1.
Proof. reflexivity. Qed.
Lemma compile_ARef : forall c name R,
  compile c (ARef name) R = let '(R1, n) := rnew R c name in (R1, ERef (N.of_nat n)).
Proof. reflexivity. Qed.
Lemma compile_list_cons : forall c a r R,
  compile_list c (a :: r) R =
  let '(R1, e1) := compile c a R in let '(R2, r2) := compile_list c r R1 in (R2, e1 :: r2).
Proof. reflexivity. Qed.

Lemma compile_list_length : forall c l R R1 es,
  compile_list c l R = (R1, es) -> length es = length l.
Proof.
  intros c l. induction l as [|a r IH]; intros R R1 es H.
  - inversion H. reflexivity.
  - rewrite compile_list_cons in H. destruct (compile c a R) as [Ra ea].
    destruct (compile_list c r Ra) as [Rb eb] eqn:Eb. inversion H; subst. simpl.
    rewrite (IH _ _ _ Eb). reflexivity.
Qed.

Lemma compile_list_one : forall c a R R1 es,
  compile_list c [a] R = (R1, es) -> exists e, es = [e] /\ compile c a R = (R1, e).
Proof.
  intros c a R R1 es H. rewrite compile_list_cons in H. destruct (compile c a R) as [Ra ea].
  simpl in H. inversion H; subst. exists ea. split; reflexivity.
Qed.

Lemma unexpr_compile : forall c e a R, unexpr e = Some a -> compile c a R = (R, e).
Proof.
  intros c e a R H. destruct e; simpl in H; try discriminate; inversion H; subst; reflexivity.
Qed.

(* ------------------------------------------------------------------------------------------ *)
(** * 2. The visitor is "compile after ast_of" *)

Lemma combine_ok : forall c n ch R R1 es asts a,
  ast_combine n ch asts = Some a -> compile_list c asts R = (R1, es) ->
  v_combine n ch R1 es = Some (compile c a R).
Proof.
  intros c n ch R R1 es asts a Ha Hc. unfold ast_combine in Ha. unfold v_combine.
  pose proof (compile_list_length _ _ _ _ _ Hc) as Hlen.
  destruct (key_is n "alternation").
  { destruct asts as [|a1 [|a2 r]]; try discriminate.
    - injection Ha as <-. apply compile_list_one in Hc. destruct Hc as [e [-> Hc]].
      rewrite Hc. reflexivity.
    - injection Ha as <-. rewrite compile_AAlt, Hc.
      destruct es as [|e1 [|e2 es]]; simpl in Hlen; try discriminate. reflexivity. }
  destruct (key_is n "concatenation").
  { destruct asts as [|a1 [|a2 r]]; try discriminate.
    - injection Ha as <-. apply compile_list_one in Hc. destruct Hc as [e [-> Hc]].
      rewrite Hc. reflexivity.
    - injection Ha as <-. rewrite compile_ACat, Hc.
      destruct es as [|e1 [|e2 es]]; simpl in Hlen; try discriminate. reflexivity. }
  destruct (key_is n "repetition").
  { destruct ch as [|r0 chr]; try discriminate.
    destruct asts as [|a1 [|a2 r]]; try discriminate.
    apply compile_list_one in Hc. destruct Hc as [e [-> Hc]].
    destruct (name_is r0 "repeat").
    - destruct (v_repeat r0) as [[mn mx]|]; try discriminate. injection Ha as <-.
      rewrite compile_ARep, Hc. reflexivity.
    - destruct (name_is r0 "element"); try discriminate. injection Ha as <-.
      rewrite Hc. reflexivity. }
  destruct (key_is n "option").
  { destruct asts as [|a1 [|a2 r]]; try discriminate.
    apply compile_list_one in Hc. destruct Hc as [e [-> Hc]]. injection Ha as <-.
    rewrite compile_AOpt, Hc. reflexivity. }
  destruct (key_is n "element" || key_is n "elements" || key_is n "group").
  { destruct asts as [|a1 [|a2 r]]; try discriminate.
    apply compile_list_one in Hc. destruct Hc as [e [-> Hc]]. injection Ha as <-.
    rewrite Hc. reflexivity. }
  discriminate.
Qed.

Lemma args_ok : forall c ch,
  Forall (fun x => forall R a, ast_of x = Some a -> visit_e c x R = Some (compile c a R)) ch ->
  forall R asts, args_a ch = Some asts -> args_v c ch R = Some (compile_list c asts R).
Proof.
  intros c ch HF. induction HF as [|x r Hx Hr IH]; intros R asts Ha.
  - simpl in Ha. injection Ha as <-. reflexivity.
  - simpl in Ha. simpl. destruct (produces_expr x).
    + destruct (ast_of x) as [a|] eqn:Ex; try discriminate.
      destruct (args_a r) as [asr|] eqn:Er; try discriminate. injection Ha as <-.
      rewrite (Hx R a eq_refl). rewrite compile_list_cons.
      destruct (compile c a R) as [Ra ea]. rewrite (IH Ra asr eq_refl).
      destruct (compile_list c asr Ra) as [Rb eb]. reflexivity.
    + apply IH. exact Ha.
Qed.

Theorem visit_e_compile : forall c n R a,
  ast_of n = Some a -> visit_e c n R = Some (compile c a R).
Proof.
  intros c n. induction n as [v o l|nm ch IH] using node_ind3; intros R a Ha.
  - discriminate.
  - rewrite ast_of_Nd in Ha. rewrite visit_e_Nd. cbv zeta in *.
    destruct (key_is (Nd nm ch) "rulename").
    { injection Ha as <-. rewrite compile_ARef.
      destruct (rnew R c (nvalue (Nd nm ch))) as [R1 k]. reflexivity. }
    destruct (key_is (Nd nm ch) "char_val").
    { destruct (v_char_val (Nd nm ch)) as [e|]; try discriminate.
      rewrite (unexpr_compile c e a R Ha). reflexivity. }
    destruct (key_is (Nd nm ch) "num_val").
    { destruct (v_num_val (Nd nm ch)) as [e|]; try discriminate.
      rewrite (unexpr_compile c e a R Ha). reflexivity. }
    destruct (key_is (Nd nm ch) "prose_val").
    { destruct (is_rulename (strip_ends (nvalue (Nd nm ch)))).
      - injection Ha as <-. rewrite compile_ARef.
        destruct (rnew R c (strip_ends (nvalue (Nd nm ch)))) as [R1 k]. reflexivity.
      - injection Ha as <-. reflexivity. }
    destruct (args_a ch) as [asts|] eqn:Ea; try discriminate.
    rewrite (args_ok c ch IH R asts Ea).
    destruct (compile_list c asts R) as [R1 es] eqn:Ec.
    apply (combine_ok c _ ch R R1 es asts a Ha Ec).
Qed.

(* ---- the converse ---- *)
Definition is_atom (n : node) : bool :=
  key_is n "rulename" || key_is n "char_val" || key_is n "num_val" || key_is n "prose_val".
(* the handlers that use only their first argument *)
Definition first_arg_node (n : node) : bool :=
  key_is n "repetition" || key_is n "option" ||
  (key_is n "element" || key_is n "elements" || key_is n "group").

(* every first-argument node met by the visitor has at most one expression-producing child *)
Fixpoint single_args (n : node) : bool :=
  match n with
  | Leaf _ _ _ => true
  | Nd nm ch =>
    is_atom n ||
    ((negb (first_arg_node n) || (List.length (filter produces_expr ch) <=? 1)%nat) &&
     (fix all (l : list node) : bool :=
        match l with
        | [] => true
        | x :: r => (negb (produces_expr x) || single_args x) && all r
        end) ch)
  end.
Definition all_single := fix all (l : list node) : bool :=
  match l with
  | [] => true
  | x :: r => (negb (produces_expr x) || single_args x) && all r
  end.
Lemma single_args_Nd : forall nm ch,
  single_args (Nd nm ch) =
  let n := Nd nm ch in
  is_atom n ||
  ((negb (first_arg_node n) || (List.length (filter produces_expr ch) <=? 1)%nat) && all_single ch).
Proof. reflexivity. Qed.

Lemma v_char_val_shape : forall n e, v_char_val n = Some e -> exists cs t, e = ELit cs t.
Proof.
  intros n e H. unfold v_char_val in H. destruct (children n) as [|x r]; try discriminate.
  destruct (filter (fun y => key_is y "quoted_string") (children x)) as [|y q]; try discriminate.
  destruct (key_is x "case_insensitive_string").
  - injection H as <-. eauto.
  - destruct (key_is x "case_sensitive_string"); try discriminate. injection H as <-. eauto.
Qed.

Lemma read_value_shape : forall nm b l e,
  read_value nm b l = Some e -> (exists v, e = ELit true v) \/ (exists lo hi, e = ERange lo hi).
Proof.
  intros nm b l e H. unfold read_value in H. destruct (take_named nm l) as [buf rest].
  destruct l as [|l0 l']; try discriminate. destruct rest as [|x rest'].
  - destruct (py_int b buf); try discriminate. injection H as <-. left. eauto.
  - destruct (str_eqb (nvalue x) (s_of "-")).
    + destruct (py_int b buf); try discriminate.
      destruct (py_int b (flat_map nvalue rest')); try discriminate. injection H as <-. right. eauto.
    + destruct (py_int b buf); try discriminate.
      destruct (series nm b rest' [] [n]); try discriminate. injection H as <-. left. eauto.
Qed.

Lemma v_num_val_shape : forall n e,
  v_num_val n = Some e -> (exists v, e = ELit true v) \/ (exists lo hi, e = ERange lo hi).
Proof.
  intros n e H. unfold v_num_val in H.
  destruct (filter (fun x => key_is x "bin_val" || key_is x "dec_val" || key_is x "hex_val") (children n))
    as [|x r]; try discriminate.
  destruct (key_is x "bin_val"); [|destruct (key_is x "dec_val")];
    apply read_value_shape in H; exact H.
Qed.

Lemma combine_total : forall n ch R1 es res asts,
  v_combine n ch R1 es = Some res -> List.length asts = List.length es ->
  (first_arg_node n = true -> (List.length es <= 1)%nat) ->
  exists a, ast_combine n ch asts = Some a.
Proof.
  intros n ch R1 es res asts Hv Hlen Hone. unfold v_combine in Hv. unfold ast_combine.
  unfold first_arg_node in Hone.
  destruct (key_is n "alternation").
  { destruct asts as [|a1 [|a2 r]], es as [|e1 [|e2 r']]; simpl in Hlen; try discriminate; eauto. }
  destruct (key_is n "concatenation").
  { destruct asts as [|a1 [|a2 r]], es as [|e1 [|e2 r']]; simpl in Hlen; try discriminate; eauto. }
  destruct (key_is n "repetition").
  { specialize (Hone eq_refl). destruct ch as [|r0 chr]; try discriminate.
    destruct asts as [|a1 [|a2 r]], es as [|e1 [|e2 r']]; simpl in Hlen, Hone; try discriminate; try lia.
    destruct (name_is r0 "repeat").
    - destruct (v_repeat r0) as [[mn mx]|]; try discriminate. eauto.
    - destruct (name_is r0 "element"); try discriminate. eauto. }
  destruct (key_is n "option").
  { specialize (Hone eq_refl).
    destruct asts as [|a1 [|a2 r]], es as [|e1 [|e2 r']]; simpl in Hlen, Hone; try discriminate; try lia.
    eauto. }
  destruct (key_is n "element" || key_is n "elements" || key_is n "group").
  { specialize (Hone eq_refl).
    destruct asts as [|a1 [|a2 r]], es as [|e1 [|e2 r']]; simpl in Hlen, Hone; try discriminate; try lia.
    eauto. }
  discriminate.
Qed.

Lemma args_total : forall c ch,
  Forall (fun x => forall R R' e, visit_e c x R = Some (R', e) -> single_args x = true ->
                                  exists a, ast_of x = Some a) ch ->
  forall R R1 es, args_v c ch R = Some (R1, es) -> all_single ch = true ->
  exists asts, args_a ch = Some asts /\ List.length asts = List.length es /\
               List.length es = List.length (filter produces_expr ch).
Proof.
  intros c ch HF. induction HF as [|x r Hx Hr IH]; intros R R1 es Hv Hs.
  - simpl in Hv. injection Hv as <- <-. exists []. repeat split.
  - simpl in Hv, Hs. simpl. destruct (produces_expr x).
    + simpl in Hs. apply andb_true_iff in Hs. destruct Hs as [Hsx Hsr].
      destruct (visit_e c x R) as [[Ra ea]|] eqn:Ex; try discriminate.
      destruct (args_v c r Ra) as [[Rb eb]|] eqn:Er; try discriminate.
      injection Hv as <- <-.
      destruct (Hx R Ra ea Ex Hsx) as [a Ha]. rewrite Ha.
      destruct (IH Ra Rb eb Er Hsr) as [asr [Hasr [Hl1 Hl2]]]. rewrite Hasr.
      exists (a :: asr). simpl. repeat split; congruence.
    + simpl in Hs. apply (IH R R1 es Hv Hs).
Qed.

(* [ast_of] is defined wherever the visitor succeeds, PROVIDED the first-argument handlers have a
   single argument; without the proviso it is false: visit_e_total_counterexample *)
Theorem visit_e_total_partial : forall c n R R' e,
  visit_e c n R = Some (R', e) -> single_args n = true -> exists a, ast_of n = Some a.
Proof.
  intros c n. induction n as [v o l|nm ch IH] using node_ind3; intros R R' e Hv Hs.
  - discriminate.
  - rewrite visit_e_Nd in Hv. rewrite ast_of_Nd. rewrite single_args_Nd in Hs. cbv zeta in *.
    unfold is_atom in Hs.
    destruct (key_is (Nd nm ch) "rulename"). { eauto. }
    destruct (key_is (Nd nm ch) "char_val").
    { destruct (v_char_val (Nd nm ch)) as [e0|] eqn:E; try discriminate.
      destruct (v_char_val_shape _ _ E) as [cs [t ->]]. simpl. eauto. }
    destruct (key_is (Nd nm ch) "num_val").
    { destruct (v_num_val (Nd nm ch)) as [e0|] eqn:E; try discriminate.
      destruct (v_num_val_shape _ _ E) as [[v ->]|[lo [hi ->]]]; simpl; eauto. }
    destruct (key_is (Nd nm ch) "prose_val").
    { destruct (is_rulename (strip_ends (nvalue (Nd nm ch)))); eauto. }
    simpl in Hs. apply andb_true_iff in Hs. destruct Hs as [Hone Hall].
    destruct (args_v c ch R) as [[R1 es]|] eqn:Ev; try discriminate.
    destruct (args_total c ch IH R R1 es Ev Hall) as [asts [Ha [Hl1 Hl2]]]. rewrite Ha.
    apply (combine_total _ ch R1 es (R', e) asts Hv Hl1).
    intros Hf. rewrite Hf in Hone. simpl in Hone. apply Nat.leb_le in Hone. lia.
Qed.

(* conversely, where [ast_of] is defined, the tree has single arguments *)
Lemma ast_combine_single : forall n ch asts a,
  ast_combine n ch asts = Some a -> first_arg_node n = true -> (List.length asts <= 1)%nat.
Proof.
  intros n ch asts a H Hf. unfold ast_combine in H. unfold first_arg_node in Hf.
  destruct (key_is n "alternation") eqn:K1.
  { rewrite (key_excl _ _ "repetition" K1), (key_excl _ _ "option" K1), (key_excl _ _ "element" K1),
      (key_excl _ _ "elements" K1), (key_excl _ _ "group" K1) in Hf by (vm_compute; reflexivity).
    discriminate. }
  destruct (key_is n "concatenation") eqn:K2.
  { rewrite (key_excl _ _ "repetition" K2), (key_excl _ _ "option" K2), (key_excl _ _ "element" K2),
      (key_excl _ _ "elements" K2), (key_excl _ _ "group" K2) in Hf by (vm_compute; reflexivity).
    discriminate. }
  destruct (key_is n "repetition").
  { destruct ch as [|r0 chr]; try discriminate.
    destruct asts as [|a1 [|a2 r]]; try discriminate. simpl. lia. }
  destruct (key_is n "option").
  { destruct asts as [|a1 [|a2 r]]; try discriminate. simpl. lia. }
  destruct (key_is n "element" || key_is n "elements" || key_is n "group").
  { destruct asts as [|a1 [|a2 r]]; try discriminate. simpl. lia. }
  discriminate.
Qed.

Lemma args_a_length : forall ch asts,
  args_a ch = Some asts -> List.length asts = List.length (filter produces_expr ch).
Proof.
  induction ch as [|x r IH]; intros asts H; simpl in H.
  - injection H as <-. reflexivity.
  - simpl. destruct (produces_expr x).
    + destruct (ast_of x); try discriminate. destruct (args_a r) as [asr|]; try discriminate.
      injection H as <-. simpl. rewrite (IH asr eq_refl). reflexivity.
    + apply IH. exact H.
Qed.

Theorem ast_of_single_args : forall n a, ast_of n = Some a -> single_args n = true.
Proof.
  induction n as [v o l|nm ch IH] using node_ind3; intros a Ha.
  - reflexivity.
  - rewrite ast_of_Nd in Ha. rewrite single_args_Nd. cbv zeta in *. unfold is_atom.
    destruct (key_is (Nd nm ch) "rulename"). { reflexivity. }
    destruct (key_is (Nd nm ch) "char_val"). { reflexivity. }
    destruct (key_is (Nd nm ch) "num_val"). { reflexivity. }
    destruct (key_is (Nd nm ch) "prose_val"). { reflexivity. }
    simpl. destruct (args_a ch) as [asts|] eqn:Ea; try discriminate.
    apply andb_true_iff. split.
    + destruct (first_arg_node (Nd nm ch)) eqn:Ef; [|reflexivity]. simpl.
      apply Nat.leb_le. rewrite <- (args_a_length ch asts Ea).
      apply (ast_combine_single _ ch asts a Ha Ef).
    + clear Ha. revert asts Ea. induction IH as [|x r Hx Hr IHr]; intros asts Ea.
      * reflexivity.
      * simpl in Ea. simpl. destruct (produces_expr x).
        -- destruct (ast_of x) as [ax|] eqn:Ex; try discriminate.
           destruct (args_a r) as [asr|] eqn:Er; try discriminate.
           simpl. rewrite (Hx ax eq_refl). simpl. apply (IHr asr eq_refl).
        -- simpl. apply (IHr asts Ea).
Qed.

(* hence: ast_of is defined EXACTLY on the trees the visitor accepts and that have single arguments *)
Corollary ast_of_defined_iff : forall c n R,
  (exists a, ast_of n = Some a) <->
  ((exists R' e, visit_e c n R = Some (R', e)) /\ single_args n = true).
Proof.
  intros c n R. split.
  - intros [a Ha]. split.
    + rewrite (visit_e_compile c n R a Ha). destruct (compile c a R) as [R' e]. eauto.
    + apply (ast_of_single_args n a Ha).
  - intros [[R' [e Hv]] Hs]. apply (visit_e_total_partial c n R R' e Hv Hs).
Qed.

(* hand-built trees *)
Definition L (s : string) : node := Leaf (s_of s) 0 0.
Definition T (nm : string) (ch : list node) : node := Nd (s_of nm) ch.

(* COUNTEREXAMPLE to the unrestricted converse (and the reason [ast_combine] wants exactly one argument):
   the model visits ALL the children of a group (element, elements, option, repetition) and then keeps
   the first result: a second expression child is visited (its rule object "b" is created) and dropped.
   No [aexpr] compiles to that registry with that expression. *)
Definition cex_group : node := T "group" [T "rulename" [L "a"]; T "rulename" [L "b"]].
Example visit_e_total_counterexample :
  (exists R', visit_e 1%N cex_group reg0 = Some (R', ERef 0%N) /\ map oname (objs R') = [s_of "a"; s_of "b"])
  /\ ast_of cex_group = None
  /\ single_args cex_group = false
  /\ map oname (objs (fst (compile 1%N (ARef (s_of "a")) reg0))) = [s_of "a"].
Proof.
  split; [|split; [|split]].
  - eexists. split; vm_compute; reflexivity.
  - vm_compute. reflexivity.
  - vm_compute. reflexivity.
  - vm_compute. reflexivity.
Qed.

(* ------------------------------------------------------------------------------------------ *)
(** * 3. Rule level *)

Theorem v_rule_define : forall c n R rn da el op a,
  filter (fun x => key_is x "rulename" || key_is x "defined_as" || key_is x "elements") (children n)
    = [rn; da; el] ->
  key_is rn "rulename" = true -> key_is da "defined_as" = true -> key_is el "elements" = true ->
  v_defined_as da = Some op -> ast_of el = Some a ->
  v_rule c n R =
  define_rule c {| aname := nvalue rn; aincr := negb (str_eqb op (s_of "=")); adef := a |} R.
Proof.
  intros c n R rn da el op a Hf K1 K2 K3 Hop Ha. unfold v_rule, define_rule.
  rewrite Hf, K1, K2, K3. cbn [andb aname adef aincr].
  destruct (rnew R c (nvalue rn)) as [R1 k]. rewrite Hop.
  rewrite (visit_e_compile c el R1 a Ha). destruct (compile c a R1) as [R2 e].
  destruct (str_eqb op (s_of "=")); reflexivity.
Qed.

(* the rule a rule node denotes / the rules a rulelist node denotes *)
Definition arule_of (n : node) : option arule :=
  match filter (fun x => key_is x "rulename" || key_is x "defined_as" || key_is x "elements") (children n) with
  | [rn; da; el] =>
    if key_is rn "rulename" && key_is da "defined_as" && key_is el "elements" then
      match v_defined_as da, ast_of el with
      | Some op, Some a =>
        Some {| aname := nvalue rn; aincr := negb (str_eqb op (s_of "=")); adef := a |}
      | _, _ => None
      end
    else None
  | _ => None
  end.
Fixpoint arules_of (l : list node) : option (list arule) :=
  match l with
  | [] => Some []
  | x :: r =>
    if key_is x "rule" then
      match arule_of x, arules_of r with
      | Some a, Some rs => Some (a :: rs)
      | _, _ => None
      end
    else arules_of r
  end.

Lemma v_rule_arule : forall c n R a, arule_of n = Some a -> v_rule c n R = define_rule c a R.
Proof.
  intros c n R a H. unfold arule_of in H.
  destruct (filter (fun x => key_is x "rulename" || key_is x "defined_as" || key_is x "elements")
                   (children n)) as [|rn [|da [|el [|z r]]]] eqn:Hf; try discriminate.
  destruct (key_is rn "rulename") eqn:K1; try discriminate.
  destruct (key_is da "defined_as") eqn:K2; try discriminate.
  destruct (key_is el "elements") eqn:K3; try discriminate. cbn [andb] in H.
  destruct (v_defined_as da) as [op|] eqn:Hop; try discriminate.
  destruct (ast_of el) as [ae|] eqn:Ha; try discriminate. injection H as <-.
  apply (v_rule_define c n R rn da el op ae Hf K1 K2 K3 Hop Ha).
Qed.

Theorem v_rulelist_define : forall c n R rs,
  arules_of (children n) = Some rs -> v_rulelist c n R = define_rules c rs R.
Proof.
  intros c n R rs. unfold v_rulelist. generalize (children n) as l. intros l. revert R rs.
  induction l as [|x r IH]; intros R rs H; simpl in H.
  - injection H as <-. reflexivity.
  - simpl. destruct (key_is x "rule").
    + destruct (arule_of x) as [a|] eqn:Ea; try discriminate.
      destruct (arules_of r) as [rs'|] eqn:Er; try discriminate. injection H as <-.
      rewrite (v_rule_arule c x R a Ea). simpl.
      destruct (define_rule c a R) as [R'|]; [apply IH; reflexivity|reflexivity].
    + apply IH. exact H.
Qed.

(* ------------------------------------------------------------------------------------------ *)
(** * 4. Decoding (RFC 5234 section 3), digit strings of arbitrary length *)
Local Open Scope N_scope.

(* the value of a digit character: '0'-'9', 'A'-'F', 'a'-'f' *)
Definition digit_of (c : cp) : N :=
  if c <=? 57 then c - 48 else if c <=? 70 then c - 55 else c - 87.
Example digit_of_table :
  map digit_of (s_of "0123456789ABCDEFabcdef") = [0;1;2;3;4;5;6;7;8;9;10;11;12;13;14;15;10;11;12;13;14;15].
Proof. vm_compute. reflexivity. Qed.

Definition is_bit (c : cp) : bool := (c =? 48) || (c =? 49).                                (* BIT *)
Definition is_dec (c : cp) : bool := (48 <=? c) && (c <=? 57).                              (* DIGIT *)
Definition is_hex (c : cp) : bool :=                                        (* HEXDIG, either case *)
  is_dec c || ((65 <=? c) && (c <=? 70)) || ((97 <=? c) && (c <=? 102)).
Definition digit_ok (b : N) (c : cp) : bool :=
  if b =? 2 then is_bit c else if b =? 10 then is_dec c else if b =? 16 then is_hex c else false.

(* positional value: d1 * b^(k-1) + ... + dk * b^0 *)
Fixpoint pos_val (b : N) (ds : list cp) : N :=
  match ds with
  | [] => 0
  | d :: r => digit_of d * b ^ N.of_nat (List.length r) + pos_val b r
  end.
Definition dec_val (ds : list cp) : N := pos_val 10 ds.

Lemma pos_val_snoc : forall b ds d, pos_val b (ds ++ [d]) = pos_val b ds * b + digit_of d.
Proof.
  intros b ds d. induction ds as [|x r IH]; cbn [pos_val app List.length].
  - simpl. ring.
  - rewrite IH. rewrite app_length. cbn [List.length]. rewrite Nat.add_1_r, Nat2N.inj_succ, N.pow_succ_r'.
    ring.
Qed.

Ltac cmp_cases :=
  repeat match goal with
  | H : context [N.leb ?a ?b] |- _ => destruct (N.leb_spec a b)
  | H : context [N.eqb ?a ?b] |- _ => destruct (N.eqb_spec a b)
  | |- context [N.leb ?a ?b] => destruct (N.leb_spec a b)
  | |- context [N.eqb ?a ?b] => destruct (N.eqb_spec a b)
  end; cbn [andb orb] in *; try discriminate.

Lemma digit_ok_val : forall b c,
  digit_ok b c = true -> Visitor.digit_val c = Some (digit_of c) /\ digit_of c < b.
Proof.
  intros b c H. unfold digit_ok in H.
  destruct (N.eqb_spec b 2) as [->|_];
    [|destruct (N.eqb_spec b 10) as [->|_]; [|destruct (N.eqb_spec b 16) as [->|_]; [|discriminate]]];
    unfold is_bit, is_hex, is_dec in H; unfold Visitor.digit_val, digit_of; cmp_cases;
    (split; [try f_equal|]; first [lia | exfalso; lia]).
Qed.

Lemma int_of_pos : forall b ds acc,
  Forall (fun c => digit_ok b c = true) ds ->
  int_of b acc ds = Some (acc * b ^ N.of_nat (List.length ds) + pos_val b ds).
Proof.
  intros b ds. induction ds as [|d r IH]; intros acc HF.
  - cbn [int_of pos_val List.length]. f_equal. simpl. ring.
  - inversion HF as [|x l Hd Hr]; subst. destruct (digit_ok_val b d Hd) as [Hv Hlt].
    cbn [int_of]. rewrite Hv. apply N.ltb_lt in Hlt. rewrite Hlt. rewrite (IH _ Hr).
    cbn [pos_val List.length]. rewrite Nat2N.inj_succ, N.pow_succ_r'. f_equal. ring.
Qed.

(* int(text, base) on a non-empty string of digits of that base is its positional value *)
Theorem py_int_pos : forall b ds,
  Forall (fun c => digit_ok b c = true) ds -> ds <> [] -> py_int b ds = Some (pos_val b ds).
Proof.
  intros b ds HF Hne. destruct ds as [|d r]; [contradiction|]. unfold py_int.
  rewrite (int_of_pos b (d :: r) 0 HF). f_equal.
Qed.

Theorem py_int_dec : forall ds,
  Forall (fun c => is_dec c = true) ds -> ds <> [] -> py_int 10 ds = Some (dec_val ds).
Proof. intros ds HF Hne. apply py_int_pos; assumption. Qed.

(* ---- digit nodes ---- *)
Definition digit_node (nm : string) (b : N) (x : node) (d : cp) : Prop :=
  name_is x nm = true /\ nvalue x = [d] /\ digit_ok b d = true.
Definition digit_nodes (nm : string) (b : N) : list node -> list cp -> Prop :=
  Forall2 (digit_node nm b).
Definition sep_leaf (s : string) (x : node) : Prop := exists o l, x = Leaf (s_of s) o l.

Lemma digit_nodes_ok : forall nm b xs ds,
  digit_nodes nm b xs ds -> Forall (fun c => digit_ok b c = true) ds.
Proof.
  intros nm b xs ds H. induction H as [|x d xs ds [_ [_ Hd]] _ IH]; constructor; assumption.
Qed.
Lemma digit_nodes_value : forall nm b xs ds, digit_nodes nm b xs ds -> flat_map nvalue xs = ds.
Proof.
  intros nm b xs ds H. induction H as [|x d xs ds [_ [Hv _]] _ IH]; [reflexivity|].
  cbn [flat_map]. rewrite Hv, IH. reflexivity.
Qed.
Lemma digit_nodes_nonempty : forall nm b xs ds, digit_nodes nm b xs ds -> ds <> [] -> xs <> [].
Proof. intros nm b xs ds H Hne ->. inversion H; subst. contradiction. Qed.

Lemma take_named_digits : forall nm b xs ds rest,
  digit_nodes nm b xs ds ->
  match rest with [] => True | x :: _ => name_is x nm = false end ->
  take_named nm (xs ++ rest) = (ds, rest).
Proof.
  intros nm b xs ds rest H Hr. induction H as [|x d xs ds [Hn [Hv _]] _ IH].
  - destruct rest as [|y r]; [reflexivity|]. cbn [app take_named]. rewrite Hr. reflexivity.
  - cbn [app take_named]. rewrite Hn, IH, Hv. reflexivity.
Qed.
Lemma take_named_all : forall nm b xs ds, digit_nodes nm b xs ds -> take_named nm xs = (ds, []).
Proof.
  intros nm b xs ds H. rewrite <- (app_nil_r xs). apply (take_named_digits nm b xs ds [] H I).
Qed.

(* ---- repeat ---- *)
Definition opt_dec (ds : list cp) : option nat :=
  match ds with [] => None | _ => Some (N.to_nat (dec_val ds)) end.

Lemma opt_int_dec : forall ds,
  Forall (fun c => digit_ok 10 c = true) ds -> opt_int ds = Some (opt_dec ds).
Proof.
  intros ds HF. destruct ds as [|d r]; [reflexivity|]. unfold opt_int.
  rewrite (py_int_pos 10 (d :: r) HF) by discriminate. reflexivity.
Qed.

(* children  ds1            -> (val ds1, Some (val ds1))          (ds1 non-empty)
   children  ds1 "*" ds2    -> (val ds1 or 0, Some (val ds2) or None)                       *)
Theorem v_repeat_spec : forall n xs1 ds1 xs2 ds2 star,
  digit_nodes "DIGIT" 10 xs1 ds1 -> digit_nodes "DIGIT" 10 xs2 ds2 -> sep_leaf "*" star ->
  (children n = xs1 -> ds1 <> [] ->
   v_repeat n = Some (N.to_nat (dec_val ds1), Some (N.to_nat (dec_val ds1)))) /\
  (children n = xs1 ++ star :: xs2 ->
   v_repeat n = Some (N.to_nat (dec_val ds1), opt_dec ds2)).
Proof.
  intros n xs1 ds1 xs2 ds2 star H1 H2 [o [l ->]].
  pose proof (opt_int_dec ds1 (digit_nodes_ok _ _ _ _ H1)) as Ho1.
  pose proof (opt_int_dec ds2 (digit_nodes_ok _ _ _ _ H2)) as Ho2.
  split.
  - intros Hch Hne. unfold v_repeat. rewrite Hch, (take_named_all _ _ _ _ H1).
    pose proof (digit_nodes_nonempty _ _ _ _ H1 Hne) as Hx.
    destruct xs1 as [|x xs]; [contradiction|]. cbv beta iota zeta. rewrite Ho1.
    destruct ds1; [contradiction|reflexivity].
  - intros Hch. unfold v_repeat. rewrite Hch.
    rewrite (take_named_digits "DIGIT" 10 xs1 ds1 (Leaf (s_of "*") o l :: xs2) H1) by reflexivity.
    destruct (xs1 ++ Leaf (s_of "*") o l :: xs2) as [|y ys] eqn:E.
    { destruct xs1; discriminate. }
    cbv beta iota zeta.
    change (nvalue (Leaf (s_of "*") o l)) with (s_of "*"). rewrite seqb_refl.
    rewrite (digit_nodes_value _ _ _ _ H2), Ho1, Ho2. destruct ds1; reflexivity.
Qed.

(* the five forms of RFC 5234 3.6 / 3.7:  n   a*b   a*   *b   *  *)
Corollary v_repeat_five_forms : forall n xs1 ds1 xs2 ds2 star,
  digit_nodes "DIGIT" 10 xs1 ds1 -> digit_nodes "DIGIT" 10 xs2 ds2 -> sep_leaf "*" star ->
  ds1 <> [] -> ds2 <> [] ->
  let a := N.to_nat (dec_val ds1) in
  let b := N.to_nat (dec_val ds2) in
  (children n = xs1 -> v_repeat n = Some (a, Some a)) /\
  (children n = xs1 ++ star :: xs2 -> v_repeat n = Some (a, Some b)) /\
  (children n = xs1 ++ [star] -> v_repeat n = Some (a, None)) /\
  (children n = star :: xs2 -> v_repeat n = Some (0%nat, Some b)) /\
  (children n = [star] -> v_repeat n = Some (0%nat, None)).
Proof.
  intros n xs1 ds1 xs2 ds2 star H1 H2 Hs Hn1 Hn2 a b.
  assert (Hnil : digit_nodes "DIGIT" 10 [] []) by constructor.
  assert (Hb : opt_dec ds2 = Some b) by (destruct ds2; [contradiction|reflexivity]).
  repeat split; intros Hch.
  - apply (proj1 (v_repeat_spec n xs1 ds1 xs2 ds2 star H1 H2 Hs) Hch Hn1).
  - rewrite <- Hb. apply (proj2 (v_repeat_spec n xs1 ds1 xs2 ds2 star H1 H2 Hs) Hch).
  - apply (proj2 (v_repeat_spec n xs1 ds1 [] [] star H1 Hnil Hs) Hch).
  - rewrite <- Hb. apply (proj2 (v_repeat_spec n [] [] xs2 ds2 star Hnil H2 Hs) Hch).
  - apply (proj2 (v_repeat_spec n [] [] [] [] star Hnil Hnil Hs) Hch).
Qed.

(* ---- num-val ---- *)
Definition digit_kind (nm : string) (b : N) : Prop :=
  (nm = "BIT"%string /\ b = 2) \/ (nm = "DIGIT"%string /\ b = 10) \/ (nm = "HEXDIG"%string /\ b = 16).

Lemma kind_leaf : forall nm b v o l, digit_kind nm b -> name_is (Leaf v o l) nm = false.
Proof. intros nm b v o l [[-> _]|[[-> _]|[-> _]]]; reflexivity. Qed.

(* D1 "." D2 "." ... "." Dk  (k >= 1), each Di a non-empty run of digit nodes *)
Inductive dotted (nm : string) (b : N) : list node -> list (list cp) -> Prop :=
| dotted_one : forall xs ds, digit_nodes nm b xs ds -> ds <> [] -> dotted nm b xs [ds]
| dotted_more : forall xs ds dot rest dss,
    digit_nodes nm b xs ds -> ds <> [] -> sep_leaf "." dot -> dotted nm b rest dss ->
    dotted nm b (xs ++ dot :: rest) (ds :: dss).

Lemma series_digits : forall nm b xs ds,
  digit_nodes nm b xs ds ->
  forall rest buf acc, series nm b (xs ++ rest) buf acc = series nm b rest (buf ++ ds) acc.
Proof.
  intros nm b xs ds H. induction H as [|x d xs ds [Hn [Hv _]] _ IH]; intros rest buf acc.
  - rewrite app_nil_r. reflexivity.
  - cbn [app series]. rewrite Hn, Hv, IH, <- app_assoc. reflexivity.
Qed.

Lemma series_dotted : forall nm b l dss,
  digit_kind nm b -> dotted nm b l dss ->
  forall acc, series nm b l [] acc = Some (acc ++ map (pos_val b) dss).
Proof.
  intros nm b l dss Hk H. induction H as [xs ds Hx Hne|xs ds dot rest dss Hx Hne [o [k ->]] Hr IH];
    intros acc.
  - rewrite <- (app_nil_r xs), (series_digits nm b xs ds Hx). cbn [app series].
    rewrite (py_int_pos b ds (digit_nodes_ok _ _ _ _ Hx) Hne).
    destruct ds; [contradiction|reflexivity].
  - rewrite (series_digits nm b xs ds Hx). cbn [app series].
    rewrite (kind_leaf nm b _ _ _ Hk), (py_int_pos b ds (digit_nodes_ok _ _ _ _ Hx) Hne), IH.
    cbn [map]. rewrite <- app_assoc. reflexivity.
Qed.

Theorem read_value_spec : forall nm b, digit_kind nm b ->
  (* %x41   %x41.42.43 ... *)
  (forall l dss, dotted nm b l dss -> read_value nm b l = Some (ELit true (map (pos_val b) dss))) /\
  (* %x41-5A *)
  (forall xs1 ds1 dash xs2 ds2,
     digit_nodes nm b xs1 ds1 -> ds1 <> [] -> sep_leaf "-" dash ->
     digit_nodes nm b xs2 ds2 -> ds2 <> [] ->
     read_value nm b (xs1 ++ dash :: xs2) = Some (ERange (pos_val b ds1) (pos_val b ds2))).
Proof.
  intros nm b Hk. split.
  - intros l dss H. destruct H as [xs ds Hx Hne|xs ds dot rest dss Hx Hne [o [k ->]] Hr].
    + unfold read_value. rewrite (take_named_all _ _ _ _ Hx).
      pose proof (digit_nodes_nonempty _ _ _ _ Hx Hne) as Hxs.
      destruct xs as [|x xs']; [contradiction|].
      rewrite (py_int_pos b ds (digit_nodes_ok _ _ _ _ Hx) Hne). reflexivity.
    + unfold read_value.
      rewrite (take_named_digits nm b xs ds (Leaf (s_of ".") o k :: rest) Hx)
        by (apply (kind_leaf nm b); exact Hk).
      destruct (xs ++ Leaf (s_of ".") o k :: rest) as [|y ys] eqn:E.
      { destruct xs; discriminate. }
      change (str_eqb (nvalue (Leaf (s_of ".") o k)) (s_of "-")) with false. cbv beta iota.
      rewrite (py_int_pos b ds (digit_nodes_ok _ _ _ _ Hx) Hne).
      rewrite (series_dotted nm b rest dss Hk Hr). reflexivity.
  - intros xs1 ds1 dash xs2 ds2 H1 Hn1 [o [k ->]] H2 Hn2. unfold read_value.
    rewrite (take_named_digits nm b xs1 ds1 (Leaf (s_of "-") o k :: xs2) H1)
      by (apply (kind_leaf nm b); exact Hk).
    destruct (xs1 ++ Leaf (s_of "-") o k :: xs2) as [|y ys] eqn:E.
    { destruct xs1; discriminate. }
    change (str_eqb (nvalue (Leaf (s_of "-") o k)) (s_of "-")) with true. cbv beta iota.
    rewrite (py_int_pos b ds1 (digit_nodes_ok _ _ _ _ H1) Hn1).
    rewrite (digit_nodes_value _ _ _ _ H2).
    rewrite (py_int_pos b ds2 (digit_nodes_ok _ _ _ _ H2) Hn2). reflexivity.
Qed.

(* num-val = "%" (bin-val / dec-val / hex-val); the first child of the *-val node is the marker b/d/x *)
Theorem v_num_val_spec : forall nm pct nmv m l,
  (exists v o k, pct = Leaf v o k) ->
  let x := Nd nmv (m :: l) in
  let n := Nd nm [pct; x] in
  (key_is x "bin_val" = true -> v_num_val n = read_value "BIT" 2 l) /\
  (key_is x "dec_val" = true -> v_num_val n = read_value "DIGIT" 10 l) /\
  (key_is x "hex_val" = true -> v_num_val n = read_value "HEXDIG" 16 l).
Proof.
  intros nm pct nmv m l [v [o [k ->]]] x n.
  assert (L1 : key_is (Leaf v o k) "bin_val" = false) by reflexivity.
  assert (L2 : key_is (Leaf v o k) "dec_val" = false) by reflexivity.
  assert (L3 : key_is (Leaf v o k) "hex_val" = false) by reflexivity.
  repeat split; intros K; unfold v_num_val, n; cbn [children filter]; rewrite L1, L2, L3; cbn [orb].
  - rewrite K. cbn [orb]. rewrite K. reflexivity.
  - assert (K1 : key_is x "bin_val" = false) by key_no K.
    rewrite K, K1. cbn [orb]. rewrite K1, K. reflexivity.
  - assert (K1 : key_is x "bin_val" = false) by key_no K.
    assert (K2 : key_is x "dec_val" = false) by key_no K.
    rewrite K, K1, K2. cbn [orb]. rewrite K1, K2. reflexivity.
Qed.

(* ---- char-val (RFC 7405) ---- *)
Lemma strip_quotes : forall a t z, strip_ends (a :: t ++ [z]) = t.
Proof. intros a t z. unfold strip_ends. cbn [tl]. apply removelast_last. Qed.

Lemma v_char_val_gen : forall n x rest pre q t,
  children n = x :: rest -> children x = pre ++ [q] ->
  Forall (fun y => exists v o l, y = Leaf v o l) pre ->
  key_is q "quoted_string" = true -> nvalue q = 34 :: t ++ [34] ->
  (key_is x "case_insensitive_string" = true -> v_char_val n = Some (ELit false t)) /\
  (key_is x "case_sensitive_string" = true -> v_char_val n = Some (ELit true t)).
Proof.
  intros n x rest pre q t Hn Hx Hpre Kq Hv.
  assert (Hf : filter (fun y => key_is y "quoted_string") (children x) = [q]).
  { rewrite Hx. clear Hx. induction Hpre as [|y r [v [o [l ->]]] _ IH].
    - cbn [app filter]. rewrite Kq. reflexivity.
    - cbn [app filter]. change (key_is (Leaf v o l) "quoted_string") with false. exact IH. }
  split; intros K; unfold v_char_val; rewrite Hn, Hf.
  - rewrite K, Hv, strip_quotes. reflexivity.
  - assert (K1 : key_is x "case_insensitive_string" = false) by key_no K.
    rewrite K1, K, Hv, strip_quotes. reflexivity.
Qed.

(* "t" and %i"t" are case-insensitive, %s"t" is case-sensitive; the text is what is between the quotes *)
Theorem v_char_val_spec : forall nm x q t o l,
  key_is q "quoted_string" = true -> nvalue q = 34 :: t ++ [34] ->
  (key_is x "case_insensitive_string" = true ->
   (children x = [q] \/ children x = [Leaf (s_of "%i") o l; q]) ->
   v_char_val (Nd nm [x]) = Some (ELit false t)) /\
  (key_is x "case_sensitive_string" = true -> children x = [Leaf (s_of "%s") o l; q] ->
   v_char_val (Nd nm [x]) = Some (ELit true t)).
Proof.
  intros nm x q t o l Kq Hv. split.
  - intros K [Hx|Hx].
    + apply (proj1 (v_char_val_gen (Nd nm [x]) x [] [] q t eq_refl Hx (Forall_nil _) Kq Hv) K).
    + refine (proj1 (v_char_val_gen (Nd nm [x]) x [] [Leaf (s_of "%i") o l] q t eq_refl Hx _ Kq Hv) K).
      constructor; [eauto|constructor].
  - intros K Hx.
    refine (proj2 (v_char_val_gen (Nd nm [x]) x [] [Leaf (s_of "%s") o l] q t eq_refl Hx _ Kq Hv) K).
    constructor; [eauto|constructor].
Qed.

(* ---- prose-val: <t> is a reference when t is a rulename, Prose otherwise ---- *)
Theorem prose_spec : forall c nm ch R t,
  let n := Nd nm ch in
  key_is n "prose_val" = true -> nvalue n = 60 :: t ++ [62] ->
  ast_of n = Some (if is_rulename t then ARef t else AProse t) /\
  visit_e c n R = Some (if is_rulename t
                        then let '(R1, k) := rnew R c t in (R1, ERef (N.of_nat k))
                        else (R, EProse)).
Proof.
  intros c nm ch R t n K Hv.
  assert (K1 : key_is n "rulename" = false) by key_no K.
  assert (K2 : key_is n "char_val" = false) by key_no K.
  assert (K3 : key_is n "num_val" = false) by key_no K.
  assert (Ha : ast_of n = Some (if is_rulename t then ARef t else AProse t)).
  { unfold n in *. rewrite ast_of_Nd. cbv zeta. rewrite K1, K2, K3, K, Hv, strip_quotes.
    destruct (is_rulename t); reflexivity. }
  split; [exact Ha|]. rewrite (visit_e_compile c n R _ Ha).
  destruct (is_rulename t); [rewrite compile_ARef|]; reflexivity.
Qed.

(* ------------------------------------------------------------------------------------------ *)
(** * 5. Layout never reaches the result *)

(* what the meta-grammar puts between the expression nodes: c-wsp, c-nl, comment and literals
   ("/", "(", ")", "[", "]", ...) *)
Definition is_layout (n : node) : bool :=
  match n with
  | Leaf _ _ _ => true
  | Nd _ _ => key_is n "c_wsp" || key_is n "c_nl" || key_is n "comment"
  end.

Lemma is_layout_not_expr : forall n, is_layout n = true -> produces_expr n = false.
Proof.
  intros [v o l|nm ch] H.
  - reflexivity.
  - cbn [is_layout] in H. apply orb_true_iff in H. destruct H as [H|K].
    + apply orb_true_iff in H. destruct H as [K|K]; unfold produces_expr;
        rewrite !(key_excl _ _ _ K) by (vm_compute; reflexivity); reflexivity.
    + unfold produces_expr. rewrite !(key_excl _ _ _ K) by (vm_compute; reflexivity). reflexivity.
Qed.

(* in a repetition the visitor looks at children[0] itself (repeat or element) *)
Definition rep_head (ch ch' : list node) : Prop :=
  match ch, ch' with
  | r0 :: _, r0' :: _ => node_name r0 = node_name r0' /\ (name_is r0 "repeat" = true -> r0 = r0')
  | [], [] => True
  | _, _ => False
  end.

(* same tree up to layout: atoms (rulename, char-val, num-val, prose-val — read through their value) and
   repeat nodes (read through all their children) are equal; otherwise same name and, after deleting the
   children that produce no expression, the children are pairwise the same up to layout *)
Inductive same_modulo_layout : node -> node -> Prop :=
| sml_same : forall n, same_modulo_layout n n
| sml_node : forall nm ch ch',
    is_atom (Nd nm ch) = false ->
    (key_is (Nd nm ch) "repetition" = true -> rep_head ch ch') ->
    Forall2 same_modulo_layout (filter produces_expr ch) (filter produces_expr ch') ->
    same_modulo_layout (Nd nm ch) (Nd nm ch').

Fixpoint amap (l : list node) : option (list aexpr) :=
  match l with
  | [] => Some []
  | x :: r => match ast_of x with
              | Some a => match amap r with Some es => Some (a :: es) | None => None end
              | None => None
              end
  end.
Lemma args_a_amap : forall l, args_a l = amap (filter produces_expr l).
Proof.
  induction l as [|x r IH]; [reflexivity|]. cbn [filter]. change (args_a (x :: r)) with
    (if produces_expr x then match ast_of x with
                             | Some a => match args_a r with Some es => Some (a :: es) | None => None end
                             | None => None end else args_a r).
  destruct (produces_expr x); cbn [amap]; rewrite IH; reflexivity.
Qed.

Lemma Forall_filter' : forall (P : node -> Prop) f l, Forall P l -> Forall P (filter f l).
Proof.
  intros P f l H. induction H as [|x r Hx Hr IH]; cbn [filter]; [constructor|].
  destruct (f x); [constructor; assumption|assumption].
Qed.

Lemma ast_combine_head : forall nm ch ch' es,
  (key_is (Nd nm ch) "repetition" = true -> rep_head ch ch') ->
  ast_combine (Nd nm ch) ch es = ast_combine (Nd nm ch') ch' es.
Proof.
  intros nm ch ch' es H. unfold ast_combine. rewrite !(key_is_name nm ch' ch).
  destruct (key_is (Nd nm ch) "alternation"); [reflexivity|].
  destruct (key_is (Nd nm ch) "concatenation"); [reflexivity|].
  destruct (key_is (Nd nm ch) "repetition"); [|reflexivity].
  specialize (H eq_refl). destruct ch as [|r0 r], ch' as [|r0' r']; cbn [rep_head] in H;
    try contradiction; try reflexivity.
  destruct H as [Hnm Heq]. rewrite !name_is_node_name in *. rewrite <- Hnm.
  destruct (str_eqb (node_name r0) (s_of "repeat")); [rewrite <- (Heq eq_refl)|]; reflexivity.
Qed.

Theorem layout_independent : forall t t', same_modulo_layout t t' -> ast_of t = ast_of t'.
Proof.
  induction t as [v o l|nm ch IH] using node_ind3; intros t' H.
  - inversion H; subst. reflexivity.
  - inversion H as [n0|nm0 ch0 ch' Hatom Hhead HF]; subst; [reflexivity|].
    rewrite !ast_of_Nd. cbv zeta. unfold is_atom in Hatom. rewrite !(key_is_name nm ch' ch).
    destruct (key_is (Nd nm ch) "rulename"); [discriminate|].
    destruct (key_is (Nd nm ch) "char_val"); [discriminate|].
    destruct (key_is (Nd nm ch) "num_val"); [discriminate|].
    destruct (key_is (Nd nm ch) "prose_val"); [discriminate|].
    assert (Ha : args_a ch = args_a ch').
    { rewrite !args_a_amap. apply (Forall_filter' _ produces_expr) in IH.
      revert IH HF. generalize (filter produces_expr ch) as l, (filter produces_expr ch') as l'.
      intros l l' IH HF. induction HF as [|x x' l l' Hx Hl IHl]; [reflexivity|].
      inversion IH as [|y r Hy Hr]; subst. cbn [amap]. rewrite (Hy x' Hx), (IHl Hr). reflexivity. }
    rewrite <- Ha. destruct (args_a ch) as [es|]; [|reflexivity].
    apply (ast_combine_head nm ch ch' es Hhead).
Qed.

(* hence the visitor's result (registry, ids, expression) is the same *)
Corollary layout_independent_visit : forall c t t' R a,
  same_modulo_layout t t' -> ast_of t = Some a ->
  visit_e c t R = Some (compile c a R) /\ visit_e c t' R = Some (compile c a R).
Proof.
  intros c t t' R a H Ha. split.
  - apply (visit_e_compile c t R a Ha).
  - apply (visit_e_compile c t' R a). rewrite <- (layout_independent t t' H). exact Ha.
Qed.

(* the same, directly on the visitor: also for the trees on which [ast_of] is undefined *)
Fixpoint vmap (c : cls) (l : list node) (R0 : reg) : option (reg * list expr) :=
  match l with
  | [] => Some (R0, [])
  | x :: r => match visit_e c x R0 with
              | Some (R1, e) => match vmap c r R1 with Some (R2, es) => Some (R2, e :: es) | None => None end
              | None => None
              end
  end.
Lemma args_v_vmap : forall c l R, args_v c l R = vmap c (filter produces_expr l) R.
Proof.
  intros c l. induction l as [|x r IH]; intros R; [reflexivity|]. cbn [filter].
  change (args_v c (x :: r) R) with
    (if produces_expr x then match visit_e c x R with
                             | Some (R1, e) => match args_v c r R1 with
                                               | Some (R2, es) => Some (R2, e :: es) | None => None end
                             | None => None end else args_v c r R).
  destruct (produces_expr x); cbn [vmap]; [|apply IH].
  destruct (visit_e c x R) as [[R1 e]|]; [|reflexivity]. rewrite IH. reflexivity.
Qed.

Lemma v_combine_head : forall nm ch ch' R es,
  (key_is (Nd nm ch) "repetition" = true -> rep_head ch ch') ->
  v_combine (Nd nm ch) ch R es = v_combine (Nd nm ch') ch' R es.
Proof.
  intros nm ch ch' R es H. unfold v_combine. rewrite !(key_is_name nm ch' ch).
  destruct (key_is (Nd nm ch) "alternation"); [reflexivity|].
  destruct (key_is (Nd nm ch) "concatenation"); [reflexivity|].
  destruct (key_is (Nd nm ch) "repetition"); [|reflexivity].
  specialize (H eq_refl). destruct ch as [|r0 r], ch' as [|r0' r']; cbn [rep_head] in H;
    try contradiction; try reflexivity.
  destruct H as [Hnm Heq]. rewrite !name_is_node_name in *. rewrite <- Hnm.
  destruct (str_eqb (node_name r0) (s_of "repeat")); [rewrite <- (Heq eq_refl)|]; reflexivity.
Qed.

Theorem layout_independent_visit_all : forall c t t',
  same_modulo_layout t t' -> forall R, visit_e c t R = visit_e c t' R.
Proof.
  intros c. induction t as [v o l|nm ch IH] using node_ind3; intros t' H R.
  - inversion H; subst. reflexivity.
  - inversion H as [n0|nm0 ch0 ch' Hatom Hhead HF]; subst; [reflexivity|].
    rewrite !visit_e_Nd. cbv zeta. unfold is_atom in Hatom. rewrite !(key_is_name nm ch' ch).
    destruct (key_is (Nd nm ch) "rulename"); [discriminate|].
    destruct (key_is (Nd nm ch) "char_val"); [discriminate|].
    destruct (key_is (Nd nm ch) "num_val"); [discriminate|].
    destruct (key_is (Nd nm ch) "prose_val"); [discriminate|].
    assert (Ha : args_v c ch R = args_v c ch' R).
    { rewrite !args_v_vmap. apply (Forall_filter' _ produces_expr) in IH.
      revert IH HF R. generalize (filter produces_expr ch) as l, (filter produces_expr ch') as l'.
      intros l l' IH HF. induction HF as [|x x' l l' Hx Hl IHl]; intros R; [reflexivity|].
      inversion IH as [|y r Hy Hr]; subst. cbn [vmap]. rewrite (Hy x' Hx R).
      destruct (visit_e c x' R) as [[R1 e]|]; [|reflexivity]. rewrite (IHl Hr R1). reflexivity. }
    rewrite <- Ha. destruct (args_v c ch R) as [[R1 es]|]; [|reflexivity].
    apply (v_combine_head nm ch ch' R1 es Hhead).
Qed.

(* a layout node can be inserted anywhere among the children of an expression node
   (not in front of the head of a repetition) *)
Lemma Forall2_sml_refl : forall l, Forall2 same_modulo_layout l l.
Proof. induction l; constructor; [apply sml_same|assumption]. Qed.

Theorem ast_of_insert_layout : forall nm l1 x l2,
  is_layout x = true -> is_atom (Nd nm (l1 ++ l2)) = false ->
  (key_is (Nd nm (l1 ++ l2)) "repetition" = true -> l1 <> []) ->
  ast_of (Nd nm (l1 ++ x :: l2)) = ast_of (Nd nm (l1 ++ l2)) /\
  forall c R, visit_e c (Nd nm (l1 ++ x :: l2)) R = visit_e c (Nd nm (l1 ++ l2)) R.
Proof.
  intros nm l1 x l2 Hx Hatom Hrep.
  assert (H : same_modulo_layout (Nd nm (l1 ++ x :: l2)) (Nd nm (l1 ++ l2))).
  { apply sml_node.
    - exact Hatom.
    - intros K. specialize (Hrep K). destruct l1 as [|y l1']; [contradiction|].
      cbn [app rep_head]. split; [reflexivity|intros _; reflexivity].
    - rewrite !filter_app. cbn [filter]. rewrite (is_layout_not_expr x Hx). apply Forall2_sml_refl. }
  split.
  - apply (layout_independent _ _ H).
  - intros c R. apply (layout_independent_visit_all c _ _ H R).
Qed.

(* ------------------------------------------------------------------------------------------ *)
(** * 6. Example:   1*2( a / %x41-5A ) [ "b" ]   with c-wsp / comment children sprinkled in *)
Definition sp : node := T "c-wsp" [T "WSP" [T "SP" [L " "]]].
Definition crlf_n : node := T "CRLF" [T "CR" [Leaf [13] 0%nat 0%nat]; T "LF" [Leaf [10] 0%nat 0%nat]].
Definition cmt : node :=            (* c-wsp = c-nl WSP, c-nl = comment = ";" *(WSP / VCHAR) CRLF *)
  T "c-wsp" [T "c-nl" [T "comment" [L ";"; T "WSP" [T "SP" [L " "]]; T "VCHAR" [L "A"]; crlf_n]];
             T "WSP" [T "SP" [L " "]]].
Definition dig (d : string) : node := T "DIGIT" [L d].
Definition hexd (d : string) : node := T "HEXDIG" [T "DIGIT" [L d]].
Definition hexl (d : string) : node := T "HEXDIG" [L d].
Definition dq : node := T "DQUOTE" [L """"].
Definition single (e : node) : node := T "concatenation" [T "repetition" [T "element" [e]]].

(* [lay = true]: with layout children; [lay = false]: the same tree with the optional layout removed *)
Definition ex_alt (lay : bool) : node :=
  T "alternation"
    ([single (T "rulename" [T "ALPHA" [L "a"]])] ++ (if lay then [sp] else []) ++ [L "/"] ++
     (if lay then [cmt] else []) ++
     [single (T "num-val" [L "%"; T "hex-val" [L "x"; hexd "4"; hexd "1"; L "-"; hexd "5"; hexl "A"]])]).
Definition ex_opt (lay : bool) : node :=
  T "option"
    ([L "["] ++ (if lay then [sp; cmt] else []) ++
     [T "alternation"
        [single (T "char-val" [T "case-insensitive-string" [T "quoted-string" [dq; L "b"; dq]]])]] ++
     (if lay then [sp] else []) ++ [L "]"]).
Definition ex_gen (lay : bool) : node :=
  T "concatenation"
    ([T "repetition" [T "repeat" [dig "1"; L "*"; dig "2"];
                      T "element" [T "group" ([L "("] ++ (if lay then [sp] else []) ++ [ex_alt lay] ++
                                               (if lay then [cmt; sp] else []) ++ [L ")"])]]] ++
     (if lay then [sp; cmt] else [sp]) ++
     [T "repetition" [T "element" [ex_opt lay]]]).
Definition ex_tree : node := ex_gen true.
Definition ex_plain : node := ex_gen false.

Example ex_tree_text :       (* the text the tree spans *)
  nvalue ex_tree = s_of "1*2( a /; A" ++ [13; 10] ++ s_of " %x41-5A; A" ++ [13; 10] ++ s_of "  ) ; A"
                   ++ [13; 10] ++ s_of " [ ; A" ++ [13; 10] ++ s_of " ""b"" ]".
Proof. vm_compute. reflexivity. Qed.

Example ex_tree_ast :
  ast_of ex_tree =
  Some (ACat [ARep 1 (Some 2%nat) (AAlt [ARef (s_of "a"); ARange 65 90]); AOpt (ALit false (s_of "b"))]).
Proof. vm_compute. reflexivity. Qed.

Example ex_tree_visit :
  visit_e 1 ex_tree reg0 =
  Some (mkr [mko 1 (s_of "a") (s_of "a") None None] [] 2 0,
        ECat [ERep 0 1 (Some 2%nat) (EAlt false [ERef 0; ERange 65 90]);
              ERep 1 0 (Some 1%nat) (ELit false (s_of "b"))]).
Proof. vm_compute. reflexivity. Qed.

Example ex_plain_ast : ast_of ex_plain = ast_of ex_tree.
Proof. vm_compute. reflexivity. Qed.

Ltac sml_step :=
  first [ apply sml_same
        | apply sml_node;
          [ vm_compute; reflexivity
          | let K := fresh in
            intros K;
            first [ discriminate K
                  | vm_compute; split;
                    [reflexivity | let J := fresh in intros J; first [reflexivity | discriminate J]] ]
          | vm_compute filter; cbv [app] ] ].
Ltac sml_solve := repeat first [ sml_step | apply Forall2_nil | apply Forall2_cons ].

Example ex_same_modulo_layout : same_modulo_layout ex_tree ex_plain.
Proof. vm_compute. sml_solve. Qed.

(* hex digits in either case, any number of dotted groups, any number of digits *)
Example ex_hex_case :
  read_value "HEXDIG" 16 [hexl "4"; hexl "a"; L "."; hexl "0"; hexl "0"; hexl "4"; hexl "A"; L "."; hexl "f"; hexl "F"]
  = Some (ELit true [74; 74; 255]).
Proof. vm_compute. reflexivity. Qed.

(* ------------------------------------------------------------------------------------------ *)
Print Assumptions visit_e_compile.
Print Assumptions visit_e_total_partial.
Print Assumptions visit_e_total_counterexample.
Print Assumptions ast_of_single_args.
Print Assumptions ast_of_defined_iff.
Print Assumptions v_rule_define.
Print Assumptions v_rulelist_define.
Print Assumptions py_int_pos.
Print Assumptions py_int_dec.
Print Assumptions v_repeat_spec.
Print Assumptions v_repeat_five_forms.
Print Assumptions read_value_spec.
Print Assumptions v_num_val_spec.
Print Assumptions v_char_val_spec.
Print Assumptions prose_spec.
Print Assumptions is_layout_not_expr.
Print Assumptions layout_independent.
Print Assumptions layout_independent_visit.
Print Assumptions layout_independent_visit_all.
Print Assumptions ast_of_insert_layout.
Print Assumptions ex_tree_ast.
Print Assumptions ex_tree_visit.
Print Assumptions ex_same_modulo_layout.
