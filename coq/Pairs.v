(* Pairs.v — the constructs that several bundled modules transcribe independently and that the RFCs specify to be
   one and the same (property C19), as (module, rule, module, rule); and helpers to turn names into rule ids. *)
From Coq Require Import String List NArith Arith Bool.
Import ListNotations.
From ABNF Require Import Base Engine AbnfRead Registry GenTypes Loader GenBundled Bundled.
Open Scope string_scope.

Definition c19_pairs : list (string * string * string * string) := [
  ("rfc2616", "token", "rfc7230", "token"); ("rfc7230", "token", "rfc9110", "token");
  ("rfc7230", "tchar", "rfc9110", "tchar");
  ("rfc7230", "quoted-string", "rfc9110", "quoted-string"); ("rfc7230", "qdtext", "rfc9110", "qdtext");
  ("rfc7230", "quoted-pair", "rfc9110", "quoted-pair"); ("rfc7230", "obs-text", "rfc9110", "obs-text");
  ("rfc7230", "OWS", "rfc9110", "OWS"); ("rfc7230", "RWS", "rfc9110", "RWS"); ("rfc7230", "BWS", "rfc9110", "BWS");
  ("rfc2616", "HTTP-date", "rfc7231", "HTTP-date"); ("rfc7231", "HTTP-date", "rfc9110", "HTTP-date");
  ("rfc7231", "IMF-fixdate", "rfc9110", "IMF-fixdate"); ("rfc7231", "obs-date", "rfc9110", "obs-date");
  ("rfc2616", "rfc850-date", "rfc7231", "rfc850-date"); ("rfc7231", "rfc850-date", "rfc9110", "rfc850-date");
  ("rfc2616", "asctime-date", "rfc7231", "asctime-date"); ("rfc7231", "asctime-date", "rfc9110", "asctime-date");
  ("rfc2616", "date1", "rfc7231", "date1"); ("rfc7231", "date1", "rfc9110", "date1");
  ("rfc2616", "date2", "rfc7231", "date2"); ("rfc7231", "date2", "rfc9110", "date2");
  ("rfc2616", "date3", "rfc7231", "date3"); ("rfc7231", "date3", "rfc9110", "date3");
  ("rfc2616", "month", "rfc7231", "month"); ("rfc7231", "month", "rfc9110", "month");
  ("rfc7231", "day-name", "rfc9110", "day-name"); ("rfc7231", "day-name-l", "rfc9110", "day-name-l");
  ("rfc7231", "year", "rfc9110", "year"); ("rfc7231", "day", "rfc9110", "day");
  ("rfc7231", "time-of-day", "rfc9110", "time-of-day"); ("rfc7231", "hour", "rfc9110", "hour");
  ("rfc7231", "minute", "rfc9110", "minute"); ("rfc7231", "second", "rfc9110", "second");
  ("rfc7231", "GMT", "rfc9110", "GMT");
  ("rfc7230", "comment", "rfc9110", "comment"); ("rfc7230", "ctext", "rfc9110", "ctext");
  ("rfc5987", "pct-encoded", "rfc8187", "pct-encoded"); ("rfc5987", "pct-encoded", "rfc3986", "pct-encoded");
  ("rfc5987", "ext-value", "rfc8187", "ext-value"); ("rfc5987", "charset", "rfc8187", "charset");
  ("rfc5987", "mime-charset", "rfc8187", "mime-charset"); ("rfc5987", "mime-charsetc", "rfc8187", "mime-charsetc");
  ("rfc5987", "value-chars", "rfc8187", "value-chars"); ("rfc5987", "attr-char", "rfc8187", "attr-char");
  ("rfc5646", "alphanum", "rfc4647", "alphanum")].

Definition rule_rid (R : reg) (m nm : string) : option rid :=
  match cls_of bundled (s_of m) (s_of "Rule") with
  | Some c => match rget R c (s_of nm) with Some k => Some (N.of_nat k) | None => None end
  | None => None
  end.
Definition pair_rids (R : reg) (p : string * string * string * string) : option (rid * rid) :=
  let '(m1, r1, m2, r2) := p in
  match rule_rid R m1 r1, rule_rid R m2 r2 with Some a, Some b => Some (a, b) | _, _ => None end.
