(* LangEq2.v — a VERIFIED pre-pass for the language-equality checker of LangEq.v:
   remove from an alternation a LITERAL alternative that is SUBSUMED by another alternative
   (every string the literal denotes is accepted, as a whole, by the other alternative), then run
   the structural simulation [lang_eq_check].

   Part 1  locality of [M]: a match depends only on the matched slice     (M_local, M_embed)
   Part 2  the case variants of a literal                                   (variants_ok)
   Part 3  subsumption by RUNNING the engine                                (lit_subsumed_sound)
   Part 4  pruning of alternations, generic in a subsumption oracle         (prune_ok)
   Part 5  pruning of a grammar, and the checker                            (prune_grammar_ok,
                                                                             lang_eq_sound2)
   Part 6  examples; the counterexample to UNRESTRICTED grammar pruning

   Why part 5 is restricted.  Inside ONE grammar, replacing an expression by its pruned form is
   always sound (prune_lit_ok).  Replacing the DEFINITIONS of the rules by their pruned forms is
   not: the alternative y that subsumes the literal may reach, through rule references, the very
   definition that loses the literal (r1 = first-match("a" / r2), r2 = r1: the engine accepts "a"
   for r2, and after pruning r1 = r2, r2 = r1 denotes nothing; see [Counter]).  The grammar pass
   therefore uses y only when the set of rules reachable from y (closed, verified by
   [closed_under_check]) contains no rule whose definition is rewritten. *)
From Coq Require Import List NArith Arith Bool Lia Permutation Setoid.
Import ListNotations.
From ABNF Require Import Base Engine Spec Wf Checks EngineSound EngineComplete Restrict LangEq.

Local Arguments N.leb : simpl never.
Local Arguments N.eqb : simpl never.
Local Arguments N.add : simpl never.
Local Arguments N.sub : simpl never.

(* ================================================================================== *)
(* Part 1. locality of M                                                               *)
(* ================================================================================== *)
Lemma nth_error_nil_ {A} (k : nat) : nth_error (@nil A) k = None.
Proof. destruct k; reflexivity. Qed.

Lemma nth_error_firstn_lt {A} (l : list A) : forall n k, k < n ->
  nth_error (firstn n l) k = nth_error l k.
Proof.
  induction l as [|a l IH]; intros n k H.
  - rewrite firstn_nil. reflexivity.
  - destruct n as [|n]; [lia|]. destruct k as [|k]; cbn; [reflexivity|]. apply IH. lia.
Qed.

Lemma nth_error_skipn_add {A} (l : list A) : forall i k,
  nth_error (skipn i l) k = nth_error l (i + k).
Proof.
  induction l as [|a l IH]; intros i k.
  - rewrite skipn_nil, !nth_error_nil_. reflexivity.
  - destruct i as [|i]; cbn; [reflexivity|]. apply IH.
Qed.

Lemma nth_error_slice s i n k : k < n -> nth_error (slice s i n) k = nth_error s (i + k).
Proof. intros H. unfold slice. rewrite nth_error_firstn_lt by exact H. apply nth_error_skipn_add. Qed.

Lemma slice_S s : forall i n,
  slice s i (S n) = match nth_error s i with Some c => c :: slice s (S i) n | None => [] end.
Proof.
  induction s as [|a s IH]; intros i n.
  - unfold slice. rewrite skipn_nil, nth_error_nil_. reflexivity.
  - destruct i as [|i].
    + reflexivity.
    + exact (IH i n).
Qed.

(* [s'] at [i' ..] agrees with [s] at [i ..] on [n] positions (positions outside either string
   included: both are [None]) *)
Definition agree (s s' : str) (i i' n : nat) : Prop :=
  forall k, k < n -> nth_error s' (i' + k) = nth_error s (i + k).

Lemma slice_agree s s' : forall n i i', agree s s' i i' n -> slice s' i' n = slice s i n.
Proof.
  induction n as [|n IH]; intros i i' H.
  - reflexivity.
  - rewrite !slice_S. pose proof (H 0 ltac:(lia)) as H0. rewrite !Nat.add_0_r in H0. rewrite H0.
    destruct (nth_error s i); [|reflexivity]. f_equal. apply IH. intros k Hk.
    specialize (H (S k) ltac:(lia)). rewrite !Nat.add_succ_r in H. exact H.
Qed.

(* a derivation over [i, j) of s can be replayed on any string that agrees with s on [i, j) *)
Lemma M_MI_transfer G s :
  (forall e i j, M G s e i j -> i <= j /\
     forall s' i' j', agree s s' i i' (j - i) -> j' = i' + (j - i) -> j' <= length s' ->
                      M G s' e i' j') /\
  (forall e n i j, MI G s e n i j -> i <= j /\
     forall s' i' j', agree s s' i i' (j - i) -> j' = i' + (j - i) -> j' <= length s' ->
                      MI G s' e n i' j').
Proof.
  apply (M_MI_mut G s
    (fun e i j => i <= j /\
       forall s' i' j', agree s s' i i' (j - i) -> j' = i' + (j - i) -> j' <= length s' ->
                        M G s' e i' j')
    (fun e n i j => i <= j /\
       forall s' i' j', agree s s' i i' (j - i) -> j' = i' + (j - i) -> j' <= length s' ->
                        MI G s' e n i' j')).
  - (* literal *)
    intros cs v i [H1 H2]. split; [lia|]. intros s' i' j' Ha Hj Hl.
    assert (E : i + length v - i = length v) by lia. rewrite E in Ha, Hj. subst j'.
    constructor. split; [exact Hl|]. rewrite (slice_agree s s' _ i i' Ha). exact H2.
  - (* range *)
    intros lo hi i c Hn Hlo Hhi. split; [lia|]. intros s' i' j' Ha Hj Hl.
    assert (E : i + 1 - i = 1) by lia. rewrite E in Ha, Hj. subst j'.
    apply M_range with (c := c); [|exact Hlo|exact Hhi].
    specialize (Ha 0 ltac:(lia)). rewrite !Nat.add_0_r in Ha. rewrite Ha. exact Hn.
  - (* alternation *)
    intros fm es e i j Hin _ [Hle IH]. split; [exact Hle|]. intros s' i' j' Ha Hj Hl.
    apply M_alt with (e := e); [exact Hin|]. exact (IH s' i' j' Ha Hj Hl).
  - (* empty concatenation *)
    intros i Hi. split; [lia|]. intros s' i' j' _ Hj Hl.
    rewrite Nat.sub_diag, Nat.add_0_r in Hj. subst j'. constructor. exact Hl.
  - (* concatenation *)
    intros e es i j k _ [Hle1 IH1] _ [Hle2 IH2]. split; [lia|]. intros s' i' k' Ha Hk Hl.
    apply M_cat_cons with (j := i' + (j - i)).
    + apply (IH1 s' i' _); [|reflexivity|lia]. intros q Hq. apply Ha. lia.
    + apply (IH2 s' (i' + (j - i)) k'); [|lia|exact Hl]. intros q Hq.
      replace (i' + (j - i) + q) with (i' + ((j - i) + q)) by lia.
      replace (j + q) with (i + ((j - i) + q)) by lia. apply Ha. lia.
  - (* repetition *)
    intros id mn mx e i j n _ [Hle IH] Hmn Hmx. split; [exact Hle|]. intros s' i' j' Ha Hj Hl.
    apply M_rep with (n := n); [exact (IH s' i' j' Ha Hj Hl)|exact Hmn|exact Hmx].
  - (* reference *)
    intros r ru d i j HG Hd _ [Hle IH]. split; [exact Hle|]. intros s' i' j' Ha Hj Hl.
    apply M_ref with (ru := ru) (d := d); [exact HG|exact Hd|]. exact (IH s' i' j' Ha Hj Hl).
  - (* zero iterations *)
    intros e i Hi. split; [lia|]. intros s' i' j' _ Hj Hl.
    rewrite Nat.sub_diag, Nat.add_0_r in Hj. subst j'. constructor. exact Hl.
  - (* one more iteration *)
    intros e n i j k _ [Hle1 IH1] _ [Hle2 IH2]. split; [lia|]. intros s' i' k' Ha Hk Hl.
    apply MI_S with (j := i' + (j - i)).
    + apply (IH1 s' i' _); [|reflexivity|lia]. intros q Hq. apply Ha. lia.
    + apply (IH2 s' (i' + (j - i)) k'); [|lia|exact Hl]. intros q Hq.
      replace (i' + (j - i) + q) with (i' + ((j - i) + q)) by lia.
      replace (j + q) with (i + ((j - i) + q)) by lia. apply Ha. lia.
Qed.

Lemma M_le G s e i j : M G s e i j -> i <= j.
Proof. intros H. exact (proj1 (proj1 (M_MI_transfer G s) e i j H)). Qed.

(* the general form: replay on an agreeing window *)
Theorem M_window G s e i j : M G s e i j ->
  forall s' i', agree s s' i i' (j - i) -> i' + (j - i) <= length s' -> M G s' e i' (i' + (j - i)).
Proof.
  intros H s' i' Ha Hl. exact (proj2 (proj1 (M_MI_transfer G s) e i j H) s' i' _ Ha eq_refl Hl).
Qed.

Theorem M_local G s e i j : M G s e i j -> M G (slice s i (j - i)) e 0 (j - i).
Proof.
  intros H. pose proof (M_le _ _ _ _ _ H) as Hle.
  destruct (M_bounds G _ _ _ _ H) as [_ Hj].
  apply (M_window G s e i j H (slice s i (j - i)) 0).
  - intros k Hk. cbn [Nat.add]. apply nth_error_slice. exact Hk.
  - rewrite slice_length by lia. lia.
Qed.

Theorem M_embed G w e : M G w e 0 (length w) ->
  forall s i, slice s i (length w) = w -> i + length w <= length s -> M G s e i (i + length w).
Proof.
  intros H s i Hs Hl.
  pose proof (M_window G w e 0 (length w) H s i) as HW. rewrite Nat.sub_0_r in HW.
  apply HW; [|exact Hl]. intros k Hk. cbn [Nat.add].
  rewrite <- (nth_error_slice s i (length w) k Hk). rewrite Hs. reflexivity.
Qed.

(* ================================================================================== *)
(* Part 2. the case variants of a string                                               *)
(* ================================================================================== *)
(* the code points x with fold_cp x = fold_cp c *)
Definition cvar (c : cp) : list cp :=
  if (65 <=? c)%N && (c <=? 90)%N then [c; (c + 32)%N]
  else if (97 <=? c)%N && (c <=? 122)%N then [c; (c - 32)%N]
  else [c].

Lemma cvar_ok c x : fold_cp x = fold_cp c <-> In x (cvar c).
Proof.
  unfold cvar, fold_cp.
  destruct (N.leb_spec 65 c); destruct (N.leb_spec c 90); cbn [andb];
  destruct (N.leb_spec 97 c); destruct (N.leb_spec c 122); cbn [andb];
  destruct (N.leb_spec 65 x); destruct (N.leb_spec x 90); cbn [andb In];
  split; intros Hyp; lia.
Qed.

(* every ASCII letter independently in lower or upper case; everything else unchanged *)
Fixpoint variants (v : str) : list str :=
  match v with
  | [] => [[]]
  | c :: r => flat_map (fun t => map (fun x => x :: t) (cvar c)) (variants r)
  end.

Theorem variants_ok v : forall w, fold_str w = fold_str v <-> In w (variants v).
Proof.
  induction v as [|c v IH]; intros w.
  - destruct w as [|x w]; cbn; split; intros H.
    + left; reflexivity.
    + reflexivity.
    + discriminate.
    + destruct H as [H|[]]. discriminate.
  - cbn [variants]. rewrite in_flat_map. destruct w as [|x w]; cbn [fold_str map]; split.
    + discriminate.
    + intros [t [_ Hin]]. apply in_map_iff in Hin. destruct Hin as [y [Hy _]]. discriminate.
    + intros H. inversion H as [[H1 H2]]. exists w. split; [apply IH; exact H2|].
      apply in_map_iff. exists x. split; [reflexivity|]. apply cvar_ok. exact H1.
    + intros [t [Ht Hin]]. apply in_map_iff in Hin. destruct Hin as [y [Hy Hc]].
      inversion Hy; subst. f_equal; [apply cvar_ok; exact Hc|apply IH; exact Ht].
Qed.

Lemma variants_length v w : In w (variants v) -> length w = length v.
Proof.
  intros H. apply variants_ok in H. apply (f_equal (@length _)) in H. unfold fold_str in H.
  rewrite !map_length in H. exact H.
Qed.

Lemma lit_ok_variants s v i : lit_ok s false v i -> In (slice s i (length v)) (variants v).
Proof. intros [_ H]. apply variants_ok. exact H. Qed.

Lemma lit_ok_cs s v i : lit_ok s true v i -> In (slice s i (length v)) [v].
Proof. intros [_ H]. left. symmetry. exact H. Qed.

(* the number of ASCII letters: there are 2 ^ nletters v variants *)
Definition nletters (v : str) : nat := length (filter is_alpha v).
Definition letters_cap : nat := 12.

(* ================================================================================== *)
(* Part 3. subsumption of a literal by an expression, by running the engine            *)
(* ================================================================================== *)
Lemma perm_sh_id : perm_oracle sh_id.
Proof. intros l. apply Permutation_refl. Qed.

(* the engine lists an end at the end of w *)
Definition accepts_whole (G : grammar) (fuel : nat) (y : expr) (w : str) : bool :=
  match lparse sh_id G fuel y w 0 with
  | Ok ms => anyb (fun m => Nat.eqb (mend m) (length w)) ms
  | _ => false
  end.

Lemma accepts_whole_eq G fuel y w : accepts_whole G fuel y w =
  match lparse sh_id G fuel y w 0 with
  | Ok ms => existsb (fun m => Nat.eqb (mend m) (length w)) ms
  | _ => false
  end.
Proof. unfold accepts_whole. destruct (lparse sh_id G fuel y w 0); try reflexivity. apply anyb_existsb. Qed.

Lemma accepts_whole_sound G fuel y w : WBG G -> WB y ->
  accepts_whole G fuel y w = true -> M G w y 0 (length w).
Proof.
  intros HG Hy. unfold accepts_whole.
  destruct (lparse sh_id G fuel y w 0) as [ms| | |] eqn:E; try discriminate.
  rewrite anyb_existsb. intros H. apply existsb_exists in H. destruct H as [m [Hm Heq]].
  apply Nat.eqb_eq in Heq. rewrite <- Heq.
  apply (lparse_sound_ends sh_id G perm_sh_id HG fuel y w 0 ms Hy E); [lia|exact Hm].
Qed.

(* written for [vm_compute] (call-by-value): [if] short-circuits; the variants are only built
   when v itself is accepted and has at most [letters_cap] letters *)
Definition lit_subsumed (G : grammar) (fuel : nat) (cs : bool) (v : str) (y : expr) : bool :=
  if cs then accepts_whole G fuel y v
  else if Nat.leb (nletters v) letters_cap
       then (if accepts_whole G fuel y v then allb (accepts_whole G fuel y) (variants v) else false)
       else false.

Lemma lit_subsumed_spec G fuel cs v y : lit_subsumed G fuel cs v y = true ->
  forallb (accepts_whole G fuel y) (if cs then [v] else variants v) = true.
Proof.
  unfold lit_subsumed. destruct cs.
  - intros H. cbn. rewrite H. reflexivity.
  - destruct (Nat.leb (nletters v) letters_cap); [|discriminate].
    destruct (accepts_whole G fuel y v); [|discriminate]. rewrite allb_forallb. auto.
Qed.

Theorem lit_subsumed_sound G fuel cs v y : WBG G -> WB y -> lit_subsumed G fuel cs v y = true ->
  forall s i j, M G s (ELit cs v) i j -> M G s y i j.
Proof.
  intros HG Hy H s i j HM. apply lit_subsumed_spec in H. rewrite forallb_forall in H.
  apply (M_lit_iff G) in HM. destruct HM as [Hok ->].
  assert (Hlen : length (slice s i (length v)) = length v).
  { apply slice_length. exact (proj1 Hok). }
  assert (Hin : In (slice s i (length v)) (if cs then [v] else variants v)).
  { destruct cs; [apply lit_ok_cs|apply lit_ok_variants]; exact Hok. }
  pose proof (accepts_whole_sound G fuel y _ HG Hy (H _ Hin)) as HW.
  pose proof (M_embed G _ y HW s i) as HE. rewrite Hlen in HE.
  apply HE; [reflexivity|exact (proj1 Hok)].
Qed.

(* ================================================================================== *)
(* Part 4. pruning alternations, generic in the subsumption oracle                     *)
(* ================================================================================== *)
Section Prune.
  (* [sub cs v y = true] must mean: every match of the literal is a match of y *)
  Variable sub : bool -> str -> expr -> bool.

  (* one alternative at a time, left to right: a literal is dropped when an alternative that is
     STILL PRESENT (kept so far, or not yet visited) subsumes it; so two literals that subsume
     each other are never both dropped *)
  Fixpoint prune_go (kept rest : list expr) : list expr :=
    match rest with
    | [] => kept
    | x :: r =>
      match x with
      | ELit cs v => if anyb (sub cs v) (kept ++ r) then prune_go kept r
                     else prune_go (kept ++ [x]) r
      | _ => prune_go (kept ++ [x]) r
      end
    end.
  Definition prune_alt (es : list expr) : list expr := prune_go [] es.

  Fixpoint prune (e : expr) : expr :=
    match e with
    | EAlt fm es => EAlt fm (prune_alt (map prune es))
    | ECat es => ECat (map prune es)
    | ERep id mn mx x => ERep id mn mx (prune x)
    | _ => e
    end.

  Definition prune_rule (ru : rule) : rule :=
    {| rname := rname ru; rdef := option_map prune (rdef ru); rexcl := rexcl ru |}.

  Lemma prune_go_incl : forall rest kept x, In x (prune_go kept rest) -> In x (kept ++ rest).
  Proof.
    induction rest as [|a r IH]; intros kept x H; cbn [prune_go] in H.
    - rewrite app_nil_r. exact H.
    - assert (Hdef : In x (prune_go (kept ++ [a]) r) -> In x (kept ++ a :: r)).
      { intros H'. apply IH in H'. rewrite <- app_assoc in H'. exact H'. }
      destruct a; try (apply Hdef; exact H).
      destruct (anyb (sub cs v) (kept ++ r)); [|apply Hdef; exact H].
      apply IH in H. apply in_app_iff in H. apply in_app_iff. destruct H; [left|right; right]; assumption.
  Qed.

  Section Ok.
    Variable H : grammar.
    Hypothesis sub_ok : forall cs v y, sub cs v y = true ->
      forall s i j, M H s (ELit cs v) i j -> M H s y i j.

    Lemma prune_go_ok s i j : forall rest kept,
      (exists e, In e (prune_go kept rest) /\ M H s e i j) <->
      (exists e, In e (kept ++ rest) /\ M H s e i j).
    Proof.
      induction rest as [|x r IH]; intros kept; cbn [prune_go].
      - rewrite app_nil_r. reflexivity.
      - assert (Hdef : (exists e, In e (prune_go (kept ++ [x]) r) /\ M H s e i j) <->
                       (exists e, In e (kept ++ x :: r) /\ M H s e i j)).
        { rewrite IH. rewrite <- app_assoc. reflexivity. }
        destruct x as [cs v|lo hi|fm es|es|id mn mx x'| |a]; try exact Hdef.
        destruct (anyb (sub cs v) (kept ++ r)) eqn:E; [|exact Hdef].
        rewrite IH. rewrite anyb_existsb in E. apply existsb_exists in E.
        destruct E as [y [Hy Hs]]. split.
        + intros [e [Hin HM]]. exists e. split; [|exact HM].
          apply in_app_iff in Hin. apply in_app_iff. destruct Hin; [left|right; right]; assumption.
        + intros [e [Hin HM]]. apply in_app_iff in Hin. destruct Hin as [Hin|[Heq|Hin]].
          * exists e. split; [apply in_app_iff; left; exact Hin|exact HM].
          * subst e. exists y. split; [exact Hy|]. exact (sub_ok cs v y Hs s i j HM).
          * exists e. split; [apply in_app_iff; right; exact Hin|exact HM].
    Qed.

    Lemma prune_alt_ok s fm es i j : M H s (EAlt fm (prune_alt es)) i j <-> M H s (EAlt fm es) i j.
    Proof. rewrite !(M_alt_iff H). unfold prune_alt. rewrite (prune_go_ok s i j es []). reflexivity. Qed.

    (* congruences for M (LangEq.v has them for the depth-indexed Mh) *)
    Lemma M_alt_congr s (f : expr -> expr) fm es :
      Forall (fun x => forall i j, M H s (f x) i j <-> M H s x i j) es ->
      forall i j, M H s (EAlt fm (map f es)) i j <-> M H s (EAlt fm es) i j.
    Proof.
      intros HF i j. rewrite Forall_forall in HF. rewrite !(M_alt_iff H). split.
      - intros [e [Hin HM]]. apply in_map_iff in Hin. destruct Hin as [x [<- Hx]].
        exists x. split; [exact Hx|]. apply (proj1 (HF x Hx i j)). exact HM.
      - intros [x [Hx HM]]. exists (f x). split; [apply in_map; exact Hx|].
        apply (proj2 (HF x Hx i j)). exact HM.
    Qed.

    Lemma M_cat_congr s (f : expr -> expr) es :
      Forall (fun x => forall i j, M H s (f x) i j <-> M H s x i j) es ->
      forall i j, M H s (ECat (map f es)) i j <-> M H s (ECat es) i j.
    Proof.
      intros HF. induction HF as [|x es Hx _ IH]; intros i j; cbn [map]; [reflexivity|].
      split; intros HM; inversion HM as [| | | |e0 es0 i0 j0 k0 H1 H2| |]; subst.
      - apply M_cat_cons with (j := j0); [apply (proj1 (Hx i j0)); exact H1|apply (proj1 (IH j0 j)); exact H2].
      - apply M_cat_cons with (j := j0); [apply (proj2 (Hx i j0)); exact H1|apply (proj2 (IH j0 j)); exact H2].
    Qed.

    Lemma MI_impl s x y : (forall i j, M H s x i j -> M H s y i j) ->
      forall n i j, MI H s x n i j -> MI H s y n i j.
    Proof.
      intros Hxy. induction n as [|n IH]; intros i j HI;
        inversion HI as [e0 i0 Hi|e0 n0 i0 j0 k0 H1 H2]; subst.
      - constructor. exact Hi.
      - apply MI_S with (j := j0); [apply Hxy; exact H1|apply IH; exact H2].
    Qed.

    Lemma M_rep_congr s id mn mx x y : (forall i j, M H s x i j <-> M H s y i j) ->
      forall i j, M H s (ERep id mn mx x) i j <-> M H s (ERep id mn mx y) i j.
    Proof.
      intros Hxy i j.
      split; intros HM; inversion HM as [| | | | |id0 mn0 mx0 e0 i0 j0 n HI Hmn Hmx|]; subst;
        apply M_rep with (n := n); try assumption;
        revert HI; apply MI_impl; intros a b; apply Hxy.
    Qed.

    Theorem prune_ok e : forall s i j, M H s (prune e) i j <-> M H s e i j.
    Proof.
      induction e as [cs v|lo hi|fm es IH|es IH|id mn mx e IH| |r] using expr_ind2;
        intros s i j; cbn [prune]; try reflexivity.
      - rewrite prune_alt_ok. apply M_alt_congr.
        revert IH. apply Forall_impl. intros x Hx a b. apply Hx.
      - apply M_cat_congr. revert IH. apply Forall_impl. intros x Hx a b. apply Hx.
      - apply M_rep_congr. intros a b. apply IH.
    Qed.
  End Ok.
End Prune.

(* the expression-level instance: inside ONE grammar, pruning with the engine is sound as is *)
Definition sub_lit (G : grammar) (fuel : nat) (cs : bool) (v : str) (y : expr) : bool :=
  if wbb y then lit_subsumed G fuel cs v y else false.

Lemma sub_lit_ok G fuel : WBG G -> forall cs v y, sub_lit G fuel cs v y = true ->
  forall s i j, M G s (ELit cs v) i j -> M G s y i j.
Proof.
  intros HG cs v y H. unfold sub_lit in H. destruct (wbb y) eqn:Ey; [|discriminate].
  apply (lit_subsumed_sound G fuel cs v y HG (wbb_sound _ Ey) H).
Qed.

Definition prune_lit (G : grammar) (fuel : nat) (e : expr) : expr := prune (sub_lit G fuel) e.

Theorem prune_lit_ok G fuel : WBG G ->
  forall e s i j, M G s (prune_lit G fuel e) i j <-> M G s e i j.
Proof. intros HG e. apply (prune_ok _ G (sub_lit_ok G fuel HG)). Qed.

(* ================================================================================== *)
(* Part 5. pruning a grammar                                                           *)
(* ================================================================================== *)
(* ---- 5.1 abstract: G' is G with the definitions of the rules in [pr] pruned ---- *)
Section GrammarEquiv.
  Variables G G' : grammar.
  Variable sub : bool -> str -> expr -> bool.
  Variable pr : list rid.
  Hypothesis Hout : forall r, ~ In r pr -> G' r = G r.
  Hypothesis Hin : forall r, In r pr -> G' r = option_map (prune_rule sub) (G r).
  Hypothesis sub_G : forall cs v y, sub cs v y = true ->
    forall s i j, M G s (ELit cs v) i j -> M G s y i j.
  Hypothesis sub_G' : forall cs v y, sub cs v y = true ->
    forall s i j, M G' s (ELit cs v) i j -> M G' s y i j.

  Lemma pruned_fwd s :
    (forall e i j, M G' s e i j -> M G s e i j) /\
    (forall e n i j, MI G' s e n i j -> MI G s e n i j).
  Proof.
    apply (M_MI_mut G' s (fun e i j => M G s e i j) (fun e n i j => MI G s e n i j));
      try (intros; econstructor; eauto; fail).
    intros r ru' d' i j HG' Hd' _ IH.
    destruct (memr r pr) eqn:E.
    - apply memr_In in E. rewrite (Hin r E) in HG'.
      destruct (G r) as [ru|] eqn:EG; cbn in HG'; [|discriminate]. inversion HG'; subst ru'.
      cbn in Hd'. destruct (rdef ru) as [d|] eqn:Ed; cbn in Hd'; [|discriminate].
      inversion Hd'; subst d'. apply M_ref with (ru := ru) (d := d); [exact EG|exact Ed|].
      apply (prune_ok sub G sub_G d s i j). exact IH.
    - assert (Hn : ~ In r pr).
      { intros Hc. apply memr_In in Hc. rewrite Hc in E. discriminate. }
      rewrite (Hout r Hn) in HG'. apply M_ref with (ru := ru') (d := d'); assumption.
  Qed.

  Lemma pruned_bwd s :
    (forall e i j, M G s e i j -> M G' s e i j) /\
    (forall e n i j, MI G s e n i j -> MI G' s e n i j).
  Proof.
    apply (M_MI_mut G s (fun e i j => M G' s e i j) (fun e n i j => MI G' s e n i j));
      try (intros; econstructor; eauto; fail).
    intros r ru d i j HG Hd _ IH.
    destruct (memr r pr) eqn:E.
    - apply memr_In in E.
      apply M_ref with (ru := prune_rule sub ru) (d := prune sub d).
      + rewrite (Hin r E), HG. reflexivity.
      + cbn. rewrite Hd. reflexivity.
      + apply (prune_ok sub G' sub_G' d s i j). exact IH.
    - assert (Hn : ~ In r pr).
      { intros Hc. apply memr_In in Hc. rewrite Hc in E. discriminate. }
      apply M_ref with (ru := ru) (d := d); [rewrite (Hout r Hn); exact HG|exact Hd|exact IH].
  Qed.

  Theorem pruned_equiv s e i j : M G' s e i j <-> M G s e i j.
  Proof. split; [apply (proj1 (pruned_fwd s))|apply (proj1 (pruned_bwd s))]. Qed.
End GrammarEquiv.

(* ---- 5.2 concrete: association lists, the engine, the reachability restriction ---- *)
Lemma of_list_map (f : rid -> rule -> rule) l r :
  of_list (map (fun p => (fst p, f (fst p) (snd p))) l) r = option_map (f r) (of_list l r).
Proof.
  unfold of_list. induction l as [|[a b] l IH]; cbn [map find fst snd]; [reflexivity|].
  destruct (N.eqb a r) eqn:E.
  - apply N.eqb_eq in E. subst a. reflexivity.
  - exact IH.
Qed.

Section Oracle.
  Variable l : list (rid * rule).
  Variable fuel : nat.
  Variable pr : list rid.        (* the rules whose definitions are rewritten *)

  (* the rules reachable from y form a closed set that avoids [pr] *)
  Definition safe_y (y : expr) : bool :=
    let R := Restrict.reach l (length l) (nodup N.eq_dec (refs y)) in
    if closed_under_check l R
    then (if allb (fun x => memr x R) (refs y) then allb (fun r => negb (memr r pr)) R else false)
    else false.

  Definition sub_r (cs : bool) (v : str) (y : expr) : bool :=
    if wbb y then (if lit_subsumed (of_list l) fuel cs v y then safe_y y else false) else false.

  Definition prune_rule_in (r : rid) (ru : rule) : rule :=
    if memr r pr then prune_rule sub_r ru else ru.
  Definition prune_grammar_with : list (rid * rule) :=
    map (fun p => (fst p, prune_rule_in (fst p) (snd p))) l.

  Lemma pgw_out r : ~ In r pr -> of_list prune_grammar_with r = of_list l r.
  Proof.
    intros Hn. unfold prune_grammar_with. rewrite (of_list_map prune_rule_in). unfold prune_rule_in.
    destruct (memr r pr) eqn:E; [apply memr_In in E; contradiction|].
    destruct (of_list l r); reflexivity.
  Qed.

  Lemma pgw_in r : In r pr ->
    of_list prune_grammar_with r = option_map (prune_rule sub_r) (of_list l r).
  Proof.
    intros Hr. unfold prune_grammar_with. rewrite (of_list_map prune_rule_in). unfold prune_rule_in.
    apply memr_In in Hr. rewrite Hr. reflexivity.
  Qed.

  Hypothesis HG : WBG (of_list l).

  Lemma sub_r_G cs v y : sub_r cs v y = true ->
    forall s i j, M (of_list l) s (ELit cs v) i j -> M (of_list l) s y i j.
  Proof.
    unfold sub_r. destruct (wbb y) eqn:Ey; [|discriminate].
    destruct (lit_subsumed (of_list l) fuel cs v y) eqn:Es; [|discriminate]. intros _.
    apply (lit_subsumed_sound _ fuel cs v y HG (wbb_sound _ Ey) Es).
  Qed.

  Lemma sub_r_G' cs v y : sub_r cs v y = true ->
    forall s i j, M (of_list prune_grammar_with) s (ELit cs v) i j ->
                  M (of_list prune_grammar_with) s y i j.
  Proof.
    intros Hs s i j HM. pose proof (sub_r_G cs v y Hs s i j) as HGy.
    unfold sub_r in Hs. destruct (wbb y); [|discriminate].
    destruct (lit_subsumed (of_list l) fuel cs v y); [|discriminate].
    unfold safe_y in Hs. cbv zeta in Hs.
    set (R := Restrict.reach l (length l) (nodup N.eq_dec (refs y))) in *.
    destruct (closed_under_check l R) eqn:Ec; [|discriminate].
    destruct (allb (fun x => memr x R) (refs y)) eqn:Ei; [|discriminate].
    rewrite allb_forallb, forallb_forall in Ei, Hs.
    apply (M_lit_iff _) in HM. destruct HM as [Hok ->].
    assert (HA : agree_on R (of_list l) (of_list prune_grammar_with)).
    { intros r Hr. symmetry. apply pgw_out. intros Hc. specialize (Hs r Hr).
      apply memr_In in Hc. rewrite Hc in Hs. discriminate. }
    apply (proj1 (M_restrict_fwd _ _ R HA (closed_under_check_sound l R Ec) s)).
    - apply HGy. constructor. exact Hok.
    - intros x Hx. apply memr_In. exact (Ei x Hx).
  Qed.

  Theorem prune_grammar_with_ok s e i j :
    M (of_list prune_grammar_with) s e i j <-> M (of_list l) s e i j.
  Proof.
    apply (pruned_equiv (of_list l) (of_list prune_grammar_with) sub_r pr pgw_out pgw_in
                        sub_r_G sub_r_G').
  Qed.
End Oracle.

(* the rules to rewrite: those that the UNRESTRICTED pruning would change (no proof obligation:
   any list is sound) *)
Fixpoint esize (e : expr) : nat :=
  match e with
  | EAlt _ es => S (list_sum (map esize es))
  | ECat es => S (list_sum (map esize es))
  | ERep _ _ _ x => S (esize x)
  | _ => 1
  end.

Definition prune_ids (l : list (rid * rule)) (fuel : nat) : list rid :=
  map fst (filter (fun p => match rdef (snd p) with
                            | Some d => Nat.ltb (esize (prune_lit (of_list l) fuel d)) (esize d)
                            | None => false
                            end) l).

Definition prune_grammar (l : list (rid * rule)) (fuel : nat) : list (rid * rule) :=
  prune_grammar_with l fuel (prune_ids l fuel).

Theorem prune_grammar_ok l fuel : WBG (of_list l) ->
  forall s e i j, M (of_list (prune_grammar l fuel)) s e i j <-> M (of_list l) s e i j.
Proof. intros HG s e i j. apply prune_grammar_with_ok. exact HG. Qed.

(* ---- 5.3 the checker ---- *)
Definition lang_eq_check2 (l1 l2 : list (rid * rule)) (pairs : list (rid * rid))
           (fuel efuel : nat) : bool :=
  if wbg_check l1 then
    (if wbg_check l2 then
       lang_eq_check (of_list (prune_grammar l1 efuel)) (of_list (prune_grammar l2 efuel)) pairs fuel
     else false)
  else false.

Lemma lang_eq_check2_eq l1 l2 pairs fuel efuel : lang_eq_check2 l1 l2 pairs fuel efuel =
  wbg_check l1 && wbg_check l2 &&
  lang_eq_check (of_list (prune_grammar l1 efuel)) (of_list (prune_grammar l2 efuel)) pairs fuel.
Proof. unfold lang_eq_check2. destruct (wbg_check l1); destruct (wbg_check l2); reflexivity. Qed.

Theorem lang_eq_sound2 l1 l2 pairs fuel efuel : lang_eq_check2 l1 l2 pairs fuel efuel = true ->
  forall a b, In (a, b) pairs ->
  forall s i j, M (of_list l1) s (ERef a) i j <-> M (of_list l2) s (ERef b) i j.
Proof.
  unfold lang_eq_check2. intros H a b Hab s i j.
  destruct (wbg_check l1) eqn:E1; [|discriminate]. destruct (wbg_check l2) eqn:E2; [|discriminate].
  rewrite <- (prune_grammar_ok l1 efuel (wbg_check_sound _ E1) s (ERef a) i j).
  rewrite <- (prune_grammar_ok l2 efuel (wbg_check_sound _ E2) s (ERef b) i j).
  exact (lang_eq_sound _ _ pairs fuel H a b Hab s i j).
Qed.

(* once [lang_eq_check2] holds, any two expressions can be compared over the pruned grammars *)
Theorem simb_sound2 l1 l2 pairs fuel efuel : lang_eq_check2 l1 l2 pairs fuel efuel = true ->
  forall f e1 e2,
    simb (of_list (prune_grammar l1 efuel)) (of_list (prune_grammar l2 efuel)) pairs f e1 e2 = true ->
  forall s i j, M (of_list l1) s e1 i j <-> M (of_list l2) s e2 i j.
Proof.
  unfold lang_eq_check2. intros H f e1 e2 HS s i j.
  destruct (wbg_check l1) eqn:E1; [|discriminate]. destruct (wbg_check l2) eqn:E2; [|discriminate].
  rewrite <- (prune_grammar_ok l1 efuel (wbg_check_sound _ E1) s e1 i j).
  rewrite <- (prune_grammar_ok l2 efuel (wbg_check_sound _ E2) s e2 i j).
  exact (simb_sound _ _ pairs fuel H f e1 e2 HS s i j).
Qed.

(* ================================================================================== *)
(* Part 6. examples                                                                    *)
(* ================================================================================== *)
Module LangEq2Examples.
  Local Arguments ERange (lo hi)%N_scope.
  Local Arguments ERef r%N_scope.
  Local Arguments ERep id%N_scope mn%nat_scope mx e.
  Definition ru (d : expr) : rule := {| rname := []; rdef := Some d; rexcl := None |}.
  Definition q (v : str) : expr := ELit false v.          (* "..." : case-insensitive *)
  Definition qs (v : str) : expr := ELit true v.          (* %s"..." *)

  Definition utf8 : str := [85; 84; 70; 45; 56]%N.                              (* UTF-8 *)
  Definition iso : str := [73; 83; 79; 45; 56; 56; 53; 57; 45; 49]%N.           (* ISO-8859-1 *)
  Definition iso_ : str := [73; 83; 79; 95; 56; 56; 53; 57; 45; 49]%N.          (* ISO_8859-1 *)
  (* 1*( %x41-5A / %x61-7A / %x30-39 / "-" ) *)
  Definition mcdef (id : N) : expr :=
    ERep id 1 None (EAlt false [ERange 65 90; ERange 97 122; ERange 48 57; q [45%N]]).

  (* cset = "UTF-8" / "ISO-8859-1" / mc       mc = 1*( ALPHA / DIGIT / "-" )     (rules 1, 2)
     cset' = "UTF-8" / mc'                    mc' = the same                     (rules 11, 12) *)
  Definition L1 : list (rid * rule) :=
    [(1%N, ru (EAlt false [q utf8; q iso; ERef 2])); (2%N, ru (mcdef 0))].
  Definition L2 : list (rid * rule) :=
    [(11%N, ru (EAlt false [q utf8; ERef 12])); (12%N, ru (mcdef 1))].

  Example ex_variants : length (variants iso) = 8 /\ variants [45%N; 97%N] = [[45; 97]; [45; 65]]%N.
  Proof. vm_compute. split; reflexivity. Qed.

  Example ex_subsumed :
    lit_subsumed (of_list L1) 40 false iso (ERef 2) = true /\
    lit_subsumed (of_list L1) 40 false iso_ (ERef 2) = false /\
    lit_subsumed (of_list L1) 40 false iso (q utf8) = false.
  Proof. vm_compute. repeat split; reflexivity. Qed.

  Example ex_pruned :
    prune_grammar L1 40 = [(1%N, ru (EAlt false [ERef 2])); (2%N, ru (mcdef 0))] /\
    prune_grammar L2 40 = [(11%N, ru (EAlt false [ERef 12])); (12%N, ru (mcdef 1))].
  Proof. vm_compute. split; reflexivity. Qed.

  (* the structural check alone fails; prune, then check succeeds *)
  Example ex_old : lang_eq_check (of_list L1) (of_list L2) [(1%N, 11%N)] 16 = false.
  Proof. vm_compute. reflexivity. Qed.
  Example ex_new : lang_eq_check2 L1 L2 [(1%N, 11%N)] 16 40 = true.
  Proof. vm_compute. reflexivity. Qed.
  Example ex_new_M s i j : M (of_list L1) s (ERef 1) i j <-> M (of_list L2) s (ERef 11) i j.
  Proof. apply (lang_eq_sound2 L1 L2 [(1%N, 11%N)] 16 40 ex_new); left; reflexivity. Qed.

  (* NEGATIVE: "ISO_8859-1" is not a mime-charset here, so it is kept and the check fails; with too
     little engine fuel nothing is pruned *)
  Definition L1' : list (rid * rule) :=
    [(1%N, ru (EAlt false [q utf8; q iso_; ERef 2])); (2%N, ru (mcdef 0))].
  Example ex_neg : lang_eq_check2 L1' L2 [(1%N, 11%N)] 16 40 = false.
  Proof. vm_compute. reflexivity. Qed.
  Example ex_neg_fuel : lang_eq_check2 L1 L2 [(1%N, 11%N)] 16 3 = false.
  Proof. vm_compute. reflexivity. Qed.
  (* two literals that subsume each other: exactly one is dropped *)
  Example ex_mutual :
    prune_lit (of_list L1) 40 (EAlt false [q [97%N]; q [65%N]]) = EAlt false [q [65%N]].
  Proof. vm_compute. reflexivity. Qed.
End LangEq2Examples.

(* ---- the counterexample to pruning every definition with the unrestricted test ---- *)
Module Counter.
  Definition ru (d : expr) : rule := {| rname := []; rdef := Some d; rexcl := None |}.
  (* r1 = first-match( "a" / r2 )      r2 = r1 *)
  Definition L : list (rid * rule) :=
    [(1%N, ru (EAlt true [ELit false [97%N]; ERef 2%N])); (2%N, ru (ERef 1%N))].
  (* every definition pruned, the engine run on the original grammar, no reachability test *)
  Definition prune_grammar_naive (l : list (rid * rule)) (fuel : nat) : list (rid * rule) :=
    map (fun p => (fst p, prune_rule (sub_lit (of_list l) fuel) (snd p))) l.

  Example wb : wbg_check L = true.
  Proof. vm_compute. reflexivity. Qed.
  (* the engine stops at the first alternative of r1, so r2 accepts "a" (and "A") *)
  Example subsumed : lit_subsumed (of_list L) 10 false [97%N] (ERef 2%N) = true.
  Proof. vm_compute. reflexivity. Qed.
  Example naive : prune_grammar_naive L 10 =
    [(1%N, ru (EAlt true [ERef 2%N])); (2%N, ru (ERef 1%N))].
  Proof. vm_compute. reflexivity. Qed.

  Lemma before : M (of_list L) [97%N] (ERef 1%N) 0 1.
  Proof.
    apply M_ref with (ru := ru (EAlt true [ELit false [97%N]; ERef 2%N]))
                     (d := EAlt true [ELit false [97%N]; ERef 2%N]); try reflexivity.
    apply M_alt with (e := ELit false [97%N]); [left; reflexivity|].
    apply (M_lit (of_list L) [97%N] false [97%N] 0). split; [cbn; lia|reflexivity].
  Qed.

  Lemma after_aux s :
    (forall e i j, M (of_list (prune_grammar_naive L 10)) s e i j ->
       e = ERef 1%N \/ e = ERef 2%N \/ e = EAlt true [ERef 2%N] -> False) /\
    (forall e n i j, MI (of_list (prune_grammar_naive L 10)) s e n i j -> True).
  Proof.
    rewrite naive.
    apply (M_MI_mut _ s (fun e i j => e = ERef 1%N \/ e = ERef 2%N \/ e = EAlt true [ERef 2%N] -> False)
                        (fun e n i j => True)); try (intros; exact I).
    - intros cs v i _ [H|[H|H]]; discriminate.
    - intros lo hi i c _ _ _ [H|[H|H]]; discriminate.
    - intros fm es e i j Hin _ IH [H|[H|H]]; try discriminate.
      inversion H; subst. destruct Hin as [<-|[]]. apply IH. right; left; reflexivity.
    - intros i _ [H|[H|H]]; discriminate.
    - intros e es i j k _ _ _ _ [H|[H|H]]; discriminate.
    - intros id mn mx e i j n _ _ _ _ [H|[H|H]]; discriminate.
    - intros r ru0 d i j HG Hd _ IH [H|[H|H]]; try discriminate; inversion H; subst r.
      + vm_compute in HG. inversion HG; subst ru0. cbn in Hd. inversion Hd; subst d.
        apply IH. right; right; reflexivity.
      + vm_compute in HG. inversion HG; subst ru0. cbn in Hd. inversion Hd; subst d.
        apply IH. left; reflexivity.
  Qed.

  (* the statement "M (of_list (pruned l)) s e i j <-> M (of_list l) s e i j" FAILS for the
     unrestricted pruning of all definitions, although [wbg_check L = true] *)
  Theorem naive_unsound :
    M (of_list L) [97%N] (ERef 1%N) 0 1 /\
    ~ M (of_list (prune_grammar_naive L 10)) [97%N] (ERef 1%N) 0 1.
  Proof.
    split; [exact before|]. intros H.
    exact (proj1 (after_aux [97%N]) _ _ _ H (or_introl eq_refl)).
  Qed.

  (* the restricted pass leaves this grammar alone: r2 reaches r1, which would be rewritten *)
  Example restricted : prune_grammar L 10 = L.
  Proof. vm_compute. reflexivity. Qed.
End Counter.

Print Assumptions M_local.
Print Assumptions M_embed.
Print Assumptions lit_subsumed_sound.
Print Assumptions prune_lit_ok.
Print Assumptions prune_grammar_ok.
Print Assumptions lang_eq_sound2.
Print Assumptions Counter.naive_unsound.
