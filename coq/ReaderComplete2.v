(* ReaderComplete2.v — C04 closed in both directions: for every registry that still contains the boot rules,
   the SPEC route (spec reader + define_rule(s)) accepts a text and returns R' if and only if the LIBRARY route
   (engine on the registry's own meta-grammar + visitor) does, for every sufficiently large fuel.
   Ingredients: ReaderComplete1 (what the reader accepts is derivable), L_C02 (parse / parse_all are complete for
   well-formed closed plain grammars: the meta table is one, by verified checkers), ReaderDeriv (every derivation
   has the reader's abstract syntax), ReaderDerivE2E (library route => spec route, transfer to grammar_of R). *)
From Coq Require Import String Ascii List NArith Arith Bool Lia Permutation.
Import ListNotations.
From ABNF Require Import Base Engine Spec Wf Checks WfCheck Cert EngineSound L_C02 L_C05 AbnfRead Registry
     RegistryProps RegistryView GenTypes Loader Bundled RfcSpec Tables Visit Visitor VisitorProps Restrict Compile
     ReaderDeriv1 ReaderDeriv ReaderDerivE2E ReaderComplete1.
Local Open Scope list_scope.

Lemma rulelist_defined : defined (of_list l_meta) (rid_meta "rulelist").
Proof. apply definedb_sound. vm_compute. reflexivity. Qed.
Lemma rule_defined : defined (of_list l_meta) (rid_meta "rule").
Proof. apply definedb_sound. vm_compute. reflexivity. Qed.

Lemma D_ref_single G0 s r i ns j : D G0 s (ERef r) i ns j -> exists t, ns = [t].
Proof. intros H. inversion H; subst. eauto. Qed.

(* the engine on the meta table, whole text: complete *)
Lemma meta_parse_all_complete r s : defined (of_list l_meta) r -> M (of_list l_meta) s (ERef r) 0 (length s) ->
  exists f, forall f', f <= f' -> exists m, parse_all sh_id (of_list l_meta) f' r s = Ok [m].
Proof.
  intros Hd HM. destruct (auto_wf_sound l_meta meta_wf) as [nul [rank Hw]].
  destruct (c02_parse_all sh_id nul rank (of_list l_meta) sh_id_perm Hw (closed_check_sound _ meta_closed)
              (plain_check_sound _ meta_plain) r s Hd) as [f Hf].
  exists f. intros f' Hle. destruct (Hf f' Hle) as [Hiff _]. exact (proj2 Hiff HM).
Qed.
(* the engine on the meta table, longest match: complete *)
Lemma meta_parse_complete r s : defined (of_list l_meta) r -> M (of_list l_meta) s (ERef r) 0 (length s) ->
  exists f, forall f', f <= f' -> exists m, parse sh_id (of_list l_meta) f' r s 0 = Ok [m] /\ length s <= mend m.
Proof.
  intros Hd HM. destruct (auto_wf_sound l_meta meta_wf) as [nul [rank Hw]].
  destruct (c02_parse sh_id nul rank (of_list l_meta) sh_id_perm Hw (closed_check_sound _ meta_closed)
              (plain_check_sound _ meta_plain) r s 0 Hd (Nat.le_0_l _)) as [f Hf].
  exists f. intros f' Hle. destruct (Hf f' Hle) as (Hok & Hperr & [[m Hm]|Hp]).
  - exists m. split; [exact Hm|]. destruct (Hok m Hm) as (_ & Hmax & _). apply Hmax. exact HM.
  - exfalso. exact (proj1 Hperr Hp _ HM).
Qed.

(* ------------------------------------------------------------------------------------------ *)
(** * Spec route => library route *)
Theorem spec_load_is_lib : forall c text strict R R',
  boot_ok R -> load_grammar c text strict R = Some R' ->
  exists fuel, forall f, fuel <= f -> lib_load_grammar f c text strict R = LOk R'.
Proof.
  intros c text strict R R' HB H. pose proof HB as (_ & Hrl & _).
  unfold load_grammar in H. set (src := if strict then normalise text else text) in *.
  destruct (read_rulelist src) as [rs|] eqn:Er; [|discriminate H].
  destruct (reader_has_derivation src rs Er) as [t0 HD0].
  destruct (meta_parse_all_complete _ src rulelist_defined (D_M _ _ _ _ _ _ HD0)) as [fuel Hf].
  exists fuel. intros f Hle. destruct (Hf f Hle) as [m Hm].
  unfold lib_load_grammar. fold src. rewrite Hrl, N2Nat.id.
  rewrite (parse_all_restrict sh_id (grammar_of R) (of_list l_meta) boot_ids (boot_agree R HB)
             (boot_closed_R R HB) f _ src rulelist_in_boot), Hm.
  destruct (parse_all_sound sh_id (of_list l_meta) sh_id_perm meta_WBG f _ src m Hm) as [HD _].
  destruct (D_ref_single _ _ _ _ _ _ HD) as [t Et]. rewrite Et in *.
  destruct (reader_agrees_with_every_derivation src t HD) as (rs' & A & Rd).
  assert (rs' = rs) by congruence. subst rs'.
  rewrite (v_rulelist_define c t R rs A), H. reflexivity.
Qed.

Theorem spec_create_is_lib : forall c text R R',
  boot_ok R -> create c text R = Some R' ->
  exists fuel, forall f, fuel <= f -> lib_create f c text R = LOk R'.
Proof.
  intros c text R R' HB H. pose proof HB as (_ & _ & Hru).
  unfold create in H. set (src := ensure_crlf text) in *.
  destruct (read_rule src) as [[a rest]|] eqn:Er; [|discriminate H]. destruct rest as [|x rest]; [|discriminate H].
  destruct (reader_has_derivation_rule src a Er) as [t0 HD0].
  destruct (meta_parse_complete _ src rule_defined (D_M _ _ _ _ _ _ HD0)) as [fuel Hf].
  exists fuel. intros f Hle. destruct (Hf f Hle) as (m & Hm & Hge).
  unfold lib_create. fold src. rewrite Hru, N2Nat.id.
  rewrite (parse_restrict sh_id (grammar_of R) (of_list l_meta) boot_ids (boot_agree R HB)
             (boot_closed_R R HB) f _ src 0 rule_in_boot), Hm.
  assert (Elt : Nat.ltb (mend m) (length src) = false) by (apply Nat.ltb_ge; exact Hge). rewrite Elt.
  pose proof (parse_sound sh_id (of_list l_meta) sh_id_perm meta_WBG f _ src 0 m Hm (Nat.le_0_l _)) as HD.
  pose proof (D_bounds _ _ _ _ _ _ HD) as [_ Hle2].
  assert (Hend : mend m = length src) by lia. rewrite Hend in HD.
  destruct (D_ref_single _ _ _ _ _ _ HD) as [t Et]. rewrite Et in *.
  destruct (reader_agrees_rule src t HD) as (a' & A & Rd).
  assert (a' = a) by congruence. subst a'.
  rewrite (v_rule_arule c t R a A), H. reflexivity.
Qed.

(* ------------------------------------------------------------------------------------------ *)
(** * C04, both directions *)
Theorem C04_full : forall c text strict R R', boot_ok R ->
  (load_grammar c text strict R = Some R' <-> exists fuel, lib_load_grammar fuel c text strict R = LOk R').
Proof.
  intros c text strict R R' HB. split.
  - intros H. destruct (spec_load_is_lib c text strict R R' HB H) as [fuel Hf]. exists fuel. apply Hf. lia.
  - intros [fuel H]. exact (lib_load_grammar_is_spec fuel c text strict R R' HB H).
Qed.

Theorem C04_full_create : forall c text R R', boot_ok R ->
  (create c text R = Some R' <-> exists fuel, lib_create fuel c text R = LOk R').
Proof.
  intros c text R R' HB. split.
  - intros H. destruct (spec_create_is_lib c text R R' HB H) as [fuel Hf]. exists fuel. apply Hf. lia.
  - intros [fuel H]. exact (lib_create_is_spec fuel c text R R' HB H).
Qed.

(* the strongest form: from some fuel on the library route's answer is stable and equal to the spec route's *)
Corollary C04_full_stable : forall c text strict R R', boot_ok R ->
  (load_grammar c text strict R = Some R' <->
   exists fuel, forall f, fuel <= f -> lib_load_grammar f c text strict R = LOk R').
Proof.
  intros c text strict R R' HB. split.
  - apply spec_load_is_lib. exact HB.
  - intros [fuel H]. exact (lib_load_grammar_is_spec fuel c text strict R R' HB (H fuel (le_n _))).
Qed.

(* the library route never accepts with two different results (whatever the fuel) *)
Corollary lib_load_grammar_functional : forall c text strict R R1 R2 f1 f2, boot_ok R ->
  lib_load_grammar f1 c text strict R = LOk R1 -> lib_load_grammar f2 c text strict R = LOk R2 -> R1 = R2.
Proof.
  intros c text strict R R1 R2 f1 f2 HB H1 H2.
  pose proof (lib_load_grammar_is_spec _ _ _ _ _ _ HB H1). pose proof (lib_load_grammar_is_spec _ _ _ _ _ _ HB H2).
  congruence.
Qed.

(* ------------------------------------------------------------------------------------------ *)
(** * Non-vacuity *)
(* ReaderDeriv.ex_text (comment, continuation line, white line, comment line, "=/", group, option) preceded by a
   definition of e, so that "e =/ ..." is legal; class 2 *)
Definition ex_text2 : str := txt ["e = g"]%string ++ ex_text.

Example ex_spec_accepts : exists R', load_grammar 2%N ex_text2 false (r_boot tt) = Some R'.
Proof. vm_compute. eexists. reflexivity. Qed.

(* through the theorem: the library route accepts with the same registry *)
Example ex_C04 : exists R', load_grammar 2%N ex_text2 false (r_boot tt) = Some R' /\
  exists fuel, forall f, fuel <= f -> lib_load_grammar f 2%N ex_text2 false (r_boot tt) = LOk R'.
Proof.
  destruct ex_spec_accepts as [R' H]. exists R'. split; [exact H|].
  exact (spec_load_is_lib 2%N ex_text2 false (r_boot tt) R' boot_ok_boot H).
Qed.

(* and by running both models *)
Example ex_both_run : match lib_load_grammar 150 2%N ex_text2 false (r_boot tt),
                            load_grammar 2%N ex_text2 false (r_boot tt) with
                      | LOk R1, Some R2 => R1 = R2
                      | _, _ => False
                      end.
Proof. vm_compute. reflexivity. Qed.

(* ex_text itself: it is a rulelist (ReaderDeriv.ex_nonvacuous), but "e =/ ..." increments a rule that has no
   definition: both routes reject it at the definition stage *)
Example ex_text_rejected_by_both :
  load_grammar 2%N ex_text false (r_boot tt) = None /\
  lib_load_grammar 150 2%N ex_text false (r_boot tt) = LOther /\
  forall fuel R', lib_load_grammar fuel 2%N ex_text false (r_boot tt) <> LOk R'.
Proof.
  assert (H : load_grammar 2%N ex_text false (r_boot tt) = None) by (vm_compute; reflexivity).
  split; [exact H|]. split; [vm_compute; reflexivity|].
  intros fuel R' HL. pose proof (lib_load_grammar_is_spec fuel 2%N ex_text false (r_boot tt) R' boot_ok_boot HL) as HS.
  rewrite H in HS. discriminate HS.
Qed.

Print Assumptions spec_load_is_lib.
Print Assumptions spec_create_is_lib.
Print Assumptions C04_full.
Print Assumptions C04_full_create.
Print Assumptions C04_full_stable.
Print Assumptions lib_load_grammar_functional.
Print Assumptions ex_C04.
Print Assumptions ex_both_run.
Print Assumptions ex_text_rejected_by_both.
