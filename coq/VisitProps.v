(* VisitProps.v — properties of the Visit.v model (NodeVisitor dispatch, node equality). *)
From Coq Require Import List NArith Arith Bool Lia.
From ABNF Require Import Base Visit.
Import ListNotations.
Local Open Scope N_scope.

(* rulename characters (RFC 5234: ALPHA *(ALPHA / DIGIT / "-")) *)
Definition is_name_char (c : cp) : bool :=
  ((65 <=? c) && (c <=? 90)) || ((97 <=? c) && (c <=? 122)) || ((48 <=? c) && (c <=? 57)) || (c =? 45).

Definition lower_dash (c : cp) : cp :=
  if c =? 45 then 95 else if (65 <=? c) && (c <=? 90) then c + 32 else c.

(* ---- local copy of str_eqb_eq (keeps the file independent of EngineSound) ---- *)
Lemma str_eqb_eq : forall a b, str_eqb a b = true <-> a = b.
Proof.
  induction a as [|x a IH]; destruct b as [|y b]; simpl; split; intros H;
    try reflexivity; try discriminate.
  - apply andb_true_iff in H. destruct H as [H1 H2]. apply N.eqb_eq in H1. apply IH in H2.
    subst. reflexivity.
  - inversion H; subst. apply andb_true_iff. split; [apply N.eqb_refl | apply IH; reflexivity].
Qed.

Lemma str_eqb_refl : forall a, str_eqb a a = true.
Proof. intros a. apply str_eqb_eq. reflexivity. Qed.

(* ---- dispatch key ---- *)
Lemma key_char : forall c, fold_cp (if c =? 45 then 95 else c) = lower_dash c.
Proof.
  intros c. unfold lower_dash. destruct (N.eqb_spec c 45) as [E|E].
  - reflexivity.
  - reflexivity.
Qed.

Theorem dispatch_key_spec : forall name,
  forallb is_name_char name = true -> dispatch_key name = map lower_dash name.
Proof.
  intros name _. unfold dispatch_key. apply map_ext. intros c. apply key_char.
Qed.

Ltac break_one :=
  match goal with
  | |- context [N.leb ?a ?b] => destruct (N.leb_spec a b)
  | |- context [N.eqb ?a ?b] => destruct (N.eqb_spec a b)
  | H : context [N.leb ?a ?b] |- _ => destruct (N.leb_spec a b)
  | H : context [N.eqb ?a ?b] |- _ => destruct (N.eqb_spec a b)
  end; simpl in *; try discriminate; try (exfalso; lia).
Ltac break_cmp := repeat break_one.

Lemma lower_dash_fold : forall c1 c2,
  is_name_char c1 = true -> is_name_char c2 = true ->
  (lower_dash c1 = lower_dash c2 <-> fold_cp c1 = fold_cp c2).
Proof.
  intros c1 c2 Hn1 Hn2. unfold is_name_char, lower_dash, fold_cp in *.
  break_cmp; split; intros Hx; lia.
Qed.

Theorem dispatch_key_case : forall n1 n2,
  forallb is_name_char n1 = true -> forallb is_name_char n2 = true ->
  (dispatch_key n1 = dispatch_key n2 <-> fold_str n1 = fold_str n2).
Proof.
  intros n1 n2 H1 H2. rewrite (dispatch_key_spec n1 H1), (dispatch_key_spec n2 H2).
  unfold fold_str. revert n2 H1 H2.
  induction n1 as [|c1 n1 IH]; intros [|c2 n2] H1 H2; simpl; split; intros H;
    try reflexivity; try discriminate.
  - simpl in H1, H2. apply andb_true_iff in H1. apply andb_true_iff in H2.
    destruct H1 as [Hc1 H1]. destruct H2 as [Hc2 H2]. inversion H as [[Hc Hr]].
    apply (lower_dash_fold c1 c2 Hc1 Hc2) in Hc. apply (IH n2 H1 H2) in Hr.
    rewrite Hc, Hr. reflexivity.
  - simpl in H1, H2. apply andb_true_iff in H1. apply andb_true_iff in H2.
    destruct H1 as [Hc1 H1]. destruct H2 as [Hc2 H2]. inversion H as [[Hc Hr]].
    apply (lower_dash_fold c1 c2 Hc1 Hc2) in Hc. apply (IH n2 H1 H2) in Hr.
    rewrite Hc, Hr. reflexivity.
Qed.

(* ---- dispatch ---- *)
Lemma find_key_unique : forall (v : visitor) k h,
  NoDup (map fst v) -> In (k, h) v ->
  find (fun p => str_eqb (fst p) k) v = Some (k, h).
Proof.
  induction v as [|[k' h'] v IH]; intros k h Hnd Hin; simpl in *.
  - contradiction.
  - inversion Hnd as [|x l Hnotin Hnd']; subst.
    destruct (str_eqb k' k) eqn:E.
    + apply str_eqb_eq in E. subst k'. destruct Hin as [Heq|Hin].
      * rewrite Heq. reflexivity.
      * exfalso. apply Hnotin. apply (in_map fst) in Hin. exact Hin.
    + destruct Hin as [Heq|Hin].
      * inversion Heq; subst. rewrite str_eqb_refl in E. discriminate.
      * apply IH; assumption.
Qed.

Theorem visit_calls : forall v n h,
  NoDup (map fst v) -> In (dispatch_key (node_name n), h) v -> visit v n = Called h n.
Proof.
  intros v n h Hnd Hin. unfold visit. rewrite (find_key_unique v _ h Hnd Hin). reflexivity.
Qed.

Theorem visit_none : forall v n,
  ~ In (dispatch_key (node_name n)) (map fst v) -> visit v n = RNone.
Proof.
  intros v n Hnot. unfold visit.
  destruct (find (fun p => str_eqb (fst p) (dispatch_key (node_name n))) v) as [p|] eqn:E.
  - exfalso. apply find_some in E. destruct E as [Hin Heq]. apply str_eqb_eq in Heq.
    apply Hnot. rewrite <- Heq. apply in_map. exact Hin.
  - reflexivity.
Qed.

Theorem visit_total : forall v n,
  visit v n = RNone \/
  exists h, visit v n = Called h n /\ In (dispatch_key (node_name n), h) v.
Proof.
  intros v n. unfold visit.
  destruct (find (fun p => str_eqb (fst p) (dispatch_key (node_name n))) v) as [p|] eqn:E.
  - right. exists (snd p). split; [reflexivity|].
    apply find_some in E. destruct E as [Hin Heq]. apply str_eqb_eq in Heq.
    rewrite <- Heq. destruct p as [k h]. exact Hin.
  - left. reflexivity.
Qed.

Theorem leaf_dispatch : forall v t o l,
  visit v (Leaf t o l) =
  match find (fun p => str_eqb (fst p) [108;105;116;101;114;97;108]%N) v with
  | Some p => Called (snd p) (Leaf t o l)
  | None => RNone
  end.
Proof. intros v t o l. reflexivity. Qed.

(* ---- node equality ---- *)
Section NodeInd.
  Variable P : node -> Prop.
  Hypothesis Hleaf : forall v off len, P (Leaf v off len).
  Hypothesis Hnd : forall nm ch, Forall P ch -> P (Nd nm ch).
  Fixpoint node_ind2 (n : node) : P n :=
    match n with
    | Leaf v off len => Hleaf v off len
    | Nd nm ch => Hnd nm ch ((fix go (l : list node) : Forall P l :=
        match l with [] => Forall_nil P | x :: r => Forall_cons x (node_ind2 x) (go r) end) ch)
    end.
End NodeInd.

(* the nested [fix] of [node_eqb], named *)
Fixpoint nodes_eqb (l1 l2 : list node) : bool :=
  match l1, l2 with
  | [], [] => true
  | x :: r, y :: r' => node_eqb x y && nodes_eqb r r'
  | _, _ => false
  end.

Lemma node_eqb_Nd : forall nm ch nm' ch',
  node_eqb (Nd nm ch) (Nd nm' ch') = str_eqb nm nm' && nodes_eqb ch ch'.
Proof.
  intros nm ch nm' ch'. reflexivity.
Qed.

Theorem node_eqb_spec : forall a b, node_eqb a b = true <-> a = b.
Proof.
  induction a as [v o l|nm ch IH] using node_ind2; intros b.
  - destruct b as [v' o' l'|nm' ch']; simpl.
    + split; intros H.
      * apply andb_true_iff in H. destruct H as [H H3]. apply andb_true_iff in H.
        destruct H as [H1 H2]. apply str_eqb_eq in H1. apply Nat.eqb_eq in H2.
        apply Nat.eqb_eq in H3. subst. reflexivity.
      * inversion H; subst. rewrite str_eqb_refl, !Nat.eqb_refl. reflexivity.
    + split; intros H; discriminate.
  - destruct b as [v' o' l'|nm' ch'].
    + simpl. split; intros H; discriminate.
    + rewrite node_eqb_Nd.
      assert (Hch : forall ch2, nodes_eqb ch ch2 = true <-> ch = ch2).
      { clear nm nm' ch'. induction IH as [|x r Hx Hr IHr]; intros [|y r2]; simpl;
          split; intros H; try reflexivity; try discriminate.
        - apply andb_true_iff in H. destruct H as [H1 H2]. apply Hx in H1. apply IHr in H2.
          subst. reflexivity.
        - inversion H; subst. apply andb_true_iff. split.
          + apply Hx. reflexivity.
          + apply IHr. reflexivity. }
      split; intros H.
      * apply andb_true_iff in H. destruct H as [H1 H2]. apply str_eqb_eq in H1.
        apply Hch in H2. subst. reflexivity.
      * inversion H; subst. apply andb_true_iff. split.
        -- apply str_eqb_refl.
        -- apply Hch. reflexivity.
Qed.
