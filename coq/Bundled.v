(* Bundled.v — the registry after `import abnf.parser` and after importing every bundled grammar module,
   computed by the loader model from the GENERATED tables and texts. *)
From Coq Require Import List NArith Arith Bool.
Import ListNotations.
From ABNF Require Import Base Engine AbnfRead Registry GenTypes Loader GenTables GenBundled.

Definition r_boot (_ : unit) : reg := boot core_table meta_table.
Definition r_all (_ : unit) : option reg := load_classes bundled bundled (r_boot tt).

(* a process that imported only module m (its dependencies are imported first, as Python does) *)
Fixpoint dep_closure (fuel : nat) (todo : list str) (acc : list str) : list str :=
  match fuel with
  | 0 => acc
  | S f =>
    match todo with
    | [] => acc
    | m :: r =>
      if existsb (str_eqb m) acc then dep_closure f r acc
      else
        let ds := flat_map gdeps (filter (fun g => str_eqb (gmod g) m) bundled) in
        (* dependencies first (post-order) *)
        let acc1 := dep_closure f ds acc in
        dep_closure f r (if existsb (str_eqb m) acc1 then acc1 else acc1 ++ [m])
    end
  end.
Definition classes_of_modules (ms : list str) : list gclass :=
  flat_map (fun m => filter (fun g => str_eqb (gmod g) m) bundled) ms.
Definition r_only (m : str) : option reg :=
  load_classes bundled (classes_of_modules (dep_closure 200 [m] [])) (r_boot tt).
