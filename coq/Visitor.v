(* Visitor.v — executable model of ABNFGrammarNodeVisitor, CharValNodeVisitor and NumValVisitor
   (src/abnf/parser.py): turns a parse tree of the ABNF meta-grammar into parser objects and registry
   operations.  Dispatch is NodeVisitor.visit's: by node name with '-' -> '_' and case folding (Visit.v).
   Python values of different types are returned by different functions here; a shape on which the Python
   code would raise (IndexError, StopIteration, unpacking error, AttributeError) gives None.
   Legal trees (derivations of the meta-grammar) never hit those cases.   MODEL ONLY: no proofs here. *)
From Coq Require Import List NArith Arith Bool String Ascii.
Import ListNotations.
From ABNF Require Import Base Engine AbnfRead Registry GenTypes Visit.

Definition key_is (n : node) (k : string) : bool := str_eqb (dispatch_key (node_name n)) (s_of k).
Definition name_is (n : node) (k : string) : bool :=      (* exact comparison  node.name == "..." *)
  match n with Nd nm _ => str_eqb nm (s_of k) | Leaf _ _ _ => str_eqb (s_of "literal") (s_of k) end.
Definition children (n : node) : list node := match n with Nd _ ch => ch | Leaf _ _ _ => [] end.

(* ---- int(text, base) and chr ---- *)
Definition digit_val (c : cp) : option N :=
  if (48 <=? c)%N && (c <=? 57)%N then Some (c - 48)%N
  else if (65 <=? c)%N && (c <=? 70)%N then Some (c - 55)%N
  else if (97 <=? c)%N && (c <=? 102)%N then Some (c - 87)%N
  else None.
Fixpoint int_of (base : N) (acc : N) (s : str) : option N :=
  match s with
  | [] => Some acc
  | c :: r => match digit_val c with
              | Some d => if (d <? base)%N then int_of base (acc * base + d)%N r else None
              | None => None
              end
  end.
Definition py_int (base : N) (s : str) : option N := match s with [] => None | _ => int_of base 0 s end.

(* ---- visit_repeat ---- *)
Fixpoint take_named (nm : string) (l : list node) : str * list node :=
  match l with
  | x :: r => if name_is x nm then let (b, rest) := take_named nm r in (nvalue x ++ b, rest) else ([], l)
  | [] => ([], [])
  end.
Definition opt_int (s : str) : option (option nat) :=      (* int(src, 10) if src else None *)
  match s with
  | [] => Some None
  | _ => match py_int 10 s with Some n => Some (Some (N.to_nat n)) | None => None end
  end.
Definition v_repeat (n : node) : option (nat * option nat) :=
  let (min_src, rest) := take_named "DIGIT" (children n) in
  match rest, children n with
  | _, [] => None                                            (* assert child *)
  | [], _ =>                                                 (* the loop ended on a DIGIT: max_src = min_src *)
    match opt_int min_src with
    | Some mo => Some (match mo with Some m => m | None => 0 end, mo)
    | None => None
    end
  | x :: rest', _ =>
    let max_src := if str_eqb (nvalue x) (s_of "*") then flat_map nvalue rest' else min_src in
    match opt_int min_src, opt_int max_src with
    | Some mn, Some mx => Some (match mn with Some m => m | None => 0 end, mx)
    | _, _ => None
    end
  end.

(* ---- NumValVisitor._read_value ---- *)
Fixpoint series (nm : string) (base : N) (l : list node) (buf : str) (acc : str) : option str :=
  match l with
  | [] => match buf with [] => Some acc | _ => match py_int base buf with Some c => Some (acc ++ [c]) | None => None end end
  | x :: r =>
    if name_is x nm then series nm base r (buf ++ nvalue x) acc
    else match py_int base buf with
         | Some c => series nm base r [] (acc ++ [c])
         | None => None
         end
  end.
Definition read_value (nm : string) (base : N) (l : list node) : option expr :=
  let (buf, rest) := take_named nm l in
  match l with
  | [] => None
  | _ =>
    match rest with
    | x :: rest' =>
      if str_eqb (nvalue x) (s_of "-") then
        match py_int base buf, py_int base (flat_map nvalue rest') with
        | Some lo, Some hi => Some (ERange lo hi)
        | _, _ => None
        end
      else
        match py_int base buf with
        | Some c => match series nm base rest' [] [c] with Some v => Some (ELit true v) | None => None end
        | None => None
        end
    | [] => match py_int base buf with Some c => Some (ELit true [c]) | None => None end
    end
  end.
Definition v_num_val (n : node) : option expr :=
  match filter (fun x => key_is x "bin_val" || key_is x "dec_val" || key_is x "hex_val") (children n) with
  | x :: _ =>
    if key_is x "bin_val" then read_value "BIT" 2 (tl (children x))
    else if key_is x "dec_val" then read_value "DIGIT" 10 (tl (children x))
    else read_value "HEXDIG" 16 (tl (children x))
  | [] => None
  end.

(* ---- CharValNodeVisitor ---- *)
Definition strip_ends (s : str) : str := removelast (tl s).       (* node.value[1:-1] *)
Definition v_char_val (n : node) : option expr :=
  match children n with
  | x :: _ =>
    let q := filter (fun y => key_is y "quoted_string") (children x) in
    match q with
    | y :: _ =>
      if key_is x "case_insensitive_string" then Some (ELit false (strip_ends (nvalue y)))
      else if key_is x "case_sensitive_string" then Some (ELit true (strip_ends (nvalue y)))
      else None
    | [] => None
    end
  | [] => None
  end.

Definition produces_expr (x : node) : bool :=
  key_is x "alternation" || key_is x "concatenation" || key_is x "repetition" || key_is x "element" ||
  key_is x "elements" || key_is x "group" || key_is x "option" || key_is x "char_val" || key_is x "num_val" ||
  key_is x "prose_val" || key_is x "rulename".

Definition fresh_rep (R : reg) (mn : nat) (mx : option nat) (e : expr) : reg * expr :=
  (mkr (objs R) (defs R) (N.succ (nextid R)) (epoch R), ERep (nextid R) mn mx e).

(* the expression-producing handlers *)
Fixpoint visit_e (c : cls) (n : node) (R : reg) {struct n} : option (reg * expr) :=
  match n with
  | Leaf _ _ _ => None
  | Nd nm ch =>
    if key_is n "rulename" then let '(R1, k) := rnew R c (nvalue n) in Some (R1, ERef (N.of_nat k))
    else if key_is n "char_val" then match v_char_val n with Some e => Some (R, e) | None => None end
    else if key_is n "num_val" then match v_num_val n with Some e => Some (R, e) | None => None end
    else if key_is n "prose_val" then
      let t := strip_ends (nvalue n) in
      if is_rulename t then let '(R1, k) := rnew R c t in Some (R1, ERef (N.of_nat k)) else Some (R, EProse)
    else
      let args := (fix go (l : list node) (R0 : reg) : option (reg * list expr) :=
                     match l with
                     | [] => Some (R0, [])
                     | x :: r =>
                       if produces_expr x then
                         match visit_e c x R0 with
                         | Some (R1, e) => match go r R1 with Some (R2, es) => Some (R2, e :: es) | None => None end
                         | None => None
                         end
                       else go r R0
                     end) ch R in
      match args with
      | None => None
      | Some (R1, es) =>
        if key_is n "alternation" then
          match es with [] => None | [e] => Some (R1, e) | _ => Some (R1, EAlt false es) end
        else if key_is n "concatenation" then
          match es with [] => None | [e] => Some (R1, e) | _ => Some (R1, ECat es) end
        else if key_is n "repetition" then
          match ch, es with
          | r0 :: _, e :: _ =>
            if name_is r0 "repeat" then
              match v_repeat r0 with Some (mn, mx) => Some (fresh_rep R1 mn mx e) | None => None end
            else if name_is r0 "element" then Some (R1, e) else None
          | _, _ => None
          end
        else if key_is n "option" then
          match es with e :: _ => Some (fresh_rep R1 0 (Some 1) e) | [] => None end
        else if key_is n "element" || key_is n "elements" || key_is n "group" then
          match es with e :: _ => Some (R1, e) | [] => None end
        else None
      end
  end.

(* visit_defined_as: the operator is the only literal child *)
Definition v_defined_as (n : node) : option str :=
  match filter (fun x => match x with Leaf _ _ _ => true | _ => false end) (children n) with
  | x :: _ => Some (nvalue x)
  | [] => None
  end.

(* visit_rule: exactly three non-None values: the rule, the operator, the elements *)
Definition v_rule (c : cls) (n : node) (R : reg) : option reg :=
  match filter (fun x => key_is x "rulename" || key_is x "defined_as" || key_is x "elements") (children n) with
  | [rn; da; el] =>
    if key_is rn "rulename" && key_is da "defined_as" && key_is el "elements" then
      let '(R1, k) := rnew R c (nvalue rn) in
      match v_defined_as da, visit_e c el R1 with
      | Some op, Some (R2, e) =>
        if str_eqb op (s_of "=") then Some (set_def_new R2 k e)
        else match def_of R2 k with
             | Some old => Some (set_def_new R2 k (EAlt false [old; e]))
             | None => None
             end
      | _, _ => None
      end
    else None
  | _ => None
  end.

Fixpoint v_rules (c : cls) (l : list node) (R : reg) : option reg :=
  match l with
  | [] => Some R
  | x :: r => if key_is x "rule" then match v_rule c x R with Some R' => v_rules c r R' | None => None end
              else v_rules c r R
  end.
Definition v_rulelist (c : cls) (n : node) (R : reg) : option reg := v_rules c (children n) R.
