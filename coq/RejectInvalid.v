(* RejectInvalid.v — property C12 on the model: a text that is not a syntactically valid rulelist (resp. rule)
   makes the LIBRARY route (Compile.lib_load_grammar / lib_create: engine on the registry's own meta-grammar,
   then the visitor) answer ParseError — for every sufficiently large fuel; not GrammarError, not out of fuel,
   not another exception.  [lres] has no registry in its failing constructors: the model's failing call returns
   NO state, the caller keeps R.  This is the "the whole text is parsed before any rule object is created"
   mechanism of Rule.create / load_grammar: the visitor ([v_rulelist] / [v_rule]) only runs on a complete tree.

   More precisely the outcome of the library route is a FUNCTION of the spec reader's answer
   ([load_outcome], [create_outcome]):
     reader rejects the text                          -> LParseError
     reader accepts, define_rule(s) succeeds with R'  -> LOk R'
     reader accepts, define_rule(s) fails             -> LOther   ("=/" on a rule that has no definition:
                                                         the Python visitor raises AttributeError; the text IS
                                                         a valid rulelist, so this is not an invalid-text case)
   and never LOOF / GrammarError once the fuel is large enough. *)
From Coq Require Import String Ascii List NArith Arith Bool Lia Permutation.
Import ListNotations.
From ABNF Require Import Base Engine Spec Wf Checks WfCheck Cert EngineSound L_C02 L_C05 AbnfRead Registry
     RegistryProps RegistryView GenTypes Loader Bundled RfcSpec Tables Visit Visitor VisitorProps Restrict Compile
     ReaderDeriv1 ReaderDeriv ReaderDerivE2E ReaderComplete1 ReaderComplete2.
Local Open Scope list_scope.

(* ------------------------------------------------------------------------------------------ *)
(** * The engine's answers on the meta table *)
Lemma meta_parse_all_answers r s : defined (of_list l_meta) r ->
  exists f, forall f', f <= f' ->
    ((exists m, parse_all sh_id (of_list l_meta) f' r s = Ok [m]) <-> M (of_list l_meta) s (ERef r) 0 (length s)) /\
    ((exists m, parse_all sh_id (of_list l_meta) f' r s = Ok [m]) \/ parse_all sh_id (of_list l_meta) f' r s = PErr).
Proof.
  intros Hd. destruct (auto_wf_sound l_meta meta_wf) as [nul [rank Hw]].
  destruct (c02_parse_all sh_id nul rank (of_list l_meta) sh_id_perm Hw (closed_check_sound _ meta_closed)
              (plain_check_sound _ meta_plain) r s Hd) as [f Hf].
  exists f. intros f' Hle. destruct (Hf f' Hle) as (A & _ & B). split; assumption.
Qed.

Lemma meta_parse_answers r s : defined (of_list l_meta) r ->
  exists f, forall f', f <= f' ->
    (forall m, parse sh_id (of_list l_meta) f' r s 0 = Ok [m] ->
       M (of_list l_meta) s (ERef r) 0 (mend m) /\ (forall j, M (of_list l_meta) s (ERef r) 0 j -> j <= mend m)) /\
    ((exists m, parse sh_id (of_list l_meta) f' r s 0 = Ok [m]) \/
     (parse sh_id (of_list l_meta) f' r s 0 = PErr /\ forall j, ~ M (of_list l_meta) s (ERef r) 0 j)).
Proof.
  intros Hd. destruct (auto_wf_sound l_meta meta_wf) as [nul [rank Hw]].
  destruct (c02_parse sh_id nul rank (of_list l_meta) sh_id_perm Hw (closed_check_sound _ meta_closed)
              (plain_check_sound _ meta_plain) r s 0 Hd (Nat.le_0_l _)) as [f Hf].
  exists f. intros f' Hle. destruct (Hf f' Hle) as (A & P & B). split.
  - intros m Hm. destruct (A m Hm) as (A1 & A2 & _). split; assumption.
  - destruct B as [B|B]; [left; exact B|right; split; [exact B|exact (proj1 P B)]].
Qed.

(* a match of the whole text is a derivation, hence the reader accepts *)
Lemma M_rulelist_reader s : M (of_list l_meta) s (ERef (rid_meta "rulelist")) 0 (length s) ->
  exists rs, read_rulelist s = Some rs.
Proof.
  intros HM. destruct (M_D _ _ _ _ _ HM) as [ns HD]. destruct (D_ref_single _ _ _ _ _ _ HD) as [t ->].
  destruct (reader_agrees_with_every_derivation s t HD) as (rs & _ & R). eauto.
Qed.
Lemma M_rule_reader s : M (of_list l_meta) s (ERef (rid_meta "rule")) 0 (length s) ->
  exists a, read_rule s = Some (a, []).
Proof.
  intros HM. destruct (M_D _ _ _ _ _ HM) as [ns HD]. destruct (D_ref_single _ _ _ _ _ _ HD) as [t ->].
  destruct (reader_agrees_rule s t HD) as (a & _ & R). eauto.
Qed.

(* ------------------------------------------------------------------------------------------ *)
(** * The outcome of the library route as a function of the spec reader's answer *)
Definition load_spec_outcome (c : cls) (text : str) (strict : bool) (R : reg) : lres :=
  match read_rulelist (if strict then normalise text else text) with
  | None => LParseError
  | Some rs => match define_rules c rs R with Some R' => LOk R' | None => LOther end
  end.
Definition create_spec_outcome (c : cls) (text : str) (R : reg) : lres :=
  match read_rule (ensure_crlf text) with
  | Some (a, []) => match define_rule c a R with Some R' => LOk R' | None => LOther end
  | _ => LParseError
  end.

Theorem load_outcome : forall c text strict R, boot_ok R ->
  exists fuel, forall f, fuel <= f -> lib_load_grammar f c text strict R = load_spec_outcome c text strict R.
Proof.
  intros c text strict R HB. pose proof HB as (_ & Hrl & _).
  unfold load_spec_outcome. set (src := if strict then normalise text else text).
  destruct (meta_parse_all_answers _ src rulelist_defined) as [fuel Hf].
  exists fuel. intros f Hle. destruct (Hf f Hle) as [Hiff Hdich].
  unfold lib_load_grammar. fold src. rewrite Hrl, N2Nat.id.
  rewrite (parse_all_restrict sh_id (grammar_of R) (of_list l_meta) boot_ids (boot_agree R HB)
             (boot_closed_R R HB) f _ src rulelist_in_boot).
  destruct (read_rulelist src) as [rs|] eqn:Er.
  - destruct (reader_has_derivation src rs Er) as [t0 HD0].
    destruct (proj2 Hiff (D_M _ _ _ _ _ _ HD0)) as [m Hm]. rewrite Hm.
    destruct (parse_all_sound sh_id (of_list l_meta) sh_id_perm meta_WBG f _ src m Hm) as [HD _].
    destruct (D_ref_single _ _ _ _ _ _ HD) as [t Et]. rewrite Et in *.
    destruct (reader_agrees_with_every_derivation src t HD) as (rs' & A & Rd).
    assert (rs' = rs) by congruence. subst rs'.
    rewrite (v_rulelist_define c t R rs A). reflexivity.
  - destruct Hdich as [[m Hm]|Hp]; [|rewrite Hp; reflexivity].
    exfalso. destruct (M_rulelist_reader src (proj1 Hiff (ex_intro _ m Hm))) as [rs Hrs]. congruence.
Qed.

Theorem create_outcome : forall c text R, boot_ok R ->
  exists fuel, forall f, fuel <= f -> lib_create f c text R = create_spec_outcome c text R.
Proof.
  intros c text R HB. pose proof HB as (_ & _ & Hru).
  unfold create_spec_outcome. set (src := ensure_crlf text).
  destruct (meta_parse_answers _ src rule_defined) as [fuel Hf].
  exists fuel. intros f Hle. destruct (Hf f Hle) as [Hok Hdich].
  unfold lib_create. fold src. rewrite Hru, N2Nat.id.
  rewrite (parse_restrict sh_id (grammar_of R) (of_list l_meta) boot_ids (boot_agree R HB)
             (boot_closed_R R HB) f _ src 0 rule_in_boot).
  assert (Hcases : (exists a, read_rule src = Some (a, [])) \/ (forall a, read_rule src <> Some (a, []))).
  { destruct (read_rule src) as [[a [|x rest]]|].
    - left. eauto.
    - right. intros a' H. inversion H.
    - right. intros a' H. discriminate H. }
  destruct Hcases as [[a Er]|Hno].
  - rewrite Er. destruct (reader_has_derivation_rule src a Er) as [t0 HD0]. apply D_M in HD0.
    destruct Hdich as [[m Hm]|Hp].
    + destruct (Hok m Hm) as [_ Hmax]. pose proof (Hmax _ HD0) as Hge. rewrite Hm.
      assert (Elt : Nat.ltb (mend m) (length src) = false) by (apply Nat.ltb_ge; exact Hge). rewrite Elt.
      pose proof (parse_sound sh_id (of_list l_meta) sh_id_perm meta_WBG f _ src 0 m Hm (Nat.le_0_l _)) as HD.
      pose proof (D_bounds _ _ _ _ _ _ HD) as [_ Hle2].
      assert (Hend : mend m = length src) by lia. rewrite Hend in HD.
      destruct (D_ref_single _ _ _ _ _ _ HD) as [t Et]. rewrite Et in *.
      destruct (reader_agrees_rule src t HD) as (a' & A & Rd).
      assert (a' = a) by congruence. subst a'.
      rewrite (v_rule_arule c t R a A). reflexivity.
    + exfalso. destruct Hp as [_ Hno]. exact (Hno _ HD0).
  - assert (Hout : match read_rule src with
                   | Some (a, []) => match define_rule c a R with Some R' => LOk R' | None => LOther end
                   | _ => LParseError end = LParseError).
    { destruct (read_rule src) as [[a [|x rest]]|] eqn:Er; try reflexivity. exfalso. exact (Hno a eq_refl). }
    rewrite Hout. destruct Hdich as [[m Hm]|[Hp _]]; [|rewrite Hp; reflexivity].
    rewrite Hm. destruct (Nat.ltb (mend m) (length src)) eqn:Elt; [reflexivity|]. exfalso.
    apply Nat.ltb_ge in Elt. destruct (Hok m Hm) as [HM _].
    pose proof (proj2 (EngineComplete.M_bounds _ _ _ _ _ HM)) as Hle2.
    assert (Hend : mend m = length src) by lia. rewrite Hend in HM.
    destruct (M_rule_reader src HM) as [a Ha]. exact (Hno a Ha).
Qed.

(* ------------------------------------------------------------------------------------------ *)
(** * C12: invalid text is rejected with ParseError *)
Theorem invalid_rulelist_rejected : forall c text (strict : bool) R, boot_ok R ->
  read_rulelist (if strict then normalise text else text) = None ->
  exists fuel, forall f, fuel <= f -> lib_load_grammar f c text strict R = LParseError.
Proof.
  intros c text strict R HB H. destruct (load_outcome c text strict R HB) as [fuel Hf].
  exists fuel. intros f Hle. rewrite (Hf f Hle). unfold load_spec_outcome. rewrite H. reflexivity.
Qed.

Theorem invalid_rule_rejected : forall c text R, boot_ok R ->
  (forall a, read_rule (ensure_crlf text) <> Some (a, [])) ->
  exists fuel, forall f, fuel <= f -> lib_create f c text R = LParseError.
Proof.
  intros c text R HB H. destruct (create_outcome c text R HB) as [fuel Hf].
  exists fuel. intros f Hle. rewrite (Hf f Hle). unfold create_spec_outcome.
  destruct (read_rule (ensure_crlf text)) as [[a [|x rest]]|] eqn:Er; try reflexivity.
  exfalso. exact (H a eq_refl).
Qed.

(* ---- the trichotomy ---- *)
Theorem load_trichotomy : forall c text strict R, boot_ok R ->
  exists fuel, forall f, fuel <= f ->
    (exists R', lib_load_grammar f c text strict R = LOk R' /\ load_grammar c text strict R = Some R') \/
    (lib_load_grammar f c text strict R = LParseError /\
     read_rulelist (if strict then normalise text else text) = None) \/
    (lib_load_grammar f c text strict R = LOther /\
     exists rs, read_rulelist (if strict then normalise text else text) = Some rs /\ define_rules c rs R = None).
Proof.
  intros c text strict R HB. destruct (load_outcome c text strict R HB) as [fuel Hf].
  exists fuel. intros f Hle. rewrite (Hf f Hle). unfold load_spec_outcome, load_grammar.
  destruct (read_rulelist (if strict then normalise text else text)) as [rs|]; [|right; left; auto].
  destruct (define_rules c rs R) as [R'|] eqn:Ed; [left; eauto|right; right; eauto].
Qed.

Theorem create_trichotomy : forall c text R, boot_ok R ->
  exists fuel, forall f, fuel <= f ->
    (exists R', lib_create f c text R = LOk R' /\ create c text R = Some R') \/
    (lib_create f c text R = LParseError /\ forall a, read_rule (ensure_crlf text) <> Some (a, [])) \/
    (lib_create f c text R = LOther /\
     exists a, read_rule (ensure_crlf text) = Some (a, []) /\ define_rule c a R = None).
Proof.
  intros c text R HB. destruct (create_outcome c text R HB) as [fuel Hf].
  exists fuel. intros f Hle. rewrite (Hf f Hle). unfold create_spec_outcome, create.
  destruct (read_rule (ensure_crlf text)) as [[a [|x rest]]|].
  - destruct (define_rule c a R) as [R'|] eqn:Ed; [left; eauto|right; right; eauto].
  - right; left. split; [reflexivity|]. intros a' H. inversion H.
  - right; left. split; [reflexivity|]. intros a' H. discriminate H.
Qed.

(* the "other exception" outcome is exactly: the text IS a valid rulelist and define_rules fails on it *)
Corollary load_other_iff : forall c text strict R, boot_ok R ->
  ((exists fuel, forall f, fuel <= f -> lib_load_grammar f c text strict R = LOther) <->
   exists rs, read_rulelist (if strict then normalise text else text) = Some rs /\ define_rules c rs R = None).
Proof.
  intros c text strict R HB. destruct (load_outcome c text strict R HB) as [fuel Hf]. split.
  - intros [fuel' H]. pose proof (H (Nat.max fuel fuel') (Nat.le_max_r _ _)) as H1.
    rewrite (Hf _ (Nat.le_max_l _ _)) in H1. unfold load_spec_outcome in H1.
    destruct (read_rulelist (if strict then normalise text else text)) as [rs|]; [|discriminate H1].
    destruct (define_rules c rs R) eqn:Ed; [discriminate H1|]. eauto.
  - intros (rs & Hr & Hd). exists fuel. intros f Hle. rewrite (Hf f Hle). unfold load_spec_outcome.
    rewrite Hr, Hd. reflexivity.
Qed.

(* and ParseError is exactly: the text is not a rulelist *)
Corollary load_parse_error_iff : forall c text strict R, boot_ok R ->
  ((exists fuel, forall f, fuel <= f -> lib_load_grammar f c text strict R = LParseError) <->
   read_rulelist (if strict then normalise text else text) = None).
Proof.
  intros c text strict R HB. split; [|apply invalid_rulelist_rejected; exact HB].
  destruct (load_outcome c text strict R HB) as [fuel Hf].
  intros [fuel' H]. pose proof (H (Nat.max fuel fuel') (Nat.le_max_r _ _)) as H1.
  rewrite (Hf _ (Nat.le_max_l _ _)) in H1. unfold load_spec_outcome in H1.
  destruct (read_rulelist (if strict then normalise text else text)) as [rs|]; [|reflexivity].
  destruct (define_rules c rs R); discriminate H1.
Qed.

(* never out of fuel, from some fuel on *)
Corollary load_no_oof : forall c text strict R, boot_ok R ->
  exists fuel, forall f, fuel <= f -> lib_load_grammar f c text strict R <> LOOF.
Proof.
  intros c text strict R HB. destruct (load_outcome c text strict R HB) as [fuel Hf].
  exists fuel. intros f Hle. rewrite (Hf f Hle). unfold load_spec_outcome.
  destruct (read_rulelist _); [destruct (define_rules _ _ _)|]; discriminate.
Qed.

(* ------------------------------------------------------------------------------------------ *)
(** * Non-vacuity: one text for each branch, on the boot registry, class 2 *)
Definition garbage : str := txt ["a = b"; "@@@ not abnf"]%string.

Example ex_garbage_invalid : read_rulelist garbage = None.
Proof. vm_compute. reflexivity. Qed.
Example ex_garbage_run : lib_load_grammar 150 2%N garbage false (r_boot tt) = LParseError.
Proof. vm_compute. reflexivity. Qed.
Example ex_garbage_thm : exists fuel, forall f, fuel <= f -> lib_load_grammar f 2%N garbage false (r_boot tt) = LParseError.
Proof. exact (invalid_rulelist_rejected 2%N garbage false (r_boot tt) boot_ok_boot ex_garbage_invalid). Qed.

Example ex_ok_run : exists R', lib_load_grammar 150 2%N ex_text2 false (r_boot tt) = LOk R' /\
                               load_grammar 2%N ex_text2 false (r_boot tt) = Some R'.
Proof. vm_compute. eexists. split; reflexivity. Qed.

Example ex_other_run : lib_load_grammar 150 2%N ex_text false (r_boot tt) = LOther /\
  exists rs, read_rulelist ex_text = Some rs /\ define_rules 2%N rs (r_boot tt) = None.
Proof. vm_compute. split; [reflexivity|]. eexists. split; reflexivity. Qed.

(* create: a partial match ("a = b" followed by garbage: parse succeeds on a prefix) is a ParseError too *)
Example ex_create_partial : lib_create 150 2%N (s_of "a = b" ++ [13; 10]%N ++ s_of "@@@") (r_boot tt) = LParseError /\
  create 2%N (s_of "a = b" ++ [13; 10]%N ++ s_of "@@@") (r_boot tt) = None.
Proof. vm_compute. split; reflexivity. Qed.
Example ex_create_ok : exists R', lib_create 150 2%N (s_of "a = b") (r_boot tt) = LOk R' /\
                                  create 2%N (s_of "a = b") (r_boot tt) = Some R'.
Proof. vm_compute. eexists. split; reflexivity. Qed.
Example ex_create_other : lib_create 150 2%N (s_of "zz =/ b") (r_boot tt) = LOther /\
                          create 2%N (s_of "zz =/ b") (r_boot tt) = None.
Proof. vm_compute. split; reflexivity. Qed.

Print Assumptions load_outcome.
Print Assumptions create_outcome.
Print Assumptions invalid_rulelist_rejected.
Print Assumptions invalid_rule_rejected.
Print Assumptions load_trichotomy.
Print Assumptions create_trichotomy.
Print Assumptions load_other_iff.
Print Assumptions load_parse_error_iff.
Print Assumptions load_no_oof.
Print Assumptions ex_garbage_thm.
Print Assumptions ex_ok_run.
Print Assumptions ex_other_run.
Print Assumptions ex_create_partial.
