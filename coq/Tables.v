(* Tables.v — the grammars the obligations talk about, as association lists computed from the GENERATED tables
   (parser.py core + meta table through the loader model) and from the RFC texts (spec reader). *)
From Coq Require Import String List NArith Arith Bool.
Import ListNotations.
From ABNF Require Import Base Engine AbnfRead Registry GenTypes Loader Bundled RfcSpec.

Definition names_of (R : reg) (c : cls) : list (str * nat) :=
  map (fun p => (okey (snd p), fst p))
      (filter (fun p => N.eqb (ocls (snd p)) c) (combine (seq 0 (List.length (objs R))) (objs R))).
(* pairs (rule of R1 in one of the classes c1s, rule of R2 in class c2 with the same folded name) *)
Definition pairs_by_name (R1 : reg) (c1s : list cls) (R2 : reg) (c2 : cls) : list (rid * rid) :=
  flat_map (fun c1 =>
    flat_map (fun p => match find_obj c2 (fst p) (objs R2) 0 with
                       | Some k => [(N.of_nat (snd p), N.of_nat k)]
                       | None => []
                       end) (names_of R1 c1)) c1s.
Definition rid_of (R : reg) (c : cls) (name : string) : option rid :=
  match find_obj c (fold_name (s_of name)) (objs R) 0 with Some k => Some (N.of_nat k) | None => None end.

(* the library's own reader: core table + meta table of parser.py *)
Definition l_meta : list (rid * rule) := grammar_list (r_boot tt).
(* the published grammar: RFC 5234 section 4 + RFC 7405 + B.1 *)
Definition R_rfc : reg := match r_rfc tt with Some R => R | None => reg0 end.
Definition l_rfc : list (rid * rule) := grammar_list R_rfc.
Definition meta_pairs : list (rid * rid) := pairs_by_name (r_boot tt) [0%N; 1%N] R_rfc 2%N.
