(* Sentences.v — untrusted computation of a witness sentence per rule, and the CHECK (by running the engine model
   inside the kernel) that every rule of a grammar list accepts its witness: productivity. *)
From Coq Require Import List NArith Arith Bool.
Import ListNotations.
From ABNF Require Import Base Engine.

Definition tab_of (t : list (rid * option str)) (r : rid) : option str :=
  match find (fun p => N.eqb (fst p) r) t with Some p => snd p | None => None end.

Fixpoint sent (tab : rid -> option str) (e : expr) : option str :=
  match e with
  | ELit _ v => Some v
  | ERange lo hi => if (lo <=? hi)%N then Some [lo] else None
  | EAlt _ es =>
    (fix go (l : list expr) : option str :=
       match l with
       | [] => None
       | x :: r => match sent tab x with Some w => Some w | None => go r end
       end) es
  | ECat es =>
    (fix go (l : list expr) : option str :=
       match l with
       | [] => Some []
       | x :: r => match sent tab x, go r with Some a, Some b => Some (a ++ b) | _, _ => None end
       end) es
  | ERep _ mn _ e' =>
    match mn with
    | 0 => Some []
    | _ => match sent tab e' with Some w => Some (concat (repeat w mn)) | None => None end
    end
  | EProse => None
  | ERef r => tab r
  end.

Fixpoint iter_sent (rounds : nat) (l : list (rid * rule)) (t : list (rid * option str)) : list (rid * option str) :=
  match rounds with
  | 0 => t
  | S n =>
    iter_sent n l (map (fun p => (fst p, match tab_of t (fst p) with
                                         | Some w => Some w
                                         | None => match rdef (snd p) with Some d => sent (tab_of t) d | None => None end
                                         end)) l)
  end.
Definition witnesses (rounds : nat) (l : list (rid * rule)) : list (rid * option str) :=
  iter_sent rounds l (map (fun p => (fst p, None)) l).

Definition accepts_b (l : list (rid * rule)) (fuel : nat) (r : rid) (w : str) : bool :=
  match parse_all sh_id (of_list l) fuel r w with Ok [_] => true | _ => false end.

(* every binding of the list has a definition and accepts its witness *)
Definition productive_check (rounds fuel : nat) (l : list (rid * rule)) : bool :=
  let t := witnesses rounds l in
  forallb (fun p => match rdef (snd p), tab_of t (fst p) with
                    | Some _, Some w => accepts_b l fuel (fst p) w
                    | _, _ => false
                    end) l.

Lemma productive_check_sound rounds fuel l : productive_check rounds fuel l = true ->
  forall r ru, In (r, ru) l ->
    (exists d, rdef ru = Some d) /\ exists w m, parse_all sh_id (of_list l) fuel r w = Ok [m].
Proof.
  unfold productive_check. intros H r ru Hin. rewrite forallb_forall in H. specialize (H _ Hin). cbn [fst snd] in H.
  destruct (rdef ru) as [d|]; [|discriminate H].
  destruct (tab_of (witnesses rounds l) r) as [w|]; [|discriminate H].
  split; [eexists; reflexivity|]. exists w. unfold accepts_b in H.
  destruct (parse_all sh_id (of_list l) fuel r w) as [ms| | |]; try discriminate H.
  destruct ms as [|m ms]; [discriminate H|]. destruct ms; [|discriminate H]. exists m. reflexivity.
Qed.

(* no prose-val left anywhere *)
Fixpoint has_prose (e : expr) : bool :=
  match e with
  | EProse => true
  | EAlt _ es => existsb has_prose es
  | ECat es => existsb has_prose es
  | ERep _ _ _ e' => has_prose e'
  | _ => false
  end.
Definition no_prose_check (l : list (rid * rule)) : bool :=
  forallb (fun p => match rdef (snd p) with Some d => negb (has_prose d) | None => true end) l.
