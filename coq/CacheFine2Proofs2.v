(* CacheFine2Proofs2.v — [CacheFineProofs2.v for the model CacheFine2.v; holds for BOTH values of guarded_pop
   (section variable grd): alone, popitem is never reached on an empty object; instantiate grd := true for the
   repaired library]
   the fine model (CacheFine2.v) run WITHOUT interleaving inside a method is the coarse
   model (Cache.v / EngineProg.v):
     mrun_get_sim, mrun_set_sim   a whole __getitem__/__setitem__ from D1, alone, = Cache.cget / Cache.cset
                                  on the abstraction [fabs] (current dict object, limit, counters, stamp);
                                  sequentially __setitem__ never raises
     op_sim                       scheduling one thread for the <= 9 micro-steps of its head operation
                                  = EngineProg.pstep
     coarse_sched_sim             every coarse schedule (EngineProg.run_sched, whole operations) is realised by
                                  a fine schedule with the same programs and the same abstract state
   so the sequential theorems of CacheRefine.v (run_cached_correct, sched_correct, ...) speak about runs of
   the fine model in which methods are not interleaved. *)
From Coq Require Import List NArith Arith Bool Lia.
Import ListNotations.
From ABNF Require Import Base Engine Cache EngineProg CacheRefine CacheFine2 CacheFine2Proofs1.

Local Notation fc := (fcache ckey cval).
Local Notation cobj := (obj ckey cval).
Local Notation cmstep := (mstep ckey cval ckey_eqb).
Local Notation cmrun := (mrun ckey cval ckey_eqb).
Local Notation cfabs := (fabs ckey cval).
Local Notation cfwf := (fwf ckey cval).
Local Notation cmop := (@mop ckey cval).

Section Sim.
Variable grd : bool.     (* guarded_pop *)

Lemma mrun_cont mut f g (op : cmop) q (c : fc) q' c' :
  cmstep mut grd g op q c = (Cont q', c') -> cmrun mut grd (S f) g op q c = cmrun mut grd f g op q' c'.
Proof. intros H. cbn [mrun]. rewrite H. reflexivity. Qed.

(* ---- a whole method, alone ---- *)
Lemma mrun_get_sim g k (c : fc) : cfwf c ->
  exists c', cmrun false grd 9 g (MGet k) D1 c
             = (match fst (cget ckey cval ckey_eqb g k (cfabs c)) with
                | Some v => Return (Some v) | None => RaiseKeyError end, c') /\
             cfabs c' = snd (cget ckey cval ckey_eqb g k (cfabs c)) /\ cfwf c'.
Proof.
  intros Hwf. destruct c as [objs cur mx h m ep]. unfold fwf in Hwf. cbn [fcur fobjs] in Hwf.
  unfold cget, drop_stale, fabs, obj. cbn [cep entries maxsz hits misses fobjs fcur fmax fhits fmisses fep].
  destruct (Nat.eqb ep g) eqn:E.
  - (* the stamp is current *)
    erewrite mrun_cont by (cbn [mstep fep]; rewrite E; reflexivity).
    erewrite mrun_cont by reflexivity. cbn [after_drop fcur entries maxsz hits misses cep].
    destruct (lookup ckey cval ckey_eqb k (nth cur objs [])) as [v|] eqn:El.
    + erewrite mrun_cont by (cbn [mstep]; unfold obj; cbn [fobjs]; rewrite El; reflexivity).
      erewrite mrun_cont by reflexivity. erewrite mrun_cont by reflexivity. erewrite mrun_cont by reflexivity.
      cbn [mrun mstep fcur fhits fobjs fmax fmisses fep]. unfold obj. cbn [fobjs]. rewrite El.
      eexists. split; [reflexivity|]. unfold set_obj, fabs, fwf, obj. cbn [fst snd fobjs fcur fmax fhits fmisses fep].
      rewrite nth_nth_upd_same by exact Hwf. rewrite length_nth_upd. split; [reflexivity|exact Hwf].
    + erewrite mrun_cont by (cbn [mstep]; unfold obj; cbn [fobjs]; rewrite El; reflexivity).
      erewrite mrun_cont by reflexivity. cbn [mrun mstep fcur fhits fobjs fmax fmisses fep].
      eexists. split; [reflexivity|]. split; [reflexivity|exact Hwf].
  - (* stale: D2, D3, then a miss on the new empty object *)
    erewrite mrun_cont by (cbn [mstep fep]; rewrite E; reflexivity).
    erewrite mrun_cont by reflexivity. erewrite mrun_cont by reflexivity. erewrite mrun_cont by reflexivity.
    cbn [after_drop fcur fhits fobjs fmax fmisses fep entries maxsz hits misses cep lookup].
    erewrite mrun_cont by (cbn [mstep]; unfold obj; cbn [fobjs]; rewrite nth_middle; reflexivity).
    erewrite mrun_cont by reflexivity. cbn [mrun mstep fcur fhits fobjs fmax fmisses fep].
    eexists. split; [reflexivity|]. unfold fabs, fwf, obj. cbn [fst snd fobjs fcur fmax fhits fmisses fep].
    rewrite nth_middle, app_length. cbn [length]. split; [reflexivity|lia].
Qed.

Lemma assign_nonempty k v : forall l, assign ckey cval ckey_eqb k v l <> [].
Proof. intros [|[k' v'] l]; cbn [assign]; [discriminate|]. destruct (ckey_eqb k k'); discriminate. Qed.

(* the tail of one __setitem__ from S2a on, on an object o that is current *)
Lemma mrun_set_tail f g k v objs cur mx h m ep (o : list (ckey * cval)) :
  cur < length objs -> nth cur objs [] = o -> o <> [] ->
  exists c', cmrun false grd (4 + f) g (MSet k v) S2a (mkf ckey cval objs cur mx h m ep) = (Return None, c') /\
             cfabs c' = mkc ckey cval (if limit_exceeded mx (length o) then tl o else o) mx h m ep /\ cfwf c'.
Proof.
  intros Hwf Ho Hne. cbn [Nat.add].
  assert (Hsame : cfabs (mkf ckey cval objs cur mx h m ep) = mkc ckey cval o mx h m ep /\
                  cfwf (mkf ckey cval objs cur mx h m ep)).
  { unfold fabs, fwf, obj. cbn [fobjs fcur fmax fhits fmisses fep]. rewrite Ho. split; [reflexivity|exact Hwf]. }
  destruct mx as [[|p]|].
  - eexists. split; [reflexivity|]. exact Hsame.
  - erewrite mrun_cont by reflexivity. cbn [fcur].
    destruct (limit_exceeded (Some (S p)) (length o)) eqn:El.
    + erewrite mrun_cont by (cbn [mstep fmax]; unfold obj; cbn [fobjs]; rewrite Ho, El; reflexivity).
      erewrite mrun_cont by reflexivity. cbn [fcur mrun mstep]. unfold obj. cbn [fobjs]. rewrite Ho.
      destruct o as [|x r]; [congruence|].
      eexists. split; [reflexivity|]. unfold set_obj, fabs, fwf, obj. cbn [fobjs fcur fmax fhits fmisses fep tl].
      rewrite nth_nth_upd_same by exact Hwf. rewrite length_nth_upd. split; [reflexivity|exact Hwf].
    + cbn [mrun mstep fmax]. unfold obj. cbn [fobjs]. rewrite Ho, El.
      eexists. split; [reflexivity|]. exact Hsame.
  - eexists. split; [reflexivity|]. exact Hsame.
Qed.

Lemma mrun_set_sim g k v (c : fc) : cfwf c ->
  exists c', cmrun false grd 9 g (MSet k v) D1 c = (Return None, c') /\
             cfabs c' = cset ckey cval ckey_eqb g k v (cfabs c) /\ cfwf c'.
Proof.
  intros Hwf. destruct c as [objs cur mx h m ep]. unfold fwf in Hwf. cbn [fcur fobjs] in Hwf.
  unfold cset, drop_stale, fabs, obj. cbn [cep entries maxsz hits misses fobjs fcur fmax fhits fmisses fep].
  destruct (Nat.eqb ep g) eqn:E.
  - erewrite mrun_cont by (cbn [mstep fep]; rewrite E; reflexivity).
    erewrite mrun_cont by reflexivity. erewrite mrun_cont by reflexivity.
    cbn [after_drop fcur entries maxsz hits misses cep]. unfold set_obj, obj. cbn [fobjs fcur fmax fhits fmisses fep].
    apply (mrun_set_tail 2).
    + rewrite length_nth_upd. exact Hwf.
    + apply nth_nth_upd_same. exact Hwf.
    + apply assign_nonempty.
  - erewrite mrun_cont by (cbn [mstep fep]; rewrite E; reflexivity).
    erewrite mrun_cont by reflexivity. erewrite mrun_cont by reflexivity.
    erewrite mrun_cont by reflexivity. erewrite mrun_cont by reflexivity.
    cbn [after_drop fcur entries maxsz hits misses cep]. unfold set_obj, obj. cbn [fobjs fcur fmax fhits fmisses fep].
    rewrite nth_middle. cbn [assign].
    apply (mrun_set_tail 0).
    + rewrite length_nth_upd, app_length. cbn [length]. lia.
    + apply nth_nth_upd_same. rewrite app_length. cbn [length]. lia.
    + discriminate.
Qed.

(* ---- one thread scheduled n times in a row ---- *)
Fixpoint titer {A : Type} (n : nat) (mut : bool) (g : nat) (st : fstate) (t : thread A) : thread A * fstate :=
  match n with
  | 0 => (t, st)
  | S n' => let (t', st') := tstep mut grd g st t in titer n' mut g st' t'
  end.

Lemma nth_error_nth_upd {A : Type} (a : A) : forall l n x, nth_error l n = Some x -> nth_error (nth_upd l n a) n = Some a.
Proof.
  induction l as [|b l IH]; intros n x Hn; [destruct n; discriminate|].
  destruct n as [|n]; cbn [nth_upd nth_error] in *; [reflexivity|exact (IH n x Hn)].
Qed.
Lemma nth_upd_nth_upd {A : Type} (a b : A) : forall l n, nth_upd (nth_upd l n a) n b = nth_upd l n b.
Proof.
  induction l as [|x l IH]; intros n; [reflexivity|].
  destruct n as [|n]; cbn [nth_upd]; [reflexivity|rewrite IH; reflexivity].
Qed.
Lemma nth_upd_id {A : Type} : forall (l : list A) n x, nth_error l n = Some x -> nth_upd l n x = l.
Proof.
  induction l as [|b l IH]; intros n x Hn; [reflexivity|].
  destruct n as [|n]; cbn [nth_upd nth_error] in *; [inversion Hn; reflexivity|rewrite (IH n x Hn); reflexivity].
Qed.

Lemma run_fine_app {A : Type} mut g : forall s1 s2 st (pool : list (thread A)),
  run_fine mut grd g st pool (s1 ++ s2)
  = let (pool1, st1) := run_fine mut grd g st pool s1 in run_fine mut grd g st1 pool1 s2.
Proof.
  induction s1 as [|t s1 IH]; intros s2 st pool; cbn [app run_fine]; [reflexivity|].
  destruct (nth_error pool t) as [th|]; [|apply IH]. destruct (tstep mut grd g st th) as [th' st']. apply IH.
Qed.

Lemma run_fine_repeat {A : Type} mut g t : forall n st (pool : list (thread A)) th,
  nth_error pool t = Some th ->
  run_fine mut grd g st pool (repeat t n)
  = (nth_upd pool t (fst (titer n mut g st th)), snd (titer n mut g st th)).
Proof.
  induction n as [|n IH]; intros st pool th Hn; cbn [repeat run_fine titer fst snd].
  - rewrite (nth_upd_id pool t th Hn). reflexivity.
  - rewrite Hn. destruct (tstep mut grd g st th) as [th' st'].
    rewrite (IH st' (nth_upd pool t th') th' (nth_error_nth_upd th' pool t th Hn)), nth_upd_nth_upd. reflexivity.
Qed.

Definition is_cont (o : outcome cval) : Prop := match o with Cont _ => True | _ => False end.
Definition oo (o : outcome cval) : option cval := match o with Return o => o | _ => None end.

(* a method that runs to completion alone, seen from the thread *)
Lemma titer_mrun_get {A : Type} mut g id k (c : option cval -> prog A) : forall n q st out c',
  cmrun mut grd n g (MGet k) q (st id) = (out, c') -> ~ is_cont out ->
  exists m st', m <= n /\ titer m mut g st (TRun (Lookup id k c) q) = (TRun (c (oo out)) D1, st') /\
                st' id = c' /\ forall id', id' <> id -> st' id' = st id'.
Proof.
  induction n as [|n IH]; intros q st out c' Hr Hnc; cbn [mrun] in Hr.
  - inversion Hr; subst. exfalso. apply Hnc. exact I.
  - destruct (cmstep mut grd g (MGet k) q (st id)) as [o1 c1] eqn:Em.
    assert (Hone : ~ is_cont o1 -> exists m st', m <= S n /\
              titer m mut g st (TRun (Lookup id k c) q) = (TRun (c (oo o1)) D1, st') /\
              st' id = c1 /\ forall id', id' <> id -> st' id' = st id').
    { intros Hn1. exists 1, (fupd st id c1). split; [lia|]. split.
      - cbn [titer tstep]. rewrite Em. destruct o1 as [q1|o|]; [exfalso; apply Hn1; exact I| |]; reflexivity.
      - split; [apply fupd_same|]. intros id' Hne. apply fupd_other. exact Hne. }
    destruct o1 as [q1|o|].
    + specialize (IH q1 (fupd st id c1) out c'). rewrite fupd_same in IH.
      destruct (IH Hr Hnc) as [m [st' [Hm [Ht [Hc Ho]]]]].
      exists (S m), st'. split; [lia|]. split; [|split; [exact Hc|]].
      * cbn [titer tstep]. rewrite Em. exact Ht.
      * intros id' Hne. rewrite (Ho id' Hne). apply fupd_other. exact Hne.
    + inversion Hr; subst out c'. apply Hone. intros [].
    + inversion Hr; subst out c'. apply Hone. intros [].
Qed.

Lemma titer_mrun_set {A : Type} mut g id k v (c : prog A) : forall n q st out c',
  cmrun mut grd n g (MSet k v) q (st id) = (out, c') -> ~ is_cont out ->
  exists m st', m <= n /\
    titer m mut g st (TRun (Store id k v c) q)
    = (match out with RaiseKeyError => TCrash | _ => TRun c D1 end, st') /\
    st' id = c' /\ forall id', id' <> id -> st' id' = st id'.
Proof.
  induction n as [|n IH]; intros q st out c' Hr Hnc; cbn [mrun] in Hr.
  - inversion Hr; subst. exfalso. apply Hnc. exact I.
  - destruct (cmstep mut grd g (MSet k v) q (st id)) as [o1 c1] eqn:Em.
    assert (Hone : ~ is_cont o1 -> exists m st', m <= S n /\
              titer m mut g st (TRun (Store id k v c) q)
              = (match o1 with RaiseKeyError => TCrash | _ => TRun c D1 end, st') /\
              st' id = c1 /\ forall id', id' <> id -> st' id' = st id').
    { intros Hn1. exists 1, (fupd st id c1). split; [lia|]. split.
      - cbn [titer tstep]. rewrite Em. destruct o1 as [q1|o|]; [exfalso; apply Hn1; exact I| |]; reflexivity.
      - split; [apply fupd_same|]. intros id' Hne. apply fupd_other. exact Hne. }
    destruct o1 as [q1|o|].
    + specialize (IH q1 (fupd st id c1) out c'). rewrite fupd_same in IH.
      destruct (IH Hr Hnc) as [m [st' [Hm [Ht [Hc Ho]]]]].
      exists (S m), st'. split; [lia|]. split; [|split; [exact Hc|]].
      * cbn [titer tstep]. rewrite Em. exact Ht.
      * intros id' Hne. rewrite (Ho id' Hne). apply fupd_other. exact Hne.
    + inversion Hr; subst out c'. apply Hone. intros [].
    + inversion Hr; subst out c'. apply Hone. intros [].
Qed.

(* ---- the simulation relation: every fine cache is well formed and abstracts to the coarse one ---- *)
Definition sim (st : fstate) (ast : cstate) : Prop := forall id, cfwf (st id) /\ cfabs (st id) = ast id.

Lemma sim_conc ast : sim (fconc_st ast) ast.
Proof. intros id. unfold fconc_st, fconc, fwf, fabs, obj. cbn. split; [lia|]. destruct (ast id); reflexivity. Qed.

Lemma sim_step st ast id st' c' a' :
  sim st ast -> st' id = c' -> (forall id', id' <> id -> st' id' = st id') -> cfwf c' -> cfabs c' = a' ->
  sim st' (upd ast id a').
Proof.
  intros Hs Hc Ho Hwf Ha id'. unfold upd. destruct (N.eqb id' id) eqn:E.
  - apply N.eqb_eq in E. subst id'. rewrite Hc. split; assumption.
  - apply N.eqb_neq in E. rewrite (Ho id' E). apply Hs.
Qed.

(* the head operation of a thread, run alone from its beginning, is one coarse step *)
Theorem op_sim {A : Type} g st ast (p : prog A) : sim st ast ->
  exists m st', m <= 9 /\ titer m false g st (start p) = (start (fst (pstep g ast p)), st') /\
                sim st' (snd (pstep g ast p)).
Proof.
  intros Hs. destruct p as [a|id k c|id k v c]; cbn [pstep].
  - exists 0, st. split; [lia|]. split; [reflexivity|exact Hs].
  - destruct (Hs id) as [Hwf Ha].
    destruct (mrun_get_sim g k (st id) Hwf) as [c' [Hr [Hc' Hwf']]].
    rewrite Ha in Hr, Hc'. destruct (cget ckey cval ckey_eqb g k (ast id)) as [o a'] eqn:Eg. cbn [fst snd] in *.
    destruct (titer_mrun_get false g id k c 9 D1 st _ c' Hr) as [m [st' [Hm [Ht [Hc Ho]]]]].
    { destruct o; intros []. }
    exists m, st'. split; [exact Hm|]. split.
    + unfold start. rewrite Ht. destruct o; reflexivity.
    + exact (sim_step st ast id st' c' a' Hs Hc Ho Hwf' Hc').
  - destruct (Hs id) as [Hwf Ha].
    destruct (mrun_set_sim g k v (st id) Hwf) as [c' [Hr [Hc' Hwf']]].
    rewrite Ha in Hc'. cbn [fst snd].
    destruct (titer_mrun_set false g id k v c 9 D1 st _ c' Hr) as [m [st' [Hm [Ht [Hc Ho]]]]].
    { intros []. }
    exists m, st'. split; [exact Hm|]. split; [exact Ht|].
    exact (sim_step st ast id st' c' _ Hs Hc Ho Hwf' Hc').
Qed.

Lemma map_nth_upd {A B : Type} (f : A -> B) a : forall l n, map f (nth_upd l n a) = nth_upd (map f l) n (f a).
Proof.
  induction l as [|b l IH]; intros n; [reflexivity|].
  destruct n as [|n]; cbn [nth_upd map]; [reflexivity|rewrite IH; reflexivity].
Qed.

(* every coarse schedule (whole cache operations) is a fine schedule *)
Theorem coarse_sched_sim {A : Type} g : forall sched st ast (pool : list (prog A)), sim st ast ->
  exists fsched st',
    run_fine false grd g st (map start pool) fsched = (map start (fst (run_sched g ast pool sched)), st') /\
    sim st' (snd (run_sched g ast pool sched)).
Proof.
  induction sched as [|t sched IH]; intros st ast pool Hs; cbn [run_sched].
  - exists [], st. split; [reflexivity|exact Hs].
  - destruct (nth_error pool t) as [p|] eqn:En; [|apply IH; exact Hs].
    destruct (op_sim g st ast p Hs) as [m [st1 [_ [Ht Hs1]]]].
    destruct (pstep g ast p) as [p1 ast1] eqn:Ep. cbn [fst snd] in *.
    destruct (IH st1 ast1 (nth_upd pool t p1) Hs1) as [fs [st' [Hr Hs']]].
    exists (repeat t m ++ fs), st'. split; [|exact Hs'].
    rewrite run_fine_app.
    rewrite (run_fine_repeat false g t m st (map start pool) (start p)) by (rewrite nth_error_map, En; reflexivity).
    rewrite Ht. cbn [fst snd]. rewrite <- (map_nth_upd start p1 pool t). exact Hr.
Qed.

(* in particular a whole request run alone: the fine model returns what run_cached returns *)
Corollary run_cached_sim {A : Type} g : forall (p : prog A) st ast, sim st ast ->
  exists fsched st', run_fine false grd g st [start p] fsched = ([start (Ret (fst (run_cached g ast p)))], st') /\
                     sim st' (snd (run_cached g ast p)).
Proof.
  induction p as [a|id k c IH|id k v c IH]; intros st ast Hs.
  - exists [], st. split; [reflexivity|exact Hs].
  - destruct (op_sim g st ast (Lookup id k c) Hs) as [m [st1 [_ [Ht Hs1]]]].
    cbn [pstep run_cached] in *. destruct (cget ckey cval ckey_eqb g k (ast id)) as [o a'] eqn:Eg. cbn [fst snd] in *.
    destruct (IH o st1 _ Hs1) as [fs [st' [Hr Hs']]].
    exists (repeat 0 m ++ fs), st'. split; [|exact Hs'].
    rewrite run_fine_app, (run_fine_repeat false g 0 m st [start (Lookup id k c)] _ eq_refl), Ht. exact Hr.
  - destruct (op_sim g st ast (Store id k v c) Hs) as [m [st1 [_ [Ht Hs1]]]].
    cbn [pstep run_cached fst snd] in *.
    destruct (IH st1 _ Hs1) as [fs [st' [Hr Hs']]].
    exists (repeat 0 m ++ fs), st'. split; [|exact Hs'].
    rewrite run_fine_app, (run_fine_repeat false g 0 m st [start (Store id k v c)] _ eq_refl), Ht. exact Hr.
Qed.

End Sim.

(* the repaired library *)
Definition op_sim_repaired {A : Type} := @op_sim true A.
Definition coarse_sched_sim_repaired {A : Type} := @coarse_sched_sim true A.
Definition run_cached_sim_repaired {A : Type} := @run_cached_sim true A.

Print Assumptions mrun_get_sim.
Print Assumptions mrun_set_sim.
Print Assumptions op_sim.
Print Assumptions coarse_sched_sim.
Print Assumptions run_cached_sim.
