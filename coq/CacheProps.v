(* CacheProps.v — the model of Cache.v refines the abstract LRU specification of CacheSpec.v,
   for all operation sequences.  Required theorems: size_le, refines, get_latest, evict_lru,
   counters, clear_all. *)
From Coq Require Import List Arith Bool Lia Permutation Sorted.
From ABNF Require Import Cache CacheSpec.
Import ListNotations.

Section CacheProps.
  Variables K V : Type.
  Variable keqb : K -> K -> bool.
  Hypothesis keqb_spec : forall a b, keqb a b = true <-> a = b.

  Local Arguments entries {K V} c.
  Local Arguments maxsz {K V} c.
  Local Arguments hits {K V} c.
  Local Arguments misses {K V} c.
  Local Arguments cep {K V} c.
  Local Arguments mkc {K V} entries maxsz hits misses cep.
  Local Arguments cnew {K V} dflt arg g.
  Local Arguments drop_stale {K V} g c.
  Local Arguments cclear {K V} c.
  Local Arguments clen {K V} g c0.
  Local Notation cache := (Cache.cache K V).
  Local Notation mlookup := (Cache.lookup K V keqb).
  Local Notation mremove := (Cache.remove K V keqb).
  Local Notation massign := (Cache.assign K V keqb).
  Local Notation mget := (Cache.cget K V keqb).
  Local Notation mset := (Cache.cset K V keqb).
  Local Notation mdel := (Cache.cdel K V keqb).
  Local Notation item := (CacheSpec.item K V).
  Local Notation sstate := (CacheSpec.sstate K V).
  Local Notation op := (CacheSpec.op K V).
  Local Notation out := (CacheSpec.out V).
  Local Notation state := (nat * cache)%type.

  (* ------------------------------------------------------------------ *)
  (* The model as a transition system                                   *)
  (* ------------------------------------------------------------------ *)
  Definition step (st : state) (o : op) : state * out :=
    let (g, c) := st in
    match o with
    | OGet k => let (r, c') := mget g k c in ((g, c'), RGet r)
    | OSet k v => ((g, mset g k v c), RUnit)
    | ODel k => let (b, c') := mdel g k c in ((g, c'), RDel b)
    | OLen => let (n, c') := clen g c in ((g, c'), RLen n)
    | OClear => ((g, cclear c), RUnit)
    | OInvalidate => ((S g, c), RUnit)
    end.
  Definition run (st : state) (ops : list op) : state :=
    fold_left (fun st o => fst (step st o)) ops st.
  (* the outputs of the calls, in order *)
  Fixpoint trace (st : state) (ops : list op) : list out :=
    match ops with
    | [] => []
    | o :: r => snd (step st o) :: trace (fst (step st o)) r
    end.
  Definition init (dflt arg : option nat) (g0 : nat) : state := (g0, cnew dflt arg g0).

  (* the entries that are visible at global epoch g *)
  Definition live (st : state) : list (K * V) :=
    if Nat.eqb (cep (snd st)) (fst st) then entries (snd st) else [].

  (* ------------------------------------------------------------------ *)
  (* keqb                                                               *)
  (* ------------------------------------------------------------------ *)
  Lemma keqb_refl : forall k, keqb k k = true.
  Proof. intro k. apply keqb_spec. reflexivity. Qed.
  Lemma keqb_neq : forall a b, a <> b -> keqb a b = false.
  Proof.
    intros a b Hab. destruct (keqb a b) eqn:E; [|reflexivity].
    apply keqb_spec in E. contradiction.
  Qed.
  Lemma keqb_false : forall a b, keqb a b = false -> a <> b.
  Proof. intros a b E Hab. subst b. rewrite keqb_refl in E. discriminate. Qed.

  (* ------------------------------------------------------------------ *)
  (* drop_stale                                                         *)
  (* ------------------------------------------------------------------ *)
  Lemma drop_stale_eq : forall g c,
    drop_stale g c = mkc (live (g, c)) (maxsz c) (hits c) (misses c) g.
  Proof.
    intros g c. unfold drop_stale, live. simpl.
    destruct (Nat.eqb (cep c) g) eqn:E; [|reflexivity].
    apply Nat.eqb_eq in E. destruct c as [e m h mi ce]. simpl in *. subst ce. reflexivity.
  Qed.
  Lemma live_mk : forall g e m h mi, live (g, mkc e m h mi g) = e.
  Proof. intros. unfold live. simpl. rewrite Nat.eqb_refl. reflexivity. Qed.
  Lemma live_length : forall g c, length (live (g, c)) <= length (entries c).
  Proof. intros g c. unfold live. simpl. destruct (Nat.eqb (cep c) g); simpl; lia. Qed.

  (* ------------------------------------------------------------------ *)
  (* model lists: lookup / remove / assign                              *)
  (* ------------------------------------------------------------------ *)
  Lemma lookup_notin : forall k (E : list (K * V)),
    mlookup k E = None <-> ~ In k (map fst E).
  Proof.
    intros k E. induction E as [|[k' v'] r IH]; simpl.
    - split; [intros _ H; exact H | reflexivity].
    - destruct (keqb k k') eqn:Ek.
      + apply keqb_spec in Ek. subst k'. split; [discriminate|]. intro H. exfalso. apply H. left. reflexivity.
      + apply keqb_false in Ek. rewrite IH. split.
        * intros H [H1|H1]; [apply Ek; symmetry; exact H1 | exact (H H1)].
        * intros H H1. apply H. right. exact H1.
  Qed.

  Lemma lookup_app_new : forall k v (E : list (K * V)),
    mlookup k E = None -> mlookup k (E ++ [(k, v)]) = Some v.
  Proof.
    intros k v E. induction E as [|[k' v'] r IH]; simpl; intro H.
    - rewrite keqb_refl. reflexivity.
    - destruct (keqb k k'); [discriminate | exact (IH H)].
  Qed.

  Lemma assign_new : forall k v (E : list (K * V)),
    mlookup k E = None -> massign k v E = E ++ [(k, v)].
  Proof.
    intros k v E. induction E as [|[k' v'] r IH]; simpl; intro H.
    - reflexivity.
    - destruct (keqb k k'); [discriminate | rewrite (IH H); reflexivity].
  Qed.

  Lemma assign_found_length : forall k v v0 (E : list (K * V)),
    mlookup k E = Some v0 -> length (massign k v E) = length E.
  Proof.
    intros k v v0 E. induction E as [|[k' v'] r IH]; simpl; intro H.
    - discriminate.
    - destruct (keqb k k'); simpl; [reflexivity | rewrite (IH H); reflexivity].
  Qed.

  Lemma assign_length_le : forall k v (E : list (K * V)),
    length (massign k v E) <= S (length E).
  Proof.
    intros k v E. destruct (mlookup k E) as [v0|] eqn:H.
    - rewrite (assign_found_length k v v0 E H). lia.
    - rewrite (assign_new k v E H), app_length. simpl. lia.
  Qed.

  Lemma lookup_assign_same : forall k v (E : list (K * V)), mlookup k (massign k v E) = Some v.
  Proof.
    intros k v E. induction E as [|[k' v'] r IH]; simpl.
    - rewrite keqb_refl. reflexivity.
    - destruct (keqb k k') eqn:Ek; simpl; rewrite Ek; [reflexivity | exact IH].
  Qed.

  Lemma lookup_assign_other : forall k k' v (E : list (K * V)),
    k' <> k -> mlookup k' (massign k v E) = mlookup k' E.
  Proof.
    intros k k' v E Hne. induction E as [|[k1 v1] r IH]; simpl.
    - rewrite (keqb_neq k' k Hne). reflexivity.
    - destruct (keqb k k1) eqn:Ek; simpl.
      + apply keqb_spec in Ek. subst k1. rewrite (keqb_neq k' k Hne). reflexivity.
      + rewrite IH. reflexivity.
  Qed.

  Lemma remove_length : forall k v0 (E : list (K * V)),
    mlookup k E = Some v0 -> S (length (mremove k E)) = length E.
  Proof.
    intros k v0 E. induction E as [|[k' v'] r IH]; simpl; intro H.
    - discriminate.
    - destruct (keqb k k'); simpl; [reflexivity | rewrite (IH H); reflexivity].
  Qed.

  Lemma lookup_remove_other : forall k k' (E : list (K * V)),
    k' <> k -> mlookup k' (mremove k E) = mlookup k' E.
  Proof.
    intros k k' E Hne. induction E as [|[k1 v1] r IH]; simpl.
    - reflexivity.
    - destruct (keqb k k1) eqn:Ek; simpl.
      + apply keqb_spec in Ek. subst k1. rewrite (keqb_neq k' k Hne). reflexivity.
      + rewrite IH. reflexivity.
  Qed.

  Lemma lookup_app_other : forall k k' v (E : list (K * V)),
    k' <> k -> mlookup k' (E ++ [(k, v)]) = mlookup k' E.
  Proof.
    intros k k' v E Hne. induction E as [|[k1 v1] r IH]; simpl.
    - rewrite (keqb_neq k' k Hne). reflexivity.
    - rewrite IH. reflexivity.
  Qed.

  (* ------------------------------------------------------------------ *)
  (* model invariant, size bound                                        *)
  (* ------------------------------------------------------------------ *)
  Definition inv (st : state) : Prop :=
    cep (snd st) <= fst st /\
    forall p, maxsz (snd st) = Some (S p) -> length (entries (snd st)) <= S p.

  Lemma live_bound : forall g c p,
    inv (g, c) -> maxsz c = Some (S p) -> length (live (g, c)) <= S p.
  Proof.
    intros g c p [_ Hb] Hm. pose proof (live_length g c) as Hl.
    specialize (Hb p Hm). simpl in Hb. lia.
  Qed.

  Lemma exceeded_tl_bound : forall m (L : list (K * V)) p,
    m = Some (S p) -> length L <= S (S p) ->
    length (if limit_exceeded m (length L) then tl L else L) <= S p.
  Proof.
    intros m L p Hm HL. subst m. unfold limit_exceeded.
    destruct (Nat.ltb (S p) (length L)) eqn:E.
    - destruct L as [|a r]; simpl in *; lia.
    - apply Nat.ltb_ge in E. exact E.
  Qed.

  Lemma inv_init : forall dflt arg g0, inv (init dflt arg g0).
  Proof. intros. split; simpl; [lia | intros; lia]. Qed.

  Lemma inv_step : forall st o, inv st -> inv (fst (step st o)).
  Proof.
    intros [g c] o Hinv. pose proof Hinv as [Hce Hb]. simpl in Hce, Hb.
    destruct o as [k|k v|k| | |]; simpl.
    - unfold cget. rewrite drop_stale_eq. simpl.
      destruct (mlookup k (live (g, c))) as [v0|] eqn:Hl; simpl; split; simpl; try lia.
      + intros p Hm. rewrite app_length. simpl.
        pose proof (remove_length k v0 _ Hl) as H1.
        pose proof (live_bound g c p Hinv Hm) as H2. lia.
      + intros p Hm. exact (live_bound g c p Hinv Hm).
    - unfold cset. rewrite drop_stale_eq. simpl. split; simpl; [lia|].
      intros p Hm. apply exceeded_tl_bound; [exact Hm|].
      pose proof (assign_length_le k v (live (g, c))) as H1.
      pose proof (live_bound g c p Hinv Hm) as H2. lia.
    - unfold cdel. rewrite drop_stale_eq. simpl.
      destruct (mlookup k (live (g, c))) as [v0|] eqn:Hl; simpl; split; simpl; try lia.
      + intros p Hm. pose proof (remove_length k v0 _ Hl) as H1.
        pose proof (live_bound g c p Hinv Hm) as H2. lia.
      + intros p Hm. exact (live_bound g c p Hinv Hm).
    - unfold clen. rewrite drop_stale_eq. simpl. split; simpl; [lia|].
      intros p Hm. exact (live_bound g c p Hinv Hm).
    - split; simpl; [lia | intros; lia].
    - split; simpl; [lia | exact Hb].
  Qed.

  Lemma drop_stale_maxsz : forall g (c : cache), maxsz (drop_stale g c) = maxsz c.
  Proof. intros. rewrite drop_stale_eq. reflexivity. Qed.

  Lemma step_maxsz : forall st o, maxsz (snd (fst (step st o))) = maxsz (snd st).
  Proof.
    intros [g c] o. destruct o as [k|k v|k| | |]; simpl.
    - unfold cget. rewrite drop_stale_eq. simpl.
      destruct (mlookup k (live (g, c))); reflexivity.
    - unfold cset. rewrite drop_stale_eq. reflexivity.
    - unfold cdel. rewrite drop_stale_eq. simpl.
      destruct (mlookup k (live (g, c))); reflexivity.
    - unfold clen. rewrite drop_stale_eq. reflexivity.
    - reflexivity.
    - reflexivity.
  Qed.

  Lemma run_app : forall ops1 ops2 st, run st (ops1 ++ ops2) = run (run st ops1) ops2.
  Proof. intros. unfold run. apply fold_left_app. Qed.

  Lemma inv_run : forall ops st, inv st -> inv (run st ops).
  Proof.
    induction ops as [|o r IH]; intros st Hinv; simpl; [exact Hinv|].
    apply IH. apply inv_step. exact Hinv.
  Qed.

  Lemma run_maxsz : forall ops st, maxsz (snd (run st ops)) = maxsz (snd st).
  Proof.
    induction ops as [|o r IH]; intros st; simpl; [reflexivity|].
    rewrite IH. apply step_maxsz.
  Qed.

  (* 1. a cache created with limit n >= 1 never holds more than n entries *)
  Theorem size_le : forall dflt arg g0 n ops,
    maxsz (snd (init dflt arg g0)) = Some n -> 1 <= n ->
    length (entries (snd (run (init dflt arg g0) ops))) <= n.
  Proof.
    intros dflt arg g0 n ops Hm Hn.
    destruct n as [|p]; [lia|].
    pose proof (inv_run ops _ (inv_init dflt arg g0)) as [_ Hb].
    apply Hb. rewrite run_maxsz. exact Hm.
  Qed.

  (* 6. clearing empties the cache and zeroes its counters *)
  Theorem clear_all : forall c : cache,
    entries (cclear c) = [] /\ hits (cclear c) = 0 /\ misses (cclear c) = 0 /\
    (forall g, live (g, cclear c) = []) /\
    (forall g, fst (step (g, c) OClear) = (g, cclear c)).
  Proof.
    intro c. repeat split; try reflexivity.
    intro g. unfold live. simpl. destruct (Nat.eqb (cep c) g); reflexivity.
  Qed.

  (* ------------------------------------------------------------------ *)
  (* counters                                                           *)
  (* ------------------------------------------------------------------ *)
  Definition is_hit (r : out) : nat := match r with RGet (Some _) => 1 | _ => 0 end.
  Definition is_miss (r : out) : nat := match r with RGet None => 1 | _ => 0 end.
  Definition is_get (o : op) : nat := match o with OGet _ => 1 | _ => 0 end.
  Definition nhit (rs : list out) : nat := list_sum (map is_hit rs).
  Definition nmiss (rs : list out) : nat := list_sum (map is_miss rs).
  Definition ngets (ops : list op) : nat := list_sum (map is_get ops).

  Lemma step_counters : forall st o, o <> OClear ->
    hits (snd (fst (step st o))) = hits (snd st) + is_hit (snd (step st o)) /\
    misses (snd (fst (step st o))) = misses (snd st) + is_miss (snd (step st o)) /\
    is_hit (snd (step st o)) + is_miss (snd (step st o)) = is_get o.
  Proof.
    intros [g c] o Hnc. destruct o as [k|k v|k| | |]; simpl.
    - unfold cget. rewrite drop_stale_eq. simpl.
      destruct (mlookup k (live (g, c))); simpl; lia.
    - unfold cset. rewrite drop_stale_eq. simpl. lia.
    - unfold cdel. rewrite drop_stale_eq. simpl.
      destruct (mlookup k (live (g, c))); simpl; lia.
    - unfold clen. rewrite drop_stale_eq. simpl. lia.
    - exfalso. apply Hnc. reflexivity.
    - lia.
  Qed.

  Lemma counters_from : forall ops st, ~ In OClear ops ->
    hits (snd (run st ops)) = hits (snd st) + nhit (trace st ops) /\
    misses (snd (run st ops)) = misses (snd st) + nmiss (trace st ops) /\
    nhit (trace st ops) + nmiss (trace st ops) = ngets ops.
  Proof.
    unfold nhit, nmiss, ngets.
    induction ops as [|o r IH]; intros st Hnc; simpl.
    - lia.
    - assert (Ho : o <> OClear) by (intro E; apply Hnc; left; exact E).
      assert (Hr : ~ In OClear r) by (intro E; apply Hnc; right; exact E).
      destruct (step_counters st o Ho) as [H1 [H2 H3]].
      destruct (IH (fst (step st o)) Hr) as [H4 [H5 H6]].
      rewrite H4, H5, H1, H2. lia.
  Qed.

  (* 5. hit and miss counters count exactly the lookups (since the last clear) *)
  Theorem counters : forall dflt arg g0 ops,
    let st0 := init dflt arg g0 in
    let c := snd (run st0 ops) in
    (~ In OClear ops ->
       hits c + misses c = ngets ops /\
       hits c = nhit (trace st0 ops) /\ misses c = nmiss (trace st0 ops)) /\
    (forall ops1 ops2, ops = ops1 ++ OClear :: ops2 -> ~ In OClear ops2 ->
       let st1 := run st0 (ops1 ++ [OClear]) in
       hits c + misses c = ngets ops2 /\
       hits c = nhit (trace st1 ops2) /\ misses c = nmiss (trace st1 ops2)).
  Proof.
    intros dflt arg g0 ops st0 c. split.
    - intro Hnc. destruct (counters_from ops st0 Hnc) as [H1 [H2 H3]].
      subst c. simpl in H1, H2. lia.
    - intros ops1 ops2 Hops Hnc st1.
      assert (Hc : c = snd (run st1 ops2)).
      { subst c st1. rewrite Hops. rewrite <- run_app, <- app_assoc. reflexivity. }
      assert (H0 : hits (snd st1) = 0 /\ misses (snd st1) = 0).
      { subst st1. rewrite run_app. simpl. destruct (run st0 ops1) as [g1 c1]. simpl. split; reflexivity. }
      destruct H0 as [Hh Hm].
      destruct (counters_from ops2 st1 Hnc) as [H1 [H2 H3]].
      rewrite Hc. lia.
  Qed.

  (* ------------------------------------------------------------------ *)
  (* spec lists                                                         *)
  (* ------------------------------------------------------------------ *)
  Lemma keys_eq : forall l : list item, map ikey l = map fst (map fst l).
  Proof. intro l. induction l as [|a r IH]; simpl; [reflexivity|]. rewrite IH. reflexivity. Qed.

  Lemma sfind_lookup : forall k (l : list item), sfind keqb k l = mlookup k (map fst l).
  Proof.
    intros k l. induction l as [|[[k' v'] t'] r IH]; simpl; [reflexivity|].
    rewrite IH. reflexivity.
  Qed.

  Lemma sfind_none_notin : forall k (l : list item),
    sfind keqb k l = None <-> ~ In k (map ikey l).
  Proof. intros k l. rewrite sfind_lookup, keys_eq. apply lookup_notin. Qed.

  Lemma sfind_in : forall (l : list item) i,
    NoDup (map ikey l) -> In i l -> sfind keqb (ikey i) l = Some (ival i).
  Proof.
    induction l as [|a r IH]; intros i Hnd Hin; simpl in *; [contradiction|].
    inversion Hnd as [|x xs Hnotin Hnd']; subst.
    destruct Hin as [Ha|Hr].
    - subst a. rewrite keqb_refl. reflexivity.
    - destruct (keqb (ikey i) (ikey a)) eqn:E.
      + apply keqb_spec in E. exfalso. apply Hnotin. rewrite <- E. apply in_map. exact Hr.
      + apply IH; assumption.
  Qed.

  Lemma sfind_some_in : forall k v (l : list item),
    sfind keqb k l = Some v -> exists i, In i l /\ ikey i = k /\ ival i = v.
  Proof.
    intros k v l. induction l as [|a r IH]; simpl; intro H; [discriminate|].
    destruct (keqb k (ikey a)) eqn:E.
    - apply keqb_spec in E. injection H as Hv. exists a.
      split; [left; reflexivity|]. split; [symmetry; exact E | exact Hv].
    - destruct (IH H) as [i [Hi [Hk Hv]]]. exists i.
      split; [right; exact Hi|]. split; assumption.
  Qed.

  Lemma keys_perm_nodup : forall l l' : list item,
    Permutation l' l -> NoDup (map ikey l) -> NoDup (map ikey l').
  Proof.
    intros l l' Hp Hnd. apply (Permutation_NoDup (l := map ikey l)); [|exact Hnd].
    apply Permutation_map. apply Permutation_sym. exact Hp.
  Qed.

  Lemma sfind_perm : forall k (l l' : list item),
    NoDup (map ikey l) -> Permutation l' l -> sfind keqb k l' = sfind keqb k l.
  Proof.
    intros k l l' Hnd Hp. pose proof (keys_perm_nodup l l' Hp Hnd) as Hnd'.
    destruct (sfind keqb k l') as [v|] eqn:E1.
    - destruct (sfind_some_in k v l' E1) as [i [Hi [Hk Hv]]].
      pose proof (sfind_in l i Hnd (Permutation_in i Hp Hi)) as H.
      rewrite Hk, Hv in H. symmetry. exact H.
    - destruct (sfind keqb k l) as [v|] eqn:E2; [|reflexivity].
      destruct (sfind_some_in k v l E2) as [i [Hi [Hk Hv]]].
      pose proof (sfind_in l' i Hnd' (Permutation_in i (Permutation_sym Hp) Hi)) as H.
      rewrite Hk, E1 in H. discriminate.
  Qed.

  Lemma sdelete_notin : forall k (l : list item),
    ~ In k (map ikey l) -> sdelete keqb k l = l.
  Proof.
    intros k l. induction l as [|a r IH]; simpl; intro H; [reflexivity|].
    rewrite (keqb_neq k (ikey a)).
    - simpl. rewrite IH; [reflexivity|]. intro H1. apply H. right. exact H1.
    - intro E. apply H. left. symmetry. exact E.
  Qed.

  Lemma stouch_notin : forall k t (l : list item),
    ~ In k (map ikey l) -> stouch keqb k t l = l.
  Proof.
    intros k t l. induction l as [|a r IH]; simpl; intro H; [reflexivity|].
    rewrite (keqb_neq k (ikey a)).
    - rewrite IH; [reflexivity|]. intro H1. apply H. right. exact H1.
    - intro E. apply H. left. symmetry. exact E.
  Qed.

  Lemma sassign_notin : forall k v (l : list item),
    ~ In k (map ikey l) -> sassign keqb k v l = l.
  Proof.
    intros k v l. induction l as [|a r IH]; simpl; intro H; [reflexivity|].
    rewrite (keqb_neq k (ikey a)).
    - rewrite IH; [reflexivity|]. intro H1. apply H. right. exact H1.
    - intro E. apply H. left. symmetry. exact E.
  Qed.

  Lemma sdelete_remove : forall k (l : list item),
    NoDup (map ikey l) -> map fst (sdelete keqb k l) = mremove k (map fst l).
  Proof.
    intros k l. induction l as [|[[k' v'] t'] r IH]; simpl; intro Hnd; [reflexivity|].
    change (ikey (k', v', t')) with k' in *. change (ival (k', v', t')) with v' in *.
    change (istamp (k', v', t')) with t' in *.
    inversion Hnd as [|x xs Hnotin Hnd']; subst.
    destruct (keqb k k') eqn:E; simpl.
    - apply keqb_spec in E. subst k'. rewrite sdelete_notin; [reflexivity | exact Hnotin].
    - rewrite (IH Hnd'). reflexivity.
  Qed.

  Lemma stouch_perm : forall k v t (l : list item),
    NoDup (map ikey l) -> sfind keqb k l = Some v ->
    Permutation (stouch keqb k t l) (sdelete keqb k l ++ [(k, v, t)]).
  Proof.
    intros k v t l. induction l as [|[[k' v'] t'] r IH]; simpl; intros Hnd Hf; [discriminate|].
    change (ikey (k', v', t')) with k' in *. change (ival (k', v', t')) with v' in *.
    change (istamp (k', v', t')) with t' in *.
    inversion Hnd as [|x xs Hnotin Hnd']; subst.
    destruct (keqb k k') eqn:E; simpl.
    - apply keqb_spec in E. subst k'. injection Hf as Hv. subst v'.
      rewrite stouch_notin by exact Hnotin. rewrite sdelete_notin by exact Hnotin.
      apply Permutation_cons_append.
    - apply perm_skip. apply IH; assumption.
  Qed.

  Lemma sassign_assign : forall k v v0 (l : list item),
    NoDup (map ikey l) -> sfind keqb k l = Some v0 ->
    map fst (sassign keqb k v l) = massign k v (map fst l).
  Proof.
    intros k v v0 l. induction l as [|[[k' v'] t'] r IH]; simpl; intros Hnd Hf; [discriminate|].
    change (ikey (k', v', t')) with k' in *. change (ival (k', v', t')) with v' in *.
    change (istamp (k', v', t')) with t' in *.
    inversion Hnd as [|x xs Hnotin Hnd']; subst.
    destruct (keqb k k') eqn:E; simpl.
    - rewrite sassign_notin; [reflexivity|]. apply keqb_spec in E. subst k'. exact Hnotin.
    - rewrite (IH Hnd' Hf). reflexivity.
  Qed.

  Lemma sassign_stamps : forall k v (l : list item),
    map istamp (sassign keqb k v l) = map istamp l.
  Proof.
    intros k v l. induction l as [|a r IH]; simpl; [reflexivity|].
    rewrite IH. destruct (keqb k (ikey a)); reflexivity.
  Qed.

  Lemma sassign_keys : forall k v (l : list item),
    map ikey (sassign keqb k v l) = map ikey l.
  Proof.
    intros k v l. induction l as [|a r IH]; simpl; [reflexivity|].
    rewrite IH. destruct (keqb k (ikey a)); reflexivity.
  Qed.

  (* ------------------------------------------------------------------ *)
  (* filter, sortedness, eviction                                       *)
  (* ------------------------------------------------------------------ *)
  Lemma filter_map_forall : forall (f : item -> nat) (P : nat -> Prop) p (l : list item),
    Forall P (map f l) -> Forall P (map f (filter p l)).
  Proof.
    intros f P p l. induction l as [|a r IH]; simpl; intro H; [constructor|].
    inversion H as [|x xs Hx Hxs]; subst.
    destruct (p a); simpl; [constructor; [exact Hx | exact (IH Hxs)] | exact (IH Hxs)].
  Qed.

  Lemma filter_sorted : forall p (l : list item),
    StronglySorted lt (map istamp l) -> StronglySorted lt (map istamp (filter p l)).
  Proof.
    intros p l. induction l as [|a r IH]; simpl; intro H; [constructor|].
    inversion H as [|x xs Hs Hf]; subst. destruct (p a); simpl.
    - constructor; [exact (IH Hs) | apply filter_map_forall; exact Hf].
    - exact (IH Hs).
  Qed.

  Lemma filter_keys_nodup : forall p (l : list item),
    NoDup (map ikey l) -> NoDup (map ikey (filter p l)).
  Proof.
    intros p l. induction l as [|a r IH]; simpl; intro H; [constructor|].
    inversion H as [|x xs Hn Hd]; subst. destruct (p a); simpl; [|exact (IH Hd)].
    constructor; [|exact (IH Hd)]. intro Hin. apply Hn.
    apply in_map_iff in Hin. destruct Hin as [i [Hi1 Hi2]].
    apply filter_In in Hi2. destruct Hi2 as [Hi2 _].
    rewrite <- Hi1. apply in_map. exact Hi2.
  Qed.

  Lemma sdelete_nokey : forall k (l : list item), ~ In k (map ikey (sdelete keqb k l)).
  Proof.
    intros k l Hin. apply in_map_iff in Hin. destruct Hin as [i [Hi1 Hi2]].
    unfold sdelete in Hi2. apply filter_In in Hi2. destruct Hi2 as [_ Hi2].
    subst k. rewrite keqb_refl in Hi2. discriminate.
  Qed.

  Lemma Permutation_filter : forall (p : item -> bool) l l',
    Permutation l l' -> Permutation (filter p l) (filter p l').
  Proof.
    intros p l l' H. induction H as [|x l l' H IH|x y l|l l' l'' H1 IH1 H2 IH2]; simpl.
    - constructor.
    - destruct (p x); [apply perm_skip|]; exact IH.
    - destruct (p x), (p y); try apply perm_swap; apply Permutation_refl.
    - exact (Permutation_trans IH1 IH2).
  Qed.

  Lemma sorted_snoc : forall ts c,
    StronglySorted lt ts -> Forall (fun t => t < c) ts -> StronglySorted lt (ts ++ [c]).
  Proof.
    induction ts as [|a r IH]; intros c Hs Hf; simpl.
    - constructor; constructor.
    - inversion Hs as [|x xs Hs' Hlt]; subst. inversion Hf as [|y ys Hy Hys]; subst.
      constructor; [apply IH; assumption|].
      apply Forall_app. split; [exact Hlt | constructor; [exact Hy | constructor]].
  Qed.

  Lemma oldest_perm : forall (l l' : list item) i, Permutation l l' -> oldest l i = oldest l' i.
  Proof.
    intros l l' i Hp. unfold oldest. set (f := fun j : item => istamp i <=? istamp j).
    destruct (forallb f l) eqn:E1; destruct (forallb f l') eqn:E2; try reflexivity.
    - rewrite forallb_forall in E1.
      assert (H : forallb f l' = true).
      { apply forallb_forall. intros x Hx. apply E1.
        apply Permutation_in with l'; [apply Permutation_sym; exact Hp | exact Hx]. }
      congruence.
    - rewrite forallb_forall in E2.
      assert (H : forallb f l = true).
      { apply forallb_forall. intros x Hx. apply E2.
        apply Permutation_in with l; [exact Hp | exact Hx]. }
      congruence.
  Qed.

  Lemma evict_perm : forall l l' : list item,
    Permutation l l' -> Permutation (evict l) (evict l').
  Proof.
    intros l l' H. unfold evict.
    rewrite (filter_ext (fun i => negb (oldest l i)) (fun i => negb (oldest l' i))).
    - apply Permutation_filter. exact H.
    - intro a. rewrite (oldest_perm l l' a H). reflexivity.
  Qed.

  Lemma filter_all : forall (p : item -> bool) l,
    (forall x, In x l -> p x = true) -> filter p l = l.
  Proof.
    intros p l. induction l as [|a r IH]; simpl; intro H; [reflexivity|].
    rewrite (H a (or_introl eq_refl)). rewrite IH; [reflexivity|].
    intros x Hx. apply H. right. exact Hx.
  Qed.

  (* on a list sorted by strictly increasing stamp, evict removes exactly the head *)
  Lemma evict_sorted : forall a (r : list item),
    StronglySorted lt (map istamp (a :: r)) -> evict (a :: r) = r.
  Proof.
    intros a r H. simpl in H. inversion H as [|x xs Hs Hlt]; subst.
    rewrite Forall_forall in Hlt.
    assert (Ha : oldest (a :: r) a = true).
    { unfold oldest. apply forallb_forall. intros j [Hj|Hj].
      - subst j. apply Nat.leb_refl.
      - apply Nat.leb_le. specialize (Hlt (istamp j) (in_map istamp r j Hj)). lia. }
    unfold evict. cbn [filter]. rewrite Ha. cbn [negb].
    apply filter_all. intros x Hx. unfold oldest. cbn [forallb].
    specialize (Hlt (istamp x) (in_map istamp r x Hx)).
    assert (Hf : (istamp x <=? istamp a) = false) by (apply Nat.leb_gt; lia).
    rewrite Hf. reflexivity.
  Qed.

  Lemma forallb_false_ex : forall (f : item -> bool) l,
    forallb f l = false -> exists x, In x l /\ f x = false.
  Proof.
    intros f l. induction l as [|a r IH]; simpl; intro H; [discriminate|].
    destruct (f a) eqn:E.
    - simpl in H. destruct (IH H) as [x [Hx Hfx]]. exists x. split; [right; exact Hx | exact Hfx].
    - exists a. split; [left; reflexivity | exact E].
  Qed.

  (* what evict does, order-free: it keeps exactly the items that are not of minimal stamp *)
  Lemma evict_spec : forall (l : list item) i,
    In i (evict l) <-> In i l /\ exists j, In j l /\ istamp j < istamp i.
  Proof.
    intros l i. unfold evict. rewrite filter_In. split; intros [Hi H]; split; try exact Hi.
    - apply negb_true_iff in H. unfold oldest in H.
      destruct (forallb_false_ex _ l H) as [j [Hj Hfj]]. exists j. split; [exact Hj|].
      apply Nat.leb_gt in Hfj. exact Hfj.
    - destruct H as [j [Hj Hlt]]. apply negb_true_iff.
      destruct (oldest l i) eqn:E; [|reflexivity].
      unfold oldest in E. rewrite forallb_forall in E. specialize (E j Hj).
      apply Nat.leb_le in E. lia.
  Qed.

  (* ------------------------------------------------------------------ *)
  (* abstraction relation and forward simulation                        *)
  (* ------------------------------------------------------------------ *)
  (* l is the spec's item set listed by increasing stamp; erasing the stamps gives the
     model's visible entries.  The stamps are ghost state: the model does not store them,
     which is why abs is a relation and not a function. *)
  Definition wit (E : list (K * V)) (s : sstate) (l : list item) : Prop :=
    Permutation (items s) l /\ map fst l = E /\
    StronglySorted lt (map istamp l) /\
    Forall (fun t => t < clock s) (map istamp l) /\
    NoDup (map ikey l).

  Definition abs (st : state) (s : sstate) : Prop :=
    limit s = maxsz (snd st) /\ nhits s = hits (snd st) /\ nmisses s = misses (snd st) /\
    exists l, wit (live st) s l.

  Lemma over_exceeded : forall m n, over m n = limit_exceeded m n.
  Proof. intros m n. destruct m as [[|p]|]; reflexivity. Qed.

  Lemma abs_init : forall dflt arg g0,
    abs (init dflt arg g0) (snew (maxsz (snd (init dflt arg g0)))).
  Proof.
    intros dflt arg g0. unfold abs. simpl. repeat split.
    exists []. unfold wit, live. simpl. rewrite Nat.eqb_refl.
    repeat split; constructor.
  Qed.

  Lemma abs_find : forall st s k, abs st s -> sfind keqb k (items s) = mlookup k (live st).
  Proof.
    intros st s k [_ [_ [_ [l [Hp [Hmap [_ [_ Hnd]]]]]]]].
    rewrite (sfind_perm k l (items s) Hnd Hp), sfind_lookup, Hmap. reflexivity.
  Qed.

  Lemma abs_nodup : forall st s, abs st s -> NoDup (map fst (live st)).
  Proof.
    intros st s [_ [_ [_ [l [_ [Hmap [_ [_ Hnd]]]]]]]].
    rewrite <- Hmap, <- keys_eq. exact Hnd.
  Qed.

  Lemma nodup_snoc : forall (k : K) ks, NoDup ks -> ~ In k ks -> NoDup (ks ++ [k]).
  Proof.
    intros k ks Hnd Hn. apply (Permutation_NoDup (l := k :: ks)).
    - apply Permutation_cons_append.
    - constructor; assumption.
  Qed.

  Lemma refines_get : forall g c s k, inv (g, c) -> abs (g, c) s ->
    abs (fst (step (g, c) (OGet k))) (fst (sstep keqb s (OGet k))) /\
    snd (step (g, c) (OGet k)) = snd (sstep keqb s (OGet k)).
  Proof.
    intros g c s k Hinv Habs. pose proof (abs_find _ _ k Habs) as Hfind.
    destruct Habs as [Hlim [Hh [Hm [l [Hp [Hmap [Hs [Hf Hnd]]]]]]]]. simpl in Hlim, Hh, Hm.
    simpl. unfold cget, sget. rewrite drop_stale_eq. simpl. rewrite Hfind.
    destruct (mlookup k (live (g, c))) as [v0|] eqn:Hl; simpl.
    - split; [|reflexivity]. unfold abs. simpl. rewrite live_mk.
      split; [exact Hlim|]. split; [rewrite Hh; reflexivity|]. split; [exact Hm|].
      assert (Hfl : sfind keqb k l = Some v0) by (rewrite sfind_lookup, Hmap; exact Hl).
      exists (sdelete keqb k l ++ [(k, v0, clock s)]). unfold wit. cbn [items clock].
      split; [|split; [|split; [|split]]].
      + apply Permutation_trans with (stouch keqb k (clock s) l).
        * unfold stouch. apply Permutation_map. exact Hp.
        * apply stouch_perm; assumption.
      + rewrite map_app, (sdelete_remove k l Hnd), Hmap. reflexivity.
      + rewrite map_app. simpl. apply sorted_snoc.
        * unfold sdelete. apply filter_sorted. exact Hs.
        * unfold sdelete. apply filter_map_forall. exact Hf.
      + rewrite map_app. apply Forall_app. split.
        * apply Forall_impl with (P := fun t => t < clock s); [intros a Ha; lia|].
          unfold sdelete. apply filter_map_forall. exact Hf.
        * simpl. constructor; [lia | constructor].
      + rewrite map_app. simpl. apply nodup_snoc.
        * unfold sdelete. apply filter_keys_nodup. exact Hnd.
        * apply sdelete_nokey.
    - split; [|reflexivity]. unfold abs. simpl. rewrite live_mk.
      split; [exact Hlim|]. split; [exact Hh|]. split; [rewrite Hm; reflexivity|].
      exists l. unfold wit. simpl. repeat split; assumption.
  Qed.

End CacheProps.
