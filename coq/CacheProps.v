(* CacheProps.v — the model of Cache.v refines the abstract LRU specification of CacheSpec.v,
   for all operation sequences.  Required theorems: size_le, refines, get_latest, evict_lru,
   counters, clear_all. *)
From Coq Require Import List Arith Bool Lia Permutation Sorted.
From ABNF Require Import Cache CacheSpec.
Import ListNotations.

Section CacheProps.
  Variables K V : Type.
  Variable keqb : K -> K -> bool.
  Hypothesis keqb_spec : forall a b, keqb a b = true <-> a = b.

  Local Arguments entries {K V} c.
  Local Arguments maxsz {K V} c.
  Local Arguments hits {K V} c.
  Local Arguments misses {K V} c.
  Local Arguments cep {K V} c.
  Local Arguments mkc {K V} entries maxsz hits misses cep.
  Local Arguments cnew {K V} dflt arg g.
  Local Arguments drop_stale {K V} g c.
  Local Arguments cclear {K V} c.
  Local Arguments clen {K V} g c0.
  Local Notation cache := (Cache.cache K V).
  Local Notation mlookup := (Cache.lookup K V keqb).
  Local Notation mremove := (Cache.remove K V keqb).
  Local Notation massign := (Cache.assign K V keqb).
  Local Notation mget := (Cache.cget K V keqb).
  Local Notation mset := (Cache.cset K V keqb).
  Local Notation mdel := (Cache.cdel K V keqb).
  Local Notation item := (CacheSpec.item K V).
  Local Notation sstate := (CacheSpec.sstate K V).
  Local Notation op := (CacheSpec.op K V).
  Local Notation out := (CacheSpec.out V).
  Local Notation state := (nat * cache)%type.

  (* ------------------------------------------------------------------ *)
  (* The model as a transition system                                   *)
  (* ------------------------------------------------------------------ *)
  Definition step (st : state) (o : op) : state * out :=
    let (g, c) := st in
    match o with
    | OGet k => let (r, c') := mget g k c in ((g, c'), RGet r)
    | OSet k v => ((g, mset g k v c), RUnit)
    | ODel k => let (b, c') := mdel g k c in ((g, c'), RDel b)
    | OLen => let (n, c') := clen g c in ((g, c'), RLen n)
    | OClear => ((g, cclear c), RUnit)
    | OInvalidate => ((S g, c), RUnit)
    end.
  Definition run (st : state) (ops : list op) : state :=
    fold_left (fun st o => fst (step st o)) ops st.
  (* the outputs of the calls, in order *)
  Fixpoint trace (st : state) (ops : list op) : list out :=
    match ops with
    | [] => []
    | o :: r => snd (step st o) :: trace (fst (step st o)) r
    end.
  Definition init (dflt arg : option nat) (g0 : nat) : state := (g0, cnew dflt arg g0).

  (* the entries that are visible at global epoch g *)
  Definition live (st : state) : list (K * V) :=
    if Nat.eqb (cep (snd st)) (fst st) then entries (snd st) else [].

  (* ------------------------------------------------------------------ *)
  (* keqb                                                               *)
  (* ------------------------------------------------------------------ *)
  Lemma keqb_refl : forall k, keqb k k = true.
  Proof. intro k. apply keqb_spec. reflexivity. Qed.
  Lemma keqb_neq : forall a b, a <> b -> keqb a b = false.
  Proof.
    intros a b Hab. destruct (keqb a b) eqn:E; [|reflexivity].
    apply keqb_spec in E. contradiction.
  Qed.
  Lemma keqb_false : forall a b, keqb a b = false -> a <> b.
  Proof. intros a b E Hab. subst b. rewrite keqb_refl in E. discriminate. Qed.

  (* ------------------------------------------------------------------ *)
  (* drop_stale                                                         *)
  (* ------------------------------------------------------------------ *)
  Lemma drop_stale_eq : forall g c,
    drop_stale g c = mkc (live (g, c)) (maxsz c) (hits c) (misses c) g.
  Proof.
    intros g c. unfold drop_stale, live. simpl.
    destruct (Nat.eqb (cep c) g) eqn:E; [|reflexivity].
    apply Nat.eqb_eq in E. destruct c as [e m h mi ce]. simpl in *. subst ce. reflexivity.
  Qed.
  Lemma live_mk : forall g e m h mi, live (g, mkc e m h mi g) = e.
  Proof. intros. unfold live. simpl. rewrite Nat.eqb_refl. reflexivity. Qed.
  Lemma live_length : forall g c, length (live (g, c)) <= length (entries c).
  Proof. intros g c. unfold live. simpl. destruct (Nat.eqb (cep c) g); simpl; lia. Qed.

  (* ------------------------------------------------------------------ *)
  (* model lists: lookup / remove / assign                              *)
  (* ------------------------------------------------------------------ *)
  Lemma lookup_notin : forall k (E : list (K * V)),
    mlookup k E = None <-> ~ In k (map fst E).
  Proof.
    intros k E. induction E as [|[k' v'] r IH]; simpl.
    - split; [intros _ H; exact H | reflexivity].
    - destruct (keqb k k') eqn:Ek.
      + apply keqb_spec in Ek. subst k'. split; [discriminate|]. intro H. exfalso. apply H. left. reflexivity.
      + apply keqb_false in Ek. rewrite IH. split.
        * intros H [H1|H1]; [apply Ek; symmetry; exact H1 | exact (H H1)].
        * intros H H1. apply H. right. exact H1.
  Qed.

  Lemma lookup_app_new : forall k v (E : list (K * V)),
    mlookup k E = None -> mlookup k (E ++ [(k, v)]) = Some v.
  Proof.
    intros k v E. induction E as [|[k' v'] r IH]; simpl; intro H.
    - rewrite keqb_refl. reflexivity.
    - destruct (keqb k k'); [discriminate | exact (IH H)].
  Qed.

  Lemma assign_new : forall k v (E : list (K * V)),
    mlookup k E = None -> massign k v E = E ++ [(k, v)].
  Proof.
    intros k v E. induction E as [|[k' v'] r IH]; simpl; intro H.
    - reflexivity.
    - destruct (keqb k k'); [discriminate | rewrite (IH H); reflexivity].
  Qed.

  Lemma assign_found_length : forall k v v0 (E : list (K * V)),
    mlookup k E = Some v0 -> length (massign k v E) = length E.
  Proof.
    intros k v v0 E. induction E as [|[k' v'] r IH]; simpl; intro H.
    - discriminate.
    - destruct (keqb k k'); simpl; [reflexivity | rewrite (IH H); reflexivity].
  Qed.

  Lemma assign_length_le : forall k v (E : list (K * V)),
    length (massign k v E) <= S (length E).
  Proof.
    intros k v E. destruct (mlookup k E) as [v0|] eqn:H.
    - rewrite (assign_found_length k v v0 E H). lia.
    - rewrite (assign_new k v E H), app_length. simpl. lia.
  Qed.

  Lemma lookup_assign_same : forall k v (E : list (K * V)), mlookup k (massign k v E) = Some v.
  Proof.
    intros k v E. induction E as [|[k' v'] r IH]; simpl.
    - rewrite keqb_refl. reflexivity.
    - destruct (keqb k k') eqn:Ek; simpl; rewrite Ek; [reflexivity | exact IH].
  Qed.

  Lemma lookup_assign_other : forall k k' v (E : list (K * V)),
    k' <> k -> mlookup k' (massign k v E) = mlookup k' E.
  Proof.
    intros k k' v E Hne. induction E as [|[k1 v1] r IH]; simpl.
    - rewrite (keqb_neq k' k Hne). reflexivity.
    - destruct (keqb k k1) eqn:Ek; simpl.
      + apply keqb_spec in Ek. subst k1. rewrite (keqb_neq k' k Hne). reflexivity.
      + rewrite IH. reflexivity.
  Qed.

  Lemma remove_length : forall k v0 (E : list (K * V)),
    mlookup k E = Some v0 -> S (length (mremove k E)) = length E.
  Proof.
    intros k v0 E. induction E as [|[k' v'] r IH]; simpl; intro H.
    - discriminate.
    - destruct (keqb k k'); simpl; [reflexivity | rewrite (IH H); reflexivity].
  Qed.

  Lemma lookup_remove_other : forall k k' (E : list (K * V)),
    k' <> k -> mlookup k' (mremove k E) = mlookup k' E.
  Proof.
    intros k k' E Hne. induction E as [|[k1 v1] r IH]; simpl.
    - reflexivity.
    - destruct (keqb k k1) eqn:Ek; simpl.
      + apply keqb_spec in Ek. subst k1. rewrite (keqb_neq k' k Hne). reflexivity.
      + rewrite IH. reflexivity.
  Qed.

  Lemma lookup_app_other : forall k k' v (E : list (K * V)),
    k' <> k -> mlookup k' (E ++ [(k, v)]) = mlookup k' E.
  Proof.
    intros k k' v E Hne. induction E as [|[k1 v1] r IH]; simpl.
    - rewrite (keqb_neq k' k Hne). reflexivity.
    - rewrite IH. reflexivity.
  Qed.

  (* ------------------------------------------------------------------ *)
  (* model invariant, size bound                                        *)
  (* ------------------------------------------------------------------ *)
  Definition inv (st : state) : Prop :=
    cep (snd st) <= fst st /\
    forall p, maxsz (snd st) = Some (S p) -> length (entries (snd st)) <= S p.

  Lemma live_bound : forall g c p,
    inv (g, c) -> maxsz c = Some (S p) -> length (live (g, c)) <= S p.
  Proof.
    intros g c p [_ Hb] Hm. pose proof (live_length g c) as Hl.
    specialize (Hb p Hm). simpl in Hb. lia.
  Qed.

  Lemma exceeded_tl_bound : forall m (L : list (K * V)) p,
    m = Some (S p) -> length L <= S (S p) ->
    length (if limit_exceeded m (length L) then tl L else L) <= S p.
  Proof.
    intros m L p Hm HL. subst m. unfold limit_exceeded.
    destruct (Nat.ltb (S p) (length L)) eqn:E.
    - destruct L as [|a r]; simpl in *; lia.
    - apply Nat.ltb_ge in E. exact E.
  Qed.

  Lemma inv_init : forall dflt arg g0, inv (init dflt arg g0).
  Proof. intros. split; simpl; [lia | intros; lia]. Qed.

  Lemma inv_step : forall st o, inv st -> inv (fst (step st o)).
  Proof.
    intros [g c] o Hinv. pose proof Hinv as [Hce Hb]. simpl in Hce, Hb.
    destruct o as [k|k v|k| | |]; simpl.
    - unfold cget. rewrite drop_stale_eq. simpl.
      destruct (mlookup k (live (g, c))) as [v0|] eqn:Hl; simpl; split; simpl; try lia.
      + intros p Hm. rewrite app_length. simpl.
        pose proof (remove_length k v0 _ Hl) as H1.
        pose proof (live_bound g c p Hinv Hm) as H2. lia.
      + intros p Hm. exact (live_bound g c p Hinv Hm).
    - unfold cset. rewrite drop_stale_eq. simpl. split; simpl; [lia|].
      intros p Hm. apply exceeded_tl_bound; [exact Hm|].
      pose proof (assign_length_le k v (live (g, c))) as H1.
      pose proof (live_bound g c p Hinv Hm) as H2. lia.
    - unfold cdel. rewrite drop_stale_eq. simpl.
      destruct (mlookup k (live (g, c))) as [v0|] eqn:Hl; simpl; split; simpl; try lia.
      + intros p Hm. pose proof (remove_length k v0 _ Hl) as H1.
        pose proof (live_bound g c p Hinv Hm) as H2. lia.
      + intros p Hm. exact (live_bound g c p Hinv Hm).
    - unfold clen. rewrite drop_stale_eq. simpl. split; simpl; [lia|].
      intros p Hm. exact (live_bound g c p Hinv Hm).
    - split; simpl; [lia | intros; lia].
    - split; simpl; [lia | exact Hb].
  Qed.

  Lemma drop_stale_maxsz : forall g (c : cache), maxsz (drop_stale g c) = maxsz c.
  Proof. intros. rewrite drop_stale_eq. reflexivity. Qed.

  Lemma step_maxsz : forall st o, maxsz (snd (fst (step st o))) = maxsz (snd st).
  Proof.
    intros [g c] o. destruct o as [k|k v|k| | |]; simpl.
    - unfold cget. rewrite drop_stale_eq. simpl.
      destruct (mlookup k (live (g, c))); reflexivity.
    - unfold cset. rewrite drop_stale_eq. reflexivity.
    - unfold cdel. rewrite drop_stale_eq. simpl.
      destruct (mlookup k (live (g, c))); reflexivity.
    - unfold clen. rewrite drop_stale_eq. reflexivity.
    - reflexivity.
    - reflexivity.
  Qed.

  Lemma run_app : forall ops1 ops2 st, run st (ops1 ++ ops2) = run (run st ops1) ops2.
  Proof. intros. unfold run. apply fold_left_app. Qed.

  Lemma inv_run : forall ops st, inv st -> inv (run st ops).
  Proof.
    induction ops as [|o r IH]; intros st Hinv; simpl; [exact Hinv|].
    apply IH. apply inv_step. exact Hinv.
  Qed.

  Lemma run_maxsz : forall ops st, maxsz (snd (run st ops)) = maxsz (snd st).
  Proof.
    induction ops as [|o r IH]; intros st; simpl; [reflexivity|].
    rewrite IH. apply step_maxsz.
  Qed.

  (* 1. a cache created with limit n >= 1 never holds more than n entries *)
  Theorem size_le : forall dflt arg g0 n ops,
    maxsz (snd (init dflt arg g0)) = Some n -> 1 <= n ->
    length (entries (snd (run (init dflt arg g0) ops))) <= n.
  Proof.
    intros dflt arg g0 n ops Hm Hn.
    destruct n as [|p]; [lia|].
    pose proof (inv_run ops _ (inv_init dflt arg g0)) as [_ Hb].
    apply Hb. rewrite run_maxsz. exact Hm.
  Qed.

  (* 6. clearing empties the cache and zeroes its counters *)
  Theorem clear_all : forall c : cache,
    entries (cclear c) = [] /\ hits (cclear c) = 0 /\ misses (cclear c) = 0 /\
    (forall g, live (g, cclear c) = []) /\
    (forall g, fst (step (g, c) OClear) = (g, cclear c)).
  Proof.
    intro c. repeat split; try reflexivity.
    intro g. unfold live. simpl. destruct (Nat.eqb (cep c) g); reflexivity.
  Qed.

  (* ------------------------------------------------------------------ *)
  (* counters                                                           *)
  (* ------------------------------------------------------------------ *)
  Definition is_hit (r : out) : nat := match r with RGet (Some _) => 1 | _ => 0 end.
  Definition is_miss (r : out) : nat := match r with RGet None => 1 | _ => 0 end.
  Definition is_get (o : op) : nat := match o with OGet _ => 1 | _ => 0 end.
  Definition nhit (rs : list out) : nat := list_sum (map is_hit rs).
  Definition nmiss (rs : list out) : nat := list_sum (map is_miss rs).
  Definition ngets (ops : list op) : nat := list_sum (map is_get ops).

  Lemma step_counters : forall st o, o <> OClear ->
    hits (snd (fst (step st o))) = hits (snd st) + is_hit (snd (step st o)) /\
    misses (snd (fst (step st o))) = misses (snd st) + is_miss (snd (step st o)) /\
    is_hit (snd (step st o)) + is_miss (snd (step st o)) = is_get o.
  Proof.
    intros [g c] o Hnc. destruct o as [k|k v|k| | |]; simpl.
    - unfold cget. rewrite drop_stale_eq. simpl.
      destruct (mlookup k (live (g, c))); simpl; lia.
    - unfold cset. rewrite drop_stale_eq. simpl. lia.
    - unfold cdel. rewrite drop_stale_eq. simpl.
      destruct (mlookup k (live (g, c))); simpl; lia.
    - unfold clen. rewrite drop_stale_eq. simpl. lia.
    - exfalso. apply Hnc. reflexivity.
    - lia.
  Qed.

  Lemma counters_from : forall ops st, ~ In OClear ops ->
    hits (snd (run st ops)) = hits (snd st) + nhit (trace st ops) /\
    misses (snd (run st ops)) = misses (snd st) + nmiss (trace st ops) /\
    nhit (trace st ops) + nmiss (trace st ops) = ngets ops.
  Proof.
    unfold nhit, nmiss, ngets.
    induction ops as [|o r IH]; intros st Hnc; simpl.
    - lia.
    - assert (Ho : o <> OClear) by (intro E; apply Hnc; left; exact E).
      assert (Hr : ~ In OClear r) by (intro E; apply Hnc; right; exact E).
      destruct (step_counters st o Ho) as [H1 [H2 H3]].
      destruct (IH (fst (step st o)) Hr) as [H4 [H5 H6]].
      rewrite H4, H5, H1, H2. lia.
  Qed.

  (* 5. hit and miss counters count exactly the lookups (since the last clear) *)
  Theorem counters : forall dflt arg g0 ops,
    let st0 := init dflt arg g0 in
    let c := snd (run st0 ops) in
    (~ In OClear ops ->
       hits c + misses c = ngets ops /\
       hits c = nhit (trace st0 ops) /\ misses c = nmiss (trace st0 ops)) /\
    (forall ops1 ops2, ops = ops1 ++ OClear :: ops2 -> ~ In OClear ops2 ->
       let st1 := run st0 (ops1 ++ [OClear]) in
       hits c + misses c = ngets ops2 /\
       hits c = nhit (trace st1 ops2) /\ misses c = nmiss (trace st1 ops2)).
  Proof.
    intros dflt arg g0 ops st0 c. split.
    - intro Hnc. destruct (counters_from ops st0 Hnc) as [H1 [H2 H3]].
      subst c. simpl in H1, H2. lia.
    - intros ops1 ops2 Hops Hnc st1.
      assert (Hc : c = snd (run st1 ops2)).
      { subst c st1. rewrite Hops. rewrite <- run_app, <- app_assoc. reflexivity. }
      assert (H0 : hits (snd st1) = 0 /\ misses (snd st1) = 0).
      { subst st1. rewrite run_app. simpl. destruct (run st0 ops1) as [g1 c1]. simpl. split; reflexivity. }
      destruct H0 as [Hh Hm].
      destruct (counters_from ops2 st1 Hnc) as [H1 [H2 H3]].
      rewrite Hc. lia.
  Qed.

  (* ------------------------------------------------------------------ *)
  (* spec lists                                                         *)
  (* ------------------------------------------------------------------ *)
  Lemma keys_eq : forall l : list item, map ikey l = map fst (map fst l).
  Proof. intro l. induction l as [|a r IH]; simpl; [reflexivity|]. rewrite IH. reflexivity. Qed.

  Lemma sfind_lookup : forall k (l : list item), sfind keqb k l = mlookup k (map fst l).
  Proof.
    intros k l. induction l as [|[[k' v'] t'] r IH]; simpl; [reflexivity|].
    rewrite IH. reflexivity.
  Qed.

  Lemma sfind_none_notin : forall k (l : list item),
    sfind keqb k l = None <-> ~ In k (map ikey l).
  Proof. intros k l. rewrite sfind_lookup, keys_eq. apply lookup_notin. Qed.

  Lemma sfind_in : forall (l : list item) i,
    NoDup (map ikey l) -> In i l -> sfind keqb (ikey i) l = Some (ival i).
  Proof.
    induction l as [|a r IH]; intros i Hnd Hin; simpl in *; [contradiction|].
    inversion Hnd as [|x xs Hnotin Hnd']; subst.
    destruct Hin as [Ha|Hr].
    - subst a. rewrite keqb_refl. reflexivity.
    - destruct (keqb (ikey i) (ikey a)) eqn:E.
      + apply keqb_spec in E. exfalso. apply Hnotin. rewrite <- E. apply in_map. exact Hr.
      + apply IH; assumption.
  Qed.

  Lemma sfind_some_in : forall k v (l : list item),
    sfind keqb k l = Some v -> exists i, In i l /\ ikey i = k /\ ival i = v.
  Proof.
    intros k v l. induction l as [|a r IH]; simpl; intro H; [discriminate|].
    destruct (keqb k (ikey a)) eqn:E.
    - apply keqb_spec in E. injection H as Hv. exists a.
      split; [left; reflexivity|]. split; [symmetry; exact E | exact Hv].
    - destruct (IH H) as [i [Hi [Hk Hv]]]. exists i.
      split; [right; exact Hi|]. split; assumption.
  Qed.

  Lemma keys_perm_nodup : forall l l' : list item,
    Permutation l' l -> NoDup (map ikey l) -> NoDup (map ikey l').
  Proof.
    intros l l' Hp Hnd. apply (Permutation_NoDup (l := map ikey l)); [|exact Hnd].
    apply Permutation_map. apply Permutation_sym. exact Hp.
  Qed.

  Lemma sfind_perm : forall k (l l' : list item),
    NoDup (map ikey l) -> Permutation l' l -> sfind keqb k l' = sfind keqb k l.
  Proof.
    intros k l l' Hnd Hp. pose proof (keys_perm_nodup l l' Hp Hnd) as Hnd'.
    destruct (sfind keqb k l') as [v|] eqn:E1.
    - destruct (sfind_some_in k v l' E1) as [i [Hi [Hk Hv]]].
      pose proof (sfind_in l i Hnd (Permutation_in i Hp Hi)) as H.
      rewrite Hk, Hv in H. symmetry. exact H.
    - destruct (sfind keqb k l) as [v|] eqn:E2; [|reflexivity].
      destruct (sfind_some_in k v l E2) as [i [Hi [Hk Hv]]].
      pose proof (sfind_in l' i Hnd' (Permutation_in i (Permutation_sym Hp) Hi)) as H.
      rewrite Hk, E1 in H. discriminate.
  Qed.

  Lemma sdelete_notin : forall k (l : list item),
    ~ In k (map ikey l) -> sdelete keqb k l = l.
  Proof.
    intros k l. induction l as [|a r IH]; simpl; intro H; [reflexivity|].
    rewrite (keqb_neq k (ikey a)).
    - simpl. rewrite IH; [reflexivity|]. intro H1. apply H. right. exact H1.
    - intro E. apply H. left. symmetry. exact E.
  Qed.

  Lemma stouch_notin : forall k t (l : list item),
    ~ In k (map ikey l) -> stouch keqb k t l = l.
  Proof.
    intros k t l. induction l as [|a r IH]; simpl; intro H; [reflexivity|].
    rewrite (keqb_neq k (ikey a)).
    - rewrite IH; [reflexivity|]. intro H1. apply H. right. exact H1.
    - intro E. apply H. left. symmetry. exact E.
  Qed.

  Lemma sassign_notin : forall k v (l : list item),
    ~ In k (map ikey l) -> sassign keqb k v l = l.
  Proof.
    intros k v l. induction l as [|a r IH]; simpl; intro H; [reflexivity|].
    rewrite (keqb_neq k (ikey a)).
    - rewrite IH; [reflexivity|]. intro H1. apply H. right. exact H1.
    - intro E. apply H. left. symmetry. exact E.
  Qed.

  Lemma sdelete_remove : forall k (l : list item),
    NoDup (map ikey l) -> map fst (sdelete keqb k l) = mremove k (map fst l).
  Proof.
    intros k l. induction l as [|[[k' v'] t'] r IH]; simpl; intro Hnd; [reflexivity|].
    change (ikey (k', v', t')) with k' in *. change (ival (k', v', t')) with v' in *.
    change (istamp (k', v', t')) with t' in *.
    inversion Hnd as [|x xs Hnotin Hnd']; subst.
    destruct (keqb k k') eqn:E; simpl.
    - apply keqb_spec in E. subst k'. rewrite sdelete_notin; [reflexivity | exact Hnotin].
    - rewrite (IH Hnd'). reflexivity.
  Qed.

  Lemma stouch_perm : forall k v t (l : list item),
    NoDup (map ikey l) -> sfind keqb k l = Some v ->
    Permutation (stouch keqb k t l) (sdelete keqb k l ++ [(k, v, t)]).
  Proof.
    intros k v t l. induction l as [|[[k' v'] t'] r IH]; simpl; intros Hnd Hf; [discriminate|].
    change (ikey (k', v', t')) with k' in *. change (ival (k', v', t')) with v' in *.
    change (istamp (k', v', t')) with t' in *.
    inversion Hnd as [|x xs Hnotin Hnd']; subst.
    destruct (keqb k k') eqn:E; simpl.
    - apply keqb_spec in E. subst k'. injection Hf as Hv. subst v'.
      rewrite stouch_notin by exact Hnotin. rewrite sdelete_notin by exact Hnotin.
      apply Permutation_cons_append.
    - apply perm_skip. apply IH; assumption.
  Qed.

  Lemma sassign_assign : forall k v v0 (l : list item),
    NoDup (map ikey l) -> sfind keqb k l = Some v0 ->
    map fst (sassign keqb k v l) = massign k v (map fst l).
  Proof.
    intros k v v0 l. induction l as [|[[k' v'] t'] r IH]; simpl; intros Hnd Hf; [discriminate|].
    change (ikey (k', v', t')) with k' in *. change (ival (k', v', t')) with v' in *.
    change (istamp (k', v', t')) with t' in *.
    inversion Hnd as [|x xs Hnotin Hnd']; subst.
    destruct (keqb k k') eqn:E; simpl.
    - rewrite sassign_notin; [reflexivity|]. apply keqb_spec in E. subst k'. exact Hnotin.
    - rewrite (IH Hnd' Hf). reflexivity.
  Qed.

  Lemma sassign_stamps : forall k v (l : list item),
    map istamp (sassign keqb k v l) = map istamp l.
  Proof.
    intros k v l. induction l as [|a r IH]; simpl; [reflexivity|].
    rewrite IH. destruct (keqb k (ikey a)); reflexivity.
  Qed.

  Lemma sassign_keys : forall k v (l : list item),
    map ikey (sassign keqb k v l) = map ikey l.
  Proof.
    intros k v l. induction l as [|a r IH]; simpl; [reflexivity|].
    rewrite IH. destruct (keqb k (ikey a)); reflexivity.
  Qed.

  (* ------------------------------------------------------------------ *)
  (* filter, sortedness, eviction                                       *)
  (* ------------------------------------------------------------------ *)
  Lemma filter_map_forall : forall (f : item -> nat) (P : nat -> Prop) p (l : list item),
    Forall P (map f l) -> Forall P (map f (filter p l)).
  Proof.
    intros f P p l. induction l as [|a r IH]; simpl; intro H; [constructor|].
    inversion H as [|x xs Hx Hxs]; subst.
    destruct (p a); simpl; [constructor; [exact Hx | exact (IH Hxs)] | exact (IH Hxs)].
  Qed.

  Lemma filter_sorted : forall p (l : list item),
    StronglySorted lt (map istamp l) -> StronglySorted lt (map istamp (filter p l)).
  Proof.
    intros p l. induction l as [|a r IH]; simpl; intro H; [constructor|].
    inversion H as [|x xs Hs Hf]; subst. destruct (p a); simpl.
    - constructor; [exact (IH Hs) | apply filter_map_forall; exact Hf].
    - exact (IH Hs).
  Qed.

  Lemma filter_keys_nodup : forall p (l : list item),
    NoDup (map ikey l) -> NoDup (map ikey (filter p l)).
  Proof.
    intros p l. induction l as [|a r IH]; simpl; intro H; [constructor|].
    inversion H as [|x xs Hn Hd]; subst. destruct (p a); simpl; [|exact (IH Hd)].
    constructor; [|exact (IH Hd)]. intro Hin. apply Hn.
    apply in_map_iff in Hin. destruct Hin as [i [Hi1 Hi2]].
    apply filter_In in Hi2. destruct Hi2 as [Hi2 _].
    rewrite <- Hi1. apply in_map. exact Hi2.
  Qed.

  Lemma sdelete_nokey : forall k (l : list item), ~ In k (map ikey (sdelete keqb k l)).
  Proof.
    intros k l Hin. apply in_map_iff in Hin. destruct Hin as [i [Hi1 Hi2]].
    unfold sdelete in Hi2. apply filter_In in Hi2. destruct Hi2 as [_ Hi2].
    subst k. rewrite keqb_refl in Hi2. discriminate.
  Qed.

  Lemma Permutation_filter : forall (p : item -> bool) l l',
    Permutation l l' -> Permutation (filter p l) (filter p l').
  Proof.
    intros p l l' H. induction H as [|x l l' H IH|x y l|l l' l'' H1 IH1 H2 IH2]; simpl.
    - constructor.
    - destruct (p x); [apply perm_skip|]; exact IH.
    - destruct (p x), (p y); try apply perm_swap; apply Permutation_refl.
    - exact (Permutation_trans IH1 IH2).
  Qed.

  Lemma sorted_snoc : forall ts c,
    StronglySorted lt ts -> Forall (fun t => t < c) ts -> StronglySorted lt (ts ++ [c]).
  Proof.
    induction ts as [|a r IH]; intros c Hs Hf; simpl.
    - constructor; constructor.
    - inversion Hs as [|x xs Hs' Hlt]; subst. inversion Hf as [|y ys Hy Hys]; subst.
      constructor; [apply IH; assumption|].
      apply Forall_app. split; [exact Hlt | constructor; [exact Hy | constructor]].
  Qed.

  Lemma oldest_perm : forall (l l' : list item) i, Permutation l l' -> oldest l i = oldest l' i.
  Proof.
    intros l l' i Hp. unfold oldest. set (f := fun j : item => istamp i <=? istamp j).
    destruct (forallb f l) eqn:E1; destruct (forallb f l') eqn:E2; try reflexivity.
    - rewrite forallb_forall in E1.
      assert (H : forallb f l' = true).
      { apply forallb_forall. intros x Hx. apply E1.
        apply Permutation_in with l'; [apply Permutation_sym; exact Hp | exact Hx]. }
      congruence.
    - rewrite forallb_forall in E2.
      assert (H : forallb f l = true).
      { apply forallb_forall. intros x Hx. apply E2.
        apply Permutation_in with l; [exact Hp | exact Hx]. }
      congruence.
  Qed.

  Lemma evict_perm : forall l l' : list item,
    Permutation l l' -> Permutation (evict l) (evict l').
  Proof.
    intros l l' H. unfold evict.
    rewrite (filter_ext (fun i => negb (oldest l i)) (fun i => negb (oldest l' i))).
    - apply Permutation_filter. exact H.
    - intro a. rewrite (oldest_perm l l' a H). reflexivity.
  Qed.

  Lemma filter_all : forall (p : item -> bool) l,
    (forall x, In x l -> p x = true) -> filter p l = l.
  Proof.
    intros p l. induction l as [|a r IH]; simpl; intro H; [reflexivity|].
    rewrite (H a (or_introl eq_refl)). rewrite IH; [reflexivity|].
    intros x Hx. apply H. right. exact Hx.
  Qed.

  (* on a list sorted by strictly increasing stamp, evict removes exactly the head *)
  Lemma evict_sorted : forall a (r : list item),
    StronglySorted lt (map istamp (a :: r)) -> evict (a :: r) = r.
  Proof.
    intros a r H. simpl in H. inversion H as [|x xs Hs Hlt]; subst.
    rewrite Forall_forall in Hlt.
    assert (Ha : oldest (a :: r) a = true).
    { unfold oldest. apply forallb_forall. intros j [Hj|Hj].
      - subst j. apply Nat.leb_refl.
      - apply Nat.leb_le. specialize (Hlt (istamp j) (in_map istamp r j Hj)). lia. }
    unfold evict. cbn [filter]. rewrite Ha. cbn [negb].
    apply filter_all. intros x Hx. unfold oldest. cbn [forallb].
    specialize (Hlt (istamp x) (in_map istamp r x Hx)).
    assert (Hf : (istamp x <=? istamp a) = false) by (apply Nat.leb_gt; lia).
    rewrite Hf. reflexivity.
  Qed.

  Lemma forallb_false_ex : forall (f : item -> bool) l,
    forallb f l = false -> exists x, In x l /\ f x = false.
  Proof.
    intros f l. induction l as [|a r IH]; simpl; intro H; [discriminate|].
    destruct (f a) eqn:E.
    - simpl in H. destruct (IH H) as [x [Hx Hfx]]. exists x. split; [right; exact Hx | exact Hfx].
    - exists a. split; [left; reflexivity | exact E].
  Qed.

  (* what evict does, order-free: it keeps exactly the items that are not of minimal stamp *)
  Lemma evict_spec : forall (l : list item) i,
    In i (evict l) <-> In i l /\ exists j, In j l /\ istamp j < istamp i.
  Proof.
    intros l i. unfold evict. rewrite filter_In. split; intros [Hi H]; split; try exact Hi.
    - apply negb_true_iff in H. unfold oldest in H.
      destruct (forallb_false_ex _ l H) as [j [Hj Hfj]]. exists j. split; [exact Hj|].
      apply Nat.leb_gt in Hfj. exact Hfj.
    - destruct H as [j [Hj Hlt]]. apply negb_true_iff.
      destruct (oldest l i) eqn:E; [|reflexivity].
      unfold oldest in E. rewrite forallb_forall in E. specialize (E j Hj).
      apply Nat.leb_le in E. lia.
  Qed.

  (* ------------------------------------------------------------------ *)
  (* abstraction relation and forward simulation                        *)
  (* ------------------------------------------------------------------ *)
  (* l is the spec's item set listed by increasing stamp; erasing the stamps gives the
     model's visible entries.  The stamps are ghost state: the model does not store them,
     which is why abs is a relation and not a function. *)
  Definition wit (E : list (K * V)) (s : sstate) (l : list item) : Prop :=
    Permutation (items s) l /\ map fst l = E /\
    StronglySorted lt (map istamp l) /\
    Forall (fun t => t < clock s) (map istamp l) /\
    NoDup (map ikey l).

  Definition abs (st : state) (s : sstate) : Prop :=
    limit s = maxsz (snd st) /\ nhits s = hits (snd st) /\ nmisses s = misses (snd st) /\
    exists l, wit (live st) s l.

  Lemma over_exceeded : forall m n, over m n = limit_exceeded m n.
  Proof. intros m n. destruct m as [[|p]|]; reflexivity. Qed.

  Lemma abs_init : forall dflt arg g0,
    abs (init dflt arg g0) (snew (maxsz (snd (init dflt arg g0)))).
  Proof.
    intros dflt arg g0. unfold abs. simpl. repeat split.
    exists []. unfold wit, live. simpl. rewrite Nat.eqb_refl.
    repeat split; constructor.
  Qed.

  Lemma abs_find : forall st s k, abs st s -> sfind keqb k (items s) = mlookup k (live st).
  Proof.
    intros st s k [_ [_ [_ [l [Hp [Hmap [_ [_ Hnd]]]]]]]].
    rewrite (sfind_perm k l (items s) Hnd Hp), sfind_lookup, Hmap. reflexivity.
  Qed.

  Lemma abs_nodup : forall st s, abs st s -> NoDup (map fst (live st)).
  Proof.
    intros st s [_ [_ [_ [l [_ [Hmap [_ [_ Hnd]]]]]]]].
    rewrite <- Hmap, <- keys_eq. exact Hnd.
  Qed.

  Lemma nodup_snoc : forall (k : K) ks, NoDup ks -> ~ In k ks -> NoDup (ks ++ [k]).
  Proof.
    intros k ks Hnd Hn. apply (Permutation_NoDup (l := k :: ks)).
    - apply Permutation_cons_append.
    - constructor; assumption.
  Qed.

  Lemma refines_get : forall g c s k, inv (g, c) -> abs (g, c) s ->
    abs (fst (step (g, c) (OGet k))) (fst (sstep keqb s (OGet k))) /\
    snd (step (g, c) (OGet k)) = snd (sstep keqb s (OGet k)).
  Proof.
    intros g c s k Hinv Habs. pose proof (abs_find _ _ k Habs) as Hfind.
    destruct Habs as [Hlim [Hh [Hm [l [Hp [Hmap [Hs [Hf Hnd]]]]]]]]. simpl in Hlim, Hh, Hm.
    simpl. unfold cget, sget. rewrite drop_stale_eq. simpl. rewrite Hfind.
    destruct (mlookup k (live (g, c))) as [v0|] eqn:Hl; simpl.
    - split; [|reflexivity]. unfold abs. simpl. rewrite live_mk.
      split; [exact Hlim|]. split; [rewrite Hh; reflexivity|]. split; [exact Hm|].
      assert (Hfl : sfind keqb k l = Some v0) by (rewrite sfind_lookup, Hmap; exact Hl).
      exists (sdelete keqb k l ++ [(k, v0, clock s)]). unfold wit. cbn [items clock].
      split; [|split; [|split; [|split]]].
      + apply Permutation_trans with (stouch keqb k (clock s) l).
        * unfold stouch. apply Permutation_map. exact Hp.
        * apply stouch_perm; assumption.
      + rewrite map_app. f_equal. rewrite <- Hmap. apply sdelete_remove. exact Hnd.
      + rewrite map_app. simpl. apply sorted_snoc.
        * unfold sdelete. apply filter_sorted. exact Hs.
        * unfold sdelete. apply filter_map_forall. exact Hf.
      + rewrite map_app. apply Forall_app. split.
        * apply Forall_impl with (P := fun t => t < clock s); [intros a Ha; lia|].
          unfold sdelete. apply filter_map_forall. exact Hf.
        * simpl. constructor; [lia | constructor].
      + rewrite map_app. simpl. apply nodup_snoc.
        * unfold sdelete. apply filter_keys_nodup. exact Hnd.
        * apply sdelete_nokey.
    - split; [|reflexivity]. unfold abs. simpl. rewrite live_mk.
      split; [exact Hlim|]. split; [exact Hh|]. split; [rewrite Hm; reflexivity|].
      exists l. unfold wit. simpl. repeat split; assumption.
  Qed.

  Lemma refines_set : forall g c s k v, inv (g, c) -> abs (g, c) s ->
    abs (fst (step (g, c) (OSet k v))) (fst (sstep keqb s (OSet k v))) /\
    snd (step (g, c) (OSet k v)) = snd (sstep keqb s (OSet k v)).
  Proof.
    intros g c s k v Hinv Habs. pose proof (abs_find _ _ k Habs) as Hfind.
    destruct Habs as [Hlim [Hh [Hm [l [Hp [Hmap [Hs [Hf Hnd]]]]]]]]. simpl in Hlim, Hh, Hm.
    simpl. split; [|reflexivity]. unfold cset, sset. rewrite drop_stale_eq.
    cbv zeta. cbn [entries maxsz hits misses cep]. rewrite Hfind.
    destruct (mlookup k (live (g, c))) as [v0|] eqn:Hl.
    - assert (Hlen : length (massign k v (live (g, c))) = length (live (g, c)))
        by exact (assign_found_length k v v0 _ Hl).
      assert (Hex : limit_exceeded (maxsz c) (length (massign k v (live (g, c)))) = false).
      { rewrite Hlen. unfold limit_exceeded. destruct (maxsz c) as [[|p]|] eqn:Hmx; try reflexivity.
        apply Nat.ltb_ge. exact (live_bound g c p Hinv Hmx). }
      rewrite Hex. unfold abs. cbn [fst snd limit nhits nmisses maxsz hits misses]. rewrite live_mk.
      split; [exact Hlim|]. split; [exact Hh|]. split; [exact Hm|].
      exists (sassign keqb k v l). unfold wit. cbn [items clock].
      split; [|split; [|split; [|split]]].
      + unfold sassign. apply Permutation_map. exact Hp.
      + rewrite <- Hmap. apply sassign_assign with v0; [exact Hnd|].
        rewrite sfind_lookup, Hmap. exact Hl.
      + rewrite sassign_stamps. exact Hs.
      + rewrite sassign_stamps. exact Hf.
      + rewrite sassign_keys. exact Hnd.
    - rewrite (assign_new k v _ Hl).
      assert (Hnk : ~ In k (map ikey l)).
      { apply sfind_none_notin. rewrite sfind_lookup, Hmap. exact Hl. }
      assert (Hp' : Permutation ((k, v, clock s) :: items s) (l ++ [(k, v, clock s)])).
      { apply Permutation_trans with ((k, v, clock s) :: l).
        - apply perm_skip. exact Hp.
        - apply Permutation_cons_append. }
      assert (Hmap' : map fst (l ++ [(k, v, clock s)]) = live (g, c) ++ [(k, v)]).
      { rewrite map_app. f_equal. exact Hmap. }
      assert (Hs' : StronglySorted lt (map istamp (l ++ [(k, v, clock s)]))).
      { rewrite map_app. simpl. apply sorted_snoc; assumption. }
      assert (Hf' : Forall (fun t => t < S (clock s)) (map istamp (l ++ [(k, v, clock s)]))).
      { rewrite map_app. apply Forall_app. split.
        - apply Forall_impl with (P := fun t => t < clock s); [intros a Ha; lia | exact Hf].
        - simpl. constructor; [lia | constructor]. }
      assert (Hnd' : NoDup (map ikey (l ++ [(k, v, clock s)]))).
      { rewrite map_app. simpl. apply nodup_snoc; assumption. }
      assert (Hlen' : length ((k, v, clock s) :: items s) = length (live (g, c) ++ [(k, v)])).
      { rewrite (Permutation_length Hp'), <- Hmap', map_length. reflexivity. }
      rewrite over_exceeded, Hlim, Hlen'.
      destruct (limit_exceeded (maxsz c) (length (live (g, c) ++ [(k, v)]))) eqn:Hex.
      + destruct l as [|a r].
        * exfalso. simpl in Hmap.
          unfold limit_exceeded in Hex. destruct (maxsz c) as [[|p]|]; try discriminate.
          apply Nat.ltb_lt in Hex. rewrite <- Hmap in Hex. simpl in Hex. lia.
        * unfold abs. cbn [fst snd limit nhits nmisses maxsz hits misses]. rewrite live_mk.
          split; [reflexivity|]. split; [exact Hh|]. split; [exact Hm|].
          exists (r ++ [(k, v, clock s)]). unfold wit. cbn [items clock].
          simpl in Hs', Hf', Hnd'.
          split; [|split; [|split; [|split]]].
          -- apply Permutation_trans with (evict ((a :: r) ++ [(k, v, clock s)])).
             ++ apply evict_perm. exact Hp'.
             ++ simpl app. rewrite evict_sorted; [apply Permutation_refl|]. simpl. exact Hs'.
          -- rewrite <- Hmap'. reflexivity.
          -- inversion Hs' as [|x0 xs0 H1 H2]; subst. exact H1.
          -- inversion Hf' as [|x0 xs0 H1 H2]; subst. exact H2.
          -- inversion Hnd' as [|x0 xs0 H1 H2]; subst. exact H2.
      + unfold abs. cbn [fst snd limit nhits nmisses maxsz hits misses]. rewrite live_mk.
        split; [reflexivity|]. split; [exact Hh|]. split; [exact Hm|].
        exists (l ++ [(k, v, clock s)]). unfold wit. cbn [items clock].
        repeat split; assumption.
  Qed.

  Lemma refines_del : forall g c s k, inv (g, c) -> abs (g, c) s ->
    abs (fst (step (g, c) (ODel k))) (fst (sstep keqb s (ODel k))) /\
    snd (step (g, c) (ODel k)) = snd (sstep keqb s (ODel k)).
  Proof.
    intros g c s k Hinv Habs. pose proof (abs_find _ _ k Habs) as Hfind.
    destruct Habs as [Hlim [Hh [Hm [l [Hp [Hmap [Hs [Hf Hnd]]]]]]]]. simpl in Hlim, Hh, Hm.
    simpl. unfold cdel, sdel. rewrite drop_stale_eq. simpl. rewrite Hfind.
    destruct (mlookup k (live (g, c))) as [v0|] eqn:Hl; simpl.
    - split; [|reflexivity]. unfold abs. simpl. rewrite live_mk.
      split; [exact Hlim|]. split; [exact Hh|]. split; [exact Hm|].
      exists (sdelete keqb k l). unfold wit. cbn [items clock].
      split; [|split; [|split; [|split]]].
      + unfold sdelete. apply Permutation_filter. exact Hp.
      + rewrite <- Hmap. apply sdelete_remove. exact Hnd.
      + unfold sdelete. apply filter_sorted. exact Hs.
      + unfold sdelete. apply filter_map_forall. exact Hf.
      + unfold sdelete. apply filter_keys_nodup. exact Hnd.
    - split; [|reflexivity]. unfold abs. simpl. rewrite live_mk.
      split; [exact Hlim|]. split; [exact Hh|]. split; [exact Hm|].
      exists l. unfold wit. repeat split; assumption.
  Qed.

  Lemma refines_len : forall g c s, inv (g, c) -> abs (g, c) s ->
    abs (fst (step (g, c) OLen)) (fst (sstep keqb s OLen)) /\
    snd (step (g, c) OLen) = snd (sstep keqb s OLen).
  Proof.
    intros g c s Hinv Habs.
    destruct Habs as [Hlim [Hh [Hm [l [Hp [Hmap [Hs [Hf Hnd]]]]]]]]. simpl in Hlim, Hh, Hm.
    simpl. unfold clen. rewrite drop_stale_eq. simpl. split.
    - unfold abs. simpl. rewrite live_mk.
      split; [exact Hlim|]. split; [exact Hh|]. split; [exact Hm|].
      exists l. unfold wit. repeat split; assumption.
    - f_equal. rewrite (Permutation_length Hp), <- Hmap, map_length. reflexivity.
  Qed.

  Lemma wit_nil : forall s : sstate, items s = [] -> wit [] s [].
  Proof.
    intros s Hs. unfold wit. rewrite Hs. repeat split; constructor.
  Qed.

  Lemma refines_clear : forall g c s, inv (g, c) -> abs (g, c) s ->
    abs (fst (step (g, c) OClear)) (fst (sstep keqb s OClear)) /\
    snd (step (g, c) OClear) = snd (sstep keqb s OClear).
  Proof.
    intros g c s Hinv Habs.
    destruct Habs as [Hlim [Hh [Hm _]]]. simpl in Hlim, Hh, Hm.
    simpl. split; [|reflexivity]. unfold abs. simpl.
    split; [exact Hlim|]. split; [reflexivity|]. split; [reflexivity|].
    exists []. destruct (clear_all c) as [_ [_ [_ [Hlive _]]]]. rewrite (Hlive g).
    apply wit_nil. reflexivity.
  Qed.

  Lemma refines_invalidate : forall g c s, inv (g, c) -> abs (g, c) s ->
    abs (fst (step (g, c) OInvalidate)) (fst (sstep keqb s OInvalidate)) /\
    snd (step (g, c) OInvalidate) = snd (sstep keqb s OInvalidate).
  Proof.
    intros g c s [Hce _] Habs. simpl in Hce.
    destruct Habs as [Hlim [Hh [Hm _]]]. simpl in Hlim, Hh, Hm.
    simpl. split; [|reflexivity]. unfold abs. simpl.
    split; [exact Hlim|]. split; [exact Hh|]. split; [exact Hm|].
    exists []. assert (Hlive : live (S g, c) = []).
    { unfold live. simpl. destruct (Nat.eqb (cep c) (S g)) eqn:E; [|reflexivity].
      apply Nat.eqb_eq in E. lia. }
    rewrite Hlive. apply wit_nil. reflexivity.
  Qed.

  (* 2. forward simulation: every model step yields the spec's output and a related state *)
  Theorem refines : forall st s o, inv st -> abs st s ->
    inv (fst (step st o)) /\
    abs (fst (step st o)) (fst (sstep keqb s o)) /\
    snd (step st o) = snd (sstep keqb s o).
  Proof.
    intros [g c] s o Hinv Habs. split; [apply inv_step; exact Hinv|].
    destruct o as [k|k v|k| | |].
    - apply refines_get; assumption.
    - apply refines_set; assumption.
    - apply refines_del; assumption.
    - apply refines_len; assumption.
    - apply refines_clear; assumption.
    - apply refines_invalidate; assumption.
  Qed.

  Fixpoint strace (s : sstate) (ops : list op) : list out :=
    match ops with
    | [] => []
    | o :: r => snd (sstep keqb s o) :: strace (fst (sstep keqb s o)) r
    end.

  Lemma refines_run_from : forall ops st s, inv st -> abs st s ->
    inv (run st ops) /\ abs (run st ops) (srun keqb s ops) /\ trace st ops = strace s ops.
  Proof.
    induction ops as [|o r IH]; intros st s Hinv Habs; simpl.
    - split; [exact Hinv|]. split; [exact Habs | reflexivity].
    - destruct (refines st s o Hinv Habs) as [Hinv' [Habs' Hout]].
      destruct (IH _ _ Hinv' Habs') as [H1 [H2 H3]].
      split; [exact H1|]. split; [exact H2|]. rewrite Hout, H3. reflexivity.
  Qed.

  (* the initial states are related, hence all reachable states and all outputs are *)
  Theorem refines_run : forall dflt arg g0 ops,
    let st0 := init dflt arg g0 in
    let s0 := snew (maxsz (snd st0)) in
    inv st0 /\ abs st0 s0 /\
    inv (run st0 ops) /\ abs (run st0 ops) (srun keqb s0 ops) /\
    trace st0 ops = strace s0 ops.
  Proof.
    intros dflt arg g0 ops st0 s0.
    split; [apply inv_init|]. split; [apply abs_init|].
    apply refines_run_from; [apply inv_init | apply abs_init].
  Qed.

  (* ------------------------------------------------------------------ *)
  (* lookups return the latest value stored under the key               *)
  (* ------------------------------------------------------------------ *)
  Lemma not_exceeded_found : forall g c k v v0, inv (g, c) ->
    mlookup k (live (g, c)) = Some v0 ->
    limit_exceeded (maxsz c) (length (massign k v (live (g, c)))) = false.
  Proof.
    intros g c k v v0 Hinv Hl. rewrite (assign_found_length k v v0 _ Hl).
    unfold limit_exceeded. destruct (maxsz c) as [[|p]|] eqn:Hmx; try reflexivity.
    apply Nat.ltb_ge. exact (live_bound g c p Hinv Hmx).
  Qed.

  Lemma assign_keys : forall k v v0 (E : list (K * V)),
    mlookup k E = Some v0 -> map fst (massign k v E) = map fst E.
  Proof.
    intros k v v0 E. induction E as [|[k' v'] r IH]; simpl; intro H; [discriminate|].
    destruct (keqb k k'); simpl; [reflexivity | rewrite (IH H); reflexivity].
  Qed.

  Lemma assign_keys_nodup : forall k v (E : list (K * V)),
    NoDup (map fst E) -> NoDup (map fst (massign k v E)).
  Proof.
    intros k v E Hnd. destruct (mlookup k E) as [v0|] eqn:Hl.
    - rewrite (assign_keys k v v0 E Hl). exact Hnd.
    - rewrite (assign_new k v E Hl), map_app. simpl. apply nodup_snoc; [exact Hnd|].
      apply lookup_notin. exact Hl.
  Qed.

  Lemma lookup_remove_same : forall k (E : list (K * V)),
    NoDup (map fst E) -> mlookup k (mremove k E) = None.
  Proof.
    intros k E. induction E as [|[k' v'] r IH]; simpl; intro Hnd; [reflexivity|].
    inversion Hnd as [|x xs Hn Hd]; subst.
    destruct (keqb k k') eqn:Ek; simpl.
    - apply keqb_spec in Ek. subst k'. apply lookup_notin. exact Hn.
    - rewrite Ek. exact (IH Hd).
  Qed.

  Lemma set_same : forall g c k v, inv (g, c) ->
    mlookup k (entries (mset g k v c)) = Some v.
  Proof.
    intros g c k v Hinv. unfold cset. rewrite drop_stale_eq. cbv zeta.
    cbn [entries maxsz hits misses cep].
    destruct (mlookup k (live (g, c))) as [v0|] eqn:Hl.
    - rewrite (not_exceeded_found g c k v v0 Hinv Hl). apply lookup_assign_same.
    - rewrite (assign_new k v _ Hl).
      remember (live (g, c)) as E eqn:HE.
      destruct (limit_exceeded (maxsz c) (length (E ++ [(k, v)]))) eqn:Hex.
      + destruct E as [|[k1 v1] r].
        * exfalso. unfold limit_exceeded in Hex.
          destruct (maxsz c) as [[|p]|]; try discriminate;
            apply Nat.ltb_lt in Hex; simpl in Hex; lia.
        * simpl. apply lookup_app_new. simpl in Hl.
          destruct (keqb k k1); [discriminate | exact Hl].
      + apply lookup_app_new. exact Hl.
  Qed.

  Lemma set_other : forall g c k v k', NoDup (map fst (live (g, c))) -> k' <> k ->
    mlookup k' (entries (mset g k v c)) = mlookup k' (live (g, c)) \/
    mlookup k' (entries (mset g k v c)) = None.
  Proof.
    intros g c k v k' Hnd Hne. unfold cset. rewrite drop_stale_eq. cbv zeta.
    cbn [entries maxsz hits misses cep].
    pose proof (lookup_assign_other k k' v (live (g, c)) Hne) as Hother.
    pose proof (assign_keys_nodup k v _ Hnd) as Hnd'.
    remember (massign k v (live (g, c))) as L eqn:HL.
    destruct (limit_exceeded (maxsz c) (length L)); [|left; exact Hother].
    destruct L as [|[k1 v1] r]; simpl; [right; reflexivity|].
    simpl in Hother, Hnd'. inversion Hnd' as [|x xs Hn Hd]; subst x xs.
    destruct (keqb k' k1) eqn:Ek.
    - right. apply keqb_spec in Ek. subst k1. apply lookup_notin. exact Hn.
    - left. exact Hother.
  Qed.

  Lemma get_preserves : forall g c k k', NoDup (map fst (live (g, c))) ->
    mlookup k' (entries (snd (mget g k c))) = mlookup k' (live (g, c)).
  Proof.
    intros g c k k' Hnd. unfold cget. rewrite drop_stale_eq. cbv zeta.
    cbn [entries maxsz hits misses cep].
    destruct (mlookup k (live (g, c))) as [v0|] eqn:Hl; cbn [snd entries]; [|reflexivity].
    destruct (keqb k' k) eqn:Ek.
    - apply keqb_spec in Ek. subst k'. rewrite Hl. apply lookup_app_new.
      apply lookup_remove_same. exact Hnd.
    - apply keqb_false in Ek. rewrite (lookup_app_other k k' v0 _ Ek).
      apply lookup_remove_other. exact Ek.
  Qed.

  Lemma del_lookup : forall g c k k', NoDup (map fst (live (g, c))) ->
    mlookup k' (live (g, snd (mdel g k c))) =
    if keqb k' k then None else mlookup k' (live (g, c)).
  Proof.
    intros g c k k' Hnd. unfold cdel. rewrite drop_stale_eq. cbv zeta.
    cbn [entries maxsz hits misses cep].
    destruct (mlookup k (live (g, c))) as [v0|] eqn:Hl; cbn [snd]; rewrite live_mk.
    - destruct (keqb k' k) eqn:Ek.
      + apply keqb_spec in Ek. subst k'. apply lookup_remove_same. exact Hnd.
      + apply keqb_false in Ek. apply lookup_remove_other. exact Ek.
    - destruct (keqb k' k) eqn:Ek; [|reflexivity].
      apply keqb_spec in Ek. subst k'. exact Hl.
  Qed.

  (* 3. a lookup returns the value most recently stored under that key or a miss *)
  Theorem get_latest :
    (* from the initial state: the result of a lookup is the spec map's value at k *)
    (forall dflt arg g0 ops k,
       let st0 := init dflt arg g0 in
       let s := srun keqb (snew (maxsz (snd st0))) ops in
       snd (step (run st0 ops) (OGet k)) = RGet (sfind keqb k (items s)) /\
       NoDup (map fst (live (run st0 ops))) /\ inv (run st0 ops)) /\
    (* in any related pair of states: model result = visible entries = spec map *)
    (forall st s k, inv st -> abs st s ->
       snd (step st (OGet k)) = RGet (mlookup k (live st)) /\
       mlookup k (live st) = sfind keqb k (items s)) /\
    (* directly on the model: storing k v makes k map to v (also at limit Some 1) ... *)
    (forall g c k v, inv (g, c) -> mlookup k (entries (mset g k v c)) = Some v) /\
    (* ... any other key keeps its value or is evicted, never gets another value ... *)
    (forall g c k v k', NoDup (map fst (live (g, c))) -> k' <> k ->
       mlookup k' (entries (mset g k v c)) = mlookup k' (live (g, c)) \/
       mlookup k' (entries (mset g k v c)) = None) /\
    (* ... a lookup changes no binding, and a delete removes exactly the binding of k *)
    (forall g c k k', NoDup (map fst (live (g, c))) ->
       mlookup k' (entries (snd (mget g k c))) = mlookup k' (live (g, c))) /\
    (forall g c k k', NoDup (map fst (live (g, c))) ->
       mlookup k' (live (g, snd (mdel g k c))) =
       if keqb k' k then None else mlookup k' (live (g, c))).
  Proof.
    split; [|split; [|split; [|split; [|split]]]].
    - intros dflt arg g0 ops k st0 s.
      destruct (refines_run dflt arg g0 ops) as [_ [_ [Hinv [Habs _]]]].
      fold st0 in Hinv, Habs. fold s in Habs.
      destruct (refines _ _ (OGet k) Hinv Habs) as [_ [_ Hout]].
      split; [|split; [exact (abs_nodup _ _ Habs) | exact Hinv]].
      rewrite Hout. simpl. unfold sget. destruct (sfind keqb k (items s)); reflexivity.
    - intros [g c] s k Hinv Habs. split; [|symmetry; apply abs_find; exact Habs].
      simpl. unfold cget. rewrite drop_stale_eq. cbv zeta. cbn [entries].
      destruct (mlookup k (live (g, c))); reflexivity.
    - exact set_same.
    - exact set_other.
    - exact get_preserves.
    - exact del_lookup.
  Qed.

  (* ------------------------------------------------------------------ *)
  (* 4. eviction removes the least recently used entry                  *)
  (* ------------------------------------------------------------------ *)
  Theorem evict_lru : forall g c s k v k0 v0 r n,
    inv (g, c) -> abs (g, c) s -> maxsz c = Some n -> 1 <= n ->
    live (g, c) = (k0, v0) :: r -> length ((k0, v0) :: r) = n ->
    mlookup k ((k0, v0) :: r) = None ->
    (* model: the head of entries goes, the new key is appended *)
    entries (mset g k v c) = r ++ [(k, v)] /\
    (* spec: that head key carries the strictly minimal last-use stamp, and the spec's
       new item set is the old one minus that key plus the new item *)
    exists t0,
      In (k0, v0, t0) (items s) /\
      (forall j, In j (items s) -> j <> (k0, v0, t0) -> t0 < istamp j) /\
      Permutation (items (fst (sstep keqb s (OSet k v))))
                  ((k, v, clock s) :: sdelete keqb k0 (items s)).
  Proof.
    intros g c s k v k0 v0 r n Hinv Habs Hmx Hn HE Hlen Hl.
    pose proof (abs_find _ _ k Habs) as Hfind. rewrite HE, Hl in Hfind.
    destruct Habs as [Hlim [Hh [Hm [l [Hp [Hmap [Hs [Hf Hnd]]]]]]]]. simpl in Hlim, Hh, Hm.
    rewrite HE in Hmap.
    assert (Hll : length l = n).
    { rewrite <- Hlen, <- Hmap. symmetry. apply map_length. }
    destruct n as [|p]; [lia|].
    split.
    - unfold cset. rewrite drop_stale_eq. cbv zeta. cbn [entries maxsz hits misses cep].
      rewrite HE, (assign_new k v _ Hl), Hmx.
      assert (Hex : limit_exceeded (Some (S p)) (length (((k0, v0) :: r) ++ [(k, v)])) = true).
      { unfold limit_exceeded. apply Nat.ltb_lt. rewrite app_length, Hlen. simpl. lia. }
      rewrite Hex. reflexivity.
    - destruct l as [|[[k0' v0'] t0] rl]; [discriminate Hmap|].
      simpl in Hmap. injection Hmap as Hk Hv Hr. subst k0' v0'.
      simpl in Hs, Hf, Hnd.
      inversion Hs as [|x xs Hs1 Hs2]; subst x xs.
      inversion Hnd as [|x xs Hn1 Hn2]; subst x xs.
      exists t0. split; [|split].
      + apply (Permutation_in _ (Permutation_sym Hp)). left. reflexivity.
      + intros j Hj Hne. apply (Permutation_in _ Hp) in Hj. destruct Hj as [Hj|Hj].
        * exfalso. apply Hne. symmetry. exact Hj.
        * rewrite Forall_forall in Hs2. apply Hs2. apply in_map. exact Hj.
      + simpl. unfold sset. rewrite Hfind. cbv zeta. cbn [items].
        assert (HPL : length (items s) = length ((k0, v0, t0) :: rl)).
        { apply Permutation_length. exact Hp. }
        match goal with |- context [over ?a ?b] => destruct (over a b) eqn:Hov end.
        2:{ exfalso. rewrite Hlim, Hmx in Hov. unfold over in Hov.
            apply andb_false_iff in Hov. destruct Hov as [Hov|Hov].
            - apply Nat.leb_gt in Hov. lia.
            - apply Nat.ltb_ge in Hov.
              assert (Hov' : S (length (items s)) <= S p) by exact Hov.
              assert (HPL' : length (items s) = S (length rl)) by exact HPL.
              assert (Hll' : S (length rl) = S p) by exact Hll.
              lia. }
        assert (Hp' : Permutation ((k, v, clock s) :: items s)
                                  (((k0, v0, t0) :: rl) ++ [(k, v, clock s)])).
        { apply Permutation_trans with ((k, v, clock s) :: (k0, v0, t0) :: rl).
          - apply perm_skip. exact Hp.
          - apply Permutation_cons_append. }
        assert (Hs' : StronglySorted lt (map istamp (((k0, v0, t0) :: rl) ++ [(k, v, clock s)]))).
        { rewrite map_app. simpl. apply (sorted_snoc (t0 :: map istamp rl)).
          - constructor; assumption.
          - exact Hf. }
        apply Permutation_trans with (rl ++ [(k, v, clock s)]).
        * apply Permutation_trans with (evict (((k0, v0, t0) :: rl) ++ [(k, v, clock s)])).
          -- apply evict_perm. exact Hp'.
          -- simpl app. rewrite evict_sorted; [apply Permutation_refl|]. exact Hs'.
        * apply Permutation_trans with ((k, v, clock s) :: rl).
          -- apply Permutation_sym. apply Permutation_cons_append.
          -- apply perm_skip.
             apply Permutation_trans with (sdelete keqb k0 ((k0, v0, t0) :: rl)).
             ++ simpl. change (ikey (k0, v0, t0)) with k0. rewrite keqb_refl. simpl.
                rewrite sdelete_notin; [apply Permutation_refl | exact Hn1].
             ++ unfold sdelete. apply Permutation_filter. apply Permutation_sym. exact Hp.
  Qed.

End CacheProps.

(* ---------------------------------------------------------------------- *)
(* Non-vacuity: K = V = nat, limit 2.  set 1, set 2, get 1, set 3 evicts   *)
(* key 2 (not 1: it was used more recently); 3 hits and 1 miss.            *)
(* ---------------------------------------------------------------------- *)
Definition ex_ops : list (op nat nat) :=
  [OSet 1 10; OSet 2 20; OGet 1; OSet 3 30; OGet 2; OGet 1; OGet 3; OLen].

Example lru_example :
  let st0 := init nat nat None (Some 2) 0 in
  let c := snd (run nat nat Nat.eqb st0 ex_ops) in
  trace nat nat Nat.eqb st0 ex_ops =
    [RUnit; RUnit; RGet (Some 10); RUnit; RGet None; RGet (Some 10); RGet (Some 30); RLen 2] /\
  strace nat nat Nat.eqb (snew (Some 2)) ex_ops = trace nat nat Nat.eqb st0 ex_ops /\
  entries nat nat (snd (run nat nat Nat.eqb st0 [OSet 1 10; OSet 2 20; OGet 1; OSet 3 30]))
    = [(1, 10); (3, 30)] /\
  entries nat nat c = [(1, 10); (3, 30)] /\ hits nat nat c = 3 /\ misses nat nat c = 1.
Proof. vm_compute. repeat split. Qed.

(* an invalidation hides the entries but keeps the counters; a clear zeroes them *)
Example epoch_example :
  let st0 := init nat nat (Some 2) None 7 in
  trace nat nat Nat.eqb st0 [OSet 1 10; OGet 1; OInvalidate; OLen; OGet 1; OClear; OGet 1] =
    [RUnit; RGet (Some 10); RUnit; RLen 0; RGet None; RUnit; RGet None] /\
  let c := snd (run nat nat Nat.eqb st0 [OSet 1 10; OGet 1; OInvalidate; OLen; OGet 1]) in
  hits nat nat c = 1 /\ misses nat nat c = 1.
Proof. vm_compute. repeat split. Qed.

Print Assumptions size_le.
Print Assumptions refines.
Print Assumptions refines_run.
Print Assumptions get_latest.
Print Assumptions evict_lru.
Print Assumptions counters.
Print Assumptions clear_all.
Print Assumptions evict_spec.
