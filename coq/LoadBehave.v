(* LoadBehave.v — C14, stage 5 (generic part): FROM CONFIGURATION TO BEHAVIOUR.
   Equal canonical snapshots give equal engine results.
   (A) [lparse_rel]: if two grammars are related along a relation P on rule ids (related rules have the same
       name, definitions equal up to renaming of rule ids along P and up to the cache ids of repetitions, and
       related exclusions), then [lparse]/[parse]/[parse_all] give EQUAL results on P-related rules — for every
       set-order oracle sh (it need not even be a permutation), every fuel, text and offset.
   (B) [behaviour_eq]: two well-formed registries with unique keys whose snapshots agree on a set S of classes
       closed under reference are so related (P = same class in S and same key). *)
From Coq Require Import List NArith Arith Bool Lia.
Import ListNotations.
From ABNF Require Import Base Engine AbnfRead Registry EngineSound Checks RegistryProps GenTypes Loader
     TablesAll LoadFrame1 LoadWf LoadFrame2 LoadUq LoadAbs LoadSim1 LoadOrder.

Definition orel {A B} (X : A -> B -> Prop) (a : option A) (b : option B) : Prop :=
  match a, b with Some x, Some y => X x y | None, None => True | _, _ => False end.

Section ERel.
  Variable P : rid -> rid -> Prop.
  Fixpoint erel (e1 e2 : expr) {struct e1} : Prop :=
    match e1, e2 with
    | ELit c1 v1, ELit c2 v2 => c1 = c2 /\ v1 = v2
    | ERange l1 h1, ERange l2 h2 => l1 = l2 /\ h1 = h2
    | EAlt f1 x1, EAlt f2 x2 =>
      f1 = f2 /\ (fix go (a b : list expr) : Prop :=
                    match a, b with
                    | [], [] => True
                    | p :: a', q :: b' => erel p q /\ go a' b'
                    | _, _ => False
                    end) x1 x2
    | ECat x1, ECat x2 =>
      (fix go (a b : list expr) : Prop :=
         match a, b with
         | [], [] => True
         | p :: a', q :: b' => erel p q /\ go a' b'
         | _, _ => False
         end) x1 x2
    | ERep _ m1 x1 a, ERep _ m2 x2 b => m1 = m2 /\ x1 = x2 /\ erel a b
    | EProse, EProse => True
    | ERef r1, ERef r2 => P r1 r2
    | _, _ => False
    end.

  Lemma erel_list x1 : forall x2,
    (fix go (a b : list expr) : Prop :=
       match a, b with
       | [], [] => True
       | p :: a', q :: b' => erel p q /\ go a' b'
       | _, _ => False
       end) x1 x2 <-> Forall2 erel x1 x2.
  Proof.
    induction x1 as [|p a IH]; intros [|q b]; simpl; split; intros H.
    - constructor.
    - exact I.
    - contradiction.
    - inversion H.
    - contradiction.
    - inversion H.
    - destruct H as [H1 H2]. constructor; [exact H1|]. apply IH. exact H2.
    - inversion H; subst. split; [assumption|]. apply IH. assumption.
  Qed.
  Lemma erel_alt f1 x1 f2 x2 : erel (EAlt f1 x1) (EAlt f2 x2) <-> f1 = f2 /\ Forall2 erel x1 x2.
  Proof. simpl. rewrite erel_list. reflexivity. Qed.
  Lemma erel_cat x1 x2 : erel (ECat x1) (ECat x2) <-> Forall2 erel x1 x2.
  Proof. simpl. apply erel_list. Qed.

  Definition rrel (ru1 ru2 : rule) : Prop :=
    rname ru1 = rname ru2 /\ orel erel (rdef ru1) (rdef ru2) /\ orel P (rexcl ru1) (rexcl ru2).
End ERel.

(* ------------------------------------------------------------------------------------------ *)
(* A. the engine                                                                               *)
(* ------------------------------------------------------------------------------------------ *)
Section Beh.
  Variable sh : list mtch -> list mtch.
  Variables G1 G2 : grammar.
  Variable P : rid -> rid -> Prop.
  Hypothesis HP : forall r1 r2, P r1 r2 -> orel (rrel P) (G1 r1) (G2 r2).
  Local Notation erel := (erel P).

  Lemma step_rel rec1 rec2 k :
    (forall e1 e2, erel e1 e2 -> forall s i, rec1 e1 s i = rec2 e2 s i) ->
    forall e1 e2, erel e1 e2 -> forall s i, Engine.step sh G1 rec1 k e1 s i = Engine.step sh G2 rec2 k e2 s i.
  Proof.
    intros Hrec.
    assert (Halt : forall fm es1 es2, Forall2 erel es1 es2 -> forall s i acc,
               alt_loop rec1 fm es1 s i acc = alt_loop rec2 fm es2 s i acc).
    { intros fm es1 es2 H. induction H as [|e1 e2 r1 r2 He Hr IH]; intros s i acc; simpl; [reflexivity|].
      rewrite (Hrec e1 e2 He). destruct (rec2 e2 s i); auto. destruct fm; auto. }
    assert (Hext : forall e1 e2, erel e1 e2 -> forall s ms, extend rec1 e1 s ms = extend rec2 e2 s ms).
    { intros e1 e2 He s ms. induction ms as [|m ms IH]; simpl; [reflexivity|].
      rewrite (Hrec e1 e2 He), IH. reflexivity. }
    assert (Hcl : forall es1 es2, Forall2 erel es1 es2 -> forall s cur,
               cat_loop rec1 es1 s cur = cat_loop rec2 es2 s cur).
    { intros es1 es2 H. induction H as [|e1 e2 r1 r2 He Hr IH]; intros s cur; simpl; [reflexivity|].
      rewrite (Hext e1 e2 He). destruct (extend rec2 e2 s cur) as [[|x xs]| | |]; auto. }
    assert (Hcat : forall es1 es2, Forall2 erel es1 es2 -> forall s i, cat rec1 es1 s i = cat rec2 es2 s i).
    { intros es1 es2 H s i. unfold cat. rewrite (Hcl es1 es2 H). reflexivity. }
    assert (Hrl : forall e1 e2, erel e1 e2 -> forall k0 mx s count mset last,
               rep_loop sh rec1 k0 e1 mx s count mset last = rep_loop sh rec2 k0 e2 mx s count mset last).
    { intros e1 e2 He k0. induction k0 as [|k0 IH]; intros mx s count mset last; simpl; [reflexivity|].
      destruct (match mx with Some m => Nat.eqb count m | None => false end); [reflexivity|].
      rewrite (Hext e1 e2 He). destruct (extend rec2 e2 s (sort_desc (sh last))); auto.
      destruct (subset (set_of ms) mset); auto. }
    assert (Hrpt : forall e1 e2, erel e1 e2 -> forall n, Forall2 erel (repeat e1 n) (repeat e2 n)).
    { intros e1 e2 He n. induction n; simpl; constructor; auto. }
    assert (Hrep : forall e1 e2, erel e1 e2 -> forall k0 mn mx s i,
               rep sh rec1 k0 mn mx e1 s i = rep sh rec2 k0 mn mx e2 s i).
    { intros e1 e2 He k0 mn mx s i. unfold rep. destruct mn; [apply Hrl; exact He|].
      rewrite (Hcat _ _ (Hrpt e1 e2 He (S mn))).
      destruct (cat rec2 (repeat e2 (S mn)) s i); auto. }
    assert (Hex : forall x1 x2, orel P x1 x2 -> forall m, excluded sh rec1 x1 m = excluded sh rec2 x2 m).
    { intros x1 x2 Hx m. unfold excluded. destruct x1 as [r1|], x2 as [r2|]; try contradiction; [|reflexivity].
      rewrite (Hrec (ERef r1) (ERef r2) Hx). reflexivity. }
    assert (Hfe : forall x1 x2, orel P x1 x2 -> forall ms, filter_excl sh rec1 x1 ms = filter_excl sh rec2 x2 ms).
    { intros x1 x2 Hx ms. induction ms as [|m ms IH]; simpl; [reflexivity|].
      rewrite (Hex x1 x2 Hx), IH. reflexivity. }
    intros e1 e2 He s i.
    destruct e1 as [c1 v1|l1 h1|f1 x1|x1|id1 m1 mx1 a1| |r1], e2 as [c2 v2|l2 h2|f2 x2|x2|id2 m2 mx2 a2| |r2];
      try (simpl in He; contradiction).
    - simpl in He. destruct He as [-> ->]. reflexivity.
    - simpl in He. destruct He as [-> ->]. reflexivity.
    - apply erel_alt in He. destruct He as [-> He]. simpl. apply Halt. exact He.
    - apply erel_cat in He. simpl. apply Hcat. exact He.
    - simpl in He. destruct He as (-> & -> & He). simpl. apply Hrep. exact He.
    - reflexivity.
    - simpl in He. simpl. unfold ref. pose proof (HP r1 r2 He) as HG.
      destruct (G1 r1) as [ru1|], (G2 r2) as [ru2|]; try contradiction; [|reflexivity].
      destruct HG as (Hn & Hd & Hx).
      destruct (rdef ru1) as [d1|], (rdef ru2) as [d2|]; try contradiction; [|reflexivity].
      rewrite (Hrec d1 d2 Hd). destruct (rec2 d2 s i); auto.
      rewrite (Hfe _ _ Hx). rewrite Hn. reflexivity.
  Qed.

  Theorem lparse_rel f : forall e1 e2, erel e1 e2 -> forall s i,
    lparse sh G1 f e1 s i = lparse sh G2 f e2 s i.
  Proof.
    induction f as [|f IH]; intros e1 e2 He s i; simpl; [reflexivity|]. apply step_rel; assumption.
  Qed.
  Theorem parse_rel f r1 r2 s i : P r1 r2 -> parse sh G1 f r1 s i = parse sh G2 f r2 s i.
  Proof. intros H. unfold parse. rewrite (lparse_rel f (ERef r1) (ERef r2) H). reflexivity. Qed.
  Theorem parse_all_rel f r1 r2 s : P r1 r2 -> parse_all sh G1 f r1 s = parse_all sh G2 f r2 s.
  Proof. intros H. unfold parse_all. rewrite (parse_rel f r1 r2 s 0 H). reflexivity. Qed.
End Beh.

(* ------------------------------------------------------------------------------------------ *)
(* B. registries with equal snapshots                                                          *)
(* ------------------------------------------------------------------------------------------ *)
Definition inS (S : list cls) (c : cls) : bool := existsb (N.eqb c) S.
Fixpoint refs_inb (R : reg) (S : list cls) (e : expr) : bool :=
  match e with
  | ERef r => match nth_error (objs R) (N.to_nat r) with Some o => inS S (ocls o) | None => false end
  | EAlt _ es => forallb (refs_inb R S) es
  | ECat es => forallb (refs_inb R S) es
  | ERep _ _ _ e' => refs_inb R S e'
  | _ => true
  end.
(* S is closed under reference in R: definitions and exclusions of objects of classes in S only mention
   objects of classes in S *)
Definition closedb (R : reg) (S : list cls) : bool :=
  forallb (fun o => if inS S (ocls o)
                    then match odef o with
                         | Some d => match nth_error (defs R) d with Some e => refs_inb R S e | None => true end
                         | None => true
                         end &&
                         match oexcl o with
                         | Some x => match nth_error (objs R) (N.to_nat x) with
                                     | Some ox => inS S (ocls ox) | None => false end
                         | None => true
                         end
                    else true) (objs R).

Section Snap.
  Variables (R1 R2 : reg) (S : list cls).
  Hypotheses (W1 : wf R1) (W2 : wf R2) (U1 : uq R1) (U2 : uq R2).
  Hypothesis HS : forall c, In c S -> class_snapshot R1 c = class_snapshot R2 c.
  Hypothesis HC : closedb R1 S = true.

  (* same class (in S) and same key *)
  Definition srel (r1 r2 : rid) : Prop :=
    exists o1 o2, nth_error (objs R1) (N.to_nat r1) = Some o1 /\ nth_error (objs R2) (N.to_nat r2) = Some o2 /\
                  ck o1 = ck o2 /\ In (ocls o1) S.

  Lemma snap_of R j o : uq R -> nth_error (objs R) j = Some o ->
    afind (okey o) (class_snapshot R (ocls o)) = Some (snap_obj R o).
  Proof.
    intros U Hj. pose proof (find_obj_uq R (ocls o) (okey o) j o U Hj eq_refl) as Hf.
    pose proof (afind_map (snap_obj R) (ocls o) (okey o) (objs R) (fun x => eq_refl) 0) as F.
    rewrite Hf in F. destruct F as (_ & o' & Ho' & _ & Ha). rewrite Nat.sub_0_r in Ho'.
    rewrite Hj in Ho'. inversion Ho'; subst o'. rewrite class_snapshot_eq. exact Ha.
  Qed.
  Lemma snap_eq j1 j2 o1 o2 : nth_error (objs R1) j1 = Some o1 -> nth_error (objs R2) j2 = Some o2 ->
    ck o1 = ck o2 -> In (ocls o1) S -> snap_obj R1 o1 = snap_obj R2 o2.
  Proof.
    intros H1 H2 Hck Hin. pose proof (snap_of R1 j1 o1 U1 H1) as A1. pose proof (snap_of R2 j2 o2 U2 H2) as A2.
    unfold ck in Hck. inversion Hck as [[Hc Hk]]. rewrite <- Hc, <- Hk, <- (HS _ Hin) in A2. congruence.
  Qed.

  Lemma canon_erel e1 : forall e2, refs_inb R1 S e1 = true -> refs_ltb (length (objs R2)) e2 = true ->
    canon R1 e1 = canon R2 e2 -> erel srel e1 e2.
  Proof.
    induction e1 as [cs v|lo hi|fm es IH|es IH|id mn mx e IH| |r] using expr_ind2; intros e2 Hi Hl Hc.
    - destruct e2; simpl in Hc; try discriminate; [inversion Hc; simpl; auto|].
      destruct (nth_error (objs R2) (N.to_nat r)); discriminate.
    - destruct e2; simpl in Hc; try discriminate; [inversion Hc; simpl; auto|].
      destruct (nth_error (objs R2) (N.to_nat r)); discriminate.
    - destruct e2 as [| |fm2 es2| | | |r2]; simpl in Hc; try discriminate.
      2:{ destruct (nth_error (objs R2) (N.to_nat r2)); discriminate. }
      inversion Hc as [[Hf Hm]]. apply erel_alt. split; [reflexivity|]. simpl in Hi, Hl. clear Hc Hf.
      revert es2 Hl Hm. induction IH as [|x r Hx Hr IHr]; intros [|y es2] Hl Hm; simpl in Hm; try discriminate;
        [constructor|]. simpl in Hi, Hl. apply andb_true_iff in Hi. apply andb_true_iff in Hl.
      destruct Hi as [I1 I2], Hl as [L1 L2]. inversion Hm. constructor; [apply Hx; assumption|].
      apply IHr; assumption.
    - destruct e2 as [| | |es2| | |r2]; simpl in Hc; try discriminate.
      2:{ destruct (nth_error (objs R2) (N.to_nat r2)); discriminate. }
      inversion Hc as [Hm]. apply erel_cat. simpl in Hi, Hl. clear Hc.
      revert es2 Hl Hm. induction IH as [|x r Hx Hr IHr]; intros [|y es2] Hl Hm; simpl in Hm; try discriminate;
        [constructor|]. simpl in Hi, Hl. apply andb_true_iff in Hi. apply andb_true_iff in Hl.
      destruct Hi as [I1 I2], Hl as [L1 L2]. inversion Hm. constructor; [apply Hx; assumption|].
      apply IHr; assumption.
    - destruct e2 as [| | | |id2 mn2 mx2 e2| |r2]; simpl in Hc; try discriminate.
      2:{ destruct (nth_error (objs R2) (N.to_nat r2)); discriminate. }
      inversion Hc. simpl. split; [reflexivity|]. split; [reflexivity|]. apply IH; assumption.
    - destruct e2; simpl in Hc; try discriminate; [exact I|].
      destruct (nth_error (objs R2) (N.to_nat r)); discriminate.
    - simpl in Hi, Hc. destruct (nth_error (objs R1) (N.to_nat r)) as [o1|] eqn:E1; [|discriminate].
      destruct e2 as [| | | | | |r2]; simpl in Hc; try discriminate.
      simpl in Hl. apply Nat.ltb_lt in Hl.
      destruct (nth_error (objs R2) (N.to_nat r2)) as [o2|] eqn:E2; [|apply nth_error_None in E2; lia].
      inversion Hc. simpl. exists o1, o2. split; [exact E1|]. split; [exact E2|]. split; [unfold ck; congruence|].
      apply (existsb_Neqb (ocls o1) S). exact Hi.
  Qed.

  Lemma srel_rule r1 r2 : srel r1 r2 -> orel (rrel srel) (grammar_of R1 r1) (grammar_of R2 r2).
  Proof.
    intros (o1 & o2 & E1 & E2 & Hck & Hin). unfold grammar_of. rewrite E1, E2. simpl.
    pose proof (snap_eq _ _ _ _ E1 E2 Hck Hin) as HSn. unfold snap_obj in HSn. injection HSn as Hk Hn Hd Hx.
    unfold closedb in HC. rewrite forallb_forall in HC. pose proof (HC o1 (nth_error_In _ _ E1)) as C1.
    unfold inS in C1. rewrite (proj2 (existsb_Neqb (ocls o1) S) Hin) in C1.
    apply andb_true_iff in C1. destruct C1 as [C1 C2].
    split; [exact Hn|]. split; simpl.
    - destruct (odef o1) as [d1|], (odef o2) as [d2|]; simpl.
      + destruct (nth_error (defs R1) d1) as [e1|] eqn:D1, (nth_error (defs R2) d2) as [e2|] eqn:D2;
          try discriminate; [|exact I]. inversion Hd as [Hc]. apply canon_erel; auto.
        pose proof (wf_refs _ W2) as F. rewrite Forall_forall in F. apply F. eapply nth_error_In; eauto.
      + destruct (nth_error (defs R1) d1); [discriminate|exact I].
      + destruct (nth_error (defs R2) d2); [discriminate|exact I].
      + exact I.
    - destruct (oexcl o1) as [x1|] eqn:X1, (oexcl o2) as [x2|] eqn:X2; simpl.
      + destruct (nth_error (objs R1) (N.to_nat x1)) as [a1|] eqn:A1; [|discriminate].
        pose proof (wf_excl _ W2) as F. rewrite Forall_forall in F.
        specialize (F o2 (nth_error_In _ _ E2) x2 X2).
        destruct (nth_error (objs R2) (N.to_nat x2)) as [a2|] eqn:A2; [|apply nth_error_None in A2; lia].
        inversion Hx. exists a1, a2. split; [exact A1|]. split; [exact A2|]. split; [unfold ck; congruence|].
        apply (existsb_Neqb (ocls a1) S). exact C2.
      + destruct (nth_error (objs R1) (N.to_nat x1)); [discriminate|discriminate].
      + pose proof (wf_excl _ W2) as F. rewrite Forall_forall in F.
        specialize (F o2 (nth_error_In _ _ E2) x2 X2).
        destruct (nth_error (objs R2) (N.to_nat x2)) as [a2|] eqn:A2; [discriminate|apply nth_error_None in A2; lia].
      + exact I.
  Qed.

  (* EQUAL BEHAVIOUR of related rules *)
  Theorem behaviour_eq sh fuel r1 r2 s i : srel r1 r2 ->
    lparse sh (grammar_of R1) fuel (ERef r1) s i = lparse sh (grammar_of R2) fuel (ERef r2) s i /\
    parse sh (grammar_of R1) fuel r1 s i = parse sh (grammar_of R2) fuel r2 s i /\
    parse_all sh (grammar_of R1) fuel r1 s = parse_all sh (grammar_of R2) fuel r2 s.
  Proof.
    intros H. split; [|split].
    - apply (lparse_rel sh _ _ srel srel_rule fuel (ERef r1) (ERef r2)). exact H.
    - apply (parse_rel sh _ _ srel srel_rule). exact H.
    - apply (parse_all_rel sh _ _ srel srel_rule). exact H.
  Qed.

  (* rule lookup by (class, name) finds related rules, or fails in both *)
  Lemma rget_rel c name : In c S -> In 0%N S ->
    match rget R1 c name, rget R2 c name with
    | Some k1, Some k2 => srel (N.of_nat k1) (N.of_nat k2)
    | None, None => True
    | _, _ => False
    end.
  Proof.
    intros Hc H0. unfold rget.
    assert (F : forall c', In c' S ->
              match find_obj c' (fold_name name) (objs R1) 0, find_obj c' (fold_name name) (objs R2) 0 with
              | Some k1, Some k2 => srel (N.of_nat k1) (N.of_nat k2)
              | None, None => True
              | _, _ => False
              end).
    { intros c' Hc'.
      pose proof (afind_map (snap_obj R1) c' (fold_name name) (objs R1) (fun x => eq_refl) 0) as F1.
      pose proof (afind_map (snap_obj R2) c' (fold_name name) (objs R2) (fun x => eq_refl) 0) as F2.
      rewrite <- class_snapshot_eq in F1, F2. rewrite (HS c' Hc') in F1.
      destruct (find_obj c' (fold_name name) (objs R1) 0) as [k1|],
               (find_obj c' (fold_name name) (objs R2) 0) as [k2|].
      - destruct F1 as (_ & o1 & E1 & K1 & _), F2 as (_ & o2 & E2 & K2 & _). rewrite Nat.sub_0_r in E1, E2.
        exists o1, o2. rewrite !Nat2N.id. split; [exact E1|]. split; [exact E2|]. split; [congruence|].
        assert (Hoc : ocls o1 = c') by (unfold ck in K1; congruence). rewrite Hoc. exact Hc'.
      - destruct F1 as (_ & o1 & _ & _ & A1). congruence.
      - destruct F2 as (_ & o2 & _ & _ & A2). congruence.
      - exact I. }
    pose proof (F c Hc) as Fc. pose proof (F 0%N H0) as F00.
    destruct (find_obj c (fold_name name) (objs R1) 0) as [k1|],
             (find_obj c (fold_name name) (objs R2) 0) as [k2|]; try contradiction; [exact Fc|exact F00].
  Qed.
End Snap.

Print Assumptions lparse_rel.
Print Assumptions behaviour_eq.
Print Assumptions rget_rel.
