(* Loader.v — model of what happens when the library's modules are imported: the two hand-written tables of
   parser.py are turned into rule objects, then every bundled grammar class is loaded as its decorator
   does (own rules from the text(s), then imports sharing definition objects, then flag statements).
   Class numbering: 0 = Rule (base), 1 = ABNFGrammarRule, 2 + k = the k-th class of [bundled].
   MODEL ONLY: no proofs here. *)
From Coq Require Import List NArith Arith Bool.
Import ListNotations.
From ABNF Require Import Base Engine AbnfRead Registry GenTypes.

(* constructor terms: references name their class explicitly *)
Fixpoint tcompile (t : texpr) (R : reg) {struct t} : reg * expr :=
  match t with
  | TLit cs v => (R, ELit cs v)
  | TRange lo hi => (R, ERange lo hi)
  | TAlt fm es =>
    let '(R', es') := (fix go (l : list texpr) (R0 : reg) : reg * list expr :=
                         match l with
                         | [] => (R0, [])
                         | x :: r => let '(R1, e1) := tcompile x R0 in
                                     let '(R2, r2) := go r R1 in (R2, e1 :: r2)
                         end) es R in
    (R', EAlt fm es')
  | TCat es =>
    let '(R', es') := (fix go (l : list texpr) (R0 : reg) : reg * list expr :=
                         match l with
                         | [] => (R0, [])
                         | x :: r => let '(R1, e1) := tcompile x R0 in
                                     let '(R2, r2) := go r R1 in (R2, e1 :: r2)
                         end) es R in
    (R', ECat es')
  | TRep mn mx e =>
    let '(R1, e1) := tcompile e R in
    (mkr (objs R1) (defs R1) (N.succ (nextid R1)) (epoch R1), ERep (nextid R1) mn mx e1)
  | TOpt e =>
    let '(R1, e1) := tcompile e R in
    (mkr (objs R1) (defs R1) (N.succ (nextid R1)) (epoch R1), ERep (nextid R1) 0 (Some 1) e1)
  | TProse => (R, EProse)
  | TRef c name => let '(R1, n) := rnew R c name in (R1, ERef (N.of_nat n))
  end.

(* the list literal is evaluated first (all parser objects built), then  for x in table: Cls(x[0], x[1]) *)
Fixpoint build_rows (rows : list (str * texpr)) (R : reg) : reg * list (str * expr) :=
  match rows with
  | [] => (R, [])
  | (n, t) :: r => let '(R1, e) := tcompile t R in
                   let '(R2, l) := build_rows r R1 in (R2, (n, e) :: l)
  end.
Fixpoint define_rows (c : cls) (rows : list (str * expr)) (R : reg) : reg :=
  match rows with
  | [] => R
  | (n, e) :: r => let '(R1, k) := rnew R c n in define_rows c r (set_def_new R1 k e)
  end.
Definition load_table (c : cls) (rows : list (str * texpr)) (R : reg) : reg :=
  let '(R1, l) := build_rows rows R in define_rows c l R1.

(* ---- bundled classes ---- *)
Fixpoint class_index (classes : list gclass) (m c : str) (n : nat) : option nat :=
  match classes with
  | [] => None
  | g :: r => if str_eqb (gmod g) m && str_eqb (gcls g) c then Some n else class_index r m c (S n)
  end.
Definition cls_of (classes : list gclass) (m c : str) : option cls :=
  match class_index classes m c 0 with Some n => Some (N.of_nat (2 + n)) | None => None end.

(* the decorator's argument list is evaluated first: mod.Cls("x") looks the rule up (or creates it) *)
Fixpoint eval_imports (classes : list gclass) (l : list (str * (str * str * str))) (R : reg)
  : option (reg * list (str * nat)) :=
  match l with
  | [] => Some (R, [])
  | (local, (m, c, rn)) :: r =>
    match cls_of classes m c with
    | Some sc =>
      let '(R1, n) := rnew R sc rn in
      match eval_imports classes r R1 with
      | Some (R2, l2) => Some (R2, (local, n) :: l2)
      | None => None
      end
    | None => None
    end
  end.
Fixpoint apply_imports (c : cls) (l : list (str * nat)) (R : reg) : option reg :=
  match l with
  | [] => Some R
  | (local, n) :: r => match import_rule c local n R with Some R' => apply_imports c r R' | None => None end
  end.

Fixpoint set_flags (l : list nat) (v : bool) (R : reg) : option reg :=
  match l with
  | [] => Some R
  | n :: r => match set_flag n v R with Some R' => set_flags r v R' | None => None end
  end.

Definition odef_of (R : reg) (n : nat) : option nat :=
  match nth_error (objs R) n with Some o => odef o | None => None end.
Definition oname_of (R : reg) (n : nat) : str :=
  match nth_error (objs R) n with Some o => oname o | None => [] end.

Definition apply_flag (classes : list gclass) (c : cls) (f : flagstmt) (R : reg) : option reg :=
  match f with
  | FlagRule name v => let '(R1, n) := rnew R c name in set_flag n v R1
  | FlagAll v => set_flags (rules_of c R) v R
  | FlagOwnNotSharedWith m sc v =>
    match cls_of classes m sc with
    | Some src =>
      (fix go (l : list nat) (R0 : reg) : option reg :=
         match l with
         | [] => Some R0
         | n :: r =>
           match odef_of R0 n with
           | None => None                        (* rule.definition raises AttributeError *)
           | Some d =>
             let shared := match rget R0 src (oname_of R0 n) with
                           | Some k => match odef_of R0 k with Some d' => Nat.eqb d d' | None => false end
                           | None => false
                           end in
             if shared then go r R0
             else match set_flag n v R0 with Some R1 => go r R1 | None => None end
           end
         end) (rules_of c R) R
    | None => None
    end
  end.
Fixpoint apply_flags (classes : list gclass) (c : cls) (l : list flagstmt) (R : reg) : option reg :=
  match l with
  | [] => Some R
  | f :: r => match apply_flag classes c f R with Some R' => apply_flags classes c r R' | None => None end
  end.

(* one decorated class; None = the import of the module raises *)
Definition load_class (classes : list gclass) (g : gclass) (R : reg) : option reg :=
  match cls_of classes (gmod g) (gcls g) with
  | None => None
  | Some c =>
    match eval_imports classes (gimports g) R with
    | None => None
    | Some (R1, imps) =>
      let own := if gkind_list g then create_all c (gtexts g) R1
                 else match gtexts g with [t] => load_grammar c t true R1 | _ => None end in
      match own with
      | None => None
      | Some R2 =>
        match apply_imports c imps R2 with
        | None => None
        | Some R3 => apply_flags classes c (gflags g) R3
        end
      end
    end
  end.

Fixpoint load_classes (classes : list gclass) (todo : list gclass) (R : reg) : option reg :=
  match todo with
  | [] => Some R
  | g :: r => match load_class classes g R with Some R' => load_classes classes r R' | None => None end
  end.

(* `import abnf.parser`: the core table, then the meta-grammar table *)
Definition boot (core meta : list (str * texpr)) : reg :=
  load_table 1%N meta (load_table 0%N core reg0).
