(* LangEq.v — a VERIFIED, executable checker that two ABNF rules (possibly in two different
   grammars) denote the same language under the RFC 5234 matching relation [M] (Spec.v).
   [M] ignores first-match flags, cache ids and rule exclusions, and so does the checker.

   Part 1  character classes:  [charclass], [cc_eqb]            (charclass_sound, cc_eqb_sound)
   Part 2  structural simulation with assumed pairs: [simb], [lang_eq_check]   (lang_eq_sound)

   The soundness proof of part 2 is a bisimulation-up-to argument by induction on the
   REFERENCE DEPTH of the [M]-derivation ([Mh h]: at most [h] nested rule unfoldings), with an
   inner induction on the fuel of [simb]: an assumed pair (a,b) is used on a derivation of
   [ERef a] of depth h+1 through the induction hypothesis at depth h for the two definitions.

   How the checker is organised (all of it is only relevant to completeness, not soundness):
   - [norm] is a DEEP normalisation (singleton groups, nested concatenations / alternations,
     1*1 repetitions); it is applied to the two definitions of a pair and to every definition
     that is unfolded, so [simb_aux] only ever sees normal forms;
   - [simb_aux cf fuel]: [fuel] decreases at EVERY recursive call (sub-expressions and
     unfoldings), so it must exceed nesting depth + number of unfoldings on a path (a few dozen is
     plenty); [cf] is the fuel handed to [charclass] (rule unfoldings only);
   - cycles through rules must be cut by [pairs], otherwise the answer is [false];
   - everything that runs is written with [if] / [allb] / [anyb]: [vm_compute] is call-by-value
     and [&&], [||], [forallb], [existsb] do not short-circuit there. *)
From Coq Require Import List NArith Arith Bool Lia.
Import ListNotations.
From ABNF Require Import Base Engine Spec Checks EngineSound EngineComplete.

Local Arguments N.leb : simpl never.
Local Arguments N.eqb : simpl never.
Local Arguments N.max : simpl never.
Local Arguments N.add : simpl never.
Local Arguments N.sub : simpl never.

(* [vm_compute] is call-by-value: [a && b] and [a || b] evaluate b whatever a is.  The
   checkers use [if] and these short-circuit versions of [forallb] / [existsb]. *)
Fixpoint allb {A} (f : A -> bool) (l : list A) : bool :=
  match l with [] => true | x :: r => if f x then allb f r else false end.
Fixpoint anyb {A} (f : A -> bool) (l : list A) : bool :=
  match l with [] => false | x :: r => if f x then true else anyb f r end.

Lemma allb_forallb {A} (f : A -> bool) l : allb f l = forallb f l.
Proof. induction l as [|x r IH]; cbn; [reflexivity|]. rewrite IH. destruct (f x); reflexivity. Qed.
Lemma anyb_existsb {A} (f : A -> bool) l : anyb f l = existsb f l.
Proof. induction l as [|x r IH]; cbn; [reflexivity|]. rewrite IH. destruct (f x); reflexivity. Qed.

(* the definition of a rule *)
Definition def (G : grammar) (r : rid) : option expr :=
  match G r with Some ru => rdef ru | None => None end.

Lemma def_Some G r d : def G r = Some d <-> exists ru, G r = Some ru /\ rdef ru = Some d.
Proof.
  unfold def. split.
  - destruct (G r) as [ru|]; [|discriminate]. intros H. exists ru. auto.
  - intros [ru [H1 H2]]. rewrite H1. exact H2.
Qed.

(* ================================================================================== *)
(* Part 1. character classes                                                           *)
(* ================================================================================== *)
Definition cclass := list (N * N).                    (* inclusive intervals *)
Definition in_cc (c : N) (l : cclass) : bool :=
  existsb (fun p => (fst p <=? c)%N && (c <=? snd p)%N) l.

Lemma in_cc_app c l1 l2 : in_cc c (l1 ++ l2) = in_cc c l1 || in_cc c l2.
Proof. unfold in_cc. apply existsb_app. Qed.

(* the characters x with fold_cp x = fold_cp c *)
Definition ci_class (c : N) : cclass :=
  let f := fold_cp c in
  if (97 <=? f)%N && (f <=? 122)%N then [(f, f); ((f - 32)%N, (f - 32)%N)] else [(c, c)].

Lemma ci_class_ok c x : in_cc x (ci_class c) = true <-> fold_cp x = fold_cp c.
Proof.
  unfold ci_class, in_cc, fold_cp.
  destruct (N.leb_spec 65 c); destruct (N.leb_spec c 90); cbn [andb];
  destruct (N.leb_spec 65 x); destruct (N.leb_spec x 90); cbn [andb];
  repeat match goal with
         | |- context [(?a <=? ?b)%N] => destruct (N.leb_spec a b); cbn [andb orb existsb fst snd]
         end;
  cbn [andb orb existsb fst snd]; split; intros Hyp; try discriminate; try reflexivity; try lia.
Qed.

Section CC.
  Variable G : grammar.
  Variable rec : rid -> option cclass.      (* the class of a rule (open recursion) *)

  Fixpoint cc_go (e : expr) : option cclass :=
    match e with
    | ERange lo hi => Some [(lo, hi)]
    | ELit true [c] => Some [(c, c)]
    | ELit false [c] => Some (ci_class c)
    | EAlt _ es =>
      (fix alts (l : list expr) : option cclass :=
         match l with
         | [] => Some []
         | x :: r =>
           match cc_go x with
           | Some a => match alts r with Some b => Some (a ++ b) | None => None end
           | None => None
           end
         end) es
    | ECat [x] => cc_go x
    | ERep _ 1 (Some 1) x => cc_go x
    | ERef r => rec r
    | EProse => Some []
    | _ => None
    end.
End CC.

Fixpoint cc_ref (G : grammar) (fuel : nat) (r : rid) : option cclass :=
  match fuel with
  | 0 => None
  | S f => match def G r with Some d => cc_go (cc_ref G f) d | None => None end
  end.

(* [Some l] only for expressions that match EXACTLY ONE character, drawn from [l] *)
Definition charclass (G : grammar) (fuel : nat) (e : expr) : option cclass :=
  cc_go (cc_ref G fuel) e.

(* the meaning of "matches exactly one character of the class l" *)
Definition one_of (s : str) (l : cclass) (i j : nat) : Prop :=
  j = i + 1 /\ exists c, nth_error s i = Some c /\ in_cc c l = true.

Lemma slice1 s : forall i,
  slice s i 1 = match nth_error s i with Some c => [c] | None => [] end.
Proof.
  induction s as [|a s IH]; intros i; destruct i as [|i]; try reflexivity.
  unfold slice. simpl. apply (IH i).
Qed.

Lemma nth_error_lt (s : str) i c : nth_error s i = Some c -> i + 1 <= length s.
Proof. intros H. assert (i < length s) by (apply nth_error_Some; congruence). lia. Qed.

Section CCSound.
  Variable G : grammar.

  Lemma M_cat1 s e i j : M G s (ECat [e]) i j <-> M G s e i j.
  Proof.
    split; intros H.
    - inversion H as [| | | |e0 es0 i0 j0 k0 H1 H2| |]; subst.
      inversion H2; subst. exact H1.
    - econstructor; [exact H|]. constructor. exact (proj2 (M_bounds G _ _ _ _ H)).
  Qed.

  Lemma M_rep1 s id e i j : M G s (ERep id 1 (Some 1) e) i j <-> M G s e i j.
  Proof.
    split; intros H.
    - inversion H as [| | | | |id0 mn0 mx0 e0 i0 j0 n HI Hmn Hmx|]; subst.
      assert (n = 1) by (specialize (Hmx 1 eq_refl); lia). subst n.
      inversion HI as [|e1 n1 i1 j1 k1 H1 H2]; subst. inversion H2; subst. exact H1.
    - apply M_rep with (n := 1).
      + econstructor; [exact H|]. constructor. exact (proj2 (M_bounds G _ _ _ _ H)).
      + lia.
      + intros m Hm. inversion Hm. lia.
  Qed.

  Lemma M_ref_iff s r i j :
    M G s (ERef r) i j <-> exists d, def G r = Some d /\ M G s d i j.
  Proof.
    split.
    - intros H. inversion H as [| | | | | |r0 ru d i0 j0 HG Hd HM]; subst.
      exists d. split; [|exact HM]. apply def_Some. exists ru; auto.
    - intros [d [Hd HM]]. apply def_Some in Hd. destruct Hd as [ru [HG Hd]].
      econstructor; eauto.
  Qed.

  Lemma M_alt_iff s fm es i j :
    M G s (EAlt fm es) i j <-> exists e, In e es /\ M G s e i j.
  Proof.
    split.
    - intros H. inversion H; subst. eauto.
    - intros [e [Hin HM]]. econstructor; eauto.
  Qed.

  Lemma M_lit_iff s cs v i j :
    M G s (ELit cs v) i j <-> lit_ok s cs v i /\ j = i + length v.
  Proof.
    split.
    - intros H. inversion H; subst. auto.
    - intros [H ->]. constructor. exact H.
  Qed.

  Lemma lit1_cs s c i j : M G s (ELit true [c]) i j <-> one_of s [(c, c)] i j.
  Proof.
    rewrite M_lit_iff. unfold lit_ok, one_of, in_cc. cbn [length existsb fst snd]. rewrite slice1.
    split.
    - intros [[Hlen Hs] ->]. split; [reflexivity|].
      destruct (nth_error s i) as [x|]; [|discriminate]. inversion Hs; subst.
      exists c. split; [reflexivity|]. rewrite N.leb_refl. reflexivity.
    - intros [-> [x [Hx Hin]]]. rewrite Hx. split; [|reflexivity].
      split; [exact (nth_error_lt _ _ _ Hx)|].
      rewrite orb_false_r in Hin. apply andb_true_iff in Hin. destruct Hin as [H1 H2].
      apply N.leb_le in H1. apply N.leb_le in H2. f_equal. lia.
  Qed.

  Lemma lit1_ci s c i j : M G s (ELit false [c]) i j <-> one_of s (ci_class c) i j.
  Proof.
    rewrite M_lit_iff. unfold lit_ok, one_of. cbn [length]. rewrite slice1.
    split.
    - intros [[Hlen Hs] ->]. split; [reflexivity|].
      destruct (nth_error s i) as [x|]; [|discriminate]. cbn in Hs. inversion Hs as [Hf].
      exists x. split; [reflexivity|]. apply (proj2 (ci_class_ok c x)). exact Hf.
    - intros [-> [x [Hx Hin]]]. rewrite Hx. split; [|reflexivity].
      split; [exact (nth_error_lt _ _ _ Hx)|].
      cbn. f_equal. apply (proj1 (ci_class_ok c x)). exact Hin.
  Qed.

  Lemma range_one s lo hi i j : M G s (ERange lo hi) i j <-> one_of s [(lo, hi)] i j.
  Proof.
    unfold one_of, in_cc. cbn [existsb fst snd]. split.
    - intros H. inversion H as [|lo0 hi0 i0 c Hn Hlo Hhi| | | | |]; subst.
      split; [reflexivity|]. exists c. split; [exact Hn|].
      rewrite orb_false_r. apply andb_true_iff. split; apply N.leb_le; assumption.
    - intros [-> [c [Hn Hin]]]. rewrite orb_false_r in Hin. apply andb_true_iff in Hin.
      destruct Hin as [H1 H2]. apply N.leb_le in H1. apply N.leb_le in H2.
      econstructor; eauto.
  Qed.

  Definition rec_ok (rec : rid -> option cclass) : Prop :=
    forall r l, rec r = Some l -> forall s i j, M G s (ERef r) i j <-> one_of s l i j.

  Lemma cc_go_sound rec : rec_ok rec ->
    forall e l, cc_go rec e = Some l -> forall s i j, M G s e i j <-> one_of s l i j.
  Proof.
    intros Hrec e.
    induction e as [cs v|lo hi|fm es IH|es IH|id mn mx e IH| |r] using expr_ind2;
      intros l Hl s i j.
    - (* ELit *)
      destruct v as [|c [|c' v]]; cbn in Hl; destruct cs; try discriminate;
        inversion Hl; subst.
      + apply lit1_cs.
      + apply lit1_ci.
    - cbn in Hl. inversion Hl; subst. apply range_one.
    - (* EAlt *)
      cbn [cc_go] in Hl. rewrite M_alt_iff.
      revert l Hl. induction IH as [|x es Hx _ IHes]; intros l Hl.
      + inversion Hl; subst. unfold one_of. cbn. split.
        * intros [e [[] _]].
        * intros [_ [c [_ Hc]]]. discriminate.
      + destruct (cc_go rec x) as [a|] eqn:Ea; [|discriminate].
        match type of Hl with match ?t with _ => _ end = _ => destruct t as [b|] eqn:Eb end;
          [|discriminate].
        inversion Hl; subst. specialize (Hx a eq_refl s i j). specialize (IHes b eq_refl).
        unfold one_of in *. split.
        * intros [e [[->|Hin] HM]].
          -- destruct (proj1 Hx HM) as [Hj [c [Hc Hin]]]. split; [exact Hj|].
             exists c. split; [exact Hc|]. rewrite in_cc_app, Hin. reflexivity.
          -- destruct (proj1 IHes (ex_intro _ e (conj Hin HM))) as [Hj [c [Hc Hin']]].
             split; [exact Hj|]. exists c. split; [exact Hc|].
             rewrite in_cc_app, Hin'. apply orb_true_r.
        * intros [Hj [c [Hc Hin]]]. rewrite in_cc_app in Hin. apply orb_true_iff in Hin.
          destruct Hin as [Hin|Hin].
          -- exists x. split; [left; reflexivity|]. apply (proj2 Hx). eauto.
          -- destruct (proj2 IHes (conj Hj (ex_intro _ c (conj Hc Hin)))) as [e [Hin' HM]].
             exists e. split; [right; exact Hin'|exact HM].
    - (* ECat *)
      destruct es as [|x [|y es]]; cbn in Hl; try discriminate.
      inversion IH as [|x0 l0 Hx _]; subst. rewrite M_cat1. apply Hx. exact Hl.
    - (* ERep *)
      destruct mn as [|[|mn]]; cbn in Hl; try discriminate.
      destruct mx as [[|[|mx]]|]; try discriminate.
      rewrite M_rep1. apply IH. exact Hl.
    - cbn in Hl. inversion Hl; subst. unfold one_of. cbn. split.
      + intros H. inversion H.
      + intros [_ [c [_ Hc]]]. discriminate.
    - cbn in Hl. apply Hrec. exact Hl.
  Qed.

  Lemma cc_ref_ok fuel : rec_ok (cc_ref G fuel).
  Proof.
    induction fuel as [|f IH]; intros r l Hl s i j; cbn in Hl; [discriminate|].
    destruct (def G r) as [d|] eqn:Ed; [|discriminate].
    rewrite M_ref_iff. rewrite <- (cc_go_sound _ IH d l Hl s i j). split.
    - intros [d' [Hd' HM]]. rewrite Ed in Hd'. inversion Hd'; subst. exact HM.
    - intros HM. exists d. auto.
  Qed.
End CCSound.

Theorem charclass_sound G f e l : charclass G f e = Some l ->
  forall s i j, M G s e i j <-> (j = i + 1 /\ exists c, nth_error s i = Some c /\ in_cc c l = true).
Proof.
  intros H s i j. exact (cc_go_sound G _ (cc_ref_ok G f) e l H s i j).
Qed.

(* ---- extensional equality of classes, by mutual inclusion; no enumeration ---- *)
(* the largest upper bound among the intervals that contain x *)
Fixpoint reach (x : N) (l : cclass) : option N :=
  match l with
  | [] => None
  | p :: r =>
    let m := reach x r in
    if (fst p <=? x)%N && (x <=? snd p)%N
    then Some (match m with Some m' => N.max (snd p) m' | None => snd p end)
    else m
  end.

(* [lo, hi] is covered by the union of l; every round consumes at least one interval *)
Fixpoint cover (fuel : nat) (lo hi : N) (l : cclass) : bool :=
  match fuel with
  | 0 => false
  | S f =>
    match reach lo l with
    | None => false
    | Some m => if (hi <=? m)%N then true else cover f (m + 1)%N hi l
    end
  end.

Definition cc_sub (l1 l2 : cclass) : bool :=
  allb (fun p => if (snd p <? fst p)%N then true
                 else cover (S (length l2)) (fst p) (snd p) l2) l1.

Definition cc_eqb (l1 l2 : cclass) : bool := if cc_sub l1 l2 then cc_sub l2 l1 else false.

Lemma reach_sound x l : forall m, reach x l = Some m ->
  forall c, (x <= c)%N -> (c <= m)%N -> in_cc c l = true.
Proof.
  induction l as [|p r IH]; intros m Hm c Hx Hc; cbn [reach] in Hm; [discriminate|].
  unfold in_cc. cbn [existsb]. fold (in_cc c r).
  destruct ((fst p <=? x)%N && (x <=? snd p)%N) eqn:E.
  - apply andb_true_iff in E. destruct E as [E1 E2].
    apply N.leb_le in E1. apply N.leb_le in E2.
    destruct (N.leb_spec c (snd p)) as [Hle|Hgt].
    + replace (fst p <=? c)%N with true by (symmetry; apply N.leb_le; lia). reflexivity.
    + destruct (reach x r) as [m'|].
      * inversion Hm; subst. rewrite (IH m' eq_refl c Hx) by lia. apply orb_true_r.
      * inversion Hm; subst. lia.
  - rewrite (IH m Hm c Hx Hc). apply orb_true_r.
Qed.

Lemma cover_sound l : forall fuel lo hi, cover fuel lo hi l = true ->
  forall c, (lo <= c)%N -> (c <= hi)%N -> in_cc c l = true.
Proof.
  induction fuel as [|f IH]; intros lo hi H c Hlo Hhi; cbn [cover] in H; [discriminate|].
  destruct (reach lo l) as [m|] eqn:Em; [|discriminate].
  destruct (N.leb_spec c m) as [Hle|Hgt].
  - exact (reach_sound lo l m Em c Hlo Hle).
  - destruct (N.leb_spec hi m) as [Hle'|Hgt']; [lia|].
    apply (IH _ _ H c); lia.
Qed.

Lemma cc_sub_sound l1 l2 : cc_sub l1 l2 = true ->
  forall c, in_cc c l1 = true -> in_cc c l2 = true.
Proof.
  unfold cc_sub. rewrite allb_forallb, forallb_forall. intros H c Hin.
  unfold in_cc in Hin. apply existsb_exists in Hin. destruct Hin as [p [Hp Hc]].
  apply andb_true_iff in Hc. destruct Hc as [H1 H2].
  apply N.leb_le in H1. apply N.leb_le in H2.
  specialize (H p Hp). cbv beta in H. destruct (snd p <? fst p)%N eqn:E.
  - apply N.ltb_lt in E. lia.
  - exact (cover_sound _ _ _ _ H c H1 H2).
Qed.

Theorem cc_eqb_sound l1 l2 : cc_eqb l1 l2 = true -> forall c, in_cc c l1 = in_cc c l2.
Proof.
  unfold cc_eqb. intros H2 c. destruct (cc_sub l1 l2) eqn:H1; [|discriminate].
  pose proof (cc_sub_sound _ _ H1 c) as A. pose proof (cc_sub_sound _ _ H2 c) as B.
  destruct (in_cc c l1); destruct (in_cc c l2); try reflexivity.
  - symmetry. apply A. reflexivity.
  - apply B. reflexivity.
Qed.

(* ================================================================================== *)
(* Part 2. structural simulation with assumed pairs                                    *)
(* ================================================================================== *)

(* ---- 2.1 the matching relation indexed by REFERENCE DEPTH ---- *)
(* [Mh h e i j]: [M e i j] has a derivation with at most [h] nested rule unfoldings *)
Section Height.
  Variable G : grammar.
  Variable s : str.

  Inductive Mh : nat -> expr -> nat -> nat -> Prop :=
  | Mh_lit h cs v i : lit_ok s cs v i -> Mh h (ELit cs v) i (i + length v)
  | Mh_range h lo hi i c : nth_error s i = Some c -> (lo <= c)%N -> (c <= hi)%N ->
                           Mh h (ERange lo hi) i (i + 1)
  | Mh_alt h fm es e i j : In e es -> Mh h e i j -> Mh h (EAlt fm es) i j
  | Mh_cat_nil h i : i <= length s -> Mh h (ECat []) i i
  | Mh_cat_cons h e es i j k : Mh h e i j -> Mh h (ECat es) j k -> Mh h (ECat (e :: es)) i k
  | Mh_rep h id mn mx e i j n : MIh h e n i j -> mn <= n ->
                                (forall m, mx = Some m -> n <= m) -> Mh h (ERep id mn mx e) i j
  | Mh_ref h r d i j : def G r = Some d -> Mh h d i j -> Mh (S h) (ERef r) i j
  with MIh : nat -> expr -> nat -> nat -> nat -> Prop :=
  | MIh_0 h e i : i <= length s -> MIh h e 0 i i
  | MIh_S h e n i j k : Mh h e i j -> MIh h e n j k -> MIh h e (S n) i k.

  Scheme Mh_mut := Minimality for Mh Sort Prop
    with MIh_mut := Minimality for MIh Sort Prop.
  Combined Scheme Mh_MIh_mut from Mh_mut, MIh_mut.

  Lemma Mh_MIh_mono :
    (forall h e i j, Mh h e i j -> forall h', h <= h' -> Mh h' e i j) /\
    (forall h e n i j, MIh h e n i j -> forall h', h <= h' -> MIh h' e n i j).
  Proof.
    apply Mh_MIh_mut; intros; try (econstructor; eauto; fail).
    destruct h' as [|h']; [lia|]. econstructor; eauto. apply H1. lia.
  Qed.
  Definition Mh_mono := proj1 Mh_MIh_mono.

  Lemma Mh_MIh_M :
    (forall h e i j, Mh h e i j -> M G s e i j) /\
    (forall h e n i j, MIh h e n i j -> MI G s e n i j).
  Proof.
    apply Mh_MIh_mut; intros; try (econstructor; eauto; fail).
    apply M_ref_iff. eauto.
  Qed.
  Definition Mh_M := proj1 Mh_MIh_M.

  Lemma M_MI_Mh :
    (forall e i j, M G s e i j -> exists h, Mh h e i j) /\
    (forall e n i j, MI G s e n i j -> exists h, MIh h e n i j).
  Proof.
    apply (M_MI_mut G s (fun e i j => exists h, Mh h e i j)
                        (fun e n i j => exists h, MIh h e n i j)).
    - intros cs v i H. exists 0. constructor. exact H.
    - intros lo hi i c H1 H2 H3. exists 0. econstructor; eauto.
    - intros fm es e i j Hin _ [h H]. exists h. econstructor; eauto.
    - intros i H. exists 0. constructor. exact H.
    - intros e es i j k _ [h1 H1] _ [h2 H2]. exists (max h1 h2). econstructor.
      + apply (Mh_mono _ _ _ _ H1). lia.
      + apply (Mh_mono _ _ _ _ H2). lia.
    - intros id mn mx e i j n _ [h H] Hmn Hmx. exists h. econstructor; eauto.
    - intros r ru d i j HG Hd _ [h H]. exists (S h). econstructor; [|exact H].
      apply def_Some. eauto.
    - intros e i H. exists 0. constructor. exact H.
    - intros e n i j k _ [h1 H1] _ [h2 H2]. exists (max h1 h2). econstructor.
      + apply (Mh_mono _ _ _ _ H1). lia.
      + apply (proj2 Mh_MIh_mono _ _ _ _ _ H2). lia.
  Qed.

  Lemma M_iff_Mh e i j : M G s e i j <-> exists h, Mh h e i j.
  Proof.
    split; [apply (proj1 M_MI_Mh)|]. intros [h H]. exact (Mh_M _ _ _ _ H).
  Qed.

  Lemma Mh_bounds h e i j : Mh h e i j -> i <= length s /\ j <= length s.
  Proof. intros H. exact (M_bounds G _ _ _ _ (Mh_M _ _ _ _ H)). Qed.

  (* inversion lemmas *)
  Lemma Mh_lit_iff h cs v i j :
    Mh h (ELit cs v) i j <-> lit_ok s cs v i /\ j = i + length v.
  Proof.
    split.
    - intros H. inversion H; subst. auto.
    - intros [H ->]. constructor. exact H.
  Qed.

  Lemma Mh_alt_iff h fm es i j :
    Mh h (EAlt fm es) i j <-> exists e, In e es /\ Mh h e i j.
  Proof.
    split.
    - intros H. inversion H; subst. eauto.
    - intros [e [Hin HM]]. econstructor; eauto.
  Qed.

  Lemma Mh_cat_nil_iff h i j : Mh h (ECat []) i j <-> i <= length s /\ j = i.
  Proof.
    split.
    - intros H. inversion H; subst. auto.
    - intros [H ->]. constructor. exact H.
  Qed.

  Lemma Mh_cat_cons_iff h e es i k :
    Mh h (ECat (e :: es)) i k <-> exists j, Mh h e i j /\ Mh h (ECat es) j k.
  Proof.
    split.
    - intros H. inversion H; subst. eauto.
    - intros [j [H1 H2]]. econstructor; eauto.
  Qed.

  Lemma Mh_rep_iff h id mn mx e i j :
    Mh h (ERep id mn mx e) i j <->
    exists n, MIh h e n i j /\ mn <= n /\ (forall m, mx = Some m -> n <= m).
  Proof.
    split.
    - intros H. inversion H; subst. eauto.
    - intros [n [H1 [H2 H3]]]. econstructor; eauto.
  Qed.

  Lemma Mh_ref_iff h r i j :
    Mh h (ERef r) i j <-> exists h' d, h = S h' /\ def G r = Some d /\ Mh h' d i j.
  Proof.
    split.
    - intros H. inversion H; subst. eauto.
    - intros [h' [d [-> [H1 H2]]]]. econstructor; eauto.
  Qed.

  Lemma MIh_0_iff h e i j : MIh h e 0 i j <-> i <= length s /\ j = i.
  Proof.
    split.
    - intros H. inversion H; subst. auto.
    - intros [H ->]. constructor. exact H.
  Qed.

  Lemma MIh_S_iff h e n i k :
    MIh h e (S n) i k <-> exists j, Mh h e i j /\ MIh h e n j k.
  Proof.
    split.
    - intros H. inversion H; subst. eauto.
    - intros [j [H1 H2]]. econstructor; eauto.
  Qed.

  Lemma Mh_cat1 h x i j : Mh h (ECat [x]) i j <-> Mh h x i j.
  Proof.
    rewrite Mh_cat_cons_iff. split.
    - intros [k [H1 H2]]. apply Mh_cat_nil_iff in H2. destruct H2 as [_ ->]. exact H1.
    - intros H. exists j. split; [exact H|]. apply Mh_cat_nil_iff.
      split; [exact (proj2 (Mh_bounds _ _ _ _ H))|reflexivity].
  Qed.

  Lemma Mh_alt1 h fm x i j : Mh h (EAlt fm [x]) i j <-> Mh h x i j.
  Proof.
    rewrite Mh_alt_iff. split.
    - intros [e [[->|[]] H]]. exact H.
    - intros H. exists x. split; [left; reflexivity|exact H].
  Qed.

  Lemma Mh_rep1 h id x i j : Mh h (ERep id 1 (Some 1) x) i j <-> Mh h x i j.
  Proof.
    rewrite Mh_rep_iff. split.
    - intros [n [H1 [H2 H3]]]. assert (n = 1) by (specialize (H3 1 eq_refl); lia). subst n.
      apply MIh_S_iff in H1. destruct H1 as [k [H1 H4]]. apply MIh_0_iff in H4.
      destruct H4 as [_ ->]. exact H1.
    - intros H. exists 1. split; [|split; [lia|intros m Hm; inversion Hm; lia]].
      apply MIh_S_iff. exists j. split; [exact H|]. apply MIh_0_iff.
      split; [exact (proj2 (Mh_bounds _ _ _ _ H))|reflexivity].
  Qed.

  Lemma Mh_cat_app h xs ys : forall i k,
    Mh h (ECat (xs ++ ys)) i k <-> exists j, Mh h (ECat xs) i j /\ Mh h (ECat ys) j k.
  Proof.
    induction xs as [|x xs IH]; intros i k; cbn [app].
    - split.
      + intros H. exists i. split; [|exact H]. apply Mh_cat_nil_iff.
        split; [exact (proj1 (Mh_bounds _ _ _ _ H))|reflexivity].
      + intros [j [H1 H2]]. apply Mh_cat_nil_iff in H1. destruct H1 as [_ ->]. exact H2.
    - rewrite Mh_cat_cons_iff. split.
      + intros [j [H1 H2]]. apply (proj1 (IH j k)) in H2. destruct H2 as [p [H2 H3]].
        exists p. split; [|exact H3]. apply Mh_cat_cons_iff. eauto.
      + intros [p [H1 H3]]. apply Mh_cat_cons_iff in H1. destruct H1 as [j [H1 H2]].
        exists j. split; [exact H1|]. apply (proj2 (IH j k)). eauto.
  Qed.

  (* congruences at a fixed depth *)
  Lemma Mh_cat_congr h (f : expr -> expr) es :
    Forall (fun x => forall i j, Mh h (f x) i j <-> Mh h x i j) es ->
    forall i j, Mh h (ECat (map f es)) i j <-> Mh h (ECat es) i j.
  Proof.
    intros HF. induction HF as [|x es Hx _ IH]; intros i j; cbn [map]; [reflexivity|].
    rewrite !Mh_cat_cons_iff. split; intros [k [H1 H2]]; exists k; split.
    - apply (proj1 (Hx i k)). exact H1.
    - apply (proj1 (IH k j)). exact H2.
    - apply (proj2 (Hx i k)). exact H1.
    - apply (proj2 (IH k j)). exact H2.
  Qed.

  Lemma Mh_alt_congr h (f : expr -> expr) fm es :
    Forall (fun x => forall i j, Mh h (f x) i j <-> Mh h x i j) es ->
    forall i j, Mh h (EAlt fm (map f es)) i j <-> Mh h (EAlt fm es) i j.
  Proof.
    intros HF i j. rewrite Forall_forall in HF. rewrite !Mh_alt_iff. split.
    - intros [e [Hin H]]. apply in_map_iff in Hin. destruct Hin as [x [<- Hx]].
      exists x. split; [exact Hx|]. apply (proj1 (HF x Hx i j)). exact H.
    - intros [x [Hx H]]. exists (f x). split; [apply in_map; exact Hx|].
      apply (proj2 (HF x Hx i j)). exact H.
  Qed.

  Lemma MIh_impl h x y : (forall i j, Mh h x i j -> Mh h y i j) ->
    forall n i j, MIh h x n i j -> MIh h y n i j.
  Proof.
    intros Hxy. induction n as [|n IH]; intros i j H.
    - apply MIh_0_iff in H. apply MIh_0_iff. exact H.
    - apply MIh_S_iff in H. destruct H as [k [H1 H2]]. apply MIh_S_iff. exists k. auto.
  Qed.

  Lemma Mh_rep_congr h id mn mx x y : (forall i j, Mh h x i j <-> Mh h y i j) ->
    forall i j, Mh h (ERep id mn mx x) i j <-> Mh h (ERep id mn mx y) i j.
  Proof.
    intros Hxy i j. rewrite !Mh_rep_iff.
    split; intros [n [H1 H2]]; exists n; (split; [|exact H2]);
      revert H1; apply MIh_impl; intros a b; apply Hxy.
  Qed.
End Height.

(* ---- 2.2 normalisation: no singleton group, no nested concatenation / alternation,
        no 1*1 repetition; first-match flags and cache ids carry no meaning for [M] ---- *)
Definition cat_items (e : expr) : list expr := match e with ECat es => es | _ => [e] end.
Definition alt_items (e : expr) : list expr := match e with EAlt _ es => es | _ => [e] end.
Definition mk_cat (l : list expr) : expr := match l with [x] => x | _ => ECat l end.
Definition mk_alt (fm : bool) (l : list expr) : expr := match l with [x] => x | _ => EAlt fm l end.
Definition is_one (mn : nat) (mx : option nat) : bool :=
  match mn, mx with 1, Some 1 => true | _, _ => false end.

Fixpoint norm (e : expr) : expr :=
  match e with
  | ECat es => mk_cat (flat_map cat_items (map norm es))
  | EAlt fm es => mk_alt fm (flat_map alt_items (map norm es))
  | ERep id mn mx x => if is_one mn mx then norm x else ERep id mn mx (norm x)
  | _ => e
  end.

Lemma is_one_spec mn mx : is_one mn mx = true -> mn = 1 /\ mx = Some 1.
Proof.
  destruct mn as [|[|mn]]; try discriminate. destruct mx as [[|[|mx]]|]; try discriminate. auto.
Qed.

Section NormOk.
  Variable G : grammar.
  Variable s : str.
  Variable h : nat.
  Notation Mh := (Mh G s h).

  Lemma mk_cat_ok l i j : Mh (mk_cat l) i j <-> Mh (ECat l) i j.
  Proof.
    destruct l as [|x [|y l]]; cbn [mk_cat]; try reflexivity. symmetry. apply Mh_cat1.
  Qed.

  Lemma mk_alt_ok fm l i j : Mh (mk_alt fm l) i j <-> Mh (EAlt fm l) i j.
  Proof.
    destruct l as [|x [|y l]]; cbn [mk_alt]; try reflexivity. symmetry. apply Mh_alt1.
  Qed.

  Lemma cat_items_ok x i j : Mh (ECat (cat_items x)) i j <-> Mh x i j.
  Proof. destruct x; cbn [cat_items]; try apply Mh_cat1. reflexivity. Qed.

  Lemma alt_items_ok fm x i j : Mh (EAlt fm (alt_items x)) i j <-> Mh x i j.
  Proof.
    destruct x; cbn [alt_items]; try apply Mh_alt1.
    rewrite !Mh_alt_iff. reflexivity.
  Qed.

  Lemma flat_cat_ok l : forall i j, Mh (ECat (flat_map cat_items l)) i j <-> Mh (ECat l) i j.
  Proof.
    induction l as [|x l IH]; intros i j; cbn [flat_map]; [reflexivity|].
    rewrite Mh_cat_app, Mh_cat_cons_iff. split; intros [k [H1 H2]]; exists k; split.
    - apply (proj1 (cat_items_ok x i k)). exact H1.
    - apply (proj1 (IH k j)). exact H2.
    - apply (proj2 (cat_items_ok x i k)). exact H1.
    - apply (proj2 (IH k j)). exact H2.
  Qed.

  Lemma flat_alt_ok fm l i j : Mh (EAlt fm (flat_map alt_items l)) i j <-> Mh (EAlt fm l) i j.
  Proof.
    rewrite !Mh_alt_iff. split.
    - intros [e [Hin H]]. apply in_flat_map in Hin. destruct Hin as [x [Hx He]].
      exists x. split; [exact Hx|]. apply (proj1 (alt_items_ok fm x i j)).
      apply Mh_alt_iff. eauto.
    - intros [x [Hx H]]. apply (proj2 (alt_items_ok fm x i j)) in H.
      apply Mh_alt_iff in H. destruct H as [e [He H]]. exists e. split; [|exact H].
      apply in_flat_map. eauto.
  Qed.
End NormOk.

Lemma norm_ok G s e : forall h i j, Mh G s h (norm e) i j <-> Mh G s h e i j.
Proof.
  induction e as [cs v|lo hi|fm es IH|es IH|id mn mx e IH| |r] using expr_ind2;
    intros h i j; cbn [norm]; try reflexivity.
  - rewrite mk_alt_ok, flat_alt_ok. apply Mh_alt_congr.
    revert IH. apply Forall_impl. intros x Hx a b. apply Hx.
  - rewrite mk_cat_ok, flat_cat_ok. apply Mh_cat_congr.
    revert IH. apply Forall_impl. intros x Hx a b. apply Hx.
  - destruct (is_one mn mx) eqn:E.
    + apply is_one_spec in E. destruct E as [-> ->]. rewrite Mh_rep1. apply IH.
    + apply Mh_rep_congr. intros a b. apply IH.
Qed.

Lemma norm_M G s e i j : M G s (norm e) i j <-> M G s e i j.
Proof.
  rewrite !M_iff_Mh. split; intros [h H]; exists h.
  - apply (proj1 (norm_ok G s e h i j)). exact H.
  - apply (proj2 (norm_ok G s e h i j)). exact H.
Qed.

(* ---- 2.3 literals that denote the same set of strings ---- *)
Definition is_alpha (c : N) : bool :=
  ((65 <=? c) && (c <=? 90) || (97 <=? c) && (c <=? 122))%N.
Definition no_alpha (v : str) : bool := forallb (fun c => negb (is_alpha c)) v.

Definition lit_eqb (cs1 : bool) (v1 : str) (cs2 : bool) (v2 : str) : bool :=
  match cs1, cs2 with
  | true, true => str_eqb v1 v2
  | false, false => str_eqb (fold_str v1) (fold_str v2)
  | true, false => no_alpha v2 && str_eqb v1 v2
  | false, true => no_alpha v1 && str_eqb v1 v2
  end.

Lemma fold_no_alpha c x : is_alpha c = false -> fold_cp x = fold_cp c -> x = c.
Proof.
  unfold is_alpha, fold_cp.
  destruct (N.leb_spec 65 c); destruct (N.leb_spec c 90); cbn [andb orb];
  destruct (N.leb_spec 97 c); destruct (N.leb_spec c 122); cbn [andb orb];
  destruct (N.leb_spec 65 x); destruct (N.leb_spec x 90); cbn [andb orb];
  intros Hyp1 Hyp2; try discriminate; lia.
Qed.

Lemma fold_str_no_alpha v : no_alpha v = true -> forall x, fold_str x = fold_str v -> x = v.
Proof.
  induction v as [|c v IH]; intros Hv x Hx; destruct x as [|y x]; cbn in Hx; try discriminate;
    [reflexivity|].
  cbn in Hv. apply andb_true_iff in Hv. destruct Hv as [Hc Hv].
  inversion Hx as [[H1 H2]]. f_equal.
  - apply fold_no_alpha; [|exact H1]. destruct (is_alpha c); [discriminate|reflexivity].
  - apply IH; assumption.
Qed.

Lemma lit_ok_ci s v i : no_alpha v = true -> lit_ok s true v i <-> lit_ok s false v i.
Proof.
  intros Hv. unfold lit_ok. split; intros [H1 H2]; (split; [exact H1|]).
  - rewrite H2. reflexivity.
  - apply fold_str_no_alpha; assumption.
Qed.

Lemma lit_eqb_sound cs1 v1 cs2 v2 : lit_eqb cs1 v1 cs2 v2 = true ->
  length v1 = length v2 /\ forall s i, lit_ok s cs1 v1 i <-> lit_ok s cs2 v2 i.
Proof.
  unfold lit_eqb. destruct cs1, cs2; intros H.
  - apply str_eqb_eq in H. subst. split; [reflexivity|]. intros; reflexivity.
  - apply andb_true_iff in H. destruct H as [Hn H]. apply str_eqb_eq in H. subst.
    split; [reflexivity|]. intros s i. apply lit_ok_ci. exact Hn.
  - apply andb_true_iff in H. destruct H as [Hn H]. apply str_eqb_eq in H. subst.
    split; [reflexivity|]. intros s i. symmetry. apply lit_ok_ci. exact Hn.
  - apply str_eqb_eq in H.
    assert (Hlen : length v1 = length v2).
    { apply (f_equal (@length _)) in H. unfold fold_str in H. rewrite !map_length in H. exact H. }
    split; [exact Hlen|]. intros s i. unfold lit_ok. rewrite Hlen, H. reflexivity.
Qed.

(* ---- 2.4 one-directional transfer lemmas, generic in the two grammars ---- *)
Section Half.
  Variables G G' : grammar.

  (* every match of e (in G) of reference depth <= h is a match of e' (in G') *)
  Definition Half (h : nat) (e e' : expr) : Prop :=
    forall s i j, Mh G s h e i j -> M G' s e' i j.

  Lemma Half_mono h h' e e' : h' <= h -> Half h e e' -> Half h' e e'.
  Proof. intros Hle H s i j HM. apply H. exact (Mh_mono G s _ _ _ _ HM _ Hle). Qed.

  Lemma Half_ref_l h a d e' : def G a = Some d -> Half h (norm d) e' -> Half h (ERef a) e'.
  Proof.
    intros Hd H s i j HM. apply Mh_ref_iff in HM. destruct HM as [h' [d0 [-> [Hd0 HM]]]].
    rewrite Hd in Hd0. inversion Hd0; subst d0. apply H. apply (proj2 (norm_ok G s d _ i j)).
    apply (Mh_mono G s _ _ _ _ HM). lia.
  Qed.

  Lemma Half_ref_r h b d e : def G' b = Some d -> Half h e (norm d) -> Half h e (ERef b).
  Proof.
    intros Hd H s i j HM. apply M_ref_iff. exists d. split; [exact Hd|].
    apply (proj1 (norm_M G' s d i j)). apply H. exact HM.
  Qed.

  Lemma Half_ref_both h a b d d' : def G a = Some d -> def G' b = Some d' ->
    (forall h', h' < h -> Half h' (norm d) (norm d')) -> Half h (ERef a) (ERef b).
  Proof.
    intros Hd Hd' H s i j HM. apply Mh_ref_iff in HM. destruct HM as [h' [d0 [-> [Hd0 HM]]]].
    rewrite Hd in Hd0. inversion Hd0; subst d0. apply M_ref_iff. exists d'. split; [exact Hd'|].
    apply (proj1 (norm_M G' s d' i j)). apply (H h' (Nat.lt_succ_diag_r h')).
    apply (proj2 (norm_ok G s d _ i j)). exact HM.
  Qed.

  Lemma Half_lit h cs v cs' v' : length v = length v' ->
    (forall s i, lit_ok s cs v i <-> lit_ok s cs' v' i) -> Half h (ELit cs v) (ELit cs' v').
  Proof.
    intros Hlen H s i j HM. apply Mh_lit_iff in HM. destruct HM as [Hok ->].
    rewrite Hlen. constructor. apply (proj1 (H s i)). exact Hok.
  Qed.

  Lemma Half_cat h es es' : Forall2 (Half h) es es' -> Half h (ECat es) (ECat es').
  Proof.
    intros HF. induction HF as [|x y es es' Hxy _ IH]; intros s i j HM.
    - apply Mh_cat_nil_iff in HM. destruct HM as [Hi ->]. constructor. exact Hi.
    - apply Mh_cat_cons_iff in HM. destruct HM as [k [H1 H2]].
      econstructor; [apply Hxy; exact H1|apply IH; exact H2].
  Qed.

  Lemma Half_alt h fm fm' es es' :
    (forall x, In x es -> exists y, In y es' /\ Half h x y) -> Half h (EAlt fm es) (EAlt fm' es').
  Proof.
    intros H s i j HM. apply Mh_alt_iff in HM. destruct HM as [x [Hx HM]].
    destruct (H x Hx) as [y [Hy Hxy]]. econstructor; [exact Hy|]. apply Hxy. exact HM.
  Qed.

  Lemma Half_rep h id id' mn mx x y : Half h x y -> Half h (ERep id mn mx x) (ERep id' mn mx y).
  Proof.
    intros H s i j HM. apply Mh_rep_iff in HM. destruct HM as [n [HI [Hmn Hmx]]].
    apply M_rep with (n := n); [|exact Hmn|exact Hmx].
    clear Hmn Hmx. revert i j HI. induction n as [|n IH]; intros i j HI.
    - apply MIh_0_iff in HI. destruct HI as [Hi ->]. constructor. exact Hi.
    - apply MIh_S_iff in HI. destruct HI as [k [H1 H2]].
      econstructor; [apply H; exact H1|apply IH; exact H2].
  Qed.

  Lemma Half_prose h e' : Half h EProse e'.
  Proof. intros s i j HM. inversion HM. Qed.
End Half.

(* ---- 2.5 the checker ---- *)
Fixpoint forall2b {A B} (f : A -> B -> bool) (l1 : list A) (l2 : list B) : bool :=
  match l1, l2 with
  | [], [] => true
  | x :: r, y :: r' => if f x y then forall2b f r r' else false
  | _, _ => false
  end.

Lemma forall2b_F2 {A B} (f : A -> B -> bool) (R : A -> B -> Prop) l1 : forall l2,
  forall2b f l1 l2 = true -> (forall x y, f x y = true -> R x y) -> Forall2 R l1 l2.
Proof.
  induction l1 as [|x r IH]; intros l2 H HR; destruct l2 as [|y r']; cbn in H; try discriminate.
  - constructor.
  - destruct (f x y) eqn:H1; [|discriminate]. constructor; auto.
Qed.

Lemma forall2b_F2_flip {A B} (f : A -> B -> bool) (R : B -> A -> Prop) l1 : forall l2,
  forall2b f l1 l2 = true -> (forall x y, f x y = true -> R y x) -> Forall2 R l2 l1.
Proof.
  induction l1 as [|x r IH]; intros l2 H HR; destruct l2 as [|y r']; cbn in H; try discriminate.
  - constructor.
  - destruct (f x y) eqn:H1; [|discriminate]. constructor; auto.
Qed.

Definition optnat_eqb (a b : option nat) : bool :=
  match a, b with
  | Some x, Some y => Nat.eqb x y
  | None, None => true
  | _, _ => false
  end.

Lemma optnat_eqb_eq a b : optnat_eqb a b = true -> a = b.
Proof.
  destruct a, b; cbn; try discriminate; auto. intros H. apply Nat.eqb_eq in H. congruence.
Qed.

Section Sim.
  Variables G1 G2 : grammar.
  Variable pairs : list (rid * rid).
  (* rule 1: both sides are character classes; cf = fuel for [charclass] *)
  Definition cc_try (cf : nat) (e1 e2 : expr) : option bool :=
    match charclass G1 cf e1 with
    | Some l1 =>
      match charclass G2 cf e2 with Some l2 => Some (cc_eqb l1 l2) | None => None end
    | None => None
    end.

  Definition in_pairs (a b : rid) : bool :=
    anyb (fun p => if N.eqb (fst p) a then N.eqb (snd p) b else false) pairs.

  (* expressions are kept normalised ([norm]): the definitions are normalised when a
     reference is unfolded, and sub-expressions of a normal form are normal *)
  Fixpoint simb_aux (cf fuel : nat) (e1 e2 : expr) {struct fuel} : bool :=
    match fuel with
    | 0 => false
    | S f =>
      match cc_try cf e1 e2 with
      | Some b => b
      | None =>
        match e1, e2 with
        | ERef a, ERef b =>
          if in_pairs a b then true
          else match def G1 a, def G2 b with
               | Some d1, Some d2 => simb_aux cf f (norm d1) (norm d2)
               | _, _ => false
               end
        | ERef a, _ =>
          match def G1 a with Some d1 => simb_aux cf f (norm d1) e2 | None => false end
        | _, ERef b =>
          match def G2 b with Some d2 => simb_aux cf f e1 (norm d2) | None => false end
        | ELit cs1 v1, ELit cs2 v2 => lit_eqb cs1 v1 cs2 v2
        | ECat es1, ECat es2 => forall2b (simb_aux cf f) es1 es2
        | EAlt _ es1, EAlt _ es2 =>
          if allb (fun x => anyb (fun y => simb_aux cf f x y) es2) es1
          then allb (fun y => anyb (fun x => simb_aux cf f x y) es1) es2
          else false
        | ERep _ mn1 mx1 x, ERep _ mn2 mx2 y =>
          if Nat.eqb mn1 mn2 then (if optnat_eqb mx1 mx2 then simb_aux cf f x y else false)
          else false
        | EProse, EProse => true
        | _, _ => false
        end
      end
    end.

  Definition pair_ok (cf fuel : nat) (p : rid * rid) : bool :=
    match def G1 (fst p), def G2 (snd p) with
    | Some d1, Some d2 => simb_aux cf fuel (norm d1) (norm d2)
    | _, _ => false
    end.

  (* ---- soundness ---- *)
  Definition Inv (h : nat) (e1 e2 : expr) : Prop := Half G1 G2 h e1 e2 /\ Half G2 G1 h e2 e1.

  Lemma Inv_mono h h' e1 e2 : h' <= h -> Inv h e1 e2 -> Inv h' e1 e2.
  Proof. intros Hle [A B]. split; eapply Half_mono; eauto. Qed.

  Lemma Inv_ref_l h a d e2 : def G1 a = Some d -> Inv h (norm d) e2 -> Inv h (ERef a) e2.
  Proof. intros Hd [A B]. split; [eapply Half_ref_l|eapply Half_ref_r]; eauto. Qed.

  Lemma Inv_ref_r h b d e1 : def G2 b = Some d -> Inv h e1 (norm d) -> Inv h e1 (ERef b).
  Proof. intros Hd [A B]. split; [eapply Half_ref_r|eapply Half_ref_l]; eauto. Qed.

  Lemma Inv_ref_both h a b d1 d2 : def G1 a = Some d1 -> def G2 b = Some d2 ->
    (forall h', h' < h -> Inv h' (norm d1) (norm d2)) -> Inv h (ERef a) (ERef b).
  Proof.
    intros H1 H2 H. split; eapply Half_ref_both; eauto; intros h' Hlt; apply (H h' Hlt).
  Qed.

  Lemma cc_try_inv cf h e1 e2 : cc_try cf e1 e2 = Some true -> Inv h e1 e2.
  Proof.
    unfold cc_try. destruct (charclass G1 cf e1) as [l1|] eqn:E1; [|discriminate].
    destruct (charclass G2 cf e2) as [l2|] eqn:E2; [|discriminate].
    intros H. inversion H as [Heq]. clear H.
    pose proof (cc_eqb_sound _ _ Heq) as Hcc.
    assert (Hiff : forall s i j, M G1 s e1 i j <-> M G2 s e2 i j).
    { intros s i j. rewrite (charclass_sound _ _ _ _ E1 s i j), (charclass_sound _ _ _ _ E2 s i j).
      split; intros [Hj [c [Hc Hin]]]; (split; [exact Hj|]); exists c; (split; [exact Hc|]).
      - rewrite <- Hcc. exact Hin.
      - rewrite Hcc. exact Hin. }
    split; intros s i j HM.
    - apply (proj1 (Hiff s i j)). exact (Mh_M _ _ _ _ _ _ HM).
    - apply (proj2 (Hiff s i j)). exact (Mh_M _ _ _ _ _ _ HM).
  Qed.

  Lemma in_pairs_In a b : in_pairs a b = true -> In (a, b) pairs.
  Proof.
    unfold in_pairs. rewrite anyb_existsb. intros H. apply existsb_exists in H.
    destruct H as [[x y] [Hin H]]. cbn [fst snd] in H.
    destruct (N.eqb x a) eqn:H1; [|discriminate].
    apply N.eqb_eq in H1. apply N.eqb_eq in H. subst. exact Hin.
  Qed.

  (* every assumed pair has been checked, with some fuel *)
  Hypothesis Hpairs : forall a b, In (a, b) pairs ->
    exists d1 d2 c F, def G1 a = Some d1 /\ def G2 b = Some d2 /\
                      simb_aux c F (norm d1) (norm d2) = true.

  (* outer induction: reference depth of the derivation; inner induction: fuel *)
  Lemma simb_inv : forall h cf f e1 e2, simb_aux cf f e1 e2 = true -> Inv h e1 e2.
  Proof.
    induction h as [h IHh] using lt_wf_ind. intros cf.
    induction f as [|f IHf]; intros e1 e2 H; [discriminate|].
    cbn [simb_aux] in H.
    destruct (cc_try cf e1 e2) as [b|] eqn:Ecc.
    { subst b. apply (cc_try_inv cf). exact Ecc. }
    clear Ecc.
    destruct e1 as [cs1 v1|lo1 hi1|fm1 es1|es1|id1 mn1 mx1 x1| |a];
      destruct e2 as [cs2 v2|lo2 hi2|fm2 es2|es2|id2 mn2 mx2 x2| |b]; try discriminate H;
      try solve [ match type of H with
                  | match def G2 ?b with _ => _ end = true =>
                    destruct (def G2 b) as [d2|] eqn:Ed2; [|discriminate H];
                    apply (Inv_ref_r _ _ _ _ Ed2); apply IHf; exact H
                  end ];
      try solve [ match type of H with
                  | match def G1 ?a with _ => _ end = true =>
                    destruct (def G1 a) as [d1|] eqn:Ed1; [|discriminate H];
                    apply (Inv_ref_l _ _ _ _ Ed1); apply IHf; exact H
                  end ].
    - (* literals *)
      apply lit_eqb_sound in H. destruct H as [Hlen Hok]. split; apply Half_lit; auto.
      intros s i. symmetry. apply Hok.
    - (* alternations, as sets *)
      match type of H with (if ?c then _ else _) = _ => destruct c eqn:HA end; [|discriminate H].
      rename H into HB. rewrite allb_forallb, forallb_forall in HA, HB.
      split; apply Half_alt.
      + intros x Hx. specialize (HA x Hx). rewrite anyb_existsb in HA. apply existsb_exists in HA.
        destruct HA as [y [Hy HS]]. exists y. split; [exact Hy|]. exact (proj1 (IHf _ _ HS)).
      + intros y Hy. specialize (HB y Hy). rewrite anyb_existsb in HB. apply existsb_exists in HB.
        destruct HB as [x [Hx HS]]. exists x. split; [exact Hx|]. exact (proj2 (IHf _ _ HS)).
    - (* concatenations, pairwise *)
      split; apply Half_cat.
      + apply (forall2b_F2 _ _ _ _ H). intros x y HS. exact (proj1 (IHf _ _ HS)).
      + apply (forall2b_F2_flip _ _ _ _ H). intros x y HS. exact (proj2 (IHf _ _ HS)).
    - (* repetitions *)
      destruct (Nat.eqb mn1 mn2) eqn:Hmn; [|discriminate H].
      destruct (optnat_eqb mx1 mx2) eqn:Hmx; [|discriminate H]. rename H into HS.
      apply Nat.eqb_eq in Hmn. apply optnat_eqb_eq in Hmx. subst.
      split; apply Half_rep; apply (IHf _ _ HS).
    - (* prose *)
      split; apply Half_prose.
    - (* two references *)
      destruct (in_pairs a b) eqn:Ep.
      + apply in_pairs_In in Ep. destruct (Hpairs a b Ep) as [d1 [d2 [c [F [H1 [H2 HS]]]]]].
        apply (Inv_ref_both _ _ _ _ _ H1 H2). intros h' Hlt. exact (IHh h' Hlt c F _ _ HS).
      + destruct (def G1 a) as [d1|] eqn:H1; [|discriminate H].
        destruct (def G2 b) as [d2|] eqn:H2; [|discriminate H].
        apply (Inv_ref_both _ _ _ _ _ H1 H2). intros h' Hlt.
        apply (Inv_mono h h'); [lia|]. apply IHf. exact H.
  Qed.
End Sim.

(* the comparison of two expressions: normalise, then compare; the same fuel bounds the
   recursion of [simb_aux] and the rule unfoldings of [charclass] *)
Definition simb (G1 G2 : grammar) (pairs : list (rid * rid)) (fuel : nat) (e1 e2 : expr) : bool :=
  simb_aux G1 G2 pairs fuel fuel (norm e1) (norm e2).

(* every pair: both rules are defined and their (normalised) definitions are similar *)
Definition lang_eq_check (G1 G2 : grammar) (pairs : list (rid * rid)) (fuel : nat) : bool :=
  allb (pair_ok G1 G2 pairs fuel fuel) pairs.

Lemma lang_eq_check_spec G1 G2 pairs fuel : lang_eq_check G1 G2 pairs fuel = true <->
  forall a b, In (a, b) pairs ->
    exists d1 d2, def G1 a = Some d1 /\ def G2 b = Some d2 /\ simb G1 G2 pairs fuel d1 d2 = true.
Proof.
  unfold lang_eq_check, simb. rewrite allb_forallb, forallb_forall. split.
  - intros Hck a b Hin. specialize (Hck _ Hin). unfold pair_ok in Hck. cbn [fst snd] in Hck.
    destruct (def G1 a) as [d1|]; [|discriminate]. destruct (def G2 b) as [d2|]; [|discriminate].
    exists d1, d2. auto.
  - intros H [a b] Hin. destruct (H a b Hin) as [d1 [d2 [H1 [H2 HS]]]].
    unfold pair_ok. cbn [fst snd]. rewrite H1, H2. exact HS.
Qed.

Lemma lang_eq_pairs G1 G2 pairs fuel : lang_eq_check G1 G2 pairs fuel = true ->
  forall a b, In (a, b) pairs ->
    exists d1 d2 c F, def G1 a = Some d1 /\ def G2 b = Some d2 /\
                      simb_aux G1 G2 pairs c F (norm d1) (norm d2) = true.
Proof.
  intros Hck a b Hin.
  destruct (proj1 (lang_eq_check_spec _ _ _ _) Hck a b Hin) as [d1 [d2 [H1 [H2 HS]]]].
  exists d1, d2, fuel, fuel. auto.
Qed.

Theorem lang_eq_sound G1 G2 pairs fuel : lang_eq_check G1 G2 pairs fuel = true ->
  forall a b, In (a, b) pairs -> forall s i j, M G1 s (ERef a) i j <-> M G2 s (ERef b) i j.
Proof.
  intros Hck.
  pose proof (lang_eq_pairs _ _ _ _ Hck) as Hpairs.
  intros a b Hin s i j.
  destruct (Hpairs a b Hin) as [d1 [d2 [c [F [H1 [H2 HS]]]]]].
  assert (HI : forall h, Inv G1 G2 h (ERef a) (ERef b)).
  { intros h. apply (Inv_ref_both _ _ _ _ _ _ _ H1 H2). intros h' _.
    exact (simb_inv G1 G2 pairs Hpairs h' c F _ _ HS). }
  split; intros HM; apply M_iff_Mh in HM; destruct HM as [h HM].
  - exact (proj1 (HI h) s i j HM).
  - exact (proj2 (HI h) s i j HM).
Qed.

(* once the pairs are checked, any two expressions can be compared (with any fuel) *)
Theorem simb_sound G1 G2 pairs fuel : lang_eq_check G1 G2 pairs fuel = true ->
  forall f e1 e2, simb G1 G2 pairs f e1 e2 = true ->
  forall s i j, M G1 s e1 i j <-> M G2 s e2 i j.
Proof.
  intros Hck f e1 e2 HS s i j. pose proof (lang_eq_pairs _ _ _ _ Hck) as Hpairs. unfold simb in HS.
  rewrite <- (norm_M G1 s e1 i j), <- (norm_M G2 s e2 i j).
  split; intros HM; apply M_iff_Mh in HM; destruct HM as [h HM].
  - exact (proj1 (simb_inv G1 G2 pairs Hpairs h f f _ _ HS) s i j HM).
  - exact (proj2 (simb_inv G1 G2 pairs Hpairs h f f _ _ HS) s i j HM).
Qed.

(* ================================================================================== *)
(* Non-vacuity: the checker on tiny grammars                                           *)
(* ================================================================================== *)
Module LangEqExamples.
  Local Arguments ERange (lo hi)%N_scope.
  Local Arguments ERef r%N_scope.
  Local Arguments ERep id%N_scope mn%nat_scope mx e.
  Definition ru (d : expr) : rule := {| rname := []; rdef := Some d; rexcl := None |}.
  Definition q (v : str) : expr := ELit false v.          (* "..." : case-insensitive *)
  Definition qs (v : str) : expr := ELit true v.          (* %s"..." *)

  (* x = "a" / "b"      y = %x61-62 / "A" / "B" *)
  Definition GX := of_list [(1%N, ru (EAlt false [q [97%N]; q [98%N]]))].
  Definition GY := of_list [(7%N, ru (EAlt false [ERange 97 98; q [65%N]; q [66%N]]))].
  Example ex_class : lang_eq_check GX GY [(1%N, 7%N)] 8 = true.
  Proof. vm_compute. reflexivity. Qed.
  Example ex_class_M s i j : M GX s (ERef 1) i j <-> M GY s (ERef 7) i j.
  Proof. apply (lang_eq_sound GX GY [(1%N, 7%N)] 8 ex_class); left; reflexivity. Qed.

  Example ex_charclass :
    charclass GX 3 (ERef 1) = Some [(97, 97); (65, 65); (98, 98); (66, 66)]%N.
  Proof. vm_compute. reflexivity. Qed.
  Example ex_cc_eqb :
    cc_eqb [(97, 97); (65, 65); (98, 98); (66, 66)]%N [(97, 98); (65, 65); (66, 66)]%N = true /\
    cc_eqb [(0, 1114111)]%N [(128, 1114111); (9, 5); (0, 64); (60, 127)]%N = true /\
    cc_eqb [(0, 1114111)]%N [(129, 1114111); (0, 64); (60, 127)]%N = false /\
    cc_eqb [(97, 98)]%N [(97, 99)]%N = false.
  Proof. vm_compute. repeat split; reflexivity. Qed.

  (* c = "(" *( t / c ) ")"   t = 1*%x61-7A          (rules 1, 2)
     c' = "(" *( ( c' / t' ) ) %s")"   t' = 1*( %x61-7A )     (rules 11, 12): other order of the
     alternatives, one more group, a 1*1 repetition, a case-sensitive ")" *)
  Definition GC := of_list
    [(1%N, ru (ECat [q [40%N]; ERep 0 0 None (EAlt false [ERef 2; ERef 1]); q [41%N]]));
     (2%N, ru (ERep 1 1 None (ERange 97 122)))].
  Definition GC' := of_list
    [(11%N, ru (ECat [q [40%N];
                      ERep 5 0 None (ECat [EAlt true [ERef 11; ERep 6 1 (Some 1) (ERef 12)]]);
                      ECat [qs [41%N]]]));
     (12%N, ru (ERep 7 1 None (EAlt false [ERange 97 122])))].
  Example ex_rec : lang_eq_check GC GC' [(1%N, 11%N)] 8 = true.
  Proof. vm_compute. reflexivity. Qed.
  Example ex_rec2 : lang_eq_check GC GC' [(1%N, 11%N); (2%N, 12%N)] 8 = true.
  Proof. vm_compute. reflexivity. Qed.
  Example ex_rec_M s i j : M GC s (ERef 1) i j <-> M GC' s (ERef 11) i j.
  Proof. apply (lang_eq_sound GC GC' [(1%N, 11%N)] 8 ex_rec); left; reflexivity. Qed.

  (* NEGATIVE: "ab" is not %s"ab"; c is not t; an assumed pair does not help a wrong pair *)
  Definition GA := of_list [(1%N, ru (q [97%N; 98%N]))].
  Definition GB := of_list [(1%N, ru (qs [97%N; 98%N]))].
  Example ex_neg : lang_eq_check GA GB [(1%N, 1%N)] 8 = false.
  Proof. vm_compute. reflexivity. Qed.
  Example ex_neg2 : lang_eq_check GC GC' [(1%N, 12%N)] 8 = false.
  Proof. vm_compute. reflexivity. Qed.
  Example ex_neg3 : lang_eq_check GC GC' [(1%N, 11%N); (2%N, 11%N)] 8 = false.
  Proof. vm_compute. reflexivity. Qed.
  (* but "1." (no letter) is %s"1." *)
  Example ex_pos_lit :
    lang_eq_check (of_list [(1%N, ru (q [49%N; 46%N]))]) (of_list [(1%N, ru (qs [49%N; 46%N]))])
                  [(1%N, 1%N)] 8 = true.
  Proof. vm_compute. reflexivity. Qed.
End LangEqExamples.

Print Assumptions charclass_sound.
Print Assumptions cc_eqb_sound.
Print Assumptions lang_eq_sound.
Print Assumptions simb_sound.
