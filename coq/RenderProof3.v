(* RenderProof3.v — the reader inverts every rendering of a rule and of a rule list:
   [read_render_rule], [read_render_rulelist], [layout_independent].

   The one delicate point is the end of a rule.  elements = alternation *c-wsp, and
   c-wsp = c-nl WSP: when the line after a rule starts with white space, the grammar allows to see
   the c-nl that ends the rule either as the rule's c-nl (the next line then is a "( *c-wsp c-nl)"
   member of the rulelist) or as part of a c-wsp of the rule's elements (the rule then ends at a
   later c-nl).  The reader always takes the second way.  Both denote the same list of rules:
   [nl_tail] shows that after reading greedily the reader stands at the start of a text that
   renders the same remaining rules. *)
From Coq Require Import String Ascii List NArith Arith Bool Lia.
From ABNF Require Import Base AbnfRead RenderSpec RenderProof1 RenderProof2.
Import ListNotations.

(* ------------------------------------------------------------------------------------------ *)
(** * The end of a line *)
Lemma c_nl_some_head (y r : str) : c_nl y = Some r -> starts_repetition y = false /\ eat 47 y = None.
Proof.
  destruct y as [|c y]; [discriminate|]. unfold c_nl, crlf. chs. cbn [eat].
  destruct (N.eqb_spec 59 c) as [<-|N1].
  - intros _. split; reflexivity.
  - unfold is at 1. destruct (N.eqb_spec 59 c); [contradiction|].
    unfold is at 1. destruct (N.eqb_spec 13 c) as [<-|N2]; [|discriminate].
    intros _. split; reflexivity.
Qed.

Lemma nl_tail_stop (nl y : str) : r_cnl nl -> nowsp y -> c_nl (cw (nl ++ y)) = Some y.
Proof.
  intros Hnl Hy. rewrite (cw_stop _ (c_wsp_nl_stop nl y Hnl Hy)). apply c_nl_app. exact Hnl.
Qed.

(* the first character of a member of the rulelist *)
Lemma rule_head a s : renders_rule a s -> exists c t, s = c :: t /\ ALPHA c.
Proof.
  intros [n incr d e s' nl [c r Hc Hr] _ _ _]. exists c, (r ++ d ++ s' ++ nl). split; [reflexivity|assumption].
Qed.
Lemma alpha_nowsp c (t : str) : ALPHA c -> nowsp (c :: t).
Proof. unfold ALPHA. intros H. cbn [nowsp]. bool_cases. Qed.
Lemma cnl_nowsp (nl t : str) : r_cnl nl -> nowsp (nl ++ t).
Proof. intros H. destruct (cnl_head nl H) as (h & r & -> & [-> | ->]); reflexivity. Qed.

Lemma nl_tail rs t : r_entries rs t ->
  forall (w nl : str), r_cwsps w -> r_cnl nl ->
  exists t', c_nl (cw (w ++ nl ++ t)) = Some t' /\ r_entries rs t' /\ length t' <= length t.
Proof.
  induction 1 as [|o s rs t He Hent IH]; intros w nl Hw Hnl; rewrite (cw_app w _ Hw).
  - exists []. split; [apply nl_tail_stop; [exact Hnl|exact I]|]. split; [constructor|lia].
  - assert (K : nowsp (s ++ t) ->
      exists t', c_nl (cw (nl ++ s ++ t)) = Some t' /\ r_entries (opt_cons o rs) t' /\ length t' <= length (s ++ t)).
    { intros Hs. exists (s ++ t). split; [apply nl_tail_stop; assumption|]. split; [|lia].
      constructor; assumption. }
    destruct He as [a s Hr|w' nl' Hw' Hnl'].
    + apply K. destruct (rule_head a s Hr) as (c & r & -> & Hc). apply alpha_nowsp. exact Hc.
    + destruct Hw' as [|a w'' Ha Hw''].
      * apply K. cbn [app]. apply cnl_nowsp. exact Hnl'.
      * destruct Ha as [c Hc|nl0 c Hnl0 Hc].
        -- (* the next line starts with WSP: it continues the rule *)
           clear K. rewrite <- !app_assoc. cbn [app].
           assert (E : c_wsp (nl ++ c :: w'' ++ nl' ++ t) = Some (w'' ++ nl' ++ t)).
           { pose proof (c_wsp_app (nl ++ [c]) (w'' ++ nl' ++ t) (RCwsp_cont nl c Hnl Hc)) as E.
             rewrite <- app_assoc in E. exact E. }
           rewrite (cw_step _ _ E).
           destruct (IH w'' nl' Hw'' Hnl') as (t' & E1 & E2 & E3).
           exists t'. split; [exact E1|]. split; [exact E2|].
           cbn [opt_cons]. cbn [length]. rewrite !app_length. lia.
        -- apply K. rewrite <- !app_assoc. apply cnl_nowsp. exact Hnl0.
Qed.

(* ------------------------------------------------------------------------------------------ *)
(** * Rules *)
Lemma noslash_cwsps (w y : str) : r_cwsps w -> starts y -> eat 47 (w ++ y) = None.
Proof.
  intros Hw Hy. destruct (cwsps_head w Hw) as [->|(h & t & -> & Hh)]; [exact (starts_noslash y Hy)|].
  cbn [app eat]. assert (E : is 47 h = false) by (unfold wsc in Hh; bool_cases). rewrite E. reflexivity.
Qed.

Lemma defined_as_read f incr (d y : str) : r_defined_as incr d -> starts y -> length (d ++ y) <= f ->
  nofirst is_namechar (d ++ y) /\
  exists s2 s3, eat 61 (c_wsps f (d ++ y)) = Some s2 /\
    match eat 47 s2 with Some r => (true, r) | None => (false, s2) end = (incr, s3) /\
    c_wsps f s3 = y.
Proof.
  intros Hd Hy Hf.
  assert (Hnf : forall (w z : str), r_cwsps w -> nofirst is_namechar (w ++ 61%N :: z)).
  { intros w z Hw. destruct (cwsps_head w Hw) as [->|(h & t & -> & Hh)]; [reflexivity|].
    cbn [app nofirst]. apply folc_namechar, wsc_folc. exact Hh. }
  destruct Hd as [w1 w2 Hw1 Hw2|w1 w2 Hw1 Hw2]; rewrite <- app_assoc in *; cbn [app] in *;
    (split; [apply Hnf; exact Hw1|]); rewrite (c_wsps_cw f _ Hf), (cw_app w1 _ Hw1);
    rewrite cw_stop by (apply c_wsp_none; lia); cbn [eat]; change (is 61 61) with true; cbv iota;
    rewrite app_length in Hf; cbn [length] in Hf.
  - exists (w2 ++ y), (w2 ++ y). split; [reflexivity|]. rewrite (noslash_cwsps w2 y Hw2 Hy).
    split; [reflexivity|]. rewrite c_wsps_cw by lia. rewrite (cw_app w2 y Hw2). apply starts_cw. exact Hy.
  - exists (47%N :: w2 ++ y), (w2 ++ y). split; [reflexivity|]. split; [reflexivity|].
    rewrite c_wsps_cw by (cbn [length] in Hf; lia). rewrite (cw_app w2 y Hw2). apply starts_cw. exact Hy.
Qed.

Lemma fol_cwsps_nl (w nl t : str) : r_cwsps w -> r_cnl nl -> fol (w ++ nl ++ t).
Proof.
  intros Hw Hnl. destruct (cnl_head nl Hnl) as (h & r & -> & Hh). cbn [app].
  apply fol_cwsps_app; [exact Hw|]. unfold folc. lia.
Qed.

Lemma rule_f_render a s rs t f : renders_rule a s -> r_entries rs t -> length (s ++ t) <= f ->
  exists t', rule_f f (s ++ t) = Some (a, t') /\ r_entries rs t' /\ length t' <= length t.
Proof.
  intros Hr Ht Hf.
  destruct Hr as [n incr d e s' nl Hn Hd He Hnl]. destruct He as [e s0 w Hs0 Hw].
  rewrite <- !app_assoc in *.
  set (y := s0 ++ w ++ nl ++ t) in *.
  assert (Hy : starts y) by (apply starts_app; exact (alt_head _ _ Hs0)).
  assert (Ln : 1 <= length n) by (destruct Hn; cbn; lia).
  rewrite app_length in Hf.
  destruct (defined_as_read f incr d y Hd Hy ltac:(lia)) as (Hnf & s2 & s3 & E1 & E2 & E3).
  destruct (nl_tail rs t Ht w nl Hw Hnl) as (t' & N1 & N2 & N3).
  exists t'. split; [|split; assumption].
  unfold rule_f. rewrite (read_name_spec n (d ++ y) Hn Hnf). chs. rewrite E1, E2, E3.
  destruct f as [|f]; [lia|].
  assert (Hstop : stop (w ++ nl ++ t)).
  { split; [apply fol_cwsps_nl; assumption|]. exact (c_nl_some_head _ _ N1). }
  pose proof (proj1 (proj2 (proj2 (proj2 (proj2 renders_read)))) e s0 Hs0 (w ++ nl ++ t) f Hstop) as A.
  fold y in A. rewrite A.
  - rewrite N1. reflexivity.
  - rewrite app_length in Hf. lia.
Qed.

(* a rule followed by the rest of a rule list *)
Theorem read_render_rule_then : forall a s rs t, renders_rule a s -> r_entries rs t ->
  exists t', read_rule (s ++ t) = Some (a, t') /\ r_entries rs t' /\ length t' <= length t.
Proof. intros a s rs t Hr Ht. apply rule_f_render; [assumption|assumption|lia]. Qed.

(* a rule, the whole text *)
Theorem read_render_rule : forall a s, renders_rule a s -> read_rule s = Some (a, []).
Proof.
  intros a s Hr. destruct (read_render_rule_then a s [] [] Hr REntries_nil) as (t' & E & _ & L).
  rewrite app_nil_r in E. destruct t'; [exact E|cbn in L; lia].
Qed.

(* ------------------------------------------------------------------------------------------ *)
(** * Rule lists *)
Lemma entry_head o s : r_entry o s ->
  exists c t, s = c :: t /\ is_alpha c = match o with Some _ => true | None => false end.
Proof.
  intros [a s' Hr|w nl Hw Hnl].
  - destruct (rule_head a s' Hr) as (c & t & -> & Hc). exists c, t. split; [reflexivity|apply alpha_true; exact Hc].
  - destruct (cnl_head nl Hnl) as (h & r & -> & Hh).
    destruct (cwsps_head w Hw) as [->|(h' & t & -> & Hh')].
    + exists h, r. split; [reflexivity|]. destruct Hh; subst h; reflexivity.
    + exists h', (t ++ h :: r). split; [reflexivity|]. unfold wsc in Hh'.
      destruct Hh' as [->|[->|[->| ->]]]; reflexivity.
Qed.
Lemma entries_inv rs z : r_entries rs z ->
  match z with
  | [] => rs = []
  | c :: _ => exists o e rs' t, rs = opt_cons o rs' /\ z = e ++ t /\ r_entry o e /\ r_entries rs' t
  end.
Proof.
  intros [|o e rs' t He Ht]; [reflexivity|].
  destruct (entry_head o e He) as (c & r & -> & _). cbn [app].
  exists o, (c :: r), rs', t. auto.
Qed.

Lemma rulelist_f_render : forall f acc s rs, length s <= f -> r_entries rs s ->
  rulelist_f f acc s = Some (rev acc ++ rs).
Proof.
  induction f as [|f IH]; intros acc s rs Hf Hs.
  - destruct s; [|cbn in Hf; lia]. apply entries_inv in Hs. subst rs. cbn [rulelist_f].
    rewrite rev'_rev, app_nil_r. reflexivity.
  - destruct s as [|c s'].
    + apply entries_inv in Hs. subst rs. cbn [rulelist_f]. rewrite rev'_rev, app_nil_r. reflexivity.
    + pose proof (entries_inv _ _ Hs) as (o & e & rs' & t & -> & E & He & Ht).
      destruct (entry_head o e He) as (c' & r & Ee & Hc).
      assert (Ec : c' = c) by (rewrite Ee in E; cbn [app] in E; injection E; auto). subst c'.
      assert (Le : 1 <= length e) by (rewrite Ee; cbn; lia).
      cbn [rulelist_f]. rewrite Hc, E. rewrite E, app_length in Hf. clear E Ee Hc Hs.
      destruct He as [a e Hr|w nl Hw Hnl].
      * destruct (read_render_rule_then a e rs' t Hr Ht) as (t' & E1 & E2 & E3).
        rewrite E1. rewrite (IH (a :: acc) t' rs') by (assumption || lia).
        cbn [rev opt_cons]. rewrite <- app_assoc. reflexivity.
      * destruct (nl_tail rs' t Ht w nl Hw Hnl) as (t' & E1 & E2 & E3).
        rewrite <- app_assoc. rewrite c_wsps_cw.
        -- rewrite E1. apply IH; [lia|assumption].
        -- rewrite app_assoc, app_length. lia.
Qed.

(* THE ROUND TRIP: the reader inverts every rendering of a rule list *)
Theorem read_render_rulelist : forall rs s, renders_rulelist rs s -> read_rulelist s = Some rs.
Proof.
  intros rs s [o e rs' t He Ht].
  assert (Hs : r_entries (opt_cons o rs') (e ++ t)) by (constructor; assumption).
  destruct (entry_head o e He) as (c & r & -> & _). cbn [app] in *. unfold read_rulelist.
  apply (rulelist_f_render _ [] _ _ (le_n _) Hs).
Qed.

(* whatever the layout, the radix and width of the numbers, the case of the markers, the comments:
   two renderings of the same rules are read to the same value *)
Corollary layout_independent : forall rs s1 s2, renders_rulelist rs s1 -> renders_rulelist rs s2 ->
  read_rulelist s1 = read_rulelist s2.
Proof.
  intros rs s1 s2 H1 H2. rewrite (read_render_rulelist rs s1 H1), (read_render_rulelist rs s2 H2). reflexivity.
Qed.
(* and a text renders at most one list of rules *)
Corollary renders_rulelist_functional : forall rs1 rs2 s, renders_rulelist rs1 s -> renders_rulelist rs2 s ->
  rs1 = rs2.
Proof.
  intros rs1 rs2 s H1 H2. apply read_render_rulelist in H1, H2. congruence.
Qed.

Print Assumptions read_render_rule_then.
Print Assumptions read_render_rule.
Print Assumptions read_render_rulelist.
Print Assumptions layout_independent.
Print Assumptions renders_rulelist_functional.
