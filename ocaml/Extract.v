(* Extraction of the model's executable definitions to OCaml for the correspondence check.
   Only ExtrOcamlBasic (bool, option, list, prod, unit, sumbool -> OCaml's own); nat, N, positive
   stay the extracted inductives.  No Extract Constant / Extract Inductive of our own. *)
From Coq Require Import Extraction ExtrOcamlBasic List NArith.
From ABNF Require Import Base Engine Cache.
Extraction Language OCaml.
Extraction "model.ml" lparse parse parse_all sh_id sh_rev of_list nsvalue
  cnew cget cset cdel clen citer cclear csetmax drop_stale.
