(* Extraction of the model's executable definitions to OCaml for the correspondence check.
   Only ExtrOcamlBasic (bool, option, list, prod, unit, sumbool -> OCaml's own); nat, N, positive
   stay the extracted inductives.  No Extract Constant / Extract Inductive of our own. *)
From Coq Require Import Extraction ExtrOcamlBasic List NArith.
From ABNF Require Import Base Engine Cache AbnfRead Registry GenTypes Loader GenTables GenBundled Bundled Visit EngineProg Visitor Compile RfcSpec.
Extraction Language OCaml.
Extraction "model.ml" lparse parse parse_all sh_id sh_rev of_list nsvalue
  cnew cget cset cdel clen citer cclear csetmax drop_stale
  read_rule read_rulelist read_elements is_rulename
  reg0 rget rnew create load_grammar import_rule set_flag get_flag set_excl rules_of grammar_of grammar_list
  define_rule define_rules normalise ensure_crlf
  b1_classes r_rfc r_rfc5234
  lib_create lib_load_grammar v_rulelist v_rule
  lparse_p parse_p parse_all_p run_traced run_cached upd ckey_eqb
  dispatch_key node_eqb visit node_name
  r_boot r_all r_only bundled cls_of load_classes classes_of_modules.
