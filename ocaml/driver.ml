(* driver.ml — runs the extracted model (model.ml) on the cases the harness wrote.
   Reads whitespace-separated tokens from stdin, one command per line; prints one canonical
   result line per command.  Pure glue: conversions int <-> nat/N, reader, printer. *)
open Model

let nat_of_int i = let rec go i acc = if i <= 0 then acc else go (i - 1) (S acc) in go i O
let int_of_nat n = let rec go n acc = match n with O -> acc | S m -> go m (acc + 1) in go n 0
let rec pos_of_int i =
  if i = 1 then XH else if i land 1 = 0 then XO (pos_of_int (i lsr 1)) else XI (pos_of_int (i lsr 1))
let n_of_int i = if i = 0 then N0 else Npos (pos_of_int i)
let rec int_of_pos = function XH -> 1 | XO p -> 2 * int_of_pos p | XI p -> 2 * int_of_pos p + 1
let int_of_n = function N0 -> 0 | Npos p -> int_of_pos p

(* ---- token reader ---- *)
let toks : String.t array Stdlib.ref = Stdlib.ref [||]
let pos = Stdlib.ref 0
let next () = let t = !toks.(!pos) in incr pos; t
let next_int () = int_of_string (next ())
let read_str () = let n = next_int () in List.init n (fun _ -> n_of_int (next_int ()))
let read_optnat () = let x = next_int () in if x < 0 then None else Some (nat_of_int x)

let rec read_expr () : expr =
  match next () with
  | "L" -> let cs = next_int () <> 0 in let v = read_str () in ELit (cs, v)
  | "R" -> let lo = next_int () in let hi = next_int () in ERange (n_of_int lo, n_of_int hi)
  | "A" -> let fm = next_int () <> 0 in let n = next_int () in
           EAlt (fm, List.init n (fun _ -> ()) |> List.map (fun () -> read_expr ()))
  | "C" -> let n = next_int () in ECat (List.init n (fun _ -> ()) |> List.map (fun () -> read_expr ()))
  | "P" -> let id = next_int () in let mn = next_int () in let mx = read_optnat () in
           let e = read_expr () in ERep (n_of_int id, nat_of_int mn, mx, e)
  | "X" -> EProse
  | "F" -> ERef (n_of_int (next_int ()))
  | t -> failwith ("bad expr token " ^ t)

let read_grammar () =
  let n = next_int () in
  let rec go k acc = if k = 0 then List.rev acc else begin
    let rid = next_int () in
    let name = read_str () in
    let hasdef = next_int () in
    let d = if hasdef <> 0 then Some (read_expr ()) else None in
    let ex = next_int () in
    let r = { rname = name; rdef = d; rexcl = (if ex < 0 then None else Some (n_of_int ex)) } in
    go (k - 1) ((n_of_int rid, r) :: acc) end in
  of_list (go n [])

(* ---- canonical printer ---- *)
let pr_str b (s : str) =
  List.iteri (fun i c -> if i > 0 then Buffer.add_char b '.'; Buffer.add_string b (string_of_int (int_of_n c))) s
let rec pr_node b = function
  | Leaf (v, o, l) ->
    Buffer.add_string b "l("; pr_str b v; Buffer.add_char b '|';
    Buffer.add_string b (string_of_int (int_of_nat o)); Buffer.add_char b '|';
    Buffer.add_string b (string_of_int (int_of_nat l)); Buffer.add_char b ')'
  | Nd (nm, ch) ->
    Buffer.add_string b "n("; pr_str b nm; Buffer.add_char b ':';
    List.iteri (fun i c -> if i > 0 then Buffer.add_char b ','; pr_node b c) ch;
    Buffer.add_char b ')'
let pr_res (r : res) =
  match r with
  | PErr -> "PERR" | GErr -> "GERR" | OOF -> "OOF"
  | Ok ms ->
    let b = Buffer.create 256 in
    Buffer.add_string b "OK ";
    List.iteri (fun i m ->
        if i > 0 then Buffer.add_char b ';';
        Buffer.add_string b (string_of_int (int_of_nat m.mend)); Buffer.add_char b ':';
        List.iteri (fun k nd -> if k > 0 then Buffer.add_char b ','; pr_node b nd) m.nodes) ms;
    Buffer.contents b

(* ---- registry dumps (C04 C09 C10 C14) ---- *)
let rec pr_expr b (e : expr) =
  let add = Buffer.add_string b in
  match e with
  | ELit (cs, v) -> add (if cs then "L 1 " else "L 0 "); add (string_of_int (List.length v));
    List.iter (fun c -> add " "; add (string_of_int (int_of_n c))) v
  | ERange (lo, hi) -> add (Printf.sprintf "R %d %d" (int_of_n lo) (int_of_n hi))
  | EAlt (fm, es) -> add (Printf.sprintf "A %d %d" (if fm then 1 else 0) (List.length es));
    List.iter (fun x -> add " "; pr_expr b x) es
  | ECat es -> add (Printf.sprintf "C %d" (List.length es)); List.iter (fun x -> add " "; pr_expr b x) es
  | ERep (id, mn, mx, e') ->
    add (Printf.sprintf "P %d %d %d " (int_of_n id) (int_of_nat mn) (match mx with None -> -1 | Some m -> int_of_nat m));
    pr_expr b e'
  | EProse -> add "X"
  | ERef r -> add (Printf.sprintf "F %d" (int_of_n r))

let str_to_string (s : str) = String.concat "." (List.map (fun c -> string_of_int (int_of_n c)) s)

let dump_reg (r : reg option) =
  match r with
  | None -> print_endline "REG NONE"
  | Some r ->
    Printf.printf "REG %d %d %d\n" (List.length r.objs) (List.length r.defs) (int_of_nat r.epoch);
    List.iteri (fun i (g : gclass) -> Printf.printf "CLASS %d %s %s\n" (i + 2) (str_to_string g.gmod) (str_to_string g.gcls)) bundled;
    List.iteri (fun i (o : robj) ->
        let b = Buffer.create 128 in
        (match o.odef with
         | None -> Buffer.add_string b "-"
         | Some d -> (match List.nth_opt r.defs (int_of_nat d) with Some e -> pr_expr b e | None -> Buffer.add_string b "?"));
        Printf.printf "OBJ %d %d %s %s %d %d %s\n" i (int_of_n o.ocls) (str_to_string o.okey) (str_to_string o.oname)
          (match o.odef with None -> -1 | Some d -> int_of_nat d)
          (match o.oexcl with None -> -1 | Some x -> int_of_n x) (Buffer.contents b)) r.objs;
    print_endline "END"

let rec read_node () : node =
  match next () with
  | "l" -> let v = read_str () in let o = next_int () in let l = next_int () in Leaf (v, nat_of_int o, nat_of_int l)
  | "n" -> let nm = read_str () in let k = next_int () in
    let rec go k acc = if k = 0 then List.rev acc else let c = read_node () in go (k - 1) (c :: acc) in
    Nd (nm, go k [])
  | t -> failwith ("bad node token " ^ t)

(* ---- histories over the cached engine program (C08 C13 C17) ---- *)
let hist_state : cstate Stdlib.ref = Stdlib.ref (fun _ -> cnew None None O)
let hist_epoch = Stdlib.ref 0
let pr_events (evs : event list) =
  String.concat " " (List.map (fun ev ->
      let f tag id (k : ckey) extra =
        Printf.sprintf "%s%d,%d,%s%s" tag (int_of_n id) (int_of_nat (snd k)) (str_to_string (fst k)) extra in
      match ev with
      | EHit (id, k) -> f "H" id k ""
      | EMiss (id, k) -> f "M" id k ""
      | ESet (id, k, is_err) -> f "S" id k (if is_err then "!" else "")) evs)

(* ---- registry scripts (C04 C10 C12) ---- *)
let reg_state : reg Stdlib.ref = Stdlib.ref reg0
let reg_boot : reg option Stdlib.ref = Stdlib.ref None
let boot_reg () = match !reg_boot with Some r -> r | None -> let r = r_boot () in reg_boot := Some r; r
let big_fuel = nat_of_int 1000000
let apply_opt tag (r : reg option) =
  match r with Some r' -> reg_state := r'; print_endline (tag ^ " OK") | None -> print_endline (tag ^ " ERR")
let apply_lres tag (r : lres) =
  match r with
  | LOk r' -> reg_state := r'; print_endline (tag ^ " OK")
  | LParseError -> print_endline (tag ^ " PERR")
  | LOther -> print_endline (tag ^ " OTHER")
  | LOOF -> print_endline (tag ^ " OOF")
let find_rule c name = rget !reg_state (n_of_int c) name
let r_cache : cstate Stdlib.ref = Stdlib.ref (fun _ -> cnew None None O)
let last_rsrc : str Stdlib.ref = Stdlib.ref []
let run_r (p : res prog) : res =
  let (r, st') = run_cached !reg_state.epoch !r_cache p in r_cache := st'; r
let new_src_r (s : str) = if s <> !last_rsrc then begin last_rsrc := s; r_cache := (fun _ -> cnew None None O) end

let oracle = function 0 -> sh_id | 1 -> sh_rev | _ -> failwith "oracle"

(* the engine is run through the cached program (EngineProg.run_cached) so that the model memoises exactly as the
   library does (C08 proves the answers equal the pure engine's); one cache state per GRAMMAR command and oracle *)
let g_state : cstate array = [| (fun _ -> cnew None None O); (fun _ -> cnew None None O) |]
let reset_g_state () = g_state.(0) <- (fun _ -> cnew None None O); g_state.(1) <- (fun _ -> cnew None None O)
(* the model's caches are association lists: keep them small by starting afresh whenever the source string changes
   (answers do not depend on the cache contents: C08) *)
let last_src : str Stdlib.ref = Stdlib.ref []
let run_c o (p : res prog) : res =
  let (r, st') = run_cached O g_state.(o) p in g_state.(o) <- st'; r
let new_src_c (s : str) = if s <> !last_src then begin last_src := s; reset_g_state () end

(* ---- cache scripts (C16) ---- *)
let keqb (a : int) (b : int) = a = b
let run_cache () =
  let dflt = read_optnat () in
  let arg = read_optnat () in
  let nops = next_int () in
  let g = Stdlib.ref 0 in
  let c = Stdlib.ref (cnew dflt arg (nat_of_int 0)) in
  let b = Buffer.create 256 in
  for _ = 1 to nops do
    let gn () = nat_of_int !g in
    let ret =
      match next () with
      | "g" -> let k = next_int () in
        let (r, c') = cget keqb (gn ()) k !c in c := c';
        (match r with Some v -> "v" ^ string_of_int v | None -> "KeyError")
      | "s" -> let k = next_int () in let v = next_int () in c := cset keqb (gn ()) k v !c; "-"
      | "d" -> let k = next_int () in
        let (ok, c') = cdel keqb (gn ()) k !c in c := c'; if ok then "-" else "KeyError"
      | "c" -> c := cclear !c; "-"
      | "n" -> "-"
      | "v" -> incr g; "-"
      | "m" -> let m = read_optnat () in c := csetmax m !c; "-"
      | t -> failwith ("bad cache op " ^ t) in
    (* observation through the public API: len(), list(), hits, misses *)
    let (n, c1) = clen (gn ()) !c in
    let (ks, c2) = citer (gn ()) c1 in
    c := c2;
    Buffer.add_string b
      (Printf.sprintf "%s|%d|%s|%d|%d;" ret (int_of_nat n)
         (String.concat "," (List.map string_of_int ks)) (int_of_nat !c.hits) (int_of_nat !c.misses))
  done;
  Buffer.contents b

let () =
  let fuel = Stdlib.ref (nat_of_int 100000) in
  let g = Stdlib.ref (of_list []) in
  (try
     while true do
       let line = input_line stdin in
       let ts = String.split_on_char ' ' line |> List.filter (fun x -> x <> "") in
       match ts with
       | [] -> ()
       | _ ->
         toks := Array.of_list ts; pos := 0;
         (match next () with
          | "FUEL" -> fuel := nat_of_int (next_int ())
          | "GRAMMAR" -> g := read_grammar (); reset_g_state ()
          | "LPARSE" ->
            let o = next_int () in let r = next_int () in let i = next_int () in let s = read_str () in
            new_src_c s;
            print_endline (pr_res (run_c o (lparse_p (oracle o) !g !fuel (ERef (n_of_int r)) s (nat_of_int i))))
          | "LEXPR" ->
            let o = next_int () in let i = next_int () in let s = read_str () in let e = read_expr () in
            new_src_c s;
            print_endline (pr_res (run_c o (lparse_p (oracle o) !g !fuel e s (nat_of_int i))))
          | "PARSE" ->
            let o = next_int () in let r = next_int () in let i = next_int () in let s = read_str () in
            new_src_c s;
            print_endline (pr_res (run_c o (parse_p (oracle o) !g !fuel (n_of_int r) s (nat_of_int i))))
          | "PALL" ->
            let o = next_int () in let r = next_int () in let s = read_str () in
            new_src_c s;
            print_endline (pr_res (run_c o (parse_all_p (oracle o) !g !fuel (n_of_int r) s)))
          | "CACHE" -> print_endline (run_cache ())
          | "CORECLS" ->
            List.iter (fun (nm, cls) ->
                Printf.printf "%s %s\n" (str_to_string (s_of nm))
                  (String.concat "," (List.map (fun (a, b) -> Printf.sprintf "%d-%d" (int_of_n a) (int_of_n b)) cls))) b1_classes;
            print_endline "END"
          | "RRFC" -> (match r_rfc () with Some r -> reg_state := r; r_cache := (fun _ -> cnew None None O); print_endline "RRFC OK" | None -> print_endline "RRFC ERR")
          | "RRFC5234" -> (match r_rfc5234 () with Some r -> reg_state := r; r_cache := (fun _ -> cnew None None O); print_endline "RRFC5234 OK" | None -> print_endline "RRFC5234 ERR")
          | "RALL" -> (match r_all () with Some r -> reg_state := r; r_cache := (fun _ -> cnew None None O); print_endline "RALL OK" | None -> print_endline "RALL ERR")
          | "RONLY" -> let m = read_str () in
            (match r_only m with Some r -> reg_state := r; r_cache := (fun _ -> cnew None None O); print_endline "RONLY OK" | None -> print_endline "RONLY ERR")
          | "RPARSEC" ->  (* RPARSEC kind module class name i s : rule of a bundled class *)
            let kind = next_int () in let m = read_str () in let cn = read_str () in let nm = read_str () in
            let i = next_int () in let s = read_str () in
            new_src_r s;
            (match cls_of bundled m cn with
             | None -> print_endline "NOCLASS"
             | Some c ->
               (match rget !reg_state c nm with
                | None -> print_endline "NORULE"
                | Some k ->
                  let gr = grammar_of !reg_state in
                  let r = n_of_int (int_of_nat k) in
                  print_endline (pr_res (run_r (match kind with
                      | 0 -> lparse_p sh_id gr !fuel (ERef r) s (nat_of_int i)
                      | 1 -> parse_p sh_id gr !fuel r s (nat_of_int i)
                      | _ -> parse_all_p sh_id gr !fuel r s)))))
          | "RRESET" -> reg_state := boot_reg (); r_cache := (fun _ -> cnew None None O)
          | "RCREATE" ->  (* RCREATE route cls text : route 0 = spec reader, 1 = library model (engine+visitor) *)
            let route = next_int () in let c = next_int () in let t = read_str () in
            if route = 0 then apply_opt "RCREATE" (create (n_of_int c) t !reg_state)
            else apply_lres "RCREATE" (lib_create big_fuel (n_of_int c) t !reg_state)
          | "RLOAD" ->
            let route = next_int () in let c = next_int () in let strict = next_int () <> 0 in let t = read_str () in
            if route = 0 then apply_opt "RLOAD" (load_grammar (n_of_int c) t strict !reg_state)
            else apply_lres "RLOAD" (lib_load_grammar big_fuel (n_of_int c) t strict !reg_state)
          | "RIMPORT" ->  (* RIMPORT cls localname srccls srcname *)
            let c = next_int () in let ln = read_str () in let sc = next_int () in let sn = read_str () in
            let (r1, k) = rnew !reg_state (n_of_int sc) sn in
            apply_opt "RIMPORT" (import_rule (n_of_int c) ln k r1)
          | "RFLAG" ->
            let c = next_int () in let nm = read_str () in let v = next_int () <> 0 in
            let (r1, k) = rnew !reg_state (n_of_int c) nm in
            reg_state := r1;     (* the rule object exists even when the setter raises *)
            apply_opt "RFLAG" (set_flag k v r1)
          | "REXCL" ->
            let c = next_int () in let nm = read_str () in let c2 = next_int () in let nm2 = read_str () in
            let (r1, k) = rnew !reg_state (n_of_int c) nm in
            let (r2, k2) = rnew r1 (n_of_int c2) nm2 in
            reg_state := set_excl k k2 r2; print_endline "REXCL OK"
          | "RNEW" -> let c = next_int () in let nm = read_str () in
            let (r1, k) = rnew !reg_state (n_of_int c) nm in reg_state := r1; Printf.printf "RNEW %d\n" (int_of_nat k)
          | "RDUMP" -> dump_reg (Some !reg_state)
          | "RPARSE" ->  (* RPARSE kind cls name i s *)
            let kind = next_int () in let c = next_int () in let nm = read_str () in let i = next_int () in let s = read_str () in
            new_src_r s;
            (match find_rule c nm with
             | None -> print_endline "NORULE"
             | Some k ->
               let gr = grammar_of !reg_state in
               let r = n_of_int (int_of_nat k) in
               print_endline (pr_res (run_r (match kind with
                   | 0 -> lparse_p sh_id gr !fuel (ERef r) s (nat_of_int i)
                   | 1 -> parse_p sh_id gr !fuel r s (nat_of_int i)
                   | _ -> parse_all_p sh_id gr !fuel r s))))
          | "HNEW" ->   (* HNEW dflt : all caches fresh with class default limit dflt *)
            let d = read_optnat () in
            hist_epoch := 0; hist_state := (fun _ -> cnew d None O)
          | "HREQ" ->   (* HREQ kind rid i s : kind 0 lparse 1 parse 2 parse_all *)
            let kind = next_int () in let r = next_int () in let i = next_int () in let s = read_str () in
            let p = (match kind with
                | 0 -> lparse_p sh_id !g !fuel (ERef (n_of_int r)) s (nat_of_int i)
                | 1 -> parse_p sh_id !g !fuel (n_of_int r) s (nat_of_int i)
                | _ -> parse_all_p sh_id !g !fuel (n_of_int r) s) in
            let ((res, st'), evs) = run_traced (nat_of_int !hist_epoch) !hist_state p [] in
            hist_state := st';
            print_endline (pr_res res ^ " # " ^ pr_events evs)
          | "HCLEAR" -> let st = !hist_state in hist_state := (fun id -> cclear (st id))
          | "HSETMAX" -> let id = next_int () in let m = read_optnat () in
            let st = !hist_state in hist_state := upd st (n_of_int id) (csetmax m (st (n_of_int id)))
          | "HSETMAXALL" -> let m = read_optnat () in
            let st = !hist_state in hist_state := (fun id -> csetmax m (st id))
          | "HINVAL" -> incr hist_epoch
          | "KEY" -> let nm = read_str () in print_endline (str_to_string (dispatch_key nm))
          | "NODEEQ" -> let a = read_node () in let b = read_node () in
            print_endline (if node_eqb a b then "1" else "0")
          | "VISIT" ->   (* VISIT nmethods (suffix handler)* node *)
            let k = next_int () in
            let rec go k acc = if k = 0 then List.rev acc else
                let sfx = read_str () in let h = next_int () in go (k - 1) ((sfx, n_of_int h) :: acc) in
            let v = go k [] in
            let nd = read_node () in
            (match visit v nd with
             | Called (h, _) -> Printf.printf "CALLED %d\n" (int_of_n h)
             | RNone -> print_endline "NONE")
          | "REGALL" -> dump_reg (r_all ())
          | "REGBOOT" -> dump_reg (Some (r_boot ()))
          | "REGONLY" -> let m = read_str () in dump_reg (r_only m)
          | "READLIST" -> let s = read_str () in
            (match read_rulelist s with Some l -> Printf.printf "OK %d\n" (List.length l) | None -> print_endline "NONE")
          | "READRULE" -> let s = read_str () in
            (match read_rule s with Some (_, rest) -> Printf.printf "OK %d\n" (List.length rest) | None -> print_endline "NONE")
          | t -> failwith ("bad command " ^ t))
     done
   with End_of_file -> ())
