"""C09 — bundled RFC grammars recognise exactly what their own ABNF text denotes."""
import json
import os

import common as C

VFILES = ["props/C09.v"]
USES_TRANSLATOR = True
EXTRA_TRUST = ["tools/translate.py (Python ast, fail-closed): grammar texts, import lists and flag statements of src/abnf/grammars/*.py -> coq/gen/GenBundled.v on every run",
               "coq/AbnfRead.v (spec reader), coq/Registry.v + coq/Loader.v (model of the registry and of the decorators)"]
ASSUMPTIONS = ["what the text denotes = spec reader + loader model; the loader model is tied to /repo by comparing the complete object graph of all classes with the library's"]


def _b(ctx, mode, name):
    out = os.path.join(C.WORK, f"b_{name}.json")
    rc, so, se = C.sh([C.PY, os.path.join(C.VERIF, "tools", "bundled_x.py"), "--mode", mode, "--seed", str(ctx["seed"]),
                       "--tier", ctx["tier"], "--boost", str(max(ctx.get("boost", 1), 4 if ctx.get("broken") else 1)), "--out", out],
                      env=dict(os.environ), timeout=12000)
    if rc != 0:
        return {"coverage": {}, "violations": [{"what": f"harness {mode} failed: " + (so + se)[-400:], "identity": "harness-error",
                                                "replay_payload": {"error": (so + se)[-2000:]}}]}
    return json.load(open(out))


def run(ctx):
    g = _b(ctx, "graph", "graph")
    b = _b(ctx, "behaviour", "behaviour")
    cov = dict(b["coverage"])
    cov["graph"] = g["coverage"]
    cov.setdefault("evaluations", 0)
    cov.setdefault("distinct_nontrivial", 0)
    cov["rule"] = ("graph: all bundled modules imported in one fresh interpreter; the complete registry (every rule object of every "
                   "class: spelling, definition structure, flags, exclusions, sharing of definition objects) vs the loader model on "
                   "the translated texts; behaviour: per module, a fresh interpreter that imported only that module: every rule x "
                   "(sentences derived from the library's object graph, one mutant each, fixed strings): end sets at offset 0 vs the "
                   "engine model on the loader model's registry for that module; non-trivial = >= 2 ends or a match that consumes input")
    return {"coverage": cov, "violations": g["violations"] + b["violations"]}
