"""Source fingerprints: a hash of the AST of every function/class-level statement of the modelled source files.
A changed fingerprint is NOT an alarm (a harmless rewrite changes it too); it only makes the correspondence part of the
affected checks dig deeper ("the code the model was written against has changed").
usage: fingerprint.py --repo /repo [--write]   (prints changed units; --write stores the baseline)"""
import argparse
import ast
import hashlib
import json
import os

BASE = os.path.join(os.path.dirname(os.path.dirname(os.path.abspath(__file__))), "fingerprints.json")


def units(path):
    tree = ast.parse(open(path, encoding="utf-8").read())
    out = {}

    def h(node):
        return hashlib.sha256(ast.dump(node, include_attributes=False).encode()).hexdigest()[:16]

    for n in tree.body:
        if isinstance(n, ast.ClassDef):
            for m in n.body:
                if isinstance(m, (ast.FunctionDef, ast.AsyncFunctionDef)):
                    out[f"{n.name}.{m.name}"] = h(m)
            out[f"{n.name}.<body>"] = h(ast.ClassDef(name=n.name, bases=n.bases, keywords=[], decorator_list=n.decorator_list, type_params=[],
                                                     body=[m for m in n.body if not isinstance(m, (ast.FunctionDef, ast.AsyncFunctionDef))] or [ast.Pass()]))
        elif isinstance(n, (ast.FunctionDef, ast.AsyncFunctionDef)):
            out[n.name] = h(n)
        else:
            out.setdefault("<module>", "")
            out["<module>"] = hashlib.sha256((out["<module>"] + h(n)).encode()).hexdigest()[:16]
    return out


def current(repo):
    res = {}
    for rel in ["src/abnf/parser.py", "src/abnf/grammars/misc.py"]:
        for k, v in units(os.path.join(repo, rel)).items():
            res[rel + "::" + k] = v
    gdir = os.path.join(repo, "src/abnf/grammars")
    for f in sorted(os.listdir(gdir)):
        if f.endswith(".py") and f not in ("misc.py", "__init__.py"):
            res["src/abnf/grammars/" + f] = hashlib.sha256(open(os.path.join(gdir, f), "rb").read()).hexdigest()[:16]
    return res


def changed(repo):
    cur = current(repo)
    if not os.path.exists(BASE):
        return []
    base = json.load(open(BASE))
    return sorted(k for k in set(cur) | set(base) if cur.get(k) != base.get(k))


if __name__ == "__main__":
    ap = argparse.ArgumentParser()
    ap.add_argument("--repo", default="/repo")
    ap.add_argument("--write", action="store_true")
    a = ap.parse_args()
    if a.write:
        json.dump(current(a.repo), open(BASE, "w"), indent=1, sort_keys=True)
    print(json.dumps(changed(a.repo)))
