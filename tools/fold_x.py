"""Exhaustive correspondence of the literal case folding (C01 literal clause): for EVERY code point c in
0..0x10FFFF the implementation's case-insensitive literal built from chr(c) must (a) carry the pattern the model's
fold_cp gives, (b) match exactly the one-character inputs d with fold_cp(d) == fold_cp(c) among {c, c+-32, swapcase
variants, look-alikes}, and a case-SENSITIVE literal must match only itself.
usage: fold_x.py --out FILE   (run under /venv/bin/python, PYTHONPATH=/repo/src)"""
import argparse
import json
import time

from abnf.parser import Literal, ParseError


def fold_cp(c):          # coq/Base.v fold_cp
    return c + 32 if 65 <= c <= 90 else c


def matches(lit, ch):
    try:
        return [m.start for m in lit.lparse(ch, 0)] == [1]
    except ParseError:
        return False


def main():
    ap = argparse.ArgumentParser()
    ap.add_argument("--out", required=True)
    a = ap.parse_args()
    t0 = time.time()
    bad = []
    n = 0
    for c in range(0x110000):
        ch = chr(c)
        lit = Literal(ch)
        n += 1
        want = chr(fold_cp(c))
        if lit.pattern != want:
            bad.append({"code_point": c, "what": "pattern", "implementation": [ord(x) for x in lit.pattern], "model": [fold_cp(c)]})
        cands = {c, c ^ 0x20, c + 32, c - 32}
        for v in (ch.swapcase(), ch.lower(), ch.upper(), ch.casefold()):
            if len(v) == 1:
                cands.add(ord(v))
        for d in cands:
            if 0 <= d < 0x110000:
                n += 1
                got = matches(lit, chr(d))
                exp = fold_cp(d) == fold_cp(c)
                if got != exp:
                    bad.append({"literal": c, "input": d, "what": "case-insensitive match", "implementation": got, "model": exp})
        if c < 0x3000 or c % 257 == 0:
            cs = Literal(ch, True)
            for d in (c, c ^ 0x20):
                if 0 <= d < 0x110000:
                    n += 1
                    if matches(cs, chr(d)) != (d == c):
                        bad.append({"literal": c, "input": d, "what": "case-sensitive match"})
        if len(bad) > 40:
            break
    json.dump({"evaluations": n, "code_points": 0x110000, "mismatches": bad[:40], "n_mismatches": len(bad),
               "wall_s": time.time() - t0}, open(a.out, "w"))


if __name__ == "__main__":
    main()
