"""C02 — parse returns the longest match; parse_all accepts only whole-input matches."""
import engine_common as E

VFILES = ["props/C02.v", "props/C02den.v"]
ASSUMPTIONS = ["as C01"]
CLASSES = {"parse", "build"}      # a grammar object graph that is not the one intended invalidates every comparison made on it


def run(ctx):
    cov, viol = E.run_engine(ctx, "c02", ["plain", "flags"], 200, 6000, CLASSES, small=(False, 8, 250))
    return {"coverage": cov, "violations": viol}


def search(ctx):
    c2 = dict(ctx, tier="thorough", seed=ctx["seed"] + 7)
    return E.run_engine(c2, "c02s", ["plain"], 0, 3000, CLASSES)[1]
