"""C17 — concurrent and interleaved parsing gives the sequential results."""
import hist_common as H

VFILES = ["props/C17.v"]
ASSUMPTIONS = ["CPython: one C-level OrderedDict operation on (str, int) keys is atomic under the GIL (the micro-step model's unit); the global epoch and the size limits do not change while requests run",
               "not modelled: free-threaded builds, RecursionError, the WeakSet of live caches under GC, __delitem__/__iter__/__len__/clear_caches concurrent with requests"]


def run(ctx):
    cov, viol = H.run_hist(ctx, "c17", 60, 1500)
    cov["rule"] = ("2-3 requests over shared grammar objects executed by threads that are stopped before EVERY cache operation and "
                   "released one operation at a time under explicit schedules: ALL interleavings when the two requests make <= 7 "
                   "cache operations in total, random schedules otherwise, plus the two fully sequential orders and starvation "
                   "of one thread (abandonment); cache limits None/1/2; generator scripts (interleaved next(), abandonment after "
                   "the first item, later request unaffected); free-running 6-thread stress with switch interval 1e-6 and "
                   "concurrent clear_caches(); every completed request is compared with its cold sequential result")
    return {"coverage": cov, "violations": viol}
