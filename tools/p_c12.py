"""C12 — parsing is total: terminates and fails only with the documented exceptions."""
import json
import os

import common as C
import engine_common as E

VFILES = ["props/C12.v"]
USES_TRANSLATOR = True     # the loader clause is about the library route on the meta-grammar translated from parser.py
ASSUMPTIONS = ["termination is proved for the model; interpreter stack depth and running time are runtime behaviour the model cannot exhibit (see known findings)"]
CLASSES = {"exc", "build", "hang"}


def probes(ctx):
    out = os.path.join(C.WORK, "c12_probe.json")
    env = C.env_for_impl("0")
    rc, so, se = C.sh([C.PY, os.path.join(C.VERIF, "tools", "total_x.py"), "--out", out], env=env, timeout=600)
    if rc != 0:
        return None, [{"what": "probe harness failed: " + (so + se)[-400:], "identity": "harness-error",
                       "replay_payload": {"error": (so + se)[-2000:]}}]
    d = json.load(open(out))
    v = []
    # "x"*400 IS a sentence of r: the only acceptable outcomes are success and (the known finding) RecursionError; a ParseError or
    # GrammarError here is a wrong answer, e.g. a stack overflow turned into "no match"
    if d["recursion_400"] != "ok":
        v.append({"what": f"r = \"x\" r / \"x\" on 400 x raises {d['recursion_400']} (default recursion limit {d['recursion_limit']})",
                  "identity": "recursion-limit:right-recursive-rule:" + d["recursion_400"],
                  "replay_payload": {"property": "C12", "grammar": 'r = "x" r / "x"', "input": "x*400", "observed": d["recursion_400"]}})
    if d["recursion_100"] != "ok":
        v.append({"what": f"r = \"x\" r / \"x\" on 100 x: {d['recursion_100']}", "identity": "recursion-100:" + d["recursion_100"],
                  "replay_payload": {"property": "C12", "grammar": 'r = "x" r / "x"', "input": "x*100", "observed": d["recursion_100"]}})
    cs = d["work_calls"]
    ratios = [cs[i + 1] / max(1, cs[i]) for i in range(len(cs) - 1)]
    if min(ratios) > 1.8:
        v.append({"what": "the number of literal-match calls on d = \"a\" d / \"a\" d / \"a\" doubles with every input character "
                          f"({cs}): no polynomial work bound",
                  "identity": "exponential-work:unmemoised-rule-alternatives",
                  "replay_payload": {"property": "C12", "grammar": 'd = "a" d / "a" d / "a"', "inputs": d["work_ns"], "calls": cs}})
    for u in d.get("deep_nesting", []):
        v.append({"what": f"{u['rule']} on a sentence nested {u['depth']} deep ({u['length']} characters) gives {u['outcome']}: a sentence of the grammar "
                          "is accepted (or, past the interpreter's stack, RecursionError: the known finding) but never ParseError / GrammarError",
                  "identity": f"deep-nesting:{u['rule']}:{u['outcome']}", "replay_payload": dict(u, property="C12")})
    for u in (d.get("long_sources") or {}).get("unexpected", []):
        v.append({"what": f"{u['call']} of rule {u['rule']} on a source of {u['length']} characters ({u['content']}) raised {u['raised']} "
                          "(only ParseError / GrammarError are documented)",
                  "identity": f"long-source:{u['rule']}:{u['length']}:{u['content']}:{u['call']}:{u['raised']}",
                  "replay_payload": {"property": "C12", "grammar": ['o = *"z" "a"', 'w = 1*( %x21-7E / %x80-10FFFF )', 'q = [ "ab" ] *"b"',
                                                                    't = 2*3( "ab" / %xD800 ) [ "a" ]'], **u}})
    # work bound on the constructs the library memoises: literal-match calls must stay linear in the input length
    for pr in d.get("memo_probes", []):
        bad = [r for r in pr["rows"] if r[1] > 16 * (r[0] + 1) or r[2] in ("budget", "RecursionError")]
        if bad:
            v.append({"what": f"work probe '{pr['probe']}' ({'; '.join(pr['grammar'])}): {bad[0][1]} literal-match calls on an input of "
                              f"{bad[0][0]} characters (bound 16*(n+1)); rows {pr['rows']}",
                      "identity": "work-bound:memoised:" + pr["probe"],
                      "replay_payload": {"property": "C12", "grammar": pr["grammar"], "rows": pr["rows"],
                                         "bound": "16*(len+1) literal-match calls"}})
    return d, v


def run(ctx):
    cov, viol = E.run_engine(ctx, "c12", ["plain", "flags"], 160, 4000, CLASSES, small=(True, 8, 150))
    d, v2 = probes(ctx)
    cov["runtime_probes"] = d
    ld = loader_atomicity(ctx)
    cov["loader_atomicity"] = ld["coverage"]
    return {"coverage": cov, "violations": viol + v2 + ld["violations"]}


def loader_atomicity(ctx):
    """corrupted rulelists are rejected with ParseError and define nothing (tools/loader_x.py)"""
    lx = os.path.join(C.VERIF, "tools", "loader_x.py")
    if not os.path.exists(lx):
        return {"coverage": {"status": "not built yet"}, "violations": []}
    out = os.path.join(C.WORK, "c12_loader.json")
    n = 150 if ctx["tier"] == "quick" else 3000
    rc, so, se = C.sh([C.PY, lx, "--seed", str(ctx["seed"]), "--n", str(n), "--mode", "atomicity", "--out", out],
                      env=C.env_for_impl("0"), timeout=3000)
    if rc == 0:
        # the same under "python -W error" (warnings are errors in many CI set-ups): the outcome of a load is still ParseError or success
        out2 = os.path.join(C.WORK, "c12_loader_werror.json")
        env2 = dict(C.env_for_impl("0"), PYTHONWARNINGS="error::UserWarning,error::RuntimeWarning,error::SyntaxWarning,error::FutureWarning")
        rc2, so2, se2 = C.sh([C.PY, lx, "--seed", str(ctx["seed"] + 1), "--n", str(max(60, n // 3)), "--mode", "atomicity", "--out", out2], env=env2, timeout=3000)
        if rc2 != 0:
            return {"coverage": {"status": "harness error under -W error"},
                    "violations": [{"what": "loader harness failed under PYTHONWARNINGS=error: " + (so2 + se2)[-400:], "identity": "harness-error-werror",
                                    "replay_payload": {"error": (so2 + se2)[-2000:]}}]}
        d2 = json.load(open(out2))
        d1 = json.load(open(out))
        d1["violations"] = d1["violations"] + [dict(v, what="(warnings as errors) " + v["what"]) for v in d2["violations"]]
        d1["coverage"]["warnings_as_errors_cases"] = d2["coverage"].get("evaluations")
        json.dump(d1, open(out, "w"))
    if rc != 0:
        return {"coverage": {"status": "harness error"},
                "violations": [{"what": "loader harness failed: " + (so + se)[-400:], "identity": "harness-error",
                                "replay_payload": {"error": (so + se)[-2000:]}}]}
    d = json.load(open(out))
    return {"coverage": d["coverage"], "violations": d["violations"]}
