"""C11 — first-match alternation and rule exclusion behave as documented."""
import engine_common as E

VFILES = ["props/C11.v"]
ASSUMPTIONS = ["the denotation den is the engine model's own answer; its clauses are theorems (EngineSem.v)"]
CLASSES = {"ends", "parse", "build"}


def run(ctx):
    cov, viol = E.run_engine(ctx, "c11", ["flags"], 240, 6000, CLASSES, small=(True, 8, 0))
    cov["rule"] += ("; mode 'flags': random first-match flags on top-level alternations set through toggle sequences of "
                    "the public property (last value must be in force; rules whose definition is not an alternation "
                    "must ignore it; nested alternations must keep longest-match), random exclusion pairs; "
                    "the object graph after the toggles is compared with the intended one")
    return {"coverage": cov, "violations": viol}


def search(ctx):
    c2 = dict(ctx, tier="thorough", seed=ctx["seed"] + 7)
    return E.run_engine(c2, "c11s", ["flags"], 0, 3000, CLASSES)[1]
