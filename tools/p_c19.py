"""C19 — constructs shared by several bundled grammars denote the same language."""
import p_c09

VFILES = ["props/C19.v"]
USES_TRANSLATOR = True
EXTRA_TRUST = p_c09.EXTRA_TRUST + ["coq/Pairs.v: the list of shared constructs (transcribed from the property)"]
ASSUMPTIONS = []


def run(ctx):
    r = p_c09._b(ctx, "c19", "c19")
    cov = dict(r["coverage"])
    cov.setdefault("evaluations", 0)
    cov.setdefault("distinct_nontrivial", 0)
    cov["rule"] = ("for each of the 46 listed pairs: sentences derived from either rule's object graph, one mutant each, fixed date / token "
                   "/ quoted-string / ext-value probes: parse_all acceptance of both rules must coincide; a difference is the known "
                   "finding only if it is a pure letter-case difference of an rfc2616 date rule (rfc7231 accepts the case-normalised string)")
    return {"coverage": cov, "violations": r["violations"]}
