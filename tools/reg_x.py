"""Registry / loader correspondence: the object graph the real library builds when its grammar modules are
imported vs the registry the Coq loader model (coq/Loader.v, coq/Registry.v, spec reader coq/AbnfRead.v) computes
from the TRANSLATED tables and texts.  Canonical form per rule object:
   "<class label>|<folded name>" -> {name, def (s-expression, references by label), excl, share}
where share = smallest label among the rules sharing the same definition OBJECT.

child mode (fresh interpreter):  reg_x.py --child mod1,mod2,...   prints the JSON dump
"""
from __future__ import annotations

import argparse
import importlib
import json
import os
import subprocess
import sys

DRIVER = os.path.join(os.path.dirname(os.path.abspath(__file__)), "..", "ocaml", "rundriver")


# ------------------------------------------------------------------ implementation side (child)
def impl_dump(mods):
    import abnf.parser as P
    for m in mods:
        importlib.import_module("abnf.grammars." + m)

    def label(c):
        if c is P.Rule:
            return "core"
        if c is P.ABNFGrammarRule:
            return "meta"
        return c.__module__.split(".")[-1] + "." + c.__name__

    rev = {}
    for (c, k), o in P.Rule._obj_map.items():
        rev[id(o)] = label(c) + "|" + k

    def sx(p):
        if isinstance(p, P.Rule):
            return ["ref", rev.get(id(p), "?unregistered:" + p.name)]
        if isinstance(p, P.Literal):
            v = p.value
            if isinstance(v, tuple):
                return ["range", ord(v[0]), ord(v[1])]
            return ["lit", 1 if p.case_sensitive else 0, [ord(ch) for ch in v]]
        if isinstance(p, P.Alternation):
            return ["alt", 1 if p.first_match else 0, [sx(x) for x in p.parsers]]
        if isinstance(p, P.Concatenation):
            return ["cat", [sx(x) for x in p.parsers]]
        if isinstance(p, P.Repetition):
            return ["rep", p.repeat.min, p.repeat.max, sx(p.element)]
        if isinstance(p, P.Option):
            return ["rep", 0, 1, sx(p.alternation)]
        if isinstance(p, P.Prose):
            return ["prose"]
        return ["unknown", type(p).__name__]

    out = {}
    groups = {}
    for (c, k), o in P.Rule._obj_map.items():
        lab = label(c) + "|" + k
        d = getattr(o, "definition", None)
        if d is not None:
            # a definition that is itself a Rule object (x = y) carries neither a flag nor a cache: sharing it
            # is unobservable, so every such rule is its own group
            groups.setdefault(id(o) if isinstance(d, P.Rule) else id(d), []).append(lab)
    for (c, k), o in P.Rule._obj_map.items():
        lab = label(c) + "|" + k
        d = getattr(o, "definition", None)
        ex = getattr(o, "exclude", None)
        out[lab] = {"name": o.name, "def": None if d is None else sx(d),
                    "excl": None if ex is None else rev.get(id(ex), "?"),
                    "share": None if d is None else min(groups[id(o) if isinstance(d, P.Rule) else id(d)]),
                    "flag": bool(o.first_match_alternation)}
    return out


# ------------------------------------------------------------------ model side
def parse_model_dump(text):
    lines = text.split("\n")
    classes = {0: "core", 1: "meta"}
    objs = []
    for ln in lines:
        t = ln.split(" ")
        if t[0] == "REG" and len(t) > 1 and t[1] == "NONE":
            return None
        if t[0] == "CLASS":
            dec = lambda s: "".join(chr(int(x)) for x in s.split(".")) if s else ""  # noqa: E731
            classes[int(t[1])] = dec(t[2]) + "." + dec(t[3])
        elif t[0] == "OBJ":
            dec = lambda s: "".join(chr(int(x)) for x in s.split(".")) if s else ""  # noqa: E731
            objs.append({"cls": int(t[2]), "key": dec(t[3]), "name": dec(t[4]), "did": int(t[5]), "excl": int(t[6]),
                         "toks": t[7:]})
    labels = [classes[o["cls"]] + "|" + o["key"] for o in objs]

    def rd(toks, pos):
        k = toks[pos]
        if k == "L":
            n = int(toks[pos + 2])
            return ["lit", int(toks[pos + 1]), [int(x) for x in toks[pos + 3:pos + 3 + n]]], pos + 3 + n
        if k == "R":
            return ["range", int(toks[pos + 1]), int(toks[pos + 2])], pos + 3
        if k == "A":
            fm, n = int(toks[pos + 1]), int(toks[pos + 2])
            p = pos + 3
            es = []
            for _ in range(n):
                e, p = rd(toks, p)
                es.append(e)
            return ["alt", fm, es], p
        if k == "C":
            n = int(toks[pos + 1])
            p = pos + 2
            es = []
            for _ in range(n):
                e, p = rd(toks, p)
                es.append(e)
            return ["cat", es], p
        if k == "P":
            mn, mx = int(toks[pos + 2]), int(toks[pos + 3])
            e, p = rd(toks, pos + 4)
            return ["rep", mn, None if mx < 0 else mx, e], p
        if k == "X":
            return ["prose"], pos + 1
        if k == "F":
            return ["ref", labels[int(toks[pos + 1])]], pos + 2
        raise ValueError(k)

    groups = {}
    dexprs = {}
    for o, lab in zip(objs, labels):
        if o["did"] >= 0:
            d, _ = rd(o["toks"], 0)
            dexprs[lab] = d
            gkey = ("own", lab) if d[0] == "ref" else ("did", o["did"])
            o["gkey"] = gkey
            groups.setdefault(gkey, []).append(lab)
    out = {}
    for o, lab in zip(objs, labels):
        d = dexprs.get(lab)
        out[lab] = {"name": o["name"], "def": d, "excl": None if o["excl"] < 0 else labels[o["excl"]],
                    "share": None if o["did"] < 0 else min(groups[o["gkey"]]),
                    "flag": bool(d is not None and d[0] == "alt" and d[1] == 1)}
    return out


def model_dump(cmd):
    p = subprocess.run([DRIVER], input=cmd + "\n", capture_output=True, text=True, check=False)
    if p.returncode != 0:
        raise RuntimeError("driver failed: " + p.stderr[-1000:])
    return parse_model_dump(p.stdout)


def child_dump(mods, env, order_seed=None):
    cmd = [sys.executable, os.path.abspath(__file__), "--child", ",".join(mods)]
    p = subprocess.run(cmd, capture_output=True, text=True, env=env, check=False)
    if p.returncode != 0:
        return {"__error__": p.stderr[-1500:]}
    return json.loads(p.stdout)


def diff(impl, model, only_prefix=None):
    """list of differences between two canonical dumps (restricted to labels starting with a prefix)"""
    out = []
    keys = sorted(set(impl) | set(model))
    for k in keys:
        if only_prefix is not None and not any(k.startswith(p) for p in only_prefix):
            continue
        a, b = impl.get(k), model.get(k)
        if a is None or b is None:
            out.append({"rule": k, "what": "present only in " + ("model" if a is None else "implementation")})
        elif a != b:
            fields = [f for f in ("name", "def", "excl", "share", "flag") if a.get(f) != b.get(f)]
            out.append({"rule": k, "what": "differs in " + ",".join(fields),
                        "implementation": {f: a.get(f) for f in fields}, "model": {f: b.get(f) for f in fields}})
    return out


if __name__ == "__main__":
    ap = argparse.ArgumentParser()
    ap.add_argument("--child", default=None)
    a = ap.parse_args()
    if a.child is not None:
        mods = [m for m in a.child.split(",") if m]
        json.dump(impl_dump(mods), sys.stdout)
