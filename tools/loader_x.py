"""Loader / registry correspondence (C04 compile, C10 isolation histories, C12 loader atomicity).
Runs under /venv/bin/python with PYTHONPATH=/repo/src.

A SCENARIO is a list of operations on grammar classes (integers >= 100); it is executed (a) on the real library,
(b) by the registry model with the independent spec reader (route 0), (c) by the registry model with the library
model = engine on the translated meta-grammar + visitor model (route 1).  Afterwards the three registries are
compared in canonical form.

usage: loader_x.py --mode c04|atomicity|c10 --seed S --n N --out FILE
       loader_x.py --child-scenario FILE      (fresh interpreter: runs one scenario, prints the dump)
"""
from __future__ import annotations

import argparse
import json
import os
import random
import subprocess
import sys
import tempfile
import time

sys.path.insert(0, os.path.dirname(os.path.abspath(__file__)))
import gen  # noqa: E402
import reg_x  # noqa: E402

DRIVER = os.path.join(os.path.dirname(os.path.abspath(__file__)), "..", "ocaml", "rundriver")


def stoks(s):
    return [str(len(s))] + [str(ord(c)) for c in s]


# ------------------------------------------------------------------ implementation side
PARENTS = {}     # class id -> parent class id (scenario-defined class hierarchies; default parent = abnf.parser.Rule)


def impl_run(scenario, probes=(), classes=None):
    """executes the scenario on the real library; returns (statuses, dump, probe results)"""
    import abnf.parser as P
    from abnf.grammars.misc import load_grammar_rulelist, load_grammar_rules
    import pyimpl
    classes = {} if classes is None else classes

    def cls_of(k):
        if k == 0:
            return P.Rule
        if k == 1:
            return P.ABNFGrammarRule
        if k not in classes:
            par = PARENTS.get(k, PARENTS.get(str(k)))
            classes[k] = type(f"C{k}", (cls_of(par) if par is not None else P.Rule,), {})
        return classes[k]

    status = []
    for op in scenario:
        try:
            kind = op[0]
            if kind == "create":
                cls_of(op[1]).create(op[2])
            elif kind == "create_at":
                cls_of(op[1]).create(op[2], op[3])
            elif kind == "load":
                cls_of(op[1]).load_grammar(op[3], strict=bool(op[2]))
            elif kind == "from_file":
                with tempfile.NamedTemporaryFile("w", suffix=".abnf", delete=False, newline="", encoding="ascii") as f:
                    f.write(op[2])
                    path = f.name
                try:
                    if op[3]:
                        import pathlib
                        cls_of(op[1]).from_file(pathlib.Path(path))
                    else:
                        cls_of(op[1]).from_file(path)
                finally:
                    os.unlink(path)
            elif kind == "deco_rules":
                base = cls_of(op[1])
                base.grammar = list(op[2])
                load_grammar_rules([(ln, cls_of(sc)(sn)) for ln, sc, sn in op[3]] or None)(base)
            elif kind == "deco_rulelist":
                base = cls_of(op[1])
                base.grammar = op[2]
                load_grammar_rulelist([(ln, cls_of(sc)(sn)) for ln, sc, sn in op[3]] or None)(base)
            elif kind == "import":
                cls_of(op[1])(op[2], cls_of(op[3])(op[4]).definition)
            elif kind == "flag":
                cls_of(op[1])(op[2]).first_match_alternation = bool(op[3])
            elif kind == "excl":
                cls_of(op[1])(op[2]).exclude_rule(cls_of(op[3])(op[4]))
            elif kind == "new":
                cls_of(op[1])(op[2])
            else:
                raise ValueError(kind)
            status.append("OK")
        except P.ParseError:
            status.append("PERR")
        except P.GrammarError:
            status.append("ERR")
        except RecursionError:
            status.append("REC")
        except Exception as e:  # noqa: BLE001
            status.append("OTHER:" + type(e).__name__)

    def label(c):
        if c is P.Rule:
            return "core"
        if c is P.ABNFGrammarRule:
            return "meta"
        for k, v in classes.items():
            if v is c:
                return f"c{k}"
        return "?" + c.__name__

    rev = {}
    for (c, k), o in P.Rule._obj_map.items():
        rev[id(o)] = label(c) + "|" + k

    def sx(p):
        if isinstance(p, P.Rule):
            return ["ref", rev.get(id(p), "?unregistered:" + p.name)]
        if isinstance(p, P.Literal):
            v = p.value
            if isinstance(v, tuple):
                return ["range", ord(v[0]), ord(v[1])]
            return ["lit", 1 if p.case_sensitive else 0, [ord(ch) for ch in v]]
        if isinstance(p, P.Alternation):
            return ["alt", 1 if p.first_match else 0, [sx(x) for x in p.parsers]]
        if isinstance(p, P.Concatenation):
            return ["cat", [sx(x) for x in p.parsers]]
        if isinstance(p, P.Repetition):
            return ["rep", p.repeat.min, p.repeat.max, sx(p.element)]
        if isinstance(p, P.Option):
            return ["rep", 0, 1, sx(p.alternation)]
        if isinstance(p, P.Prose):
            return ["prose"]
        return ["unknown", type(p).__name__]

    out = {}
    groups = {}
    items = [((c, k), o) for (c, k), o in P.Rule._obj_map.items() if not label(c).startswith("?")]
    for (c, k), o in items:
        d = getattr(o, "definition", None)
        if d is not None:
            groups.setdefault(id(o) if isinstance(d, P.Rule) else id(d), []).append(label(c) + "|" + k)
    for (c, k), o in items:
        lab = label(c) + "|" + k
        d = getattr(o, "definition", None)
        ex = getattr(o, "exclude", None)
        out[lab] = {"name": o.name, "def": None if d is None else sx(d),
                    "excl": None if ex is None else rev.get(id(ex), "?"),
                    "share": None if d is None else min(groups[id(o) if isinstance(d, P.Rule) else id(d)]),
                    "flag": bool(o.first_match_alternation)}
    pres = []
    for kind, c, name, s, i in probes:
        r = cls_of(c).get(name)
        if r is None:
            pres.append("NORULE")
        elif kind == 0:
            pres.append(pyimpl.run_lparse(r, s, i))
        elif kind == 1:
            pres.append(pyimpl.run_parse(r, s, i))
        else:
            pres.append(pyimpl.run_parse_all(r, s))
    return status, out, pres


# ------------------------------------------------------------------ model side
def model_lines(scenario, route, probes=()):
    lines = ["RRESET"]
    for op in scenario:
        k = op[0]
        if k == "create":
            lines.append(" ".join(["RCREATE", str(route), str(op[1])] + stoks(op[2])))
        elif k == "create_at":
            # Rule.create(text, start): the rule is read from offset start of the CRLF-completed text; by locality of the
            # engine (and of the spec reader) that is the text from that offset on
            t = op[2] if op[2][-2:] == "\r\n" else op[2] + "\r\n"
            lines.append(" ".join(["RCREATE", str(route), str(op[1])] + stoks(t[op[3]:])))
        elif k == "load":
            lines.append(" ".join(["RLOAD", str(route), str(op[1]), "1" if op[2] else "0"] + stoks(op[3])))
        elif k == "from_file":
            lines.append(" ".join(["RLOAD", str(route), str(op[1]), "1"] + stoks(op[2])))
        elif k == "deco_rules":
            for t in op[2]:
                lines.append(" ".join(["RCREATE", str(route), str(op[1])] + stoks(t)))
            for ln, sc, sn in op[3]:
                lines.append(" ".join(["RIMPORT", str(op[1])] + stoks(ln) + [str(sc)] + stoks(sn)))
        elif k == "deco_rulelist":
            lines.append(" ".join(["RLOAD", str(route), str(op[1]), "1"] + stoks(op[2])))
            for ln, sc, sn in op[3]:
                lines.append(" ".join(["RIMPORT", str(op[1])] + stoks(ln) + [str(sc)] + stoks(sn)))
        elif k == "import":
            lines.append(" ".join(["RIMPORT", str(op[1])] + stoks(op[2]) + [str(op[3])] + stoks(op[4])))
        elif k == "flag":
            lines.append(" ".join(["RFLAG", str(op[1])] + stoks(op[2]) + ["1" if op[3] else "0"]))
        elif k == "excl":
            lines.append(" ".join(["REXCL", str(op[1])] + stoks(op[2]) + [str(op[3])] + stoks(op[4])))
        elif k == "new":
            lines.append(" ".join(["RNEW", str(op[1])] + stoks(op[2])))
    for kind, c, name, s, i in probes:
        lines.append(" ".join(["RPARSE", str(kind), str(c)] + stoks(name) + [str(i)] + stoks(s)))
    lines.append("RDUMP")
    return lines


def split_model_output(text, scenario, nprobes):
    """-> (statuses aggregated per scenario op, dump dict, probe results)"""
    lines = text.split("\n")
    pos = 0
    st = []
    for op in scenario:
        n = 1
        if op[0] == "deco_rules":
            n = len(op[2]) + len(op[3])
        elif op[0] == "deco_rulelist":
            n = 1 + len(op[3])
        part = lines[pos:pos + n]
        pos += n
        tags = [p.split(" ")[1] if " " in p else p for p in part]
        bad = [t for t in tags if t != "OK" and not t.isdigit()]
        st.append(bad[0] if bad else "OK")
    pres = lines[pos:pos + nprobes]
    pos += nprobes
    dump = parse_dump("\n".join(lines[pos:]))
    return st, dump, pres


def parse_dump(text):
    d = reg_x.parse_model_dump(text)
    if d is None:
        return None
    out = {}
    # classes >= 100 are labelled by number in the model dump: reg_x labels them via CLASS lines (bundled);
    # harness classes have no CLASS line -> relabel
    return d


def relabel(dump):
    return dump


def run_driver(lines):
    p = subprocess.run([DRIVER], input="\n".join(lines) + "\n", capture_output=True, text=True, check=False)
    if p.returncode != 0:
        raise RuntimeError("driver failed: " + p.stderr[-1500:])
    return p.stdout


# the model labels classes through CLASS lines for bundled classes only; give reg_x a labelling hook
_orig_parse = reg_x.parse_model_dump


def parse_model_dump_with_harness_classes(text):
    lines = text.split("\n")
    seen = set()
    for ln in lines:
        t = ln.split(" ")
        if t[0] == "OBJ":
            seen.add(int(t[2]))
    extra = [f"CLASS {k} {'.'.join(str(ord(c)) for c in 'c' + str(k))} " for k in sorted(seen) if k >= 100]
    # CLASS line format is "CLASS n mod cls" and the label is mod + "." + cls ; we want the label "c<k>"
    text2 = "\n".join(extra + lines)
    d = _orig_parse(text2)
    if d is None:
        return None
    fixed = {}

    def fix(lab):
        return lab.replace(".|", "|") if lab else lab

    def fix_expr(e):
        if isinstance(e, list):
            if e and e[0] == "ref":
                return ["ref", fix(e[1])]
            return [fix_expr(x) for x in e]
        return e

    for k, v in d.items():
        fixed[fix(k)] = {"name": v["name"], "def": fix_expr(v["def"]), "excl": fix(v["excl"]), "share": fix(v["share"]),
                         "flag": v["flag"]}
    return fixed


reg_x.parse_model_dump = parse_model_dump_with_harness_classes


def ast_dump(rules, cls_label, core_names):
    """the registry content the generating ASTs denote, for the rules of one class (references to undefined
    names resolve to the class itself, core names to core)"""
    import pyimpl
    out = {}

    def fold(n):
        return n.lower()

    def conv(e):
        k = e[0]
        if k == "ref":
            f = fold(e[1])
            return ["ref", ("core|" if f in core_names and f not in {fold(r["name"]) for r in rules} else cls_label + "|") + f]
        if k == "lit":
            return ["lit", 1 if e[1] else 0, [ord(c) for c in e[2]]]
        if k == "range":
            return ["range", e[1], e[2]]
        if k == "alt":
            return ["alt", 0, [conv(x) for x in e[2]]]
        if k == "cat":
            return ["cat", [conv(x) for x in e[1]]]
        if k == "rep":
            return ["rep", e[1], e[2], conv(e[3])]
        if k == "opt":
            return ["rep", 0, 1, conv(e[1])]
        if k == "prose":
            return ["prose"]
        raise ValueError(e)

    for r in rules:
        out[cls_label + "|" + fold(r["name"])] = conv(r["def"])
    return out


CORE = {"alpha", "bit", "char", "cr", "crlf", "ctl", "digit", "dquote", "hexdig", "htab", "lf", "lwsp", "octet", "sp",
        "vchar", "wsp"}


# ------------------------------------------------------------------ C04 scenarios
def simplify_for_text(e):
    """normal form of an AST under 'what the text denotes': singleton alt/cat collapse, flags dropped"""
    k = e[0]
    if k == "alt":
        xs = [simplify_for_text(x) for x in e[2]]
        return xs[0] if len(xs) == 1 else ["alt", 0, xs]
    if k == "cat":
        xs = [simplify_for_text(x) for x in e[1]]
        return xs[0] if len(xs) == 1 else ["cat", xs]
    if k == "rep":
        return ["rep", e[1], e[2], simplify_for_text(e[3])]
    if k == "opt":
        return ["opt", simplify_for_text(e[1])]
    return e


def text_ok(e):
    k = e[0]
    if k == "lit":
        if all(0x20 <= ord(c) <= 0x7E and c != '"' for c in e[2]):
            return True
        return bool(e[1]) and e[2] != "" and all(ord(c) <= 0x10FFFF for c in e[2])
    if k == "range":
        return e[1] <= e[2]
    if k == "alt":
        return len(e[2]) >= 1 and all(text_ok(x) for x in e[2])
    if k == "cat":
        return len(e[1]) >= 1 and all(text_ok(x) for x in e[1])
    if k == "rep":
        return text_ok(e[3])
    if k == "opt":
        return text_ok(e[1])
    return k in ("ref", "prose")


def render_rule(rng, name, d, layout=True, incr=False):
    ws = lambda: rng.choice(["", " ", "  ", "\t"]) if layout else " "  # noqa: E731
    cws = lambda: rng.choice([" ", " ", "\t", " ; note\r\n ", "\r\n ", " ;\r\n\t"]) if layout else " "  # noqa: E731
    op = "=/" if incr else "="
    pre = cws() if layout and rng.random() < 0.3 else ws()
    post = cws() if layout and rng.random() < 0.3 else ws()
    tail = rng.choice(["", " ", " ; trailing comment", "\t;x"]) if layout else ""
    nm = "".join(c.upper() if layout and rng.random() < 0.3 else c for c in name)
    return nm + pre + op + post + gen.render_expr(rng, d, True, layout) + tail


def c04_scenario(seed, k):
    rng = random.Random(f"c04:{seed}:{k}")
    for _ in range(300):
        g = gen.gen_grammar(rng, max_rules=4)
        if all(text_ok(r["def"]) for r in g["rules"]):
            break
    rules = [{"name": r["name"], "def": simplify_for_text(r["def"])} for r in g["rules"]]
    # occasionally reference a core rule
    if rng.random() < 0.4:
        rules[0]["def"] = ["cat", [rules[0]["def"], ["ref", rng.choice(["DIGIT", "ALPHA", "wsp", "CrLf"])]]]
    layout = rng.random() < 0.8
    texts = [render_rule(rng, r["name"], r["def"], layout) for r in rules]
    route = rng.choice(["create", "load_strict_lf", "load_strict_crlf", "load_nonstrict", "from_file", "from_file_path",
                        "deco_rules", "deco_rulelist"])
    c = 100
    filler = lambda: rng.choice(["", "", "; a comment line\r\n", "\r\n", "   \r\n", " ; indented comment\r\n"]) if layout else ""  # noqa: E731
    if route == "create":
        sc = []
        for t in texts:
            if rng.random() < 0.3:
                # the documented start offset: junk (another rule, a comment, arbitrary text) before the rule
                pre = rng.choice(['; generated\r\n', 'zz = "q"\r\n', "x", "ab ", '"'])
                sc.append(["create_at", c, pre + t + rng.choice(["", "\r\n"]), len(pre)])
            else:
                sc.append(["create", c, t + rng.choice(["", "\r\n"])])
    elif route == "deco_rules":
        sc = [["deco_rules", c, texts, []]]
    else:
        body = "".join(filler() + t + "\r\n" for t in texts) + filler()
        if route == "load_strict_lf":
            sc = [["load", c, 1, body.replace("\r\n", "\n") + rng.choice(["", "\n\n", "  "])]]
        elif route == "load_strict_crlf":
            sc = [["load", c, 1, body]]
        elif route == "load_nonstrict":
            sc = [["load", c, 0, body]]
        elif route == "from_file":
            sc = [["from_file", c, body, 0]]
        elif route == "from_file_path":
            sc = [["from_file", c, body.replace("\r\n", "\n"), 1]]
        else:
            sc = [["deco_rulelist", c, body.replace("\r\n", "\n"), []]]
    # the class may sit below another grammar class on which create() was used before (nothing may leak down or up)
    parents = {}
    if rng.random() < 0.3:
        parents = {100: 102}
        # (the base class itself is only used in the fresh-interpreter histories of C10: here all scenarios share a process)
        sc = [["create", 102, 'greeting = "hello"'], ["create", 102, 'upper = "up"']] + sc
    # first-match flags through the public property after loading (only top-level alternations are affected)
    if rng.random() < 0.3:
        for r in rules:
            if rng.random() < 0.5:
                sc.append(["flag", c, r["name"], 1])
    # an incremental alternative now and then
    if rng.random() < 0.25:
        extra = ["lit", 0, "zz"]
        tgt = rng.choice(rules)
        sc.append(["create", c, render_rule(rng, tgt["name"], extra, layout, incr=True)])
        tgt["def"] = ["alt", 0, [tgt["def"], extra]]
    return {"seed": seed, "index": k, "route": route, "layout": layout, "rules": rules, "scenario": sc, "parents": parents,
            "flags": [op[2] for op in sc if op[0] == "flag"]}


def c04_fixed():
    """hand-picked texts (run once per check, by the shard whose seed is a multiple of 100)"""
    L = lambda cs, t: ["lit", cs, t]  # noqa: E731
    out = []

    def case(name, text, rules, route="load_strict_crlf"):
        sc = [["load", 100, 1, text]] if route != "create" else [["create", 100, t] for t in text]
        out.append({"seed": 0, "index": name, "route": route, "layout": False, "scenario": sc, "parents": {}, "flags": [],
                    "rules": [{"name": n, "def": d} for n, d in rules]})

    # the SAME digit string under different radix markers in one text (and in one rule), series and ranges included
    case("same-digits-other-radix",
         "n1 = %d65 %x65 %b1000001\r\nn2 = %x10 %d10 %b10\r\nn3 = %d30-39 / %x30-39\r\nn4 = %x41.42 %d41.42 %x41.42\r\nn5 = %b11 %d11 %x11 %b11\r\n",
         [("n1", ["cat", [L(1, "A"), L(1, "e"), L(1, "A")]]), ("n2", ["cat", [L(1, "\x10"), L(1, "\n"), L(1, "\x02")]]),
          ("n3", ["alt", 0, [["range", 30, 39], ["range", 0x30, 0x39]]]), ("n4", ["cat", [L(1, "AB"), L(1, ")*"), L(1, "AB")]]),
          ("n5", ["cat", [L(1, "\x03"), L(1, "\x0b"), L(1, "\x11"), L(1, "\x03")]])])
    case("same-digits-other-radix-create",
         ["m1 = %x65 %d65", "m2 = %d65 %x65", "m3 = %x7a-7A", ],
         [("m1", ["cat", [L(1, "e"), L(1, "A")]]), ("m2", ["cat", [L(1, "A"), L(1, "e")]]), ("m3", ["range", 0x7a, 0x7a])], route="create")
    # digit and marker case, leading zeros
    case("digit-case-leading-zeros", "h = %x6a %X6A %x006a %x0A.0a.00a %D048 %B00110000\r\n",
         [("h", ["cat", [L(1, "j"), L(1, "j"), L(1, "j"), L(1, "\n\n\n"), L(1, "0"), L(1, "0")]])])
    # alternatives that PRINT alike (str() of the parser objects) but are different parsers, and alternatives spelled twice: every one
    # of them is an alternative of the compiled rule, in the order written
    case("alternatives-that-print-alike",
         'p1 = %x0A / %s"\\x0a" / %x0A\r\np2 = "a" / %s"a" / %i"A" / "a"\r\np3 = %x41 / %s"A" / "A"\r\np4 = "ab" / "a" "b" / %x61.62 / ( "a" "b" )\r\n'
         'p5 = *a / 0*a / [a] / 0*1a / *a\r\na = "a"\r\np6 = a / A / <a> / a\r\n',
         [("p1", ["alt", 0, [L(1, "\n"), L(1, "\\x0a"), L(1, "\n")]]), ("p2", ["alt", 0, [L(0, "a"), L(1, "a"), L(0, "A"), L(0, "a")]]),
          ("p3", ["alt", 0, [L(1, "A"), L(1, "A"), L(0, "A")]]),
          ("p4", ["alt", 0, [L(0, "ab"), ["cat", [L(0, "a"), L(0, "b")]], L(1, "ab"), ["cat", [L(0, "a"), L(0, "b")]]]]),
          ("p5", ["alt", 0, [["rep", 0, None, ["ref", "a"]], ["rep", 0, None, ["ref", "a"]], ["opt", ["ref", "a"]], ["rep", 0, 1, ["ref", "a"]],
                             ["rep", 0, None, ["ref", "a"]]]]),
          ("a", L(0, "a")), ("p6", ["alt", 0, [["ref", "a"], ["ref", "A"], ["ref", "a"], ["ref", "a"]]])])
    # a rulelist of more than a thousand rules in ONE text, with comment lines, blank lines and continuation lines that begin with a tab
    # or with spaces (too large for the models: compiled structure vs the syntax the text was written from)
    big_lines, big_rules = [], []
    for k in range(1150):
        nm = f"big{k}"
        if k % 5 == 0:
            big_lines += [f'{nm} = "a{k}"', f'\t/ %d{65 + k % 26} big{(k + 1) % 1150}', f'    / 2*3"z" ; comment {k}']
            big_rules.append((nm, ["alt", 0, [L(0, f"a{k}"), ["cat", [L(1, chr(65 + k % 26)), ["ref", f"big{(k + 1) % 1150}"]]], ["rep", 2, 3, L(0, "z")]]]))
        elif k % 5 == 1:
            big_lines += [f'{nm} =', f'\t"b{k}" DIGIT', "; a comment line", ""]
            big_rules.append((nm, ["cat", [L(0, f"b{k}"), ["ref", "DIGIT"]]]))
        else:
            big_lines += [f'{nm} = %x{0x100 + k:X} [ big{(k + 7) % 1150} ]']
            big_rules.append((nm, ["cat", [L(1, chr(0x100 + k)), ["opt", ["ref", f"big{(k + 7) % 1150}"]]]]))
    case("more-than-a-thousand-rules", "\r\n".join(big_lines) + "\r\n", big_rules)
    out[-1]["impl_only"] = True
    # nested groups inside an alternation stay nested; =/ twice nests twice
    case("nested-groups-and-incremental",
         'g = "a" / ( "b" / "c" ) / "d"\r\ne = "a"\r\ne =/ "b"\r\ne =/ "c" / "d"\r\n',
         [("g", ["alt", 0, [L(0, "a"), ["alt", 0, [L(0, "b"), L(0, "c")]], L(0, "d")]]),
          ("e", ["alt", 0, [["alt", 0, [L(0, "a"), L(0, "b")]], ["alt", 0, [L(0, "c"), L(0, "d")]]]])])
    return out


def run_c04(cases):
    mism = []
    stats = {"routes": {}, "layout": 0, "rules": 0, "accepted": 0}
    lines0, lines1 = [], []
    impl_results = []
    for c in cases:
        PARENTS.clear()
        PARENTS.update({int(k): v for k, v in (c.get("parents") or {}).items()})
        st, dump, _ = impl_run(c["scenario"])
        PARENTS.clear()
        impl_results.append((st, dump))
        stats["routes"][c["route"]] = stats["routes"].get(c["route"], 0) + 1
        stats["layout"] += bool(c["layout"])
        stats["rules"] += len(c["rules"])
        # fresh classes for the next scenario: python side keeps old classes; relabel by using a new class id
    # the python registry is global: every scenario used class id 100 of ITS OWN fresh type object; dumps are taken
    # right after each scenario, so later scenarios do not disturb them (impl_run builds fresh type objects)
    outs0 = [run_driver(model_lines(c["scenario"], 0)) if not c.get("impl_only") else None for c in cases]
    outs1 = [run_driver(model_lines(c["scenario"], 1)) if not c.get("impl_only") else None for c in cases]
    for c, (st, dump), o0, o1 in zip(cases, impl_results, outs0, outs1):
        if c.get("impl_only"):
            st0, d0, st1, d1 = st, None, st, None          # too large for the models: the compiled structure vs the syntax it was written from
        else:
            st0, d0, _ = split_model_output(o0, c["scenario"], 0)
            st1, d1, _ = split_model_output(o1, c["scenario"], 0)
        want = ast_dump(c["rules"], "c100", CORE)
        def unflag(e):
            # first-match flags are configuration, not part of what the text denotes (they are compared against the
            # models below); a flagged alternation can sit below the top after a later "=/", so drop them at every depth
            if not isinstance(e, list):
                return e
            e = [unflag(x) for x in e]
            return (["alt", 0] + e[2:]) if e and e[0] == "alt" else e
        got = {k: unflag(v["def"]) for k, v in dump.items() if k.startswith("c100|") and v["def"] is not None}
        stats["accepted"] += all(s == "OK" for s in st)
        pref = ["c100|", "c102|", "core|", "meta|"]
        problems = []
        if any(s != "OK" for s in st):
            problems.append({"what": "implementation rejected a valid text", "status": st})
        if got != want:
            bad = sorted(set(got) ^ set(want)) or [k for k in want if got.get(k) != want[k]]
            problems.append({"what": "compiled structure differs from the abstract syntax the text was rendered from",
                             "rules": bad[:3], "implementation": {k: got.get(k) for k in bad[:3]},
                             "intended": {k: want.get(k) for k in bad[:3]}})
        if st0 != st or (d0 is not None and reg_x.diff(dump, d0, pref)):
            problems.append({"what": "implementation differs from the SPEC READER (what the text denotes)",
                             "status_impl": st, "status_spec": st0, "diff": reg_x.diff(dump, d0 or {}, pref)[:3]})
        if st1 != st or (d1 is not None and reg_x.diff(dump, d1, pref)):
            problems.append({"what": "implementation differs from the LIBRARY MODEL (engine on translated meta-grammar + visitor model)",
                             "status_impl": st, "status_model": st1, "diff": reg_x.diff(dump, d1 or {}, pref)[:3]})
        if problems:
            mism.append({"problems": problems, "case": c})
    return mism, stats


# ------------------------------------------------------------------ C12 atomicity
def atomicity_cases(seed, n):
    rng = random.Random(f"atom:{seed}")
    cases = []
    for k in range(n):
        c = c04_scenario(seed + 977, k)
        texts = [render_rule(rng, r["name"], r["def"], rng.random() < 0.5) for r in c["rules"]]
        body = "".join(t + "\r\n" for t in texts)
        pos = rng.randrange(len(body))
        ch = rng.choice(["@", "\x00", "\"", "(", ")", "[", "=", "%", "é", "\ud800", "\U0001F600", "", "\r", "\n", "*", "<"] +
                        # characters that Python's str methods treat as line boundaries or white space (splitlines, strip, isspace)
                        # but ABNF does not: VT FF FS GS RS US NEL LS PS NBSP, ideographic space, BOM, zero-width space, DEL
                        ["\x0b", "\x0c", "\x1c", "\x1d", "\x1e", "\x1f", "\x85", "\u2028", "\u2029", "\u00a0", "\u3000", "\ufeff", "\u200b", "\x7f"])
        kind = rng.choice(["replace", "insert", "delete", "linebreak", "linebreak"])
        if kind == "linebreak":
            # one line break of the text (between rules, before a continuation line, after a comment) becomes that character
            brks = [i for i in range(len(body) - 1) if body[i:i + 2] == "\r\n"]
            pos = rng.choice(brks)
            bad = body[:pos] + (ch or "\x0b") + body[pos + 2:]
        elif kind == "replace":
            bad = body[:pos] + ch + body[pos + 1:]
        elif kind == "insert":
            bad = body[:pos] + ch + body[pos:]
        else:
            bad = body[:pos] + body[pos + 1:]
        if rng.random() < 0.12:
            # syntactically fine, but a value beyond the last code point (the compile step refuses it with some exception): what
            # matters here is what the refused compile leaves behind for LATER compiles
            kind = "value-out-of-range"
            bad = body + rng.choice(["zz9 = %x41.110000\r\n", "zz9 = %x110000\r\n", "zz9 = %d65.1114112.66\r\n", "zz9 = %x41-110000\r\n",
                                     "zz9 = %b1000001.100010000000000000000\r\n"])
            pos = len(body)
        route = rng.choice(["load", "load_nonstrict", "create"])
        cases.append({"seed": seed, "index": k, "route": route, "text": bad, "valid_text": body, "pos": pos, "kind": kind})
    return cases


def run_atomicity(cases):
    """a corrupted text is either still valid ABNF (accepted, same as the spec reader says) or rejected with
    ParseError leaving the class untouched"""
    import abnf.parser as P
    mism = []
    stats = {"rejected": 0, "still_valid": 0, "routes": {}}
    lines = []
    plan = []
    REF = ('n1 = %d65.66 %x43-5A %b1000001 / %x20-21 / "q" %s"Q"\r\nn2 = 2*3n1 [ %d48-57 ] *( %x61.62.63 / <p> )\r\n'
           'n3 = %x0 %x10FFFF %d1114111 %xD800\r\n')

    def ref_graph():
        rc = type("Ref", (P.Rule,), {})
        rc.load_grammar(REF)
        return json.dumps([pyimpl.sexpr(rc(n).definition) for n in ("n1", "n2", "n3")])
    import pyimpl
    ref0 = ref_graph()
    import gc
    for c in cases:
        # the valid text is loaded first, as a string object of its own that is dropped again (an editor session: load, edit, load):
        # the corrupted text that follows often has the same length and can land where the valid one was
        if c["route"] != "create":
            try:
                v_ = "".join([ch for ch in c["valid_text"]])
                type("V", (P.Rule,), {}).load_grammar(v_, strict=(c["route"] == "load"))
            except Exception:  # noqa: BLE001
                pass
            addr_ = id(v_)
            v_ = None
            try:
                type("W", (P.Rule,), {}).load_grammar('unrelated = "w" ; a load in between\r\n')
            except Exception:  # noqa: BLE001
                pass
            gc.collect()
        else:
            addr_ = None
        cls = type("A", (P.Rule,), {})
        before = {k: (id(o), id(getattr(o, "definition", None))) for k, o in P.Rule._obj_map.items()}
        nbefore = len(P.Rule._obj_map)
        try:
            t_ = "".join([ch for ch in c["text"]])          # a fresh object, dropped right after the call
            if addr_ is not None and len(c["text"]) == len(c["valid_text"]):
                # same length as the valid text that was just let go: try to land on its address (what a long-running editor or
                # server process does all day), keeping the misfits alive meanwhile so that the allocator offers other blocks
                misfits_ = []
                for _ in range(4000):
                    if id(t_) == addr_:
                        stats["same_address_as_valid_text"] = stats.get("same_address_as_valid_text", 0) + 1
                        break
                    misfits_.append(t_)
                    t_ = "".join([ch for ch in c["text"]])
                misfits_ = None
            if c["route"] == "create":
                cls.create(t_)
            else:
                cls.load_grammar(t_, strict=(c["route"] == "load"))
            t_ = None
            st = "OK"
        except P.ParseError:
            st = "PERR"
        except RecursionError:
            st = "REC"
        except Exception as e:  # noqa: BLE001
            st = "OTHER:" + type(e).__name__
        after = {k: (id(o), id(getattr(o, "definition", None))) for k, o in P.Rule._obj_map.items()}
        changed = [str(k[1]) for k in after if k not in before or before[k] != after[k]]
        # whatever happened to this text, a fixed reference grammar compiled NOW must come out as it did at the start of the process
        try:
            now = ref_graph()
        except Exception as e:  # noqa: BLE001
            now = "EXC:" + type(e).__name__
        if now != ref0:
            mism.append({"what": f"after a load that ended with {st}, compiling a fixed reference grammar gives another result than before: {now[:200]} (was {ref0[:200]})",
                         "case": c})
            ref0 = now if not now.startswith("EXC") else ref0
        if c["route"] == "create":
            lines.append(" ".join(["RRESET"]))
            lines.append(" ".join(["RCREATE", "0", "100"] + stoks(c["text"])))
        else:
            lines.append("RRESET")
            lines.append(" ".join(["RLOAD", "0", "100", "1" if c["route"] == "load" else "0"] + stoks(c["text"])))
        plan.append((c, st, changed))
        stats["routes"][c["route"]] = stats["routes"].get(c["route"], 0) + 1
    outs = [x for x in run_driver(lines).split("\n") if x]
    for (c, st, changed), o in zip(plan, outs):
        spec = o.split(" ")[1]
        if spec == "OK":
            stats["still_valid"] += 1
        else:
            stats["rejected"] += 1
        if st == "REC":
            continue
        if spec != "OK":
            # not valid ABNF: must be ParseError and nothing defined
            if st != "PERR":
                if st.startswith("OTHER:ValueError") or st.startswith("OTHER:OverflowError"):
                    pass
                mism.append({"what": f"invalid text was not rejected with ParseError (got {st})", "case": c})
            elif changed:
                mism.append({"what": "rejected text left new or altered rules: " + ",".join(changed[:5]), "case": c})
        else:
            if st == "PERR":
                mism.append({"what": "valid ABNF text (per the spec reader) was rejected", "case": c})
    return mism, stats


# ------------------------------------------------------------------ C10 histories (each in a fresh interpreter)
def c10_scenario(seed, k):
    rng = random.Random(f"c10:{seed}:{k}")
    A, B = 100, 101
    names = ["a", "b", "A", "tok", "Tok"]
    shadow = rng.random() < 0.25       # the known defect: a subclass defines a core / meta name
    shared = rng.random() < 0.25       # B imports from A, then A changes
    hier = rng.choice([None, None, "B_under_A", "A_under_B", "sibling_under_C"])
    parents = {}
    if hier == "B_under_A":
        parents = {101: 100}
    elif hier == "A_under_B":
        parents = {100: 101}
    elif hier == "sibling_under_C":
        parents = {100: 102, 101: 102}
    sc = []
    if rng.random() < 0.3:
        # the README idiom on the BASE class first (a fresh, non-core name)
        sc.append(["create", 0, 'greeting = "hello"'])
    if hier == "sibling_under_C" and rng.random() < 0.7:
        sc.append(["create", 102, 'tok = "t"'])
        sc.append(["create", 102, 'a = "in-c"'])
    # class B first: a small grammar, probes are taken before and after A's history
    sc.append(["create", B, 'b = 1*DIGIT "-" tok'])
    sc.append(["create", B, 'tok = ALPHA *(ALPHA / DIGIT)'])
    if shared:
        sc.append(["create", A, 'shared = "s" inner'])
        sc.append(["create", A, 'inner = "i"'])
        sc.append(["import", B, "shared", A, "shared"])
    mark = len(sc)
    defined = {"shared", "inner"} if shared else set()
    for _ in range(rng.randint(1, 5)):
        nm = rng.choice(names)
        if shadow and rng.random() < 0.5:
            nm = rng.choice(["DIGIT", "alpha", "rulename", "WSP", "c-wsp", "element"])
        elif shared and rng.random() < 0.5:
            nm = rng.choice(["inner", "shared"])
        r = rng.random()
        txt = rng.choice(['"x"', '%x41-5A', '1*"y" / "z"', 'DIGIT DIGIT', '*( "a" / "b" )'])
        if r < 0.6 or (r < 0.75 and nm.lower() not in defined):
            sc.append(["create", A, f"{nm} = {txt}"])
            defined.add(nm.lower())
        elif r < 0.75:
            sc.append(["create", A, f"{nm} =/ {txt}"])
        elif r < 0.85:
            sc.append(["flag", A, nm, 1])
        elif r < 0.93:
            sc.append(["new", A, nm.swapcase()])
        else:
            sc.append(["excl", A, nm, A, rng.choice(names)])
    probes = [(2, B, "b", s, 0) for s in ["12-ab1", "1-x", "-x", "12-", "7-Q9"]] + \
             [(2, 0, "DIGIT", s, 0) for s in ["5", "x", "a"]] + [(2, 0, "ALPHA", s, 0) for s in ["5", "x"]] + \
             [(2, 1, "rule", s, 0) for s in ['a = "b"\r\n', "a = b c\r\n", "1 = b\r\n"]] + \
             ([(2, B, "shared", s, 0) for s in ["si", "sx", "s"]] if shared else [])
    return {"seed": seed, "index": k, "scenario": sc, "mark": mark, "probes": probes, "shadow": shadow, "shared": shared,
            "parents": parents}


def run_c10_case_in_child(c):
    """fresh interpreter: run prefix, snapshot B/core/meta + probes, run the rest, snapshot again"""
    code = r'''
import json, sys
sys.path.insert(0, %r)
import loader_x
c = json.load(open(sys.argv[1]))
sc, mark, probes = c["scenario"], c["mark"], [tuple(p) for p in c["probes"]]
loader_x.PARENTS.update({int(k): v for k, v in (c.get("parents") or {}).items()})
classes = {}
st1, d1, p1 = loader_x.impl_run_persistent(classes, sc[:mark], probes)
st2, d2, p2 = loader_x.impl_run_persistent(classes, sc[mark:], probes)
json.dump({"st1": st1, "d1": d1, "p1": p1, "st2": st2, "d2": d2, "p2": p2}, sys.stdout)
''' % os.path.dirname(os.path.abspath(__file__))
    with tempfile.NamedTemporaryFile("w", suffix=".json", delete=False) as f:
        json.dump(c, f)
        path = f.name
    try:
        p = subprocess.run([sys.executable, "-c", code, path], capture_output=True, text=True, check=False)
    finally:
        os.unlink(path)
    if p.returncode != 0:
        return {"error": p.stderr[-1500:]}
    return json.loads(p.stdout)


C10_FIXED = r'''
import json, os, sys, tempfile, pathlib
import abnf.parser as P
from abnf.grammars.misc import load_grammar_rules, load_grammar_rulelist
bad = []
def ok(rule, s):
    try:
        rule.parse_all(s); return True
    except P.ParseError:
        return False
def expect(name, cond):
    if not cond:
        bad.append(name)
which = sys.argv[1]
if which == "same-file-two-classes":
    # the same grammar file loaded into several grammar classes (str and Path spellings): each class gets its own rules
    A = type("A", (P.Rule,), {}); B = type("B", (P.Rule,), {}); C = type("C", (B,), {})
    with tempfile.NamedTemporaryFile("w", suffix=".abnf", delete=False, newline="", encoding="ascii") as f:
        f.write('greeting = "hi" DIGIT\r\nbye = "bye"\r\n'); path = f.name
    try:
        A.from_file(path); B.from_file(path); C.from_file(pathlib.Path(path)); A.from_file("./" + os.path.relpath(path))
    finally:
        os.unlink(path)
    for K in (A, B, C):
        expect(K.__name__ + " has its own greeting", K.get("greeting") is not None and hasattr(K("greeting"), "definition") and ok(K("greeting"), "hi5") and not ok(K("greeting"), "hi"))
    expect("distinct rule objects", len({id(A("greeting")), id(B("greeting")), id(C("greeting"))}) == 3)
    A.create('greeting = "x"')
    expect("B unaffected by A redefinition", ok(B("greeting"), "hi5") and ok(C("bye"), "bye") and ok(A("greeting"), "x"))
elif which == "get-with-default":
    # Rule.get(name, default) is a pure lookup: the default is handed back, never registered
    A = type("A", (P.Rule,), {}); B = type("B", (P.Rule,), {})
    A.create('token = "a"')
    r = B.get("token", A("token"))
    expect("default returned", r is A("token"))
    expect("get again finds nothing", B.get("token") is None and B.get("Token", None) is None)
    B.create('token = "b"')
    expect("A keeps its own token", ok(A("token"), "a") and not ok(A("token"), "b"))
    expect("B has its own token", ok(B("token"), "b") and not ok(B("token"), "a") and B("token") is not A("token"))
    expect("core lookup through get", B.get("DIGIT") is P.Rule("DIGIT") and B.get("digit", A("token")) is P.Rule("DIGIT"))
elif which == "import-under-core-name":
    # the decorators' imported_rules with a local name that, in some letter case, is a core rule name: the core rule is shared
    # by every grammar and must stay what RFC 5234 B.1 says
    A = type("A", (P.Rule,), {})
    A.create('token = "t"')
    before = {n: P.Rule(n).definition for n in ("DIGIT", "WSP", "ALPHA", "HEXDIG")}
    class D1(P.Rule):
        grammar = ['x = 1*digit wsp']
    class D2(P.Rule):
        grammar = 'y = 2Digit\n'
    load_grammar_rules([("Digit", A("token")), ("wsp", A("token")), ("hexdig", A("token"))])(D1)
    load_grammar_rulelist([("digit", A("token")), ("ALPHA", A("token"))])(D2)
    expect("core objects keep their definitions", all(P.Rule(n).definition is d for n, d in before.items()))
    expect("DIGIT", ok(P.Rule("DIGIT"), "5") and not ok(P.Rule("DIGIT"), "t"))
    expect("WSP", ok(P.Rule("WSP"), " ") and not ok(P.Rule("WSP"), "t"))
    expect("ALPHA / HEXDIG", ok(P.Rule("ALPHA"), "q") and ok(P.Rule("HEXDIG"), "f") and not ok(P.Rule("HEXDIG"), "t"))
    expect("the reader still reads repeats", ok(type("E", (P.Rule,), {}).create('z = 3*7"a"'), "aaaa"))
elif which == "non-ascii-names":
    # rule names given through the Python API: case-insensitive means str.casefold(), for every lookup path
    A = type("A", (P.Rule,), {})
    d = P.Literal("x")
    r = A("stra\u00dfe", d)
    expect("STRASSE finds strasse-with-sharp-s", A("STRASSE") is r and A.get("Strasse") is r and A.get("stra\u017f\u017fe") is r)
    expect("one rule listed", len([x for x in A.rules() if x.name.casefold() == "strasse"]) == 1)
    s2 = A("\u03a3\u03af\u03c3\u03c5\u03c6\u03bf\u03c2", d)
    expect("final sigma", A("\u03c3\u03af\u03c3\u03c5\u03c6\u03bf\u03c3") is s2)
    k = A("\u212aelvin", d)
    expect("kelvin sign", A("kelvin") is k and A.get("KELVIN") is k)
    expect("core through look-alike", A("\u017fP") is P.Rule("SP") and P.Rule("\u017fp") is P.Rule("SP") and hasattr(P.Rule("SP"), "definition"))
elif which == "class-machinery":
    # grammar classes under a user base class / mixin that overrides __init_subclass__ without calling super(), and under a metaclass:
    # still one namespace per class
    class Plugin:
        registry = []
        def __init_subclass__(cls, **kw):
            Plugin.registry.append(cls)          # the usual plugin-registry idiom: no super().__init_subclass__()
    class Base(Plugin, P.Rule):
        pass
    class G1(Base):
        pass
    class G2(Base):
        pass
    class G3(P.Rule, Plugin):
        pass
    class Meta(type(P.Rule)):
        pass
    G4 = Meta("G4", (P.Rule,), {})
    G1.create('item = "one"'); G2.create('item = "two"'); G3.create('item = "three"'); G4.create('item = "four"')
    for K, w in ((G1, "one"), (G2, "two"), (G3, "three"), (G4, "four")):
        expect(K.__name__ + " has its own item", ok(K("item"), w) and sum(ok(K("item"), x) for x in ("one", "two", "three", "four")) == 1)
    expect("distinct objects", len({id(K("item")) for K in (G1, G2, G3, G4)}) == 4)
    expect("base classes stay empty", Base.get("item") is None and P.Rule.get("item") is None)
    expect("listing", [r.name for r in G1.rules()] == ["item"] and [r.name for r in G2.rules()] == ["item"])
elif which == "grammar-attribute":
    # create() on a class that declares no `grammar`, then a decorator on ANOTHER class that declares none either: nothing travels
    # through the inherited class attribute
    A = type("A", (P.Rule,), {})
    A.create('secret = "s3cret"'); A.create('other = "o"')
    before = list(getattr(P.Rule, "grammar", []) or [])
    B = type("B", (P.Rule,), {})
    try:
        load_grammar_rules([("tok", A("other"))])(B)
    except Exception as e:
        bad.append("decorator on a class without grammar raised " + type(e).__name__)
    expect("B did not get A's rules", B.get("secret") is None)
    expect("base class attribute untouched", list(getattr(P.Rule, "grammar", []) or []) == before)
elif which == "incremental-then-import":
    # a rule built with "=" and two "=/" in class A, imported into class B (sharing the definition), extended there again: A is unaffected
    A = type("A", (P.Rule,), {}); B = type("B", (P.Rule,), {})
    A.create('x = "a"'); A.create('x =/ "b"'); A.create('x =/ "c"')
    B("x", A("x").definition)
    B.create('x =/ "d"'); B.create('x =/ "e"')
    expect("A unchanged", all(ok(A("x"), t) for t in "abc") and not ok(A("x"), "d") and not ok(A("x"), "e"))
    expect("B extended", all(ok(B("x"), t) for t in "abcde"))
json.dump(bad, sys.stdout)
'''


def run_c10_fixed():
    """hand-made histories, each in a fresh interpreter; the expectations are invariants of the unchanged library"""
    out = []
    for which in ("same-file-two-classes", "get-with-default", "import-under-core-name", "non-ascii-names", "class-machinery", "grammar-attribute",
                  "incremental-then-import"):
        p = subprocess.run([sys.executable, "-c", C10_FIXED, which], capture_output=True, text=True, check=False,
                           cwd=tempfile.gettempdir())
        if p.returncode != 0:
            out.append({"kind": "other", "what": f"fixed history {which}: " + p.stderr.strip().split("\n")[-1][:300], "case": {"scenario": [which], "fixed": True}})
            continue
        for b in json.loads(p.stdout):
            out.append({"kind": "other", "what": f"fixed history {which}: expectation failed: {b}", "case": {"scenario": [which, b], "fixed": True}})
    return out


def impl_run_persistent(classes, scenario, probes):
    """impl_run with a caller-owned class table (so that two calls share the classes)"""
    return impl_run(scenario, probes, classes)


def run_c10(cases):
    mism = []
    stats = {"scenarios": 0, "shadow_core_or_meta": 0, "import_sharing": 0, "ops": {}, "model_disagreements": 0}
    for c in cases:
        r = run_c10_case_in_child(c)
        if "error" in r:
            mism.append({"kind": "harness", "what": r["error"][-400:], "case": c})
            continue
        stats["scenarios"] += 1
        stats["shadow_core_or_meta"] += c["shadow"]
        stats["import_sharing"] += c["shared"]
        for op in c["scenario"][c["mark"]:]:
            stats["ops"][op[0]] = stats["ops"].get(op[0], 0) + 1
        # (1) isolation on the implementation: B, core, meta unchanged (registry snapshot and probe behaviour)
        pref = ["c101|", "c102|", "core|", "meta|"]
        strip = lambda dd: {k: {f: v[f] for f in ("name", "def", "excl", "flag")} for k, v in dd.items()}  # noqa: E731
        d = reg_x.diff(strip(r["d1"]), strip(r["d2"]), pref)
        pdiff = [(p, a, b) for p, a, b in zip(c["probes"], r["p1"], r["p2"]) if a != b]
        if d or pdiff:
            touched = sorted({x["rule"].split("|")[0] for x in d})
            hist = c["scenario"][c["mark"]:]
            defined_by_a = {op[2].split("=")[0].strip().lower() for op in hist if op[0] == "create"} | \
                           {op[2].lower() for op in hist if op[0] in ("flag", "excl")}
            imported = {op[2].lower() for op in c["scenario"] if op[0] == "import" and op[1] == 101 and op[3] == 100}
            if d and all(x["rule"].startswith("core|") and x["rule"].split("|")[1] in defined_by_a for x in d):
                kind = "shadow-base-class-name"     # known: a subclass (re)defined a name that resolves to a core rule
            elif not d and imported and all(p[1] == 101 and p[2].lower() in imported for p, _, _ in pdiff):
                kind = "import-sharing"             # known: B imported from A by sharing; A changed what the import refers to
            else:
                kind = "other"
            mism.append({"kind": kind, "what": f"history in class 100 changed {touched or 'behaviour'}: "
                         + json.dumps(d[:2])[:400] + " probes: " + json.dumps(pdiff[:2])[:300], "case": c})
        # (2) the registry model agrees with the implementation on the whole scenario
        # route 1: the library model reads ABNF with the meta rules of the CURRENT registry, so it follows the
        # library even after a history has overwritten core or meta rules
        out = run_driver(model_lines(c["scenario"], 1, [tuple(p) for p in c["probes"]]))
        stm, dm, pm = split_model_output(out, c["scenario"], len(c["probes"]))
        sti = r["st1"] + r["st2"]
        if any(x not in ("OK", "PERR") for x in sti):
            # an operation raised something else half-way (e.g. ValueError in the visitor after core rules were
            # overwritten): the library keeps partial effects the model does not track; isolation was still checked above
            stats["model_skipped_after_exception"] = stats.get("model_skipped_after_exception", 0) + 1
            continue
        if stm != sti:
            mism.append({"kind": "model", "what": f"statuses differ: implementation {sti} model {stm}", "case": c})
            continue
        full = reg_x.diff(r["d2"], dm or {}, ["c100|", "c101|", "c102|", "core|", "meta|"])
        norm = lambda xs: ["LOOP" if x in ("OOF", "REC") else x for x in xs]  # noqa: E731
        pm, r["p2"] = norm(pm), norm(r["p2"])
        if full or list(pm) != list(r["p2"]):
            stats["model_disagreements"] += 1
            mism.append({"kind": "model", "what": "registry model and implementation disagree after the history: "
                         + json.dumps(full[:2])[:500] + json.dumps([(a, b) for a, b in zip(pm, r["p2"]) if a != b][:2])[:300],
                         "case": c})
    return mism, stats


def main():
    ap = argparse.ArgumentParser()
    ap.add_argument("--mode", default=None)
    ap.add_argument("--seed", type=int, default=0)
    ap.add_argument("--n", type=int, default=50)
    ap.add_argument("--out", default=None)
    a = ap.parse_args()
    t0 = time.time()
    if a.mode == "c04":
        cases = (c04_fixed() if a.seed % 100 == 0 else []) + [c04_scenario(a.seed, k) for k in range(a.n)]
        mism, stats = run_c04(cases)
        samples = [{"route": c["route"], "scenario": c["scenario"], "intended": c["rules"]} for c in cases[:3]]
        viol = [{"what": m["problems"][0]["what"], "identity": "c04:" + json.dumps(m["case"]["scenario"])[:300],
                 "replay_payload": {"property": "C04", "problems": m["problems"], "case": m["case"]}} for m in mism]
        distinct = len({json.dumps(c["scenario"]) for c in cases})
    elif a.mode == "atomicity":
        cases = atomicity_cases(a.seed, a.n)
        mism, stats = run_atomicity(cases)
        samples = [{"route": c["route"], "text": c["text"]} for c in cases[:3]]
        viol = [{"what": m["what"], "identity": "atomicity:" + json.dumps([m["case"]["route"], m["case"]["text"]])[:300],
                 "replay_payload": {"property": "C12", "what": m["what"], "case": m["case"]}} for m in mism]
        distinct = len({c["text"] for c in cases})
    else:
        cases = [c10_scenario(a.seed, k) for k in range(a.n)]
        mism, stats = run_c10(cases)
        if a.seed % 100 == 0 or a.seed < 100:
            fx = run_c10_fixed()
            stats["fixed_histories"] = 7
            mism = fx + mism
        samples = [{"scenario": c["scenario"], "history_starts_at": c["mark"]} for c in cases[:3]]
        viol = [{"what": m["what"], "identity": m["kind"] if m["kind"] in ("shadow-base-class-name", "import-sharing")
                 else "c10:" + json.dumps(m["case"]["scenario"])[:300],
                 "replay_payload": {"property": "C10", "kind": m["kind"], "what": m["what"], "case": m["case"]}} for m in mism]
        distinct = len({json.dumps(c["scenario"]) for c in cases})
    json.dump({"coverage": {"evaluations": len(cases), "distinct_nontrivial": distinct, "samples": samples, "stats": stats},
               "violations": viol, "wall_s": time.time() - t0}, open(a.out, "w"))


if __name__ == "__main__":
    main()
