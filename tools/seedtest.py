"""seedtest.py — confirm a seeded change and run the checks against it.

usage: seedtest.py SRC_DIR NAME PROPERTY [--checks C01,C03] [--tier quick|thorough] [--skip-verify]
  SRC_DIR holds patch.diff, demo.py, notes.md (as delivered by a seeding agent)
  1. in a scratch worktree under /tmp: apply the patch, run the unedited test suite (must pass), run demo.py (must FAIL),
     revert, run demo.py (must PASS);
  2. apply the patch to /repo, run the checks, undo it straight afterwards (git checkout -- .);
  3. copy everything to /verif/seeded/NAME/ with meta.json (what it breaks, what it needs, what was run, which checks caught it).
"""
from __future__ import annotations

import argparse
import json
import os
import shutil
import subprocess
import sys
import time

VERIF = os.path.dirname(os.path.dirname(os.path.abspath(__file__)))
PY = "/venv/bin/python"


def sh(cmd, cwd=None, env=None, timeout=3000):
    p = subprocess.run(cmd, cwd=cwd, shell=True, capture_output=True, text=True, env=env, timeout=timeout, check=False)
    return p.returncode, p.stdout + p.stderr


def main():
    ap = argparse.ArgumentParser()
    ap.add_argument("src")
    ap.add_argument("name")
    ap.add_argument("prop")
    ap.add_argument("--checks", default=None)
    ap.add_argument("--tier", default="quick")
    ap.add_argument("--skip-verify", action="store_true")
    ap.add_argument("--verify-only", action="store_true")
    a = ap.parse_args()
    patch = os.path.abspath(os.path.join(a.src, "patch.diff"))
    demo = os.path.abspath(os.path.join(a.src, "demo.py"))
    meta = {"property": a.prop, "name": a.name, "ran": [], "verified": {}}
    if not a.skip_verify:
        wt = f"/tmp/seedverify_{a.name}"
        sh(f"git -C /repo worktree remove --force {wt}")
        rc, o = sh(f"git -C /repo worktree add --detach {wt} HEAD")
        try:
            env = dict(os.environ, PYTHONPATH=f"{wt}/src", PYTHONDONTWRITEBYTECODE="1")
            rc, o = sh(f"git apply {patch}", cwd=wt)
            meta["verified"]["applies"] = rc == 0
            if rc != 0:
                meta["verified"]["apply_error"] = o[-500:]
            rc, o = sh(f"{PY} -m pytest -q -p no:cacheprovider -x 2>&1 | tail -2", cwd=wt, env=env)
            meta["verified"]["suite_with_change"] = o.strip().split("\n")[-1]
            rc1, o1 = sh(f"{PY} {demo}", cwd=wt, env=env, timeout=600)
            meta["verified"]["demo_with_change_exit"] = rc1
            meta["verified"]["demo_with_change_tail"] = o1[-400:]
            sh("git checkout -- .", cwd=wt)
            rc2, o2 = sh(f"{PY} {demo}", cwd=wt, env=env, timeout=600)
            meta["verified"]["demo_without_change_exit"] = rc2
            meta["ran"] += ["pytest -q -x (with change)", "demo.py with change", "demo.py without change"]
        finally:
            sh(f"git -C /repo worktree remove --force {wt}")
        ok = (meta["verified"].get("applies") and "passed" in meta["verified"].get("suite_with_change", "")
              and "failed" not in meta["verified"].get("suite_with_change", "")
              and meta["verified"]["demo_with_change_exit"] != 0 and meta["verified"]["demo_without_change_exit"] == 0)
        meta["verified"]["confirmed"] = bool(ok)
    vfile = os.path.join(VERIF, "work", f"seedverify_{a.name}.json")
    if a.verify_only:
        os.makedirs(os.path.dirname(vfile), exist_ok=True)
        json.dump(meta["verified"], open(vfile, "w"))
        print(a.name, meta["verified"].get("confirmed"), meta["verified"].get("suite_with_change"))
        return
    if a.skip_verify and os.path.exists(vfile):
        meta["verified"] = json.load(open(vfile))
        meta["ran"] += ["pytest -q -x (with change)", "demo.py with change", "demo.py without change"]
    checks = (a.checks.split(",") if a.checks else [a.prop])
    results = {}
    rc, o = sh("git -C /repo status --porcelain")
    if o.strip():
        print("refusing: /repo has uncommitted changes")
        sys.exit(2)
    rc, o = sh(f"git -C /repo apply {patch}")
    try:
        if rc != 0:
            results["apply_error"] = o[-500:]
        else:
            for c in checks:
                t0 = time.time()
                rc, o = sh(f"{PY} {VERIF}/tools/check.py {c} --tier {a.tier}", cwd=VERIF, timeout=6000)
                lines = [ln for ln in o.split("\n") if ln.startswith(("VIOLATION", "KNOWN-FINDING", "OK "))]
                results[c] = {"exit": rc, "lines": [ln[:300] for ln in lines[:6]], "wall_s": round(time.time() - t0, 1)}
                meta["ran"].append(f"./check {c} --tier {a.tier} (patch applied to /repo)")
    finally:
        sh("git -C /repo checkout -- .")
    meta["checks"] = results
    meta["caught_by"] = sorted(c for c, r in results.items() if isinstance(r, dict) and r.get("exit") == 1
                               and any(ln.startswith("VIOLATION") for ln in r["lines"]))
    dst = os.path.join(VERIF, "seeded", a.name)
    os.makedirs(dst, exist_ok=True)
    for f in ("patch.diff", "demo.py", "notes.md"):
        if os.path.exists(os.path.join(a.src, f)):
            shutil.copy(os.path.join(a.src, f), os.path.join(dst, f))
    notes = open(os.path.join(a.src, "notes.md")).read() if os.path.exists(os.path.join(a.src, "notes.md")) else ""
    meta["needs_to_manifest"] = notes[:1500]
    json.dump(meta, open(os.path.join(dst, "meta.json"), "w"), indent=1)
    print(json.dumps({"name": a.name, "confirmed": meta["verified"].get("confirmed"), "caught_by": meta["caught_by"],
                      "checks": {k: (v.get("exit"), v.get("lines")[:2]) if isinstance(v, dict) else v for k, v in results.items()}}, indent=1)[:3000])


if __name__ == "__main__":
    main()
