"""C01 — matching conforms to RFC 5234/7405 semantics for every grammar and input."""
import engine_common as E

VFILES = ["props/C01.v"]
ASSUMPTIONS = ["the generated grammars are in the valid domain by construction (tools/gen.py wf); the theorem's hypothesis wf is a certificate check (WfCheck.v)"]
CLASSES = {"ends", "hang"}


def run(ctx):
    cov, viol = E.run_engine(ctx, "c01", ["plain"], 240, 6000, CLASSES, small=(False, 8, 0))
    fcov, fviol = E.fold_sweep(ctx)
    cov["fold_sweep"] = fcov
    return {"coverage": cov, "violations": viol + fviol}


def search(ctx):
    c2 = dict(ctx, tier="thorough", seed=ctx["seed"] + 7)
    return E.run_engine(c2, "c01s", ["plain"], 0, 3000, CLASSES)[1]
