"""Implementation side of the correspondence checks: build grammar objects in the real library,
dump the object graph the library built into the model's input format, run the real API and print
results in the canonical form the OCaml driver prints.  Must run under /venv/bin/python with
PYTHONPATH=/repo/src (set by tools/common.py); never imported by the translator."""
from __future__ import annotations

import sys

import abnf.parser as P
from abnf.parser import (Alternation, Concatenation, GrammarError, Literal, Option, ParseError,
                         Prose, Repeat, Repetition, Rule)

sys.setrecursionlimit(20000)


class SlowCase(Exception):
    """raised by time_limit: the library call ran longer than the harness allows (running time is a runtime
    effect, not semantics: the case is skipped, never reported)"""


class time_limit:
    def __init__(self, seconds):
        self.seconds = seconds

    def __enter__(self):
        import signal
        import threading
        self.active = threading.current_thread() is threading.main_thread()
        if self.active:
            def handler(signum, frame):
                raise SlowCase()
            self.old = signal.signal(signal.SIGALRM, handler)
            signal.setitimer(signal.ITIMER_REAL, self.seconds)
        return self

    def __exit__(self, *a):
        import signal
        if self.active:
            signal.setitimer(signal.ITIMER_REAL, 0)
            signal.signal(signal.SIGALRM, self.old)
        return False

_cls_counter = [0]


def fresh_class(base=Rule, name=None):
    _cls_counter[0] += 1
    # every grammar class is called "Rule", as in the bundled modules and in most user code: a class's NAME is not its identity
    return type(name or "Rule", (base,), {})


# ---------------------------------------------------------------- building from an AST
# AST: ["lit", cs, "text"] ["range", lo, hi] ["alt", fm, [e..]] ["cat", [e..]]
#      ["rep", mn, mx|None, e] ["opt", e] ["prose"] ["ref", name]
def build_expr(cls, a):
    k = a[0]
    if k == "lit":
        return Literal(a[2], bool(a[1]))
    if k == "range":
        return Literal((chr(a[1]), chr(a[2])))
    if k == "alt":
        return Alternation(*[build_expr(cls, x) for x in a[2]], first_match=bool(a[1]))
    if k == "cat":
        return Concatenation(*[build_expr(cls, x) for x in a[1]])
    if k == "rep":
        return Repetition(Repeat(a[1], a[2]), build_expr(cls, a[3]))
    if k == "opt":
        return Option(build_expr(cls, a[1]))
    if k == "prose":
        return Prose()
    if k == "ref":
        return cls(a[1])
    raise ValueError(a)


def build_grammar(g, cls=None):
    """g = {"rules": [{"name", "def", "excl"}]} -> (cls, {name: Rule})"""
    cls = cls or fresh_class()
    objs = {}
    order = g.get("define_order")
    if order and not g.get("via_text"):
        # rules defined in another order than listed, rule objects created only when first mentioned (a rule may be looked up, by a
        # reference inside another definition, long before it is defined)
        byname = {r["name"]: r for r in g["rules"]}
        for nm in order:
            r = byname[nm]
            if r.get("def") is not None and not r.get("alias_of"):
                cls(nm, build_expr(cls, r["def"]))
        for r in g["rules"]:
            objs[r["name"]] = cls(r["name"])
        for r in g["rules"]:
            if r.get("alias_of"):
                cls(r["name"], objs[r["alias_of"]].definition)
        for r in g["rules"]:
            if r.get("excl") is not None:
                objs[r["name"]].exclude_rule(cls(r["excl"]))
        for name, seq in (g.get("toggles") or {}).items():
            for v in seq:
                objs[name].first_match_alternation = bool(v)
        return cls, objs
    if g.get("via_text"):
        cls.load_grammar(g["via_text"])              # the library's own reader and compiler (nothing is looked up before it runs)
    for r in g["rules"]:
        objs[r["name"]] = cls(r["name"])
    if g.get("via_text"):
        pass
    else:
        for r in g["rules"]:
            if r.get("def") is not None and not r.get("alias_of"):
                cls(r["name"], build_expr(cls, r["def"]))
    for r in g["rules"]:
        if r.get("alias_of"):
            cls(r["name"], objs[r["alias_of"]].definition)      # shares the definition OBJECT, as misc.py's imports do
    for r in g["rules"]:
        if r.get("excl") is not None:
            objs[r["name"]].exclude_rule(cls(r["excl"]))
    # toggle sequences through the public property; the last value must be the one in force
    for name, seq in (g.get("early_toggles") or {}).items():
        for v in seq:
            objs[name].first_match_alternation = bool(v)
    if g.get("late_text"):
        cls.load_grammar(g["late_text"])            # "=/" lines that come AFTER a flag was set
    for name, seq in (g.get("toggles") or {}).items():
        for v in seq:
            objs[name].first_match_alternation = bool(v)
    return cls, objs


def ast_to_sexpr(a, final_flag=None):
    k = a[0]
    if k == "lit":
        return ["lit", 1 if a[1] else 0, [ord(c) for c in a[2]]]
    if k == "range":
        return ["range", a[1], a[2]]
    if k == "alt":
        fm = a[1] if final_flag is None else final_flag
        return ["alt", 1 if fm else 0, [ast_to_sexpr(x) for x in a[2]]]
    if k == "cat":
        return ["cat", [ast_to_sexpr(x) for x in a[1]]]
    if k == "rep":
        return ["rep", a[1], a[2], ast_to_sexpr(a[3])]
    if k == "opt":
        return ["opt", ast_to_sexpr(a[1])]
    if k == "prose":
        return ["prose"]
    if k == "ref":
        return ["ref", a[1].casefold()]
    raise ValueError(a)


def check_graph(g, objs):
    """the object graph (incl. flags after the toggles) is the one the AST denotes; returns complaints"""
    bad = []
    for r in g["rules"]:
        # a rule is NAMED as it was first written (the spelling that ends up in every node it produces)
        if getattr(objs[r["name"]], "name", None) != r["name"]:
            bad.append(f"rule {r['name']}: the rule object calls itself {getattr(objs[r['name']], 'name', None)!r}")
        d = r.get("def")
        if d is None:
            continue
        seq = (g.get("toggles") or {}).get(r["name"])
        want = ast_to_sexpr(d, final_flag=(seq[-1] if seq and d[0] == "alt" else None))
        got = sexpr(objs[r["name"]].definition)
        if want != got:
            bad.append(f"rule {r['name']}: graph {got} != intended {want}")
        flag = objs[r["name"]].first_match_alternation
        if bool(flag) != bool(want[1] if want[0] == "alt" else False):
            bad.append(f"rule {r['name']}: first_match_alternation reads {flag}")
    return bad


# ---------------------------------------------------------------- dumping the object graph
class Dump:
    """Numbers Rule objects and Repetition objects by identity, first visit first."""

    def __init__(self):
        self.rids = {}      # id(rule obj) -> rid
        self.rules = []     # rule objects in rid order
        self.reps = {}      # id(Repetition) -> cache id
        self.keep = []      # keep objects alive so ids stay unique
        self.todo = []

    def rid(self, rule):
        k = id(rule)
        if k not in self.rids:
            self.rids[k] = len(self.rules)
            self.rules.append(rule)
            self.todo.append(rule)
        return self.rids[k]

    def rep_id(self, rep):
        k = id(rep)
        if k not in self.reps:
            self.reps[k] = len(self.reps)
            self.keep.append(rep)
        return self.reps[k]

    def expr(self, p, out):
        if isinstance(p, Rule):
            out += ["F", str(self.rid(p))]
        elif isinstance(p, Literal):
            v = p.value
            if isinstance(v, tuple):
                if len(v[0]) != 1 or len(v[1]) != 1:
                    raise ValueError("range bound is not a single character")
                out += ["R", str(ord(v[0])), str(ord(v[1]))]
            else:
                out += ["L", "1" if p.case_sensitive else "0", str(len(v))] + [str(ord(c)) for c in v]
        elif isinstance(p, Alternation):
            out += ["A", "1" if p.first_match else "0", str(len(p.parsers))]
            for x in p.parsers:
                self.expr(x, out)
        elif isinstance(p, Concatenation):
            out += ["C", str(len(p.parsers))]
            for x in p.parsers:
                self.expr(x, out)
        elif isinstance(p, Repetition):
            mx = p.repeat.max
            out += ["P", str(self.rep_id(p)), str(p.repeat.min), str(-1 if mx is None else mx)]
            self.expr(p.element, out)
        elif isinstance(p, Option):
            self.expr(p.parser, out)
        elif isinstance(p, Prose):
            out += ["X"]
        else:
            raise ValueError(f"unknown parser object {type(p).__name__}")

    def grammar(self, roots):
        """returns the GRAMMAR command line for everything reachable from roots"""
        for r in roots:
            self.rid(r)
        recs = {}
        while self.todo:
            r = self.todo.pop()
            out = []
            name = r.name
            out += [str(len(name))] + [str(ord(c)) for c in name]
            d = getattr(r, "definition", None)
            if d is None:
                out += ["0"]
            else:
                out += ["1"]
                self.expr(d, out)
            ex = getattr(r, "exclude", None)
            out += [str(-1 if ex is None else self.rid(ex))]
            recs[self.rids[id(r)]] = out
        toks = ["GRAMMAR", str(len(recs))]
        for k in sorted(recs):
            toks += [str(k)] + recs[k]
        return " ".join(toks)


def sexpr(p, d=None, seen=None):
    """structure of a parser object as nested lists (for C04 comparisons); references by name"""
    if isinstance(p, Rule):
        return ["ref", p.name.casefold()]
    if isinstance(p, Literal):
        v = p.value
        if isinstance(v, tuple):
            return ["range", ord(v[0]), ord(v[1])] if len(v[0]) == 1 and len(v[1]) == 1 else ["badrange", v[0], v[1]]
        return ["lit", 1 if p.case_sensitive else 0, [ord(c) for c in v]]
    if isinstance(p, Alternation):
        return ["alt", 1 if p.first_match else 0, [sexpr(x) for x in p.parsers]]
    if isinstance(p, Concatenation):
        return ["cat", [sexpr(x) for x in p.parsers]]
    if isinstance(p, Repetition):
        return ["rep", p.repeat.min, p.repeat.max, sexpr(p.element)]
    if isinstance(p, Option):
        return ["opt", sexpr(p.alternation)]
    if isinstance(p, Prose):
        return ["prose"]
    return ["unknown", type(p).__name__]


# ---------------------------------------------------------------- canonical results
def cps(s):
    return ".".join(str(ord(c)) for c in s)


def canon_node(n):
    if isinstance(n, P.LiteralNode):
        return f"l({cps(n.value)}|{n.offset}|{n.length})"
    return f"n({cps(n.name)}:" + ",".join(canon_node(c) for c in n.children) + ")"


def canon_matches(ms):
    return "OK " + ";".join(f"{m.start}:" + ",".join(canon_node(n) for n in m.nodes) for m in ms)


def exc_name(e):
    if isinstance(e, SlowCase):
        raise e
    if isinstance(e, ParseError):
        return "PERR"
    if isinstance(e, GrammarError):
        return "GERR"
    if isinstance(e, RecursionError):
        return "REC"
    return "EXC:" + type(e).__name__


def run_lparse(parser, s, i):
    try:
        return canon_matches(list(parser.lparse(s, i)))
    except Exception as e:  # noqa: BLE001
        return exc_name(e)


def run_parse(rule, s, i):
    try:
        node, end = rule.parse(s, i)
        return f"OK {end}:{canon_node(node)}"
    except Exception as e:  # noqa: BLE001
        return exc_name(e)


def run_parse_all(rule, s):
    try:
        node = rule.parse_all(s)
        return f"OK {len(s)}:{canon_node(node)}"
    except Exception as e:  # noqa: BLE001
        return exc_name(e)


def str_tokens(s):
    return [str(len(s))] + [str(ord(c)) for c in s]


def audit_tree(node, source, start, end, rule_name):
    """model-independent structural audit of one returned tree (C03): returns a list of complaints"""
    bad = []
    if node.name != rule_name:
        bad.append(f"root is {node.name!r}, expected {rule_name!r}")
    pos = [start]

    def walk(n):
        if isinstance(n, P.LiteralNode):
            if n.offset != pos[0]:
                bad.append(f"leaf offset {n.offset} but previous leaf ended at {pos[0]}")
            if n.length != len(n.value):
                bad.append(f"leaf length {n.length} != len(text) {len(n.value)}")
            if source[n.offset:n.offset + n.length] != n.value:
                bad.append(f"leaf text {n.value!r} != source slice {source[n.offset:n.offset + n.length]!r}")
            pos[0] = n.offset + n.length
            return n.value
        v = "".join(walk(c) for c in n.children)
        if v != n.value:
            bad.append(f"node {n.name!r} value {n.value!r} != concatenation of children {v!r}")
        return v

    v = walk(node)
    if pos[0] != end:
        bad.append(f"leaves end at {pos[0]}, match end is {end}")
    if v != source[start:end]:
        bad.append(f"tree text {v!r} != source[{start}:{end}] {source[start:end]!r}")
    return bad
