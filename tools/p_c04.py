"""C04 — compiling ABNF text yields the parser the text denotes, whatever its layout."""
import json
import os
from concurrent.futures import ThreadPoolExecutor

import common as C

VFILES = ["props/C04.v"]
USES_TRANSLATOR = True
EXTRA_TRUST = ["coq/RenderSpec.v: the declarative rendering relation (what texts denote a given abstract syntax), 280 lines, quoted from RFC 5234 / 7405; coq/AbnfRead.v (spec reader) is proved to invert it and drops out of the trusted base of C04_every_rendering",
               "coq/Visitor.v, coq/Compile.v: model of the library's visitor and of create/load_grammar over the translated meta-grammar"]
ASSUMPTIONS = ["what texts denote a syntax is fixed by the rendering relation coq/RenderSpec.v (trusted specification); registries are assumed to still hold the boot rules (boot_ok: true initially, kept by definitions that do not clash with core names)"]


def run(ctx):
    n = 160 * ctx.get("boost", 1) if ctx["tier"] == "quick" else 4000
    shards = 8

    def one(k):
        out = os.path.join(C.WORK, f"l_c04_{k}.json")
        rc, so, se = C.sh([C.PY, os.path.join(C.VERIF, "tools", "loader_x.py"), "--mode", "c04", "--seed",
                           str(ctx["seed"] * 100 + k), "--n", str(n // shards), "--out", out], env=C.env_for_impl("0"), timeout=6000)
        return json.load(open(out)) if rc == 0 else {"error": (so + se)[-2000:]}

    with ThreadPoolExecutor(max_workers=shards) as ex:
        rs = list(ex.map(one, range(shards)))
    cov = {"evaluations": 0, "distinct_nontrivial": 0, "samples": [], "stats": {"routes": {}}}
    viol = []
    for r in rs:
        if "error" in r:
            viol.append({"what": "harness failed: " + r["error"][-400:], "identity": "harness-error", "replay_payload": r})
            continue
        c = r["coverage"]
        cov["evaluations"] += c["evaluations"]
        cov["distinct_nontrivial"] += c["distinct_nontrivial"]
        cov["samples"] += c["samples"][:1]
        for k, v in c["stats"].items():
            if isinstance(v, dict):
                for kk, vv in v.items():
                    cov["stats"]["routes"][kk] = cov["stats"]["routes"].get(kk, 0) + vv
            else:
                cov["stats"][k] = cov["stats"].get(k, 0) + v
        viol += r["violations"]
    # the bundled grammar texts: implementation (real import) vs loader model with the spec reader
    out = os.path.join(C.WORK, "c04_bundled.json")
    rc, so, se = C.sh([C.PY, os.path.join(C.VERIF, "tools", "bundled_x.py"), "--mode", "graph", "--out", out],
                      env=C.env_for_impl("0"), timeout=3000)
    if rc != 0:
        viol.append({"what": "bundled harness failed: " + (so + se)[-400:], "identity": "harness-error", "replay_payload": {"error": (so + se)[-2000:]}})
    else:
        b = json.load(open(out))
        cov["bundled"] = b["coverage"]
        viol += b["violations"]
    if ctx["tier"] == "thorough":
        # kernel-checked translation validation on the shipped texts (engine on the translated meta-grammar + visitor
        # model vs spec reader, evaluated by the kernel): ~17 min
        rc, so, se = C.sh("timeout 5400 coqc -Q . ABNF thorough/C04_bundled.v", cwd=C.COQ, timeout=5500)
        ok = rc == 0 and "Closed under the global context" in so
        cov["bundled_texts_kernel_checked"] = {"file": "coq/thorough/C04_bundled.v", "discharged": ok, "classes": 26}
        if not ok:
            viol.append({"what": "kernel-checked obligation 'library route = spec route on the bundled texts' no longer holds: " + (so + se)[-300:],
                         "identity": "c04-bundled-obligation", "no_input": True, "replay_payload": {"property": "C04", "no_longer_checks": "coq/thorough/C04_bundled.v", "output": (so + se)[-1500:]}})
    cov["samples"] = cov["samples"][:4]
    cov["rule"] = ("random abstract syntax (1-4 rules; all repeat forms; %b/%d/%x values, series, ranges; %s/%i strings; groups, "
                   "options, prose, references to core rules in random case; =/) rendered with random layout (comments, "
                   "continuation lines, tabs, blank/comment lines between rules, comments inside defined-as, radix and marker case) "
                   "and loaded through every route (create, load_grammar strict LF/CRLF, non-strict, from_file str/Path, both "
                   "decorators); the registry is compared (a) with the generating syntax, (b) with the spec reader + registry "
                   "model, (c) with the engine on the translated meta-grammar + visitor model; plus all bundled grammar classes: "
                   "real import vs loader model (texts translated from /repo, read by the spec reader)")
    return {"coverage": cov, "violations": viol}
