"""C13 — grammar changes take effect immediately, whatever was parsed before."""
import hist_common as H

VFILES = ["props/C13.v"]
ASSUMPTIONS = ["mutation by plain attribute assignment (rule.definition = ..., alternation.first_match = ...) bypasses the public API and is outside the property"]


def run(ctx):
    cov, viol = H.run_hist(ctx, "c13", 120, 3000)
    cov["rule"] = ("warm-up (every rule x every input x every offset, filling the caches) ; 1..3 public mutations (redefine via "
                   "create, =/, Rule(name, definition), first-match toggle, exclude_rule) ; the same probes again; each probe is "
                   "compared with the model run cold on the mutated object graph and with a twin class built directly in the "
                   "final state; stats.changed_answers counts probes whose answer differs from the warm-up answer (the mutation "
                   "mattered); distinct = distinct (grammar, mutations, probe)")
    return {"coverage": cov, "violations": viol}
