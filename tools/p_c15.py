"""C15 — the ABNF reader and the bundled ABNF-of-ABNF agree (self-description)."""
import p_c09

VFILES = ["props/C15.v"]
USES_TRANSLATOR = True
EXTRA_TRUST = p_c09.EXTRA_TRUST + ["coq/RfcSpec.v: RFC 5234 section 4 text (original char-val)"]
ASSUMPTIONS = []


def run(ctx):
    r = p_c09._b(ctx, "c15", "c15")
    cov = dict(r["coverage"])
    cov.setdefault("evaluations", 0)
    cov.setdefault("distinct_nontrivial", 0)
    cov["rule"] = ("strings = sentences derived from the rfc7405 and rfc5234 classes' object graphs for every rule, one mutant each, and "
                   "hand-picked %s/%i/prose fragments; parse_all acceptance of rfc7405.Rule(X) vs ABNFGrammarRule(X) for the 24 rules, and "
                   "of rfc5234.Rule(X) vs the engine model on the RFC 5234 text grammar for the 21 rules; non-trivial = accepted")
    return {"coverage": cov, "violations": r["violations"]}
