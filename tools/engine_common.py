"""Shared by the engine properties (C01 C02 C03 C07 C11 C12): run tools/engine_x.py in subprocesses
(one per mode x hash seed x shard), merge the results, turn relevant mismatches into violations."""
from __future__ import annotations

import json
import os
from concurrent.futures import ThreadPoolExecutor

import common as C


def _one(job):
    mode, hs, seed, n, tag, cases = job
    out = os.path.join(C.WORK, f"x_{tag}_{mode.replace(':', '-')}_{hs}_{seed}.json")
    cmd = [C.PY, os.path.join(C.VERIF, "tools", "engine_x.py"), "--seed", str(seed), "--n", str(n),
           "--mode", mode, "--out", out]
    if cases:
        cmd += ["--cases", cases]
    if tag.startswith("c07"):
        cmd += ["--churn"]
    if not cases and not mode.startswith("small"):
        # the hand-picked cases run in ONE job of their own (tag ..._fixed), to the end, not in every shard
        cmd += ["--fixed", "only" if tag.endswith("_fixed") else "none"]
    rc, so, se = C.sh(cmd, env=C.env_for_impl(hs), timeout=3000)
    if rc != 0:
        return {"error": (so + se)[-3000:], "job": [mode, hs, seed, n]}
    d = json.load(open(out))
    d["job"] = [mode, hs, seed, n]
    return d


def run_engine(ctx, tag, modes, n_quick, n_thorough, classes, hashseeds=("0",), shards=4, small=None):
    """returns (coverage, violations)"""
    thorough = ctx["tier"] == "thorough"
    n = n_thorough if thorough else n_quick * ctx.get("boost", 1)
    jobs = []
    corpus = os.path.join(C.VERIF, "corpus", "engine.json")
    if os.path.exists(corpus):
        jobs.append(("plain", hashseeds[0], 0, 0, tag + "_corpus", corpus))
    for hs in list(hashseeds)[:2]:
        for part in range(3):
            jobs.append(("plain", hs, part, 0, tag + "_fixed", None))
    for mode in modes:
        for hs in hashseeds:
            for k in range(shards):
                jobs.append((mode, hs, ctx["seed"] * 1000 + k, max(1, n // shards), tag, None))
    if small:
        # systematic enumeration of ALL small grammars (tools/engine_x.py small_cases) on all strings over {a,b} up to length 4
        flags, nsh, sample = small
        size = 4 if thorough else 3
        for k in range(nsh):
            if thorough:
                jobs.append((f"small:{1 if flags else 0}:{k}:{nsh}:{size}", hashseeds[0], ctx["seed"] + k, 2500, tag + "_small", None))
            else:
                jobs.append((f"small:{1 if flags else 0}:{k}:{nsh}:{size}", hashseeds[0], ctx["seed"] + k, sample, tag + "_small", None))
    with ThreadPoolExecutor(max_workers=14) as ex:
        results = list(ex.map(_one, jobs))
    cov = {"evaluations": 0, "distinct_nontrivial": 0, "samples": [], "impl_outcomes": {}, "ops": {},
           "input_len_hist": {}, "grammars": 0, "multi_end_calls": 0, "jobs": len(jobs),
           "hash_seeds": list(hashseeds), "modes": list(modes), "inconclusive": 0}
    violations = []
    errors = []
    for r in results:
        if "error" in r:
            errors.append(r)
            continue
        cov["evaluations"] += r["evaluations"]
        cov["distinct_nontrivial"] += r["distinct_nontrivial"]
        st = r["stats"]
        cov["grammars"] += st["grammars"]
        cov["multi_end_calls"] += st["multi_end"]
        for key in ("impl_outcomes", "ops", "input_len_hist"):
            for k, v in st[key].items():
                cov[key][k] = cov[key].get(k, 0) + v
        if len(cov["samples"]) < 4:
            cov["samples"] += r["samples"][:2]
        for m in r["mismatches"]:
            if "inconclusive" in m["classes"]:
                cov["inconclusive"] += 1
                continue
            if not (set(m["classes"]) & set(classes)):
                continue
            ident = f"{m['kind']}:{json.dumps(m['case']['grammar']['rules'], sort_keys=True)}:{m['rule']}:{m['s']!r}:{m['i']}"
            violations.append({
                "what": (f"{m['kind']} of rule {m['rule']!r} on {m['s']!r} at {m['i']}: implementation {(m['impl'] or '')[:200]} "
                         f"but the specification (proved model) gives {(m['model'] or '')[:200]}") if m["kind"] != "build" else
                        ("the object graph built by the library is not the one the grammar denotes: " + (m["impl"] or "")[:400]),
                "identity": ident,
                "replay_payload": {"property": ctx["pid"], "kind": m["kind"], "rule": m["rule"], "source": m["s"],
                                   "offset": m["i"], "observed_implementation": m["impl"],
                                   "expected_by_spec": m["model"], "classes": m["classes"],
                                   "hash_seed": r["job"][1], "case": m["case"],
                                   "how_to_replay": "tools/engine_x.py --cases <file with [case]> --out o.json under PYTHONPATH=/repo/src"}})
    for e in errors:
        violations.append({"what": "correspondence harness failed to run: " + e["error"][-500:],
                           "identity": "harness-error",
                           "replay_payload": {"property": ctx["pid"], "harness_error": e}})
    cov["rule"] = ("grammars from tools/gen.py (valid domain by construction: closed, min<=max, no left recursion "
                   "also through nullable prefixes) + fixed grammars (empty literal at end, look-alikes, nullable "
                   "bodies, bounds, *prose, right recursion, ranges); inputs = sentences derived from the grammar, "
                   "their mutants, random strings over its alphabet; every rule x every offset 0..|s|; "
                   "non-trivial = at least two distinct end offsets, or a rejection before the end of the input; "
                   "distinct = distinct (grammar, rule, input, offset)"
                   + ("; PLUS a systematic enumeration of every grammar with up to 3 (thorough: a sample of those with 4) operators "
                      "over {a,b} (literals \"\", a, b, ab, %s\"A\", range a-b, a helper rule; alternation, concatenation, option, "
                      "repetition with bounds 0*, 1*, 0*1, 2*2, 1*2, 0*0, 2*3, 0*2" + ("; first-match alternations; an exclusion" if small and small[0] else "")
                      + ") on ALL strings over {a,b} up to length 4 at every offset" if small else ""))
    return cov, violations


def fold_sweep(ctx):
    """exhaustive literal-folding correspondence over all 1 114 112 code points (tools/fold_x.py)"""
    out = os.path.join(C.WORK, f"fold_{ctx['pid']}.json")
    rc, so, se = C.sh([C.PY, os.path.join(C.VERIF, "tools", "fold_x.py"), "--out", out], env=C.env_for_impl("0"), timeout=3000)
    if rc != 0:
        return {"status": "harness error"}, [{"what": "fold sweep failed: " + (so + se)[-300:], "identity": "harness-error",
                                              "replay_payload": {"error": (so + se)[-2000:]}}]
    d = json.load(open(out))
    viol = [{"what": "literal case folding: " + json.dumps(m), "identity": "fold:" + json.dumps(m, sort_keys=True)[:200],
             "replay_payload": dict(m, property=ctx["pid"],
                                    note="Literal(chr(literal)) [case-insensitive] .lparse(chr(input), 0) vs coq/Base.v fold_cp")}
            for m in d["mismatches"]]
    return {"evaluations": d["evaluations"], "code_points": d["code_points"], "exhaustive": True, "wall_s": d["wall_s"]}, viol
