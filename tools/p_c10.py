"""C10 — grammars are isolated namespaces over shared, read-only core rules."""
import json
import os

import common as C

VFILES = ["props/C10.v"]
USES_TRANSLATOR = True     # the history theorems are instantiated on the boot registry computed from the translated tables
ASSUMPTIONS = ["rule names are ASCII, so str.casefold() is ASCII lower-casing",
               "PARTIAL: full isolation is false on the unchanged tree (C10_refuted; two known findings); what is proved is behavioural isolation along any history whose steps pass explicit guards (no core-name clash, flagged definitions private, exclusions outside the observed classes): C10_partial_history_behaviour; each guard is shown necessary"]


def run(ctx):
    out = os.path.join(C.WORK, "c10.json")
    n = 60 * ctx.get("boost", 1) if ctx["tier"] == "quick" else 1500
    rc, so, se = C.sh([C.PY, os.path.join(C.VERIF, "tools", "loader_x.py"), "--mode", "c10", "--seed", str(ctx["seed"]),
                       "--n", str(n), "--out", out], env=C.env_for_impl("0"), timeout=6000)
    if rc != 0:
        return {"coverage": {"evaluations": 0, "distinct_nontrivial": 0},
                "violations": [{"what": "harness failed: " + (so + se)[-400:], "identity": "harness-error",
                                "replay_payload": {"error": (so + se)[-2000:]}}]}
    d = json.load(open(out))
    cov = d["coverage"]
    cov["rule"] = ("each scenario runs in a FRESH interpreter: class B (101) gets a small grammar (optionally importing a rule from "
                   "class A (100)); registry snapshot of B, of the core rules and of the ABNF reader's rules + probe parses are "
                   "taken; then a random history in A (create / =/ / flag / exclusion / lookups in other letter case; 25% of the "
                   "scenarios use core-rule names, 25% redefine what B imported); snapshots and probes again; any change is a "
                   "violation, classified by evidence (known findings: a core-named definition rewrote the core rule; B imported "
                   "from A by sharing). In addition the whole final registry and all probes are compared with the registry model "
                   "(library route: engine on the current meta rules + visitor model)")
    return {"coverage": cov, "violations": d["violations"]}
