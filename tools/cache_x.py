"""C16 correspondence: the real ParseCache and the extracted Coq model (coq/Cache.v) run the same
operation sequences; after EVERY step the public observations (return value / KeyError, len(),
iteration order, hits, misses) of every live cache are compared.
Runs under /venv/bin/python with PYTHONPATH=/repo/src.

usage: cache_x.py --seed S --depth D --nrandom N --out FILE
"""
from __future__ import annotations

import argparse
import copy
import itertools
import json
import os
import pickle
import random
import subprocess
import sys
import time

from abnf.parser import ParseCache

DRIVER = os.path.join(os.path.dirname(os.path.abspath(__file__)), "..", "ocaml", "rundriver")


def key(k):
    return (f"s{k}", k)


class _Odd:
    """a value that is falsy and compares unequal to everything"""
    def __bool__(self):
        return False


# what is stored under value id v: every third value is FALSY (empty set / falsy object / empty list, dict, bytearray): a legal
# MatchSet can be empty, and a lookup must return whatever was stored
VALUES = {}
COPY_SAFE = [False]        # cases with deep copies / pickles identify values by content, so they only use values unlike any other


def val(v):
    if v not in VALUES:
        # v % 3 == 0: a falsy object; v % 3 == 1: a value EQUAL to every other value of this kind but a distinct object (a store
        # must store what it is given, identity included); otherwise a value unlike any other
        VALUES[v] = [set, _Odd, list, dict, bytearray][(v // 3) % 5]() if v % 3 == 0 else (["same"] if v % 3 == 1 and not COPY_SAFE[0] else ["v", v])
    return VALUES[v]


def unval(x):
    for k, y in VALUES.items():      # identity: every stored value is a distinct object
        if y is x:
            return k
    if isinstance(x, list) and len(x) == 2 and x[0] == "v":      # a deep copy / unpickled copy of a truthy value
        return x[1]
    return -999


LAZY = [False]


def observe(c, last=True):
    # len() and iteration are public operations that themselves drop stale entries; in LAZY cases only the counters are read
    # between steps (no side effect), so that a lookup really is the FIRST operation after a grammar change
    if LAZY[0] and not last:
        return f"?|?|{c.hits}|{c.misses}"
    return f"{len(c)}|{','.join(str(k[1]) for k in c)}|{c.hits}|{c.misses}"


def run_impl(dflt, args, ops):
    """ops: list of (cache index or None for global, op tuple); returns per cache the list of records"""
    saved = ParseCache.max_cache_size
    ParseCache.max_cache_size = dflt
    try:
        caches = [ParseCache(a) if a is not None else ParseCache() for a in args]
    finally:
        ParseCache.max_cache_size = saved
    out = [[] for _ in caches]
    for step_i, (tgt, op) in enumerate(ops):
        last = step_i == len(ops) - 1
        if op[0] == "copy":
            # a cache made WITHOUT the constructor (copy.deepcopy / pickle): it is a live cache like any other — same entries and
            # counters as its original at this point, listed by ParseCache.list(), emptied by clear_caches()
            src, how = op[1], op[2]
            new = copy.deepcopy(caches[src]) if how == 0 else pickle.loads(pickle.dumps(caches[src]))
            caches.append(new)
            out.append(["skip"] * len(out[0]))
            listed = any(x is new for x in ParseCache.list())
            for j, c in enumerate(caches):
                out[j].append(("-" if listed or j != len(caches) - 1 else "UNLISTED") + "|" + observe(c, last))
            continue
        ret = ["-"] * len(caches)
        try:
            if op[0] == "g":
                ret[tgt] = "v" + str(unval(caches[tgt][key(op[1])]))
            elif op[0] == "s":
                caches[tgt][key(op[1])] = val(op[2])
            elif op[0] == "d":
                del caches[tgt][key(op[1])]
            elif op[0] == "c":
                ParseCache.clear_caches()
            elif op[0] == "v":
                ParseCache.invalidate()
            elif op[0] == "m":
                caches[tgt].max_size = op[1]
        except KeyError:
            ret[tgt] = "KeyError"
        except Exception as e:  # noqa: BLE001
            ret[tgt] = "EXC:" + type(e).__name__
        for j, c in enumerate(caches):
            try:
                out[j].append(ret[j] + "|" + observe(c, last))
            except Exception as e:  # noqa: BLE001
                out[j].append("EXC:" + type(e).__name__)
    return [";".join(x) + ";" for x in out]


def model_line(dflt, arg, ops, j, copy_of=None):
    """copy_of = (src, step): cache j was made at that step as a copy of cache src; its history is src's up to there"""
    toks = ["CACHE", str(-1 if dflt is None else dflt), str(-1 if arg is None else arg), str(len(ops))]
    for i, (tgt, op) in enumerate(ops):
        own = j if (copy_of is None or i > copy_of[1]) else copy_of[0]
        if op[0] == "copy":
            toks.append("n")
        elif tgt is not None and tgt != own:
            toks.append("n")
        elif op[0] in ("g", "d"):
            toks += [op[0], str(op[1])]
        elif op[0] == "s":
            toks += ["s", str(op[1]), str(op[2])]
        elif op[0] == "m":
            toks += ["m", str(-1 if op[1] is None else op[1])]
        else:
            toks.append(op[0])
    return " ".join(toks)


def alphabet(nkeys, step):
    a = []
    for k in range(1, nkeys + 1):
        a += [("g", k), ("s", k, 100 + step), ("d", k)]
    a += [("c",), ("v",)]
    return a


def gen_exhaustive(depth, nkeys=3):
    for seq in itertools.product(range(3 * nkeys + 2), repeat=depth):
        yield [(0 if alphabet(nkeys, i)[x][0] not in "cv" else None, alphabet(nkeys, i)[x]) for i, x in enumerate(seq)]


def gen_random(rng, n, ncaches, nkeys=5, limits=(None, 0, 1, 2, 3, 4), truthy_only=False):
    ops = []
    for i in range(n):
        r = rng.random()
        k = rng.randint(1, nkeys)
        t = rng.randrange(ncaches)
        if r < 0.35:
            ops.append((t, ("s", k, 1000 + 3 * i + 1 if truthy_only else 1000 + i)))
        elif r < 0.75:
            ops.append((t, ("g", k)))
        elif r < 0.85:
            ops.append((t, ("d", k)))
        elif r < 0.90:
            ops.append((None, ("c",)))
        elif r < 0.95:
            ops.append((None, ("v",)))
        else:
            ops.append((t, ("m", rng.choice(list(limits)))))
    return ops


def main():
    ap = argparse.ArgumentParser()
    ap.add_argument("--seed", type=int, default=0)
    ap.add_argument("--depth", type=int, default=4)
    ap.add_argument("--nrandom", type=int, default=300)
    ap.add_argument("--out", required=True)
    a = ap.parse_args()
    t0 = time.time()
    rng = random.Random(a.seed)
    cases = []   # (dflt, args, ops, kind)
    for lim in (None, 1, 2, 3):
        for ops in gen_exhaustive(a.depth):
            cases.append((None, [lim], ops, "exhaustive"))
    for _ in range(a.nrandom):
        nc = rng.choice([1, 2, 3])
        dflt = rng.choice([None, None, 1, 2, 3])
        args = [rng.choice([None, None, 1, 2, 3, 4]) for _ in range(nc)]
        cases.append((dflt, args, gen_random(rng, rng.randint(5, 60), nc), "random"))
    # large limits: eviction must remove exactly ONE entry, the least recently used, also when the limit is 64, 100, 128 ...
    for _ in range(max(6, a.nrandom // 25)):
        lim = rng.choice([63, 64, 65, 96, 100, 128])
        ops = [(0, ("s", k, 5000 + k)) for k in range(1, lim + 1)]            # fill up to the limit
        ops += gen_random(rng, rng.randint(60, 160), 1, nkeys=lim + 40, limits=(lim, lim - 1, lim + 7, 64, 32))
        cases.append((None, [lim], ops, "large-limit"))
    # long runs of lookups with nothing else in between (no store, no len(), no iteration): the recency order after 64, 100, 300
    # hits is still the order of last use
    for _ in range(max(6, a.nrandom // 30)):
        lim = rng.choice([4, 5, 6])
        keys = list(range(1, lim + 1))
        ops = [(0, ("s", k, 7000 + 3 * k + 2)) for k in keys]
        ops.append((0, ("g", keys[0])))
        others = keys[2:]          # keys[1] is never looked up: it, not keys[0], is the least recently used entry at the overflow
        for i in range(rng.choice([63, 64, 65, 70, 130, 300])):
            ops.append((0, ("g", others[i % len(others)])))
        if rng.random() < 0.5:
            ops.append((0, ("g", keys[0])))
        ops.append((0, ("s", lim + 1, 7999)))          # overflow: the least recently USED entry goes
        ops.append((0, ("g", keys[0])))
        ops.append((0, ("g", others[0])))
        cases.append((None, [lim], ops, "hit-run"))
    # caches that were not made by the constructor
    copies = {}
    for _ in range(max(10, a.nrandom // 10)):
        nc = rng.choice([1, 2])
        args = [rng.choice([None, None, 2, 3, 4]) for _ in range(nc)]
        ops = gen_random(rng, rng.randint(8, 40), nc, truthy_only=True)
        t = rng.randint(1, len(ops) - 1)
        src = rng.randrange(nc)
        ops.insert(t, (None, ("copy", src, rng.randrange(2))))
        ops = [(tg if tg is not None or op[0] in "cv" or op[0] == "copy" else tg, op) for tg, op in ops]
        # after the copy, some operations go to the new cache (index nc)
        ops = ops[: t + 1] + [((nc if (tg is not None and rng.random() < 0.4) else tg), op) for tg, op in ops[t + 1:]]
        copies[len(cases)] = (src, t, args[src])
        cases.append((None, args, ops, "copied-cache"))
    lines, expect = [], []
    stats = {"ops": {}, "keyerrors": 0, "evictions_seen": 0, "cases": len(cases), "steps": 0, "large_limit_cases": 0, "copied_cache_cases": 0}
    for ci, (dflt, args, ops, kind) in enumerate(cases):
        LAZY[0] = kind in ("hit-run",) or (kind != "exhaustive" and ci % 2 == 1)
        COPY_SAFE[0] = kind == "copied-cache"
        stats["lazy_observation_cases"] = stats.get("lazy_observation_cases", 0) + LAZY[0]
        impl = run_impl(dflt, args, ops)
        stats["large_limit_cases"] += kind == "large-limit"
        stats["copied_cache_cases"] += kind == "copied-cache"
        if ci in copies:
            src, t, arg = copies[ci]
            j = len(args)
            lines.append(model_line(dflt, arg, ops, j, copy_of=(src, t)))
            expect.append((dflt, args, ops, (j, t), impl[j], kind))
        for _, op in ops:
            stats["ops"][op[0]] = stats["ops"].get(op[0], 0) + 1
        stats["steps"] += len(ops)
        for j, arg in enumerate(args):
            lines.append(model_line(dflt, arg, ops, j))
            expect.append((dflt, args, ops, j, impl[j], kind))
            stats["keyerrors"] += impl[j].count("KeyError")
    p = subprocess.run([DRIVER], input="\n".join(lines) + "\n", capture_output=True, text=True, check=False)
    if p.returncode != 0:
        raise RuntimeError("driver failed: " + p.stderr[-2000:])
    outs = p.stdout.split("\n")
    mism = []
    distinct = set()
    for (dflt, args, ops, j, impl, kind), model in zip(expect, outs):
        distinct.add(impl)
        a1, b1 = impl.split(";"), model.split(";")
        if isinstance(j, tuple):     # a copied cache exists from step t on only
            j, t0_ = j
            a1 = b1[:t0_] + a1[t0_:]
        # lazily observed steps carry "?" for the fields that were not read
        b1 = ["|".join(y if x != "?" else "?" for x, y in zip(sa.split("|"), sb.split("|"))) if sa.count("|") == sb.count("|") else sb
              for sa, sb in zip(a1, b1)] + b1[len(a1):]
        if a1 != b1:
            # first differing step
            step = next((i for i, (x, y) in enumerate(zip(a1, b1)) if x != y), min(len(a1), len(b1)))
            mism.append({"dflt": dflt, "args": args, "ops": ops[: step + 1], "cache": j, "step": step,
                         "impl": a1[step] if step < len(a1) else None,
                         "model": b1[step] if step < len(b1) else None, "kind": kind})
    json.dump({"stats": stats, "evaluations": len(expect), "distinct_nontrivial": len(distinct),
               "n_mismatches": len(mism), "mismatches": mism[:50],
               "samples": [{"dflt": e[0], "limits": e[1], "ops": e[2][:12], "cache": e[3], "observed": e[4][:300]}
                           for e in expect[:: max(1, len(expect) // 4)][:4]],
               "exhaustive_depth": a.depth, "wall_s": time.time() - t0}, open(a.out, "w"))


if __name__ == "__main__":
    main()
