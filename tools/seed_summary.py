"""writes /verif/seeded/SUMMARY.md from the meta.json files"""
import glob
import json
import os

rows = []
for f in sorted(glob.glob("/verif/seeded/*/meta.json")):
    m = json.load(open(f))
    d = os.path.dirname(f)
    patch = open(os.path.join(d, "patch.diff")).read()
    files = sorted({ln.split(" b/")[-1].strip() for ln in patch.split("\n") if ln.startswith("diff --git")})
    what = ""
    notes = m.get("needs_to_manifest", "")
    for ln in notes.split("\n"):
        if ln.strip() and not ln.startswith("#"):
            what = ln.strip()[:160]
            break
    rows.append((m["name"], m["property"], ", ".join(files), "yes" if m.get("verified", {}).get("confirmed") else "NO",
                 ", ".join(m.get("caught_by", [])) or "MISSED",
                 "; ".join(f"{k}: exit {v.get('exit')}" for k, v in m.get("checks", {}).items() if isinstance(v, dict)), what))
out = ["# Seeded changes (independent sub-agents; each confirmed in a scratch worktree: suite green, demo fails with / passes without)",
       "", "| change | property | files touched | confirmed | caught by | checks run | what |", "|---|---|---|---|---|---|---|"]
for r in rows:
    out.append("| " + " | ".join(x.replace("|", "\\|") for x in r) + " |")
out.append("")
out.append(f"{len(rows)} changes; caught: {sum(1 for r in rows if r[4] != 'MISSED')}; missed: {sum(1 for r in rows if r[4] == 'MISSED')}.")
open("/verif/seeded/SUMMARY.md", "w").write("\n".join(out) + "\n")
print(out[-1])
