"""History correspondence for C08 (caching invisible), C13 (mutations take effect), C17 (interleavings).
Runs under /venv/bin/python with PYTHONPATH=/repo/src.

C08: scripted histories over a generated grammar: requests (lparse/parse/parse_all on rule, source, offset) with
     repeats, ParseCache.clear_caches() at random points, limits None/1/2/3 set on live caches and through the class
     default; every answer AND the sequence of cache events (cache id, hit/miss/set, key) is compared with the
     model's cached engine program (EngineProg.run_traced), and with the cache-free model.
C13: warm-up; a public mutation (redefine via create, =/, flag toggle, exclusion); probes; compared with the model on
     the mutated object graph (cold) and with a twin class built directly in the final state.
C17: requests executed by threads that are pre-empted at EVERY cache operation under explicit schedules (all
     interleavings for small cases, random beyond), generator interleaving/abandonment, free-running stress; each
     completed request is compared with its sequential (cold) result.

usage: hist_x.py --mode c08|c13|c17 --seed S --n N --out FILE
"""
from __future__ import annotations

import argparse
import itertools
import json
import os
import random
import subprocess
import sys
import threading
import time

sys.path.insert(0, os.path.dirname(os.path.abspath(__file__)))
import gen  # noqa: E402
import pyimpl  # noqa: E402
import abnf.parser as P  # noqa: E402
from abnf.parser import ParseCache  # noqa: E402

DRIVER = os.path.join(os.path.dirname(os.path.abspath(__file__)), "..", "ocaml", "rundriver")


def driver(lines):
    p = subprocess.run([DRIVER], input="\n".join(lines) + "\n", capture_output=True, text=True, check=False)
    if p.returncode != 0:
        raise RuntimeError("driver failed: " + p.stderr[-1500:])
    return p.stdout.split("\n")


class Events:
    """records ParseCache get/set events of the caches of one dumped grammar"""

    def __init__(self, dump):
        self.ids = {id(rep.lparse_cache): cid for rep, cid in zip(dump.keep, range(len(dump.keep)))}
        self.log = []
        self.on = False
        self.source = None       # the source of the request in progress (for the key audit)
        self.bad_keys = []

    def audit(self, key):
        """the model's cache key is (source text, offset): the library's must be exactly that — a 2-tuple of the request's
        source (or, for an exclusion test, a piece of it) and an offset into it"""
        ok = (isinstance(key, tuple) and len(key) == 2 and isinstance(key[0], str) and isinstance(key[1], int)
              and not isinstance(key[1], bool) and 0 <= key[1] <= len(key[0]))
        if ok and self.source is not None:
            ok = key[0] == self.source or key[0] in self.source
        if not ok and len(self.bad_keys) < 5:
            self.bad_keys.append(repr(key)[:120])

    def install(self):
        ev = self
        og, os_ = ParseCache.__getitem__, ParseCache.__setitem__

        def gi(self, key):
            if ev.on and id(self) in ev.ids:
                ev.audit(key)
            try:
                v = og(self, key)
            except KeyError:
                if ev.on and id(self) in ev.ids:
                    ev.log.append(f"M{ev.ids[id(self)]},{key[1]},{pyimpl.cps(key[0])}")
                raise
            if ev.on and id(self) in ev.ids:
                ev.log.append(f"H{ev.ids[id(self)]},{key[1]},{pyimpl.cps(key[0])}")
            return v

        def si(self, key, value):
            if ev.on and id(self) in ev.ids:
                ev.audit(key)
                ev.log.append(f"S{ev.ids[id(self)]},{key[1]},{pyimpl.cps(key[0])}" + ("!" if isinstance(value, P.ParseError) else ""))
            return os_(self, key, value)

        ParseCache.__getitem__, ParseCache.__setitem__ = gi, si
        self.restore = lambda: (setattr(ParseCache, "__getitem__", og), setattr(ParseCache, "__setitem__", os_))


def req_impl(objs, kind, name, s, i):
    if kind == 0:
        return pyimpl.run_lparse(objs[name], s, i)
    if kind == 1:
        return pyimpl.run_parse(objs[name], s, i)
    return pyimpl.run_parse_all(objs[name], s)


# ------------------------------------------------------------------------------------------------ C08
def c08_case(seed, k):
    rng = random.Random(f"c08:{seed}:{k}")
    g = gen.gen_grammar(rng, flags=rng.random() < 0.3, excl=rng.random() < 0.2)
    inputs = gen.gen_inputs(rng, g, n_derived=3, n_mut=2, n_rand=2, maxlen=8)[:8]
    names = [r["name"] for r in g["rules"]]
    dflt = rng.choice([None, None, 1, 2, 3])
    ops = []
    reqs = []
    for _ in range(rng.randint(6, 40)):
        r = rng.random()
        if r < 0.72 or not reqs:
            if reqs and rng.random() < 0.4:
                q = rng.choice(reqs)          # repeat an earlier request: cache hits
            else:
                s = rng.choice(inputs)
                q = (rng.choice([0, 0, 1, 2]), rng.choice(names), s, rng.randint(0, len(s)))
            reqs.append(q)
            ops.append(("req",) + q)
        elif r < 0.82:
            ops.append(("clear",))
        elif r < 0.92:
            ops.append(("setmaxall", rng.choice([None, 1, 2, 3])))
        else:
            ops.append(("setmax", rng.randint(0, 5), rng.choice([None, 1, 2, 3])))
    return {"seed": seed, "index": k, "grammar": g, "dflt": dflt, "ops": ops}


def c08_fixed():
    """hand-picked histories (run by the shard with seed % 100 == 0)"""
    L = lambda cs, t: ["lit", cs, t]  # noqa: E731
    out = []
    # a request cut short by GrammarError (an undefined rule below an option), then the same request again and others: the
    # aborted computation must leave nothing in the caches that answers later requests
    g1 = {"rules": [{"name": "top", "def": ["alt", 0, [["cat", [["opt", ["ref", "missing"]], L(0, "b")]], L(0, "a")]], "excl": None},
                    {"name": "wrap", "def": ["rep", 0, 2, ["ref", "top"]], "excl": None},
                    {"name": "missing", "def": None, "excl": None}], "alpha": ["a", "b"]}
    out.append({"seed": 0, "index": "aborted-by-grammar-error", "grammar": g1, "dflt": None,
                "ops": [("req", 2, "top", "a", 0), ("req", 2, "top", "a", 0), ("req", 0, "top", "b", 0), ("req", 0, "top", "b", 0),
                        ("req", 0, "wrap", "ab", 0), ("req", 0, "wrap", "ab", 0), ("req", 1, "wrap", "aa", 0), ("req", 2, "top", "a", 0)]})
    # more than 256 match ends at one offset, the continuation only reachable after backing off by almost all of them; asked cold
    # and warm, under no limit and under limit 1
    vch = ["range", 0x21, 0x7E]
    g2 = {"rules": [{"name": "pair", "def": ["cat", [["ref", "key"], L(0, "="), ["ref", "value"]]], "excl": None},
                    {"name": "key", "def": ["rep", 1, None, vch], "excl": None},
                    {"name": "value", "def": ["rep", 0, None, vch], "excl": None}], "alpha": ["k", "=", "v"]}
    s2 = "k=" + "v" * 300
    for dflt in (None, 1):
        out.append({"seed": 0, "index": f"many-ends-warm-{dflt}", "grammar": g2, "dflt": dflt,
                    "ops": [("req", 1, "pair", s2, 0), ("req", 1, "pair", s2, 0), ("req", 2, "pair", s2, 0), ("req", 2, "pair", s2, 0),
                            ("req", 0, "key", s2, 0), ("req", 2, "pair", s2, 0)]})
    # sources longer than 4096 characters (too long for the model: compared with a cold twin; the key audit applies)
    g3 = {"rules": [{"name": "top", "def": ["cat", [["rep", 0, None, ["alt", 0, [L(0, "a"), L(0, "b")]]], L(0, "c")]], "excl": None}],
          "alpha": ["a", "b", "c"]}
    a1, a2, a3 = "ab" * 2100 + "c", "ba" * 2100 + "c", "ab" * 2100 + "d"
    out.append({"seed": 0, "index": "long-sources", "grammar": g3, "dflt": None, "impl_only": True,
                "ops": [("req", 2, "top", a1, 0), ("req", 2, "top", a2, 0), ("req", 2, "top", a3, 0), ("req", 2, "top", a1, 0),
                        ("req", 1, "top", a2, 0)]})
    return out


def sibling_grammars(seed, n):
    """two grammars with the SAME rule names (and the same class name, as in real code) but different definitions are built first;
    then requests alternate between them, no definition in between; every answer must be the one the grammar gives alone (a cold
    twin built afterwards).  Nothing may be shared between two grammar classes by name or by spelling."""
    rng = random.Random(f"sib:{seed}")
    mism, stats = [], {"sibling_pairs": 0, "sibling_requests": 0}
    for k in range(n):
        for _ in range(40):
            g1 = gen.gen_grammar(rng, max_rules=4)
            if len(g1["rules"]) >= 3:
                break
        else:
            continue
        names = [r["name"] for r in g1["rules"]]
        # the sibling has the same rules, spelled the same, except for ONE rule that is referenced from inside a repetition or
        # option of another rule: the repetition reads the same in both grammars and means something else
        host = rng.choice(names)
        guest = rng.choice([x for x in names if x != host] or names)
        wrap = ["cat", [["rep", rng.choice([0, 1]), None, ["ref", guest]], ["opt", ["ref", guest]]]]
        for r in g1["rules"]:
            if r["name"] == host:
                r["def"] = wrap if host != guest else r["def"]
        if not gen.wf(g1):
            continue
        for _ in range(50):
            g2 = json.loads(json.dumps(g1))
            for r in g2["rules"]:
                if r["name"] == guest:
                    r["def"] = gen.gen_expr(rng, rng.randint(1, 2), [x for x in names if x not in (host, guest)], g1["alpha"])
            if gen.wf(g2) and json.dumps(g2) != json.dumps(g1):
                break
        else:
            continue
        inputs = sorted(set(gen.gen_inputs(rng, g1, n_derived=3, n_mut=1, n_rand=1, maxlen=6)[:5] + gen.gen_inputs(rng, g2, n_derived=3, n_mut=1, n_rand=1, maxlen=6)[:5]))
        try:
            with pyimpl.time_limit(6.0):
                c1, o1 = pyimpl.build_grammar(g1)
                c2, o2 = pyimpl.build_grammar(g2)
                got = []
                for s in inputs:
                    for nm in names:
                        for i in range(len(s) + 1):
                            for kind in (0, 2):
                                got.append((1, kind, nm, s, i, req_impl(o1, kind, nm, s, i)))
                                got.append((2, kind, nm, s, i, req_impl(o2, kind, nm, s, i)))
                t1, p1 = pyimpl.build_grammar(g1)
                want1 = {(kind, nm, s, i): req_impl(p1, kind, nm, s, i) for w, kind, nm, s, i, _ in got if w == 1}
                t2, p2 = pyimpl.build_grammar(g2)
                want2 = {(kind, nm, s, i): req_impl(p2, kind, nm, s, i) for w, kind, nm, s, i, _ in got if w == 2}
        except pyimpl.SlowCase:
            continue
        stats["sibling_pairs"] += 1
        stats["sibling_requests"] += len(got)
        for w, kind, nm, s, i, r in got:
            want = (want1 if w == 1 else want2)[(kind, nm, s, i)]
            if r != want and "REC" not in (r, want):
                mism.append({"class": "result", "op": ["req", kind, nm, s, i], "which_grammar": w, "impl": r[:300], "grammar_alone": want[:300],
                             "what": "two grammar classes with the same rule names were alive at the same time and requests alternated between them",
                             "case": {"grammar": g1, "sibling": g2}})
                break
        if len(mism) >= 3:
            break
    return mism, stats


def long_source_churn(policy=None):
    if policy is None:
        a1, r1 = long_source_churn("release")
        a2, r2 = long_source_churn("sometimes-nothing")
        return a1 + a2, r1 + r2
    """long sources (4 201 characters) that really die between requests: each is a NEW string object of the same length with other
    content, parsed, dropped, the caches released (clear_caches, or squeezed to one entry) — then the next one; every answer vs a
    cold twin.  An answer remembered under the ADDRESS of a dead string shows here.  (The grammar looks at the first few characters
    only, so that the length costs nothing.)"""
    import gc
    out = []
    L = lambda t: ["lit", 0, t]  # noqa: E731
    g = {"rules": [{"name": "top", "def": ["cat", [["rep", 1, 3, ["alt", 0, [L("ab"), L("ba"), L("a")]]], ["rep", 0, None, L("b")], ["opt", L("c")]]], "excl": None},
                   {"name": "pre", "def": ["cat", [["opt", L("x")], ["rep", 0, 2, ["ref", "top"]]]], "excl": None}], "alpha": ["a", "b", "c"]}
    heads = ["abab", "baba", "abba", "aabb", "bbaa", "abbb", "babc", "aaab", "cabc", "abcb", "baab", "bbbb"]
    reqs = lambda s: ((1, "top", s, 0), (0, "pre", s, 0), (1, "top", s, 1), (0, "top", s, 2))  # noqa: E731

    def doc(h):
        return "".join([h, "ab" * 2100])[:4201]          # a new string object on every call, always 4 201 characters
    # reference answers first, on a grammar of its own, every reference source kept alive to the end (nothing is built, defined or
    # flagged after this point: that would mark every cache stale and hide what this scenario looks for)
    rcls, robjs = pyimpl.build_grammar(g)
    cls, objs = pyimpl.build_grammar(g)
    keep = [doc(h) for h in heads]
    want = {h: [req_impl(robjs, *q) for q in reqs(s_)] for h, s_ in zip(heads, keep)}
    runs = reused = 0
    last_addr = None
    for k, h in enumerate(heads):
        for attempt in range(25):
            s = doc(h)
            if last_addr is None or id(s) == last_addr or attempt == 24:
                break
            del s
        reused += last_addr is not None and id(s) == last_addr
        got = [req_impl(objs, *q) for q in reqs(s)]
        runs += len(got)
        for q, a_, b_ in zip(reqs(s), got, want[h]):
            if a_ != b_:
                out.append({"class": "result", "op": ["req", q[0], q[1], s[:12] + "...", q[3]], "source_length": len(s), "round": k,
                            "impl": a_[:200], "reference": b_[:200], "what": "a long source parsed after an earlier long source of the same length had been dropped "
                            "and the caches released", "case": {"grammar": g}})
                return out, runs
        last_addr = id(s)
        del s, q, got
        # between two sources: nothing at all (the caller just lets go of the string), or the caches released, or squeezed to one entry
        if policy == "release":
            if k % 3 == 2:
                for pc in ParseCache.list():
                    pc.max_size = 1
            else:
                ParseCache.clear_caches()
        elif k % 4 == 2:
            for pc in ParseCache.list():
                pc.max_size = 1
        elif k % 4 == 3:
            ParseCache.clear_caches()
            for pc in ParseCache.list():
                pc.max_size = None
        gc.collect()
    for pc in ParseCache.list():
        pc.max_size = None
    return out, runs * 1000 + reused


def aborted_by_recursion():
    """a request that runs out of interpreter stack half-way (RecursionError: a runtime limit, not an answer), then the SAME request
    again with enough stack: the second answer must be the one a fresh grammar gives — nothing computed or cached on the way to
    the RecursionError may survive as if it were a result.  Several stack depths, so that the error strikes at different places."""
    import sys
    out = []
    L = lambda t: ["lit", 0, t]  # noqa: E731
    g = {"rules": [{"name": "p", "def": ["cat", [L("("), ["rep", 0, None, ["alt", 0, [["ref", "p"], L("a")]]], L(")")]], "excl": None},
                   {"name": "w", "def": ["rep", 1, None, ["cat", [["opt", L(" ")], ["ref", "p"]]]], "excl": None},
                   # an exclusion whose own check is the deep part: item = anything bracketed EXCEPT a well-nested p
                   {"name": "item", "def": ["rep", 1, None, ["alt", 0, [L("("), L(")"), L("a")]]], "excl": "p"},
                   {"name": "items", "def": ["cat", [["ref", "item"], ["opt", L(";")]]], "excl": None}], "alpha": ["(", ")", "a"]}
    src = "(" * 30 + "a" + ")" * 30
    reqs = [(2, "p", src, 0), (0, "w", " " + src + src, 0), (1, "p", src + "x", 0), (2, "items", src + ";", 0), (2, "items", src[1:] + ";", 0)]
    cls0, objs0 = pyimpl.build_grammar(g)
    want = [req_impl(objs0, *q) for q in reqs]

    def deep(n, f):
        return deep(n - 1, f) if n > 0 else f()
    old = sys.getrecursionlimit()
    runs = 0
    hit = 0
    for limit in list(range(64, 200, 9)) + [230, 300]:
        for q in reqs:
            cls, objs = pyimpl.build_grammar(g)          # cold caches for every attempt: the stack runs out where it would for a first request
            sys.setrecursionlimit(limit)
            try:
                first = deep(40, lambda: req_impl(objs, *q))
            except RecursionError:
                first = "REC"
            finally:
                sys.setrecursionlimit(old)
            second = req_impl(objs, *q)
            runs += 1
            k = reqs.index(q)
            hit += first == "REC"
            if second != want[k] or (first not in ("REC", want[k]) and not first.startswith("EXC:RecursionError")):
                out.append({"class": "result", "op": ["req after an attempt that ended in RecursionError", q[0], q[1], q[2][:40], q[3]],
                            "recursion_limit_of_first_attempt": limit, "first_attempt": first[:200], "impl": second[:300], "cold_twin": want[k][:300],
                            "case": {"grammar": g}})
                return out, hit
    return out, hit


def run_c08(cases):
    lines, plan, stats = [], [], {"requests": 0, "hits": 0, "misses": 0, "sets": 0, "clears": 0, "limit_changes": 0,
                                  "err_sets": 0}
    extra_mism = []
    for c in cases:
        saved = ParseCache.max_cache_size
        ParseCache.max_cache_size = c["dflt"]
        try:
            cls, objs = pyimpl.build_grammar(c["grammar"])
        finally:
            ParseCache.max_cache_size = saved
        d = pyimpl.Dump()
        names = [r["name"] for r in c["grammar"]["rules"]]
        gline = d.grammar([objs[n] for n in names])
        impl_only = bool(c.get("impl_only"))
        if not impl_only:
            lines.append(gline)
            lines.append("HNEW " + str(-1 if c["dflt"] is None else c["dflt"]))
        ev = Events(d)
        ev.install()
        try:
            reps = d.keep
            for op in c["ops"]:
                if op[0] == "req":
                    _, kind, name, s, i = op
                    ev.log = []
                    ev.source = s
                    ev.on = True
                    try:
                        with pyimpl.time_limit(1.0 if isinstance(c["index"], int) else 60.0):
                            res = req_impl(objs, kind, name, s, i)
                    except pyimpl.SlowCase:
                        ev.on = False
                        stats["slow_cases"] = stats.get("slow_cases", 0) + 1
                        break
                    ev.on = False
                    if ev.bad_keys:
                        extra_mism.append({"class": "cache-key", "op": [op[0], kind, name, s[:60] + ("..." if len(s) > 60 else ""), i],
                                           "what": "a cache key is not (source text, offset): " + "; ".join(ev.bad_keys), "case": dict(c, ops=[])})
                        ev.bad_keys = []
                    if impl_only:
                        # too long for the model: the answer of the warm objects vs a cold twin built for this one request
                        tcls, tobjs = pyimpl.build_grammar(c["grammar"])
                        cold = req_impl(tobjs, kind, name, s, i)
                        stats["requests"] += 1
                        stats["impl_only_requests"] = stats.get("impl_only_requests", 0) + 1
                        if cold != res:
                            extra_mism.append({"class": "result", "op": [op[0], kind, name, s[:60] + "...", i], "impl": res[:300],
                                               "cold_twin": cold[:300], "case": dict(c, ops=[])})
                        continue
                    rid = d.rids[id(objs[name])]
                    lines.append(" ".join(["HREQ", str(kind), str(rid), str(i)] + pyimpl.str_tokens(s)))
                    plan.append((c, op, res + " # " + " ".join(ev.log)))
                    stats["requests"] += 1
                    for e in ev.log:
                        stats[{"H": "hits", "M": "misses", "S": "sets"}[e[0]]] += 1
                        stats["err_sets"] += e.endswith("!")
                elif op[0] == "clear":
                    ParseCache.clear_caches()
                    lines.append("HCLEAR")
                    stats["clears"] += 1
                elif op[0] == "setmaxall":
                    for rep in reps:
                        rep.lparse_cache.max_size = op[1]
                    lines.append("HSETMAXALL " + str(-1 if op[1] is None else op[1]))
                    stats["limit_changes"] += 1
                elif op[0] == "setmax":
                    if op[1] < len(reps):
                        reps[op[1]].lparse_cache.max_size = op[2]
                        lines.append(f"HSETMAX {op[1]} " + str(-1 if op[2] is None else op[2]))
                        stats["limit_changes"] += 1
        finally:
            ev.restore()
    outs = [x for x in driver(lines)]
    mism = list(extra_mism)
    distinct = set()
    stats["event_order_not_comparable"] = 0
    for (c, op, impl), model in zip(plan, outs):
        distinct.add(impl)
        if impl != model:
            ri, rm = impl.split(" # ")[0], model.split(" # ")[0]
            if ri == rm and lazy_sensitive(c["grammar"]):
                # results agree; only the ORDER of cache operations can differ here (see lazy_sensitive)
                stats["event_order_not_comparable"] += 1
                continue
            mism.append({"class": "result" if ri != rm else "events", "op": op, "impl": impl[:600], "model": model[:600],
                         "case": c})
    return plan, mism, stats, len(distinct)


def lazy_sensitive(g):
    """The library's Alternation.lparse is a lazy generator and Rule.lparse filters it through the exclusion test, so for a rule
    WITH an exclusion whose definition is an alternation of two or more alternatives (directly nested alternations included) the
    exclusion parse of the first alternative's matches runs BEFORE the later alternatives are tried; the model (EngineProg.ref_p)
    evaluates the whole alternation first.  Results are the same (the exclusion test is pure; C08_program_is_engine), the order of
    cache operations, and with a size limit the later hit/miss pattern, are not.  Every other consumer (Concatenation,
    Repetition, Rule.parse) drains the generator before doing anything else.  For such grammars the event traces are not
    compared; the results still are, for every request."""
    def alts(e):
        if e[0] == "alt":
            return sum(alts(x) for x in e[2])
        return 1
    return any(r.get("excl") is not None and r["def"][0] == "alt" and alts(r["def"]) >= 2 for r in g["rules"])


# ------------------------------------------------------------------------------------------------ C13
def render_rule(rng, name, d):
    return name + " = " + gen.render_expr(rng, d, True, False)


def renderable(e):
    k = e[0]
    if k == "lit":
        return all(0x20 <= ord(c) <= 0x7E and c != '"' for c in e[2]) or (e[1] and e[2] != "")
    if k == "range":
        return e[1] <= e[2]
    if k == "alt":
        return len(e[2]) >= 2 and not e[1] and all(renderable(x) for x in e[2])
    if k == "cat":
        return len(e[1]) >= 2 and all(renderable(x) for x in e[1])
    if k == "rep":
        return renderable(e[3])
    if k == "opt":
        return renderable(e[1])
    return k in ("ref",)


def c13_case(seed, k):
    rng = random.Random(f"c13:{seed}:{k}")
    for _ in range(100):
        g = gen.gen_grammar(rng, max_rules=4)
        if len(g["rules"]) >= 2 and any(r["def"][0] in ("rep", "opt", "cat", "alt") for r in g["rules"]):
            break
    names = [r["name"] for r in g["rules"]]
    # make sure some rule reaches another one THROUGH A REPETITION (that is where results are memoised)
    if len(names) >= 2 and rng.random() < 0.8:
        host, guest = rng.sample(range(len(names)), 2)
        wrapped = ["rep", rng.choice([0, 0, 1]), rng.choice([None, None, 3]), ["ref", names[guest]]]
        g["rules"][host]["def"] = rng.choice([wrapped, ["cat", [wrapped, g["rules"][host]["def"]]],
                                              ["cat", [g["rules"][host]["def"], wrapped]]])
        if not gen.wf(g):
            g["rules"][host]["def"] = wrapped
        if not gen.wf(g):
            return c13_case(seed, k + 100003)
    inputs = gen.gen_inputs(rng, g, n_derived=3, n_mut=2, n_rand=2, maxlen=8)[:8]
    referenced = sorted({x for r in g["rules"] for x in gen.refs_of(r["def"], set())})
    # ONE kind of mutation per case (each kind has its own invalidation site), rotating with the case index
    kind = ["redefine", "extend", "flag", "exclude", "construct", "mixed", "exclude2", "load_fail", "load_ok", "excluded-target", "shared-flag"][k % 11]
    muts = []
    if kind == "shared-flag":
        # two rules share ONE definition object (an import under another name); the first-match flag is switched through the one
        # that no request has gone through yet, the probes go through the other (and through rules above it)
        alts = [r for r in g["rules"] if r["def"][0] == "alt" and len(r["def"][2]) >= 2]
        if not alts:
            g["rules"][0]["def"] = ["alt", 0, [g["rules"][0]["def"], ["lit", 0, "zz"], ["lit", 0, "z"]]]
            alts = [g["rules"][0]]
        src = rng.choice(alts)
        x, y = rng.choice(g["alpha"]), rng.choice(g["alpha"])
        # alternatives where first-match and longest-match differ, tried first
        src["def"] = ["alt", 0, [["lit", 1, x], ["lit", 1, x + y]] + src["def"][2]]
        al = "Al" + str(len(g["rules"]))
        g["rules"].append({"name": al, "def": json.loads(json.dumps(src["def"])), "excl": None, "alias_of": src["name"]})
        # ... and a rule that reaches the alias through a repetition (that is where results are remembered)
        g["rules"].append({"name": "Host" + str(len(g["rules"])), "def": ["cat", [["rep", 1, None, ["ref", al]], ["opt", ["lit", 1, y]]]], "excl": None})
        if not gen.wf(g):
            return c13_case(seed, k + 100003)
        inputs = [x + y, x + y + y, x + x + y, x + y + x + y + y, x] + gen.gen_inputs(rng, g, n_derived=3, n_mut=2, n_rand=2, maxlen=8)[:5]
        warm = [r["name"] for r in g["rules"] if r["name"] != src["name"]]
        return {"seed": seed, "index": k, "grammar": g, "inputs": inputs, "muts": [["flag", src["name"], 1]], "clear_between": False,
                "warm_only": warm}
    if kind == "excluded-target" and len(names) >= 2:
        # an exclusion "host excludes guest" is in force from the start; the mutation then changes the EXCLUDED rule (or a rule
        # below it): every verdict "this text is / is not excluded" obtained during the warm-up is out of date afterwards
        host, guest = rng.sample(names, 2)
        for r in g["rules"]:
            if r["name"] == host:
                r["excl"] = guest
        for _ in range(50):
            nd = gen.gen_expr(rng, 2, names, g["alpha"])
            if renderable(nd):
                break
        else:
            nd = ["lit", 0, "a"]
        if rng.random() < 0.35 and len(names) >= 3:
            # the excluded rule is, at the time the exclusion is registered, a bare alias of a third rule; it is what changes later
            third = rng.choice([x for x in names if x not in (host, guest)])
            for r in g["rules"]:
                if r["name"] == guest:
                    r["def"] = ["ref", third]
            if not gen.wf(g):
                return c13_case(seed, k + 100003)
        muts.append([rng.choice(["redefine", "extend"]), guest, nd])
        inputs = gen.gen_inputs(rng, g, n_derived=3, n_mut=2, n_rand=2, maxlen=8)[:8]
        return {"seed": seed, "index": k, "grammar": g, "inputs": inputs, "muts": muts, "clear_between": rng.random() < 0.3,
                "warm_only": (rng.sample(names, max(1, len(names) // 2)) if rng.random() < 0.4 else None)}
    for _ in range(rng.randint(1, 2)):
        kd = rng.choice(["redefine", "extend", "flag", "exclude", "construct"]) if kind == "mixed" else kind
        tgt = rng.choice(referenced) if referenced and rng.random() < 0.7 else rng.choice(names)
        if kd in ("redefine", "extend", "construct"):
            for _ in range(50):
                nd = gen.gen_expr(rng, 2, names, g["alpha"])
                if renderable(nd):
                    break
            else:
                nd = ["lit", 0, "a"]
            muts.append([kd, tgt, nd])
        elif kd == "exclude2":
            # an exclusion is already in place BEFORE the warm-up (set up by run_c13 from "pre_excl"); the mutation
            # replaces it by a rule of the SAME NAME that lives in ANOTHER grammar class and accepts other strings
            other = rng.choice([n for n in names if n != tgt] or names)
            alt_def = ["alt", 0, [["lit", 0, "".join(rng.choice(g["alpha"]) for _ in range(rng.randint(1, 2)))],
                                  ["rep", 1, 2, ["lit", 0, rng.choice(g["alpha"])]]]]
            muts.append(["exclude2", tgt, other, alt_def])
            break
        elif kd in ("load_fail", "load_ok"):
            for _ in range(50):
                nd = gen.gen_expr(rng, 2, names, g["alpha"])
                if renderable(nd):
                    break
            else:
                nd = ["lit", 0, "a"]
            muts.append([kd, tgt, nd])
            break
        elif kd == "flag":
            alts = [r["name"] for r in g["rules"] if r["def"][0] == "alt"]
            if not alts:
                g["rules"][0]["def"] = ["alt", 0, [g["rules"][0]["def"], ["lit", 0, "zz"]]]
                alts = [g["rules"][0]["name"]]
            muts.append(["flag", rng.choice(alts), 1])
        else:
            other = rng.choice([n for n in names if n != tgt] or names)
            muts.append(["exclude", tgt, other])
    return {"seed": seed, "index": k, "grammar": g, "inputs": inputs, "muts": muts, "clear_between": rng.random() < 0.4}


PREBUILT = {}


def apply_mut(cls, objs, m, rng):
    kind = m[0]
    if kind == "exclude2":
        # the same-named rule of ANOTHER class was built before the warm-up (building a rule bumps the epoch)
        objs[m[1]].exclude_rule(PREBUILT[id(m)])
        return
    if kind in ("load_fail", "load_ok"):
        # a rulelist through load_grammar: first rule redefines the target; with load_fail a LATER rule raises in the
        # visitor (=/ on an undefined rule), after the first rule has been installed
        text = render_rule(rng, m[1], m[2]) + "\n" + ("zz-undefined =/ \"c\"\n" if kind == "load_fail" else "zz-extra = \"c\"\n")
        try:
            cls.load_grammar(text)
        except Exception:  # noqa: BLE001
            if kind != "load_fail":
                raise
        return
    if kind == "redefine":
        cls.create(render_rule(rng, m[1], m[2]))
    elif kind == "extend":
        cls.create(m[1] + " =/ " + gen.render_expr(rng, m[2], True, False))
    elif kind == "construct":
        cls(m[1], pyimpl.build_expr(cls, m[2]))
    elif kind == "flag":
        objs[m[1]].first_match_alternation = bool(m[2])
    elif kind == "exclude":
        objs[m[1]].exclude_rule(objs[m[2]])


def final_ast(g, muts):
    """the grammar in its final state, as an AST (for the twin)"""
    rules = {r["name"]: dict({"name": r["name"], "def": json.loads(json.dumps(r["def"])), "excl": r.get("excl")},
                             **({"alias_of": r["alias_of"]} if r.get("alias_of") else {})) for r in g["rules"]}
    for m in muts:
        r = rules[m[1]]
        if m[0] in ("redefine", "construct", "load_fail", "load_ok"):
            r["def"] = m[2]
        elif m[0] == "extend":
            r["def"] = ["alt", 0, [r["def"], m[2]]]
        elif m[0] == "flag":
            if r["def"][0] == "alt":
                r["def"][1] = m[2]
                for r2 in rules.values():
                    if r2.get("alias_of") == m[1] and r2["def"][0] == "alt":
                        r2["def"][1] = m[2]
        elif m[0] == "exclude":
            r["excl"] = m[2]
        elif m[0] == "exclude2":
            r["excl2"] = [m[2], m[3]]
    return {"rules": list(rules.values()), "alpha": g["alpha"]}


META_MUT = r'''
import json, sys
import abnf.parser as P
order = sys.argv[1]            # "warm-first": parse, change the rule, parse again;  "change-first": change the rule, parse
out = {}
def load_ok(text):
    K = type("K", (P.Rule,), {})
    try:
        K.load_grammar(text); return "OK:" + ",".join(sorted(r.name for r in K.rules()))
    except P.ParseError:
        return "ParseError"
    except Exception as e:
        return "EXC:" + type(e).__name__
def ends(rule, s):
    try:
        return sorted(m.start for m in rule.lparse(s, 0))
    except P.ParseError:
        return "ParseError"
T1 = 'my_rule = "a" other_rule\r\nother_rule = "b"\r\n'
T2 = 'r = "a" ; caf\u00e9\r\n'
L1 = " \x0b \r\n \x0b"
if order == "warm-first":
    out["pre"] = [load_ok(T1), load_ok(T2), ends(P.Rule("LWSP"), L1), ends(P.ABNFGrammarRule("comment"), "; caf\u00e9\r\n")]
# public-API changes of rules that sit below repetitions built when the library was imported
P.ABNFGrammarRule.create('rulename = ALPHA *( ALPHA / DIGIT / "-" / "_" )')
P.ABNFGrammarRule.create('comment = ";" *( WSP / VCHAR / %x80-10FFFF ) CRLF')
P.Rule.create('WSP = SP / HTAB / %x0B')
out["post"] = [load_ok(T1), load_ok(T2), ends(P.Rule("LWSP"), L1), ends(P.ABNFGrammarRule("comment"), "; caf\u00e9\r\n")]
json.dump(out, sys.stdout)
'''


def meta_mutation():
    """rules of the library's OWN grammars (the ABNF reader's rulename / comment, core WSP) changed through the public API: what was
    parsed before the change must not be remembered afterwards.  Two fresh interpreters: one parses, changes, parses again; the other
    changes first; their final answers must be the same."""
    res = {}
    for order in ("warm-first", "change-first"):
        p = subprocess.run([sys.executable, "-c", META_MUT, order], capture_output=True, text=True, check=False,
                           env=dict(os.environ, PYTHONHASHSEED="0"))
        if p.returncode != 0:
            return [{"class": "stale-or-wrong", "what": f"meta-rule mutation scenario ({order}) failed: " + p.stderr.strip().split("\n")[-1][:300], "case": {"scenario": "meta-mutation"}}]
        res[order] = json.loads(p.stdout)
    if res["warm-first"]["post"] != res["change-first"]["post"]:
        return [{"class": "stale-or-wrong", "what": "after the ABNF reader's rulename/comment rules and core WSP were changed through the public API, a process that "
                 "had parsed the probes BEFORE the change answers differently from one that had not",
                 "before_the_change": res["warm-first"].get("pre"), "parsed_before_then_changed": res["warm-first"]["post"], "changed_first": res["change-first"]["post"],
                 "case": {"scenario": "meta-mutation"}}]
    return []


def two_thread_mutation():
    """a long-lived thread parses, the grammar is changed, ANOTHER thread parses once, then the first thread asks again (bounded and
    unbounded caches): the change must reach every thread — staleness is a property of the cache, not of whoever looked first"""
    import threading
    out = []
    L = lambda t: ["lit", 0, t]  # noqa: E731
    scen = [({"rules": [{"name": "top", "def": ["rep", 1, None, ["ref", "item"]], "excl": None}, {"name": "item", "def": L("a"), "excl": None}], "alpha": ["a", "b"]},
             (1, "top", "aab", 0), 'item = "a" / "b"', ["alt", 0, [L("a"), L("b")]]),
            ({"rules": [{"name": "top", "def": ["cat", [["opt", ["ref", "item"]], L("c")]], "excl": None}, {"name": "item", "def": L("a"), "excl": None}], "alpha": ["a", "b", "c"]},
             (2, "top", "bc", 0), 'item = "b"', L("b"))]
    runs = 0
    for g, q, text, newdef in scen:
        fa = {"rules": [dict(r, **({"def": newdef} if r["name"] == "item" else {})) for r in g["rules"]], "alpha": g["alpha"]}
        tcls, tobjs = pyimpl.build_grammar(fa)
        want = req_impl(tobjs, *q)
        for limit in (None, 1, 2, 8):
            cls, objs = pyimpl.build_grammar(g)
            d = pyimpl.Dump()
            d.grammar([objs[r["name"]] for r in g["rules"]])
            for rep in d.keep:
                rep.lparse_cache.max_size = limit
            req_impl(objs, *q)                      # this (main) thread has parsed under the OLD grammar
            cls.create(text)                        # the change
            got = {}
            th = threading.Thread(target=lambda: got.setdefault("other", req_impl(objs, *q)))
            th.start()
            th.join()
            got["first"] = req_impl(objs, *q)       # ... and asks again after another thread has been there
            runs += 1
            for who in ("other", "first"):
                if got[who] != want:
                    out.append({"class": "stale-or-wrong", "what": f"after a grammar change, the {'other' if who == 'other' else 'long-lived first'} thread still gets the old answer "
                                f"(cache limit {limit})", "request": list(q), "mutation": text, "got": got[who][:200], "new_grammar_says": want[:200], "case": {"grammar": g}})
                    return out, runs
    return out, runs


def run_c13(cases):
    lines, plan, stats = [], [], {"mutations": {}, "probes": 0, "skipped": 0, "changed_answers": 0}
    for c in cases:
        g = c["grammar"]
        fa = final_ast(g, c["muts"])
        if not gen.wf(fa):
            stats["skipped"] += 1
            continue
        rng = random.Random(f"r:{c['seed']}:{c['index']}")
        try:
            # the twin (built directly in the final state) is built FIRST: constructing rules bumps the global cache
            # epoch, which would hide stale entries if it happened between the mutation and the probes
            tcls, tobjs = pyimpl.build_grammar(fa)
            for r in fa["rules"]:
                if r.get("excl2"):
                    oc = pyimpl.fresh_class()
                    oc(r["excl2"][0], pyimpl.build_expr(oc, r["excl2"][1]))
                    tobjs[r["name"]].exclude_rule(oc(r["excl2"][0]))
            cls, objs = pyimpl.build_grammar(g)
            for m in c["muts"]:
                if m[0] == "exclude2":
                    objs[m[1]].exclude_rule(objs[m[2]])     # the exclusion in force during the warm-up (same name, own class)
                    other_cls = pyimpl.fresh_class()
                    other_cls(m[2], pyimpl.build_expr(other_cls, m[3]))
                    PREBUILT[id(m)] = other_cls(m[2])
            names = [r["name"] for r in g["rules"]]
            before = {}
            with pyimpl.time_limit(5.0):
                for rnd in range(2 if c.get("clear_between") else 1):
                    if rnd == 1:
                        # the public "release the caches" call in the middle of the history, then the caches are filled again:
                        # the grammar change that follows must still make every one of them stale
                        ParseCache.clear_caches()
                        stats["clear_between"] = stats.get("clear_between", 0) + 1
                    for s in c["inputs"]:          # warm-up: fills the caches under the OLD grammar
                        for n in (c.get("warm_only") or names):
                            for i in range(len(s) + 1):
                                before[(n, s, i)] = pyimpl.run_lparse(objs[n], s, i)
            for m in c["muts"]:
                apply_mut(cls, objs, m, rng)
                stats["mutations"][m[0]] = stats["mutations"].get(m[0], 0) + 1
        except (RecursionError, pyimpl.SlowCase):
            stats["skipped"] += 1
            continue
        d = pyimpl.Dump()
        gl = d.grammar([objs[n] for n in names])
        rows = []
        try:
            with pyimpl.time_limit(8.0):
                for s in c["inputs"]:
                    st = pyimpl.str_tokens(s)
                    for n in names:
                        rid = d.rids[id(objs[n])]
                        for i in range(len(s) + 1):
                            impl = pyimpl.run_lparse(objs[n], s, i)     # nothing below may touch the registry before this
                            twin = pyimpl.run_lparse(tobjs[n], s, i)
                            rows.append((" ".join(["LPARSE", "0", str(rid), str(i)] + st), (c, n, s, i, impl, twin)))
        except pyimpl.SlowCase:
            stats["skipped"] += 1
            continue
        lines.append(gl)
        for ln, row in rows:
            lines.append(ln)
            plan.append(row)
            stats["probes"] += 1
            stats["changed_answers"] += row[4] != before.get((row[1], row[2], row[3]), row[4])
    outs = driver(lines) if lines else []
    mism = []
    distinct = set()
    for (c, n, s, i, impl, twin), model in zip(plan, outs):
        distinct.add((json.dumps(c["grammar"]["rules"]), json.dumps(c["muts"]), n, s, i))
        if model == "OOF" or impl == "REC":
            continue
        if impl != model or impl != twin:
            mism.append({"class": "stale-or-wrong", "rule": n, "s": s, "i": i, "impl_after_mutation": impl[:500],
                         "model_on_final_graph": model[:500], "twin_built_in_final_state": twin[:500], "case": c})
    return plan, mism, stats, len(distinct)


# ------------------------------------------------------------------------------------------------ C17
class Stepper:
    """runs requests in threads that stop before EVERY cache operation until the schedule grants a step"""

    def __init__(self, after=False):
        # after=True: a second stop right AFTER each cache operation has returned, before the caller touches the result (in the
        # model a returned value is immutable, so "after this operation" and "before the next one" coincide; in the library the
        # returned match set is the very object held by the cache)
        self.after = after
        self.local = threading.local()
        self.cv = threading.Condition()
        self.turn = None          # thread index allowed to perform ONE cache op
        self.waiting = set()
        self.done = set()

    def gate(self):
        t = getattr(self.local, "idx", None)
        if t is None:
            return
        with self.cv:
            self.waiting.add(t)
            self.cv.notify_all()
            while self.turn != t:
                self.cv.wait()
            self.turn = None
            self.waiting.discard(t)
            self.cv.notify_all()

    def install(self):
        st = self
        og, os_ = ParseCache.__getitem__, ParseCache.__setitem__
        # the code objects of the ORIGINAL ParseCache methods (taken before the two wrappers below replace __getitem__ and
        # __setitem__ in the class): line-level pre-emption applies inside these
        self.cache_codes = {f.__code__ for f in vars(ParseCache).values() if hasattr(f, "__code__")}

        def gi(self, key):
            st.gate()
            try:
                return og(self, key)
            finally:
                if st.after:
                    st.gate()

        def si(self, key, value):
            st.gate()
            try:
                return os_(self, key, value)
            finally:
                if st.after:
                    st.gate()

        ParseCache.__getitem__, ParseCache.__setitem__ = gi, si
        self.restore = lambda: (setattr(ParseCache, "__getitem__", og), setattr(ParseCache, "__setitem__", os_))

    def run(self, thunks, schedule, line_level=False):
        """schedule: list of thread indices; a thread not scheduled again is released at the end.
        line_level: additionally stop before every LINE executed inside a ParseCache method (pre-emption inside
        __getitem__/__setitem__/_drop_stale, below the granularity the model covers)"""
        results = [None] * len(thunks)
        cache_codes = self.cache_codes
        st = self

        parser_file = P.__file__

        def tracer(frame, event, arg):
            if frame.f_code in cache_codes or (line_level == "all" and frame.f_code.co_filename == parser_file):
                def local(frame, event, arg):
                    if event == "line":
                        st.gate()
                    return local
                return local
            return None

        def worker(k):
            self.local.idx = k
            if line_level:
                sys.settrace(tracer)
            try:
                results[k] = thunks[k]()
            finally:
                if line_level:
                    sys.settrace(None)
                with self.cv:
                    self.done.add(k)
                    self.cv.notify_all()

        ths = [threading.Thread(target=worker, args=(k,), daemon=True) for k in range(len(thunks))]
        for t in ths:
            t.start()
        steps = 0
        for k in list(schedule) + [None]:
            with self.cv:
                # wait until every live thread is parked at a gate (or finished)
                self.cv.wait_for(lambda: all((j in self.waiting) or (j in self.done) for j in range(len(thunks))), timeout=20)
                if k is None:
                    break
                if k in self.done or k not in self.waiting:
                    continue
                self.turn = k
                steps += 1
                self.cv.notify_all()
                self.cv.wait_for(lambda: self.turn is None, timeout=20)
        # drain: let the remaining threads finish one after another
        while True:
            with self.cv:
                self.cv.wait_for(lambda: all((j in self.waiting) or (j in self.done) for j in range(len(thunks))), timeout=20)
                live = [j for j in range(len(thunks)) if j not in self.done]
                if not live:
                    break
                self.turn = live[0]
                self.cv.notify_all()
                self.cv.wait_for(lambda: self.turn is None, timeout=20)
        for t in ths:
            t.join(timeout=20)
        return results, steps


def c17_case(seed, k):
    rng = random.Random(f"c17:{seed}:{k}")
    for _ in range(100):
        g = gen.gen_grammar(rng, max_rules=3)
        if any(x in json.dumps(g["rules"]) for x in ('"rep"', '"opt"')):
            break
    names = [r["name"] for r in g["rules"]]
    inputs = gen.gen_inputs(rng, g, n_derived=3, n_mut=1, n_rand=1, maxlen=6)[:6]
    nreq = rng.choice([2, 2, 3])
    reqs = []
    for _ in range(nreq):
        s = rng.choice(inputs)
        reqs.append((rng.choice([0, 1]), rng.choice(names), s, rng.randint(0, len(s))))
    if rng.random() < 0.5:
        reqs[1] = reqs[0]      # the same request twice: both race for the same cache entries
    return {"seed": seed, "index": k, "grammar": g, "reqs": reqs, "limit": rng.choice([None, None, 1, 2]),
            "sched_seed": rng.randint(0, 10**9)}


def line_level_fixed(stats, mism):
    """hand-made scenarios for the race through a stale cache: warm-up, public mutation, then two threads issue the same
    request; ALL single-pre-emption schedules at LINE level inside the ParseCache methods"""
    L = lambda t: ["lit", 0, t]  # noqa: E731
    scen = [
        ({"rules": [{"name": "top", "def": ["rep", 1, None, ["ref", "item"]], "excl": None}, {"name": "item", "def": L("a"), "excl": None}],
          "alpha": ["a", "b"]}, (1, "top", "aab", 0), "item", 'item = "a" / "b"', ["alt", 0, [L("a"), L("b")]]),
        ({"rules": [{"name": "top", "def": ["cat", [["opt", ["ref", "item"]], L("c")]], "excl": None}, {"name": "item", "def": L("a"), "excl": None}],
          "alpha": ["a", "b", "c"]}, (0, "top", "bc", 0), "item", 'item = "b"', L("b")),
        ({"rules": [{"name": "top", "def": ["rep", 0, 3, ["cat", [["ref", "item"], ["rep", 0, None, L("-")]]]], "excl": None},
                    {"name": "item", "def": L("a"), "excl": None}], "alpha": ["a", "b", "-"]},
         (2, "top", "a-b-a", 0), "item", 'item = "a" / "b"', ["alt", 0, [L("a"), L("b")]]),
    ]
    for g, q, tgt, text, newdef in scen:
        fa = {"rules": [dict(r, **({"def": newdef} if r["name"] == tgt else {})) for r in g["rules"]], "alpha": g["alpha"]}
        tcls, tobjs = pyimpl.build_grammar(fa)
        want = req_impl(tobjs, *q)
        for x in (0, 1):
            for k in range(30):
                sch = [x] * k + [1 - x] * 120 + [x] * 120
                cls, objs = pyimpl.build_grammar(g)
                req_impl(objs, *q)              # warm-up under the OLD grammar
                cls.create(text)                # public mutation
                stp = Stepper()
                stp.install()
                try:
                    res, steps = stp.run([(lambda: req_impl(objs, *q)), (lambda: req_impl(objs, *q))], sch, line_level=True)
                finally:
                    stp.restore()
                stats["line_level_schedules"] = stats.get("line_level_schedules", 0) + 1
                for r in res:
                    if r != want:
                        mism.append({"class": "interleaving-after-mutation(line-level)", "request": q, "schedule": f"thread {x} runs {k} steps, then the other thread completes",
                                     "mutation": text, "got": (r or "None")[:300], "sequential_on_new_grammar": want[:300],
                                     "case": {"grammar": g}})
                        return


def mass_suspension(stats, mism, n=600):
    """hundreds of match listings are opened, advanced by one item and left suspended (all still referenced); ordinary requests
    issued meanwhile, the continuation of some suspended listings, and requests issued after all of them were dropped must
    give the sequential results: whatever a request keeps while it is in progress must not add up across requests"""
    import gc
    L = lambda t: ["lit", 0, t]  # noqa: E731
    g = {"rules": [{"name": "word", "def": ["rep", 1, None, ["range", 97, 122]], "excl": None},
                   {"name": "pair", "def": ["cat", [["ref", "word"], ["opt", ["cat", [L("-"), ["ref", "pair"]]]]]], "excl": None}],
         "alpha": ["a", "b", "-"]}
    reqs = [(0, "word", "abc", 0), (1, "pair", "ab-cd-e", 0), (2, "pair", "ab-cd", 0), (0, "pair", "a-b-c-d-e-f", 2),
            # ... and the very request the suspended listings are in the middle of (same rule, an EQUAL source, same offset)
            (0, "word", "abc" + "def", 0), (2, "pair", "abcdef", 0), (0, "pair", "abcdef", 0), (0, "word", "abcdef", 3)]
    cls0, objs0 = pyimpl.build_grammar(g)
    want = [req_impl(objs0, *q) for q in reqs]
    want_list = pyimpl.run_lparse(objs0["word"], "abcdef", 0)
    cls, objs = pyimpl.build_grammar(g)
    gens = [objs["word" if k % 2 else "pair"].lparse("abcdef", 0) for k in range(n)]
    firsts = []
    for k, gq in enumerate(gens):
        try:
            firsts.append(next(gq))
        except Exception as e:  # noqa: BLE001
            mism.append({"class": "mass-suspension", "what": f"opening listing number {k + 1} raised {pyimpl.exc_name(e)}", "case": {"grammar": g}})
            return
    for phase in ("while %d listings are suspended" % n, "after they were dropped"):
        got = [req_impl(objs, *q) for q in reqs]
        for q, a_, b_ in zip(reqs, got, want):
            if a_ != b_:
                mism.append({"class": "mass-suspension", "what": phase, "request": q, "got": a_[:300], "sequential": b_[:300], "case": {"grammar": g}})
                return
        if phase.startswith("while"):
            rest = [firsts[1]] + list(gens[1])
            if pyimpl.canon_matches(rest) != want_list:
                mism.append({"class": "mass-suspension", "what": "a suspended listing continued after the others were opened", "got": pyimpl.canon_matches(rest)[:300],
                             "sequential": want_list[:300], "case": {"grammar": g}})
                return
            del gens, firsts, rest, gq
            gc.collect()
    stats["mass_suspension_listings"] = n


def lockstep_fixed(stats, mism):
    """n threads issue the SAME request over caches with a size limit and advance in lock step, one source LINE of a ParseCache
    method at a time (round robin): every test-then-act pair inside the cache methods is separated by the other threads'
    steps.  Found while proving the micro-step model (CacheFine*.v): the eviction in __setitem__ popped from a dictionary
    that the other threads had just emptied (KeyError out of a parse request)."""
    L = lambda t: ["lit", 0, t]  # noqa: E731
    g = {"rules": [{"name": "s", "def": ["rep", 0, None, ["ref", "x"]], "excl": None},
                   {"name": "x", "def": ["alt", 0, [L("a"), ["rep", 2, 2, L("a")]]], "excl": None}], "alpha": ["a"]}
    for q in [(2, "s", "aaa", 0), (0, "s", "aaaa", 0)]:
        cls0, objs0 = pyimpl.build_grammar(g)
        want = req_impl(objs0, *q)
        for nthreads in (2, 3, 4):
            for limit in (1, 2):
                for stale in (False, True):
                    cls, objs = pyimpl.build_grammar(g)
                    d = pyimpl.Dump()
                    d.grammar([objs[r["name"]] for r in g["rules"]])
                    for rep in d.keep:
                        rep.lparse_cache.max_size = limit
                    if stale:
                        req_impl(objs, *q)
                        ParseCache.invalidate()        # every cache is stale when the threads start
                    stp = Stepper()
                    stp.install()
                    try:
                        res, steps = stp.run([(lambda: req_impl(objs, *q)) for _ in range(nthreads)], list(range(nthreads)) * 700,
                                             line_level=True)
                    finally:
                        stp.restore()
                    stats["lockstep_schedules"] = stats.get("lockstep_schedules", 0) + 1
                    for r in res:
                        if r != want:
                            mism.append({"class": "lock-step(line-level)", "request": q, "threads": nthreads, "limit": limit,
                                         "caches_stale_at_start": stale, "schedule": "round robin, one line of a ParseCache method per turn",
                                         "got": (r or "None")[:300], "sequential": want[:300], "case": {"grammar": g}})
                            return


def lockstep_everywhere(stats, mism, full=False):
    """two threads, the same grammar objects, advancing in lock step at EVERY source line of the parser module (not only inside the cache
    methods): whatever a parser object keeps between two of its own statements — a shared list being re-sorted, a memo made of two
    fields, a scratch attribute — is seen half-done by the other thread.  Requests: the same warm request with more than 256
    cached matches; and two different inputs through the same long case-insensitive literal."""
    L = lambda t: ["lit", 0, t]  # noqa: E731
    g = {"rules": [{"name": "word", "def": ["rep", 1, None, ["range", 0x61, 0x7A]], "excl": None},
                   {"name": "line", "def": ["cat", [["ref", "word"], L("!")]], "excl": None},
                   {"name": "kw", "def": ["cat", [L("Content-Disposition-X"), ["opt", L(":")]]], "excl": None},
                   {"name": "kws", "def": ["rep", 1, 3, ["cat", [["ref", "kw"], ["opt", L(" ")]]]], "excl": None}], "alpha": ["a", "!"]}
    long_in = "a" * 290 + "!"
    pairs = [((2, "line", long_in, 0), (2, "line", long_in, 0), True),
             ((1, "word", long_in, 0), (2, "line", long_in, 0), True),
             ((2, "kws", "content-disposition-x: CONTENT-DISPOSITION-X", 0), (2, "kws", "content-dispositiom-x: CONTENT-DISPOSITION-X", 0), False),
             ((2, "kw", "CONTENT-disposition-X:", 0), (2, "kw", "CONTENT-disposition-Y:", 0), False)]
    cls0, objs0 = pyimpl.build_grammar(g)
    for pi, (qa, qb, warm) in enumerate(pairs):
        if not full and pi == 1:
            continue
        want = [req_impl(objs0, *qa), req_impl(objs0, *qb)]
        for offset in ((0, 1, 2) if full else ((0,) if warm else (0, 1))):
            cls, objs = pyimpl.build_grammar(g)
            if warm:
                req_impl(objs, *qa)
            stp = Stepper()
            stp.install()
            try:
                sched = [0] * offset + [0, 1] * 60000
                res, steps = stp.run([(lambda: req_impl(objs, *qa)), (lambda: req_impl(objs, *qb))], sched, line_level="all")
            finally:
                stp.restore()
            stats["lockstep_everywhere_schedules"] = stats.get("lockstep_everywhere_schedules", 0) + 1
            stats["lockstep_everywhere_steps"] = stats.get("lockstep_everywhere_steps", 0) + steps
            for q, r, w in zip((qa, qb), res, want):
                if r != w:
                    mism.append({"class": "lock-step(every line of the parser module)", "request": [q[0], q[1], q[2][:50], q[3]],
                                 "other_request": [(qb if q is qa else qa)[1], (qb if q is qa else qa)[2][:50]], "phase_shift": offset,
                                 "got": (r or "None")[:300], "sequential": w[:300], "case": {"grammar": g}})
                    return


def run_c17(cases, exhaustive_upto=7):
    mism, stats = [], {"schedules": 0, "steps": 0, "exhaustive_cases": 0, "random_schedules": 0, "requests": 0,
                       "generator_scripts": 0, "stress_runs": 0}
    distinct = set()
    line_level_fixed(stats, mism)
    mass_suspension(stats, mism)
    lockstep_fixed(stats, mism)
    lockstep_everywhere(stats, mism, full=len(cases) >= 100)
    for c in cases:
        g = c["grammar"]
        # sequential reference on a cold twin
        cls0, objs0 = pyimpl.build_grammar(g)
        try:
            with pyimpl.time_limit(1.0):
                ref = [req_impl(objs0, kind, n, s, i) for kind, n, s, i in c["reqs"]]
        except pyimpl.SlowCase:
            stats["slow_cases"] = stats.get("slow_cases", 0) + 1
            continue
        if any(r == "REC" for r in ref):
            continue
        # how many cache ops does each request make (cold)?  measure on another twin
        cls1, objs1 = pyimpl.build_grammar(g)
        d1 = pyimpl.Dump()
        d1.grammar([objs1[r["name"]] for r in g["rules"]])
        ev = Events(d1)
        ev.install()
        counts = []
        try:
            for kind, n, s, i in c["reqs"]:
                ParseCache.clear_caches()
                ev.log = []
                ev.on = True
                req_impl(objs1, kind, n, s, i)
                ev.on = False
                counts.append(len(ev.log))
        finally:
            ev.restore()
        total = sum(counts)
        rng = random.Random(c["sched_seed"])
        scheds = []
        if total <= exhaustive_upto and len(c["reqs"]) == 2:
            # all interleavings of two op sequences (upper bound on ops: hits shorten them, extra grants are skipped)
            for comb in itertools.combinations(range(total), counts[0]):
                sch = [1] * total
                for x in comb:
                    sch[x] = 0
                scheds.append(sch)
            stats["exhaustive_cases"] += 1
        else:
            for _ in range(6):
                scheds.append([rng.randrange(len(c["reqs"])) for _ in range(total + 3)])
                stats["random_schedules"] += 1
        # abandonment: schedules that starve thread 0 until the very end are included by construction (drain phase)
        scheds.append([1] * total)
        scheds.append([0] * total)
        plain = [(sch, False) for sch in scheds[:40]]
        # the same with a stop AFTER each cache operation as well (twice as many stops): random schedules, and with a size limit
        # more often than not, so that another thread's stores evict the entry a parked thread has just been handed
        extra = [([rng.randrange(len(c["reqs"])) for _ in range(2 * total + 4)], True) for _ in range(5)]
        for sch, after in plain + extra:
            cls, objs = pyimpl.build_grammar(g)
            limit = c["limit"] if not after else (c["limit"] if c["limit"] is not None else rng.choice([None, 1, 1, 2]))
            if limit is not None:
                dd = pyimpl.Dump()
                dd.grammar([objs[r["name"]] for r in g["rules"]])
                for rep in dd.keep:
                    rep.lparse_cache.max_size = limit
            stats["after_op_schedules"] = stats.get("after_op_schedules", 0) + after
            stp = Stepper(after=after)
            stp.install()
            try:
                thunks = [(lambda q=q: req_impl(objs, *q)) for q in c["reqs"]]
                res, steps = stp.run(thunks, sch)
            finally:
                stp.restore()
            stats["schedules"] += 1
            stats["steps"] += steps
            stats["requests"] += len(res)
            distinct.add((json.dumps(g["rules"]), json.dumps(c["reqs"]), tuple(sch)))
            for q, r, want in zip(c["reqs"], res, ref):
                if r != want:
                    mism.append({"class": "interleaving", "request": q, "schedule": sch, "limit": limit, "stops_after_ops_too": after,
                                 "got": (r or "None")[:500], "sequential": want[:500], "case": c})
        # after a grammar change: the first accesses to every cache find it stale; two threads race through
        # ParseCache._drop_stale, pre-empted at LINE level inside the cache methods
        refd = sorted({x for r in g["rules"] for x in gen.refs_of(r["def"], set())})
        if refd and stats.get("line_level_cases", 0) < 8:
            tgt = rng.choice(refd)
            newdef = ["alt", 0, [["lit", 0, rng.choice(g["alpha"])], ["lit", 0, rng.choice(g["alpha"]) + rng.choice(g["alpha"])]]]
            fa = {"rules": [dict(r, **({"def": newdef} if r["name"] == tgt else {})) for r in g["rules"]], "alpha": g["alpha"]}
            if gen.wf(fa) and renderable(newdef):
                try:
                    with pyimpl.time_limit(2.0):
                        tcls, tobjs = pyimpl.build_grammar(fa)
                        ref2 = [req_impl(tobjs, *q) for q in c["reqs"]]
                except pyimpl.SlowCase:
                    ref2 = None
                if ref2 is not None and not any(r == "REC" for r in ref2):
                    stats["line_level_cases"] = stats.get("line_level_cases", 0) + 1
                    # ALL single-pre-emption schedules: thread X runs k line-level steps, then the other thread runs to
                    # completion, then X finishes (k = 0..24, both orders), plus a few random ones; both threads issue
                    # the SAME request so that they race for the same stale caches
                    same = [c["reqs"][0], c["reqs"][0]]
                    ref_same = [ref2[0], ref2[0]]
                    scheds = [[x] * k + [1 - x] * 80 + [x] * 80 for x in (0, 1) for k in range(25)]
                    scheds += [[rng.randrange(2) for _ in range(80)] for _ in range(6)]
                    for sch in scheds:
                        cls, objs = pyimpl.build_grammar(g)
                        for q in same:
                            req_impl(objs, *q)                       # warm-up under the OLD grammar
                        cls.create(render_rule(rng, tgt, newdef))     # public mutation: every cache is now stale
                        stp = Stepper()
                        stp.install()
                        try:
                            thunks = [(lambda q=q: req_impl(objs, *q)) for q in same]
                            res, steps = stp.run(thunks, sch, line_level=True)
                        finally:
                            stp.restore()
                        stats["line_level_schedules"] = stats.get("line_level_schedules", 0) + 1
                        for q, r, want in zip(same, res, ref_same):
                            if r != want:
                                mism.append({"class": "interleaving-after-mutation(line-level)", "request": q, "schedule": sch,
                                             "mutation": [tgt, newdef], "got": (r or "None")[:400], "sequential_on_new_grammar": want[:400], "case": c})
        # generator interleaving / abandonment: results listed by partially consumed generators
        cls, objs = pyimpl.build_grammar(g)
        gens = []
        for kind, n, s, i in c["reqs"]:
            gens.append((objs[n].lparse(s, i), n, s, i))
        outs = [[] for _ in gens]
        alive = list(range(len(gens)))
        rr = random.Random(c["sched_seed"] + 1)
        abandoned = rr.randrange(len(gens))
        while alive:
            j = rr.choice(alive)
            if j == abandoned and len(outs[j]) >= 1:
                alive.remove(j)          # abandon after the first item
                continue
            try:
                outs[j].append(next(gens[j][0]))
            except StopIteration:
                alive.remove(j)
            except Exception as e:  # noqa: BLE001
                outs[j] = pyimpl.exc_name(e)
                alive.remove(j)
        stats["generator_scripts"] += 1
        for j, (gq, n, s, i) in enumerate(gens):
            want = pyimpl.run_lparse(objs0[n], s, i)
            got = outs[j] if isinstance(outs[j], str) else pyimpl.canon_matches(outs[j])
            ok = got == want or (j == abandoned and not isinstance(outs[j], str) and want.startswith(got.rstrip()))
            if j == abandoned and not isinstance(outs[j], str) and want.startswith("OK"):
                ok = want.startswith(got) and (len(want) == len(got) or want[len(got)] == ";")
            if not ok:
                mism.append({"class": "generator", "request": [n, s, i], "got": got[:500], "sequential": want[:500], "case": c})
        # after the abandonment a later request must be unaffected
        for kind, n, s, i in c["reqs"]:
            if req_impl(objs, kind, n, s, i) != req_impl(objs0, kind, n, s, i):
                mism.append({"class": "after-abandon", "request": [kind, n, s, i], "case": c})
    return mism, stats, len(distinct)


def stress(cases, nthreads=6, rounds=30):
    """free-running threads (no gating) over the same objects; each result vs the cold sequential one"""
    mism = []
    runs = 0
    for c in cases[:10]:
        g = c["grammar"]
        cls0, objs0 = pyimpl.build_grammar(g)
        cls, objs = pyimpl.build_grammar(g)
        reqs = c["reqs"]
        ref = [req_impl(objs0, *q) for q in reqs]
        bad = []

        def worker(k):
            for r in range(rounds):
                j = (k + r) % len(reqs)
                got = req_impl(objs, *reqs[j])
                if got != ref[j]:
                    bad.append((reqs[j], got, ref[j]))
                if r % 7 == 0 and k == 0:
                    ParseCache.clear_caches()
        ths = [threading.Thread(target=worker, args=(k,)) for k in range(nthreads)]
        old = sys.getswitchinterval()
        sys.setswitchinterval(1e-6)
        try:
            for t in ths:
                t.start()
            for t in ths:
                t.join()
        finally:
            sys.setswitchinterval(old)
        runs += nthreads * rounds
        for q, got, want in bad[:3]:
            mism.append({"class": "stress", "request": q, "got": got[:500], "sequential": want[:500], "case": c})
    return mism, runs


def main():
    ap = argparse.ArgumentParser()
    ap.add_argument("--mode", required=True)
    ap.add_argument("--seed", type=int, default=0)
    ap.add_argument("--n", type=int, default=40)
    ap.add_argument("--out", required=True)
    a = ap.parse_args()
    t0 = time.time()
    if a.mode == "c08":
        cases = (c08_fixed() if a.seed % 100 == 0 else []) + [c08_case(a.seed, k) for k in range(a.n)]
        plan, mism, stats, distinct = run_c08(cases)
        if a.seed % 100 == 0:
            m2, runs = aborted_by_recursion()
            stats["aborted_by_recursion_runs"] = runs
            mism = m2 + mism
            m4, runs4 = long_source_churn()
            stats["long_source_churn_requests"] = runs4
            mism = m4 + mism
        m3, st3 = sibling_grammars(a.seed, max(3, a.n // 4))
        stats.update(st3)
        mism = m3 + mism
        samples = [{"grammar": c["grammar"]["rules"], "default_limit": c["dflt"], "op": op, "observed": impl[:300]}
                   for c, op, impl in plan[:: max(1, len(plan) // 4)][:4]]
        ev = len(plan)
    elif a.mode == "history-free":
        # C07's "whatever was parsed before": the two history scenarios that need no model (answers vs a cold twin)
        mism, stats = sibling_grammars(a.seed, max(4, a.n))
        m2, runs = aborted_by_recursion()
        stats["aborted_by_recursion_runs"] = runs
        mism = m2 + mism
        distinct = stats.get("sibling_requests", 0)
        samples = [{"scenario": "two same-named grammar classes alive at once, requests alternate"}, {"scenario": "request aborted by RecursionError, then repeated"}]
        ev = stats.get("sibling_requests", 0) + runs
    elif a.mode == "c13":
        cases = [c13_case(a.seed, k) for k in range(a.n)]
        plan, mism, stats, distinct = run_c13(cases)
        if a.seed % 100 == 0:
            mism = meta_mutation() + mism
            stats["meta_mutation_scenarios"] = 2
            m5, runs5 = two_thread_mutation()
            stats["two_thread_mutation_runs"] = runs5
            mism = m5 + mism
        samples = [{"grammar": c["grammar"]["rules"], "mutations": c["muts"], "probe": [n, s, i], "observed": impl[:300]}
                   for c, n, s, i, impl, twin in plan[:: max(1, len(plan) // 4)][:4]]
        ev = len(plan)
    else:
        cases = [c17_case(a.seed, k) for k in range(a.n)]
        mism, stats, distinct = run_c17(cases)
        m2, runs = stress(cases)
        stats["stress_runs"] = runs
        mism += m2
        samples = [{"grammar": c["grammar"]["rules"], "requests": c["reqs"], "limit": c["limit"]} for c in cases[:3]]
        ev = stats["requests"] + runs
    json.dump({"evaluations": ev, "distinct_nontrivial": distinct, "stats": stats, "n_mismatches": len(mism),
               "mismatches": mism[:40], "samples": samples, "wall_s": time.time() - t0}, open(a.out, "w"))


if __name__ == "__main__":
    main()
