"""Case generators for the correspondence checks (pure stdlib; no abnf import).
Every random choice comes from the random.Random instance passed in, so a (seed, index) pair
replays exactly."""
from __future__ import annotations

import json
import random

LOOKALIKE = {"k": "K", "K": "K", "s": "ſ", "S": "ſ", "i": "İ", "I": "ı",
             "a": "å", "ss": "ß", "fi": "ﬁ", "st": "ﬆ"}
ALPHA_SETS = [
    list("ab"), list("abA"), list("aAbB"), list("ksKS"), list("ab-"), list("a b"), list("xyz"),
    ["a", "b", "\x00"], ["a", "\x7f", "\x80"], ["a", "퟿", "\ud800"], ["a", "\U0010ffff", "\U00010000"],
    # the same text in different Unicode normalisation forms is DIFFERENT text to ABNF: e-acute vs e + combining acute, Angstrom sign vs
    # A-ring, the fi ligature vs f i
    ["e", "\u00e9", "\u0301"], ["A", "\u00c5", "\u212b", "\u030a"], ["f", "i", "\ufb01"],
]
NAME_STYLES = [lambda k: f"r{k}", lambda k: f"R{k}", lambda k: f"rule-{k}", lambda k: f"Ab-{k}x"]


# ------------------------------------------------------------------------------- grammars
def gen_expr(rng, depth, names, alpha, p_ref=0.25):
    r = rng.random()
    if depth <= 0 or r < 0.30:
        t = rng.random()
        if t < 0.62:
            n = rng.choice([0, 1, 1, 1, 1, 2, 2, 3]) if rng.random() < 0.85 else rng.randint(0, 4)
            if rng.random() < 0.06:
                n = 0
            return ["lit", 1 if rng.random() < 0.3 else 0, "".join(rng.choice(alpha) for _ in range(n))]
        if t < 0.80:
            a, b = sorted([ord(rng.choice(alpha)), ord(rng.choice(alpha))])
            if rng.random() < 0.3:
                b = min(0x10FFFF, b + rng.choice([0, 1, 2, 25]))
            if rng.random() < 0.05:
                a, b = b, a   # empty range
            return ["range", a, b]
        if t < 0.84:
            return ["prose"]
        return ["ref", rng.choice(names)]
    if r < 0.30 + p_ref * 0.5:
        return ["ref", rng.choice(names)]
    if r < 0.58:
        n = rng.choice([1, 2, 2, 2, 3, 3, 4])
        return ["alt", 0, [gen_expr(rng, depth - 1, names, alpha) for _ in range(n)]]
    if r < 0.80:
        n = rng.choice([0, 1, 2, 2, 2, 3, 3, 4]) if rng.random() < 0.9 else 5
        return ["cat", [gen_expr(rng, depth - 1, names, alpha) for _ in range(n)]]
    if r < 0.95:
        form = rng.random()
        if form < 0.3:
            mn, mx = 0, None
        elif form < 0.45:
            mn, mx = 1, None
        elif form < 0.6:
            mn = rng.randint(0, 3)
            mx = mn
        elif form < 0.9:
            mn = rng.randint(0, 3)
            mx = mn + rng.randint(0, 3)
        else:
            mn, mx = rng.randint(0, 2), None
        return ["rep", mn, mx, gen_expr(rng, depth - 1, names, alpha)]
    return ["opt", gen_expr(rng, depth - 1, names, alpha)]


def refs_of(e, acc):
    k = e[0]
    if k == "ref":
        acc.add(e[1])
    elif k == "alt":
        for x in e[2]:
            refs_of(x, acc)
    elif k == "cat":
        for x in e[1]:
            refs_of(x, acc)
    elif k == "rep":
        refs_of(e[3], acc)
    elif k == "opt":
        refs_of(e[1], acc)
    return acc


def nullable_fix(g):
    defs = {r["name"].casefold(): r.get("def") for r in g["rules"]}
    nul = {n: False for n in defs}

    def nl(e):
        k = e[0]
        if k == "lit":
            return e[2] == ""
        if k in ("range", "prose"):
            return False
        if k == "ref":
            return nul.get(e[1].casefold(), False)
        if k == "alt":
            return any(nl(x) for x in e[2])
        if k == "cat":
            return all(nl(x) for x in e[1])
        if k == "rep":
            return e[1] == 0 or nl(e[3])
        if k == "opt":
            return True
        raise ValueError(e)

    ch = True
    while ch:
        ch = False
        for n, d in defs.items():
            if d is not None and not nul[n] and nl(d):
                nul[n] = True
                ch = True
    return nul, nl


def wf(g, need_closed=True):
    """valid domain of C01: closed, min<=max, no left recursion also through nullable prefixes
    (exclusion counts as a left-position call)"""
    defs = {r["name"].casefold(): r.get("def") for r in g["rules"]}
    nul, nl = nullable_fix(g)

    def bounds(e):
        k = e[0]
        if k == "alt":
            return all(bounds(x) for x in e[2])
        if k == "cat":
            return all(bounds(x) for x in e[1])
        if k == "rep":
            return (e[2] is None or e[1] <= e[2]) and bounds(e[3])
        if k == "opt":
            return bounds(e[1])
        return True

    def left(e, acc):
        k = e[0]
        if k == "ref":
            acc.add(e[1].casefold())
        elif k == "alt":
            for x in e[2]:
                left(x, acc)
        elif k == "cat":
            for x in e[1]:
                left(x, acc)
                if not nl(x):
                    break
        elif k == "rep":
            left(e[3], acc)
        elif k == "opt":
            left(e[1], acc)
        return acc

    graph = {}
    for r in g["rules"]:
        n = r["name"].casefold()
        d = defs[n]
        if d is None:
            if need_closed:
                return False
            graph[n] = set()
            continue
        if not bounds(d):
            return False
        if need_closed and any(x.casefold() not in defs or defs[x.casefold()] is None for x in refs_of(d, set())):
            return False
        graph[n] = left(d, set())
        if r.get("excl") is not None:
            graph[n].add(r["excl"].casefold())
    # acyclic?
    color = {}

    def dfs(u):
        color[u] = 1
        for v in graph.get(u, ()):
            c = color.get(v, 0)
            if c == 1 or (c == 0 and not dfs(v)):
                return False
        color[u] = 2
        return True

    return all(color.get(u, 0) == 2 or dfs(u) for u in graph)


def gen_grammar(rng, flags=False, excl=False, max_rules=4, depth=3, alias=False):
    for _ in range(200):
        n = rng.randint(1, max_rules)
        style = rng.choice(NAME_STYLES)
        names = [style(k) for k in range(n)]
        alpha = rng.choice(ALPHA_SETS)
        rules = []
        for k in range(n):
            d = gen_expr(rng, rng.randint(1, depth), names, alpha)
            if flags and rng.random() < 0.5:
                if d[0] != "alt":
                    d = ["alt", 0, [d, gen_expr(rng, 1, names, alpha)]]
                d[1] = 1 if rng.random() < 0.7 else 0
            rules.append({"name": names[k], "def": d, "excl": None})
        if excl and n >= 2:
            for k in range(n):
                if rng.random() < 0.35:
                    rules[k]["excl"] = rng.choice([x for x in names if x != names[k]])
        if alias and rng.random() < 0.35:
            # a rule that SHARES the definition object of another rule under a name of its own (what the decorators'
            # imported_rules do: cls(local_name, source.definition)); the tree must carry the name that was asked for
            src = rng.choice(rules)
            rules.append({"name": "Al" + str(len(rules)), "def": json.loads(json.dumps(src["def"])), "excl": None,
                          "alias_of": src["name"]})
        g = {"rules": rules, "alpha": alpha}
        if wf(g):
            return g
    return {"rules": [{"name": "r0", "def": ["lit", 0, "a"], "excl": None}], "alpha": ["a", "b"]}


def count_ops(g):
    c = {}

    def go(e):
        c[e[0]] = c.get(e[0], 0) + 1
        if e[0] == "alt":
            [go(x) for x in e[2]]
        elif e[0] == "cat":
            [go(x) for x in e[1]]
        elif e[0] == "rep":
            go(e[3])
        elif e[0] == "opt":
            go(e[1])

    for r in g["rules"]:
        if r.get("def") is not None:
            go(r["def"])
    return c


# ------------------------------------------------------------------------------- inputs
def derive(rng, g, e, depth, long_rep=0):
    """a random sentence of e, or None when the depth budget is exhausted; long_rep > 0: an unbounded (or large enough)
    repetition is, half of the time, iterated long_rep times (long inputs: more than 256 partial matches alive)"""
    defs = {r["name"].casefold(): r.get("def") for r in g["rules"]}

    def go(e, d):
        if d < 0:
            return None
        k = e[0]
        if k == "lit":
            if e[1]:
                return e[2]
            return "".join(c.swapcase() if c.isascii() and rng.random() < 0.4 else c for c in e[2])
        if k == "range":
            if e[1] > e[2]:
                return None
            c = rng.choice([e[1], e[2], rng.randint(e[1], e[2])])
            return chr(c)
        if k == "prose":
            return None
        if k == "ref":
            dd = defs.get(e[1].casefold())
            return None if dd is None else go(dd, d - 1)
        if k == "alt":
            xs = list(e[2])
            rng.shuffle(xs)
            for x in xs:
                r = go(x, d - 1)
                if r is not None:
                    return r
            return None
        if k == "cat":
            out = []
            for x in e[1]:
                r = go(x, d - 1)
                if r is None:
                    return None
                out.append(r)
            return "".join(out)
        if k == "rep":
            mn, mx = e[1], e[2]
            hi = mn + 3 if mx is None else mx
            if hi < mn:
                return None
            n = rng.randint(mn, min(hi, mn + 3))
            if long_rep and (mx is None or mx >= long_rep) and mn <= long_rep and rng.random() < 0.5:
                n = long_rep
            out = []
            for _ in range(n):
                r = go(e[3], d - 1)
                if r is None:
                    return None if len(out) < mn else "".join(out)
                out.append(r)
            return "".join(out)
        if k == "opt":
            if rng.random() < 0.5:
                return ""
            r = go(e[1], d - 1)
            return "" if r is None else r
        raise ValueError(e)

    return go(e, depth)


def mutate(rng, s, alpha):
    if not s:
        return rng.choice(alpha)
    k = rng.random()
    i = rng.randrange(len(s))
    if k < 0.2:
        return s[:i] + s[i + 1:]
    if k < 0.4:
        return s[:i] + rng.choice(alpha) + s[i:]
    if k < 0.6:
        return s[:i] + rng.choice(alpha) + s[i + 1:]
    if k < 0.75:
        return s[:i] + s[i].swapcase() + s[i + 1:]
    if k < 0.9:
        c = s[i]
        return s[:i] + LOOKALIKE.get(c, "é") + s[i + 1:]
    return s + rng.choice(alpha)


def gen_inputs(rng, g, n_derived=6, n_mut=4, n_rand=4, maxlen=10):
    alpha = list(g.get("alpha") or ["a", "b"])
    extra = alpha + ["~"]
    out = []
    for r in g["rules"]:
        if r.get("def") is None:
            continue
        for _ in range(n_derived):
            s = derive(rng, g, ["ref", r["name"]], 12)
            if s is not None and len(s) <= 3 * maxlen:
                pre = "".join(rng.choice(extra) for _ in range(rng.choice([0, 0, 0, 1, 2])))
                suf = "".join(rng.choice(extra) for _ in range(rng.choice([0, 0, 1, 2])))
                out.append(pre + s + suf)
                for _ in range(n_mut // 2):
                    out.append(mutate(rng, s, extra))
    for _ in range(n_rand):
        out.append("".join(rng.choice(extra) for _ in range(rng.randint(0, maxlen))))
    out.append("")
    seen = set()
    res = []
    for s in out:
        if s not in seen:
            seen.add(s)
            res.append(s)
    return res


def exhaustive_strings(alpha, maxlen):
    out = [""]
    cur = [""]
    for _ in range(maxlen):
        cur = [s + c for s in cur for c in alpha]
        out += cur
    return out


# ------------------------------------------------------------------------------- ABNF rendering
def render_expr(rng, e, top=True, layout=False):
    """ABNF text of an AST (valid only for ASTs without first-match flags/empty alt etc.)"""
    k = e[0]
    ws = (lambda: rng.choice([" ", "  ", "\t", " ; c\r\n ", "\r\n "]) if layout and rng.random() < 0.3 else " ")
    if k == "lit":
        txt = e[2]
        if all(0x20 <= ord(c) <= 0x7E and c != '"' for c in txt):
            if e[1]:
                return rng.choice(["%s", "%S"] if layout else ["%s"]) + '"' + txt + '"'
            return (rng.choice(["", "%i", "%I"]) if layout else "") + '"' + txt + '"'
        if e[1] and txt:
            return num_val(rng, [ord(c) for c in txt], layout)
        raise ValueError("unrenderable literal")
    if k == "range":
        return num_range(rng, e[1], e[2], layout)
    if k == "prose":
        return "<some prose>"
    if k == "ref":
        n = e[1]
        if layout and rng.random() < 0.3:
            n = "".join(c.upper() if rng.random() < 0.5 else c.lower() for c in n)
        return n
    if k == "alt":
        s = (ws() + "/" + ws()).join(render_expr(rng, x, False, layout) for x in e[2])
        return s if top else "(" + s + ")"
    if k == "cat":
        s = ws().join(render_expr(rng, x, False, layout) for x in e[1])
        return s if top else "(" + s + ")"
    if k == "rep":
        mn, mx = e[1], e[2]
        if mx is None:
            pre = ("*" if mn == 0 and rng.random() < 0.7 else f"{mn}*")
        elif mn == mx and rng.random() < 0.5:
            pre = f"{mn}"
        elif mn == 0 and rng.random() < 0.5:
            pre = f"*{mx}"
        else:
            pre = f"{mn}*{mx}"
        if layout and rng.random() < 0.2:
            pre = pre.replace("*", "0*", 1) if pre.startswith("*") else "0" + pre
        inner = render_expr(rng, e[3], False, layout)
        if e[3][0] == "rep":
            inner = "(" + inner + ")"     # repetition = [repeat] element: a repetition is not an element
        return pre + inner
    if k == "opt":
        return "[" + (ws() if layout else " ") + render_expr(rng, e[1], True, layout) + (ws() if layout else " ") + "]"
    raise ValueError(e)


def _digits(rng, v, base, layout):
    s = {2: format(v, "b"), 10: str(v), 16: format(v, "X")}[base]
    if base == 16 and layout and rng.random() < 0.5:
        s = s.lower()
    if layout and rng.random() < 0.2:
        s = "0" * rng.randint(1, 3) + s
    return s


def _marker(rng, base, layout):
    m = {2: "b", 10: "d", 16: "x"}[base]
    return "%" + (m.upper() if layout and rng.random() < 0.4 else m)


def num_val(rng, cps, layout):
    base = rng.choice([2, 10, 16]) if layout else 16
    return _marker(rng, base, layout) + ".".join(_digits(rng, c, base, layout) for c in cps)


def num_range(rng, lo, hi, layout):
    base = rng.choice([2, 10, 16]) if layout else 16
    return _marker(rng, base, layout) + _digits(rng, lo, base, layout) + "-" + _digits(rng, hi, base, layout)
