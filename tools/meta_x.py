"""C05 / C06 correspondence on the real library's built-in tables.
Runs under /venv/bin/python with PYTHONPATH=/repo/src.

c05: for each of the 24 rules of the ABNF meta-grammar: end SETS of ABNFGrammarRule(X).lparse(s, i) vs
     (a) the engine model on the tables TRANSLATED from parser.py and (b) the engine model on the grammar read from
     the RFC 5234/7405 TEXT (coq/RfcSpec.v), on sentences derived from the grammar, mutants, and ALL strings up to a
     length bound over a 24-symbol alphabet, at every offset.
c06: the 16 core rules from the base class and from a fresh subclass on single characters (all 1 114 112 code points
     in the thorough tier) vs the B.1 character sets of coq/RfcSpec.v; CRLF and LWSP on all strings up to length 6
     over {SP,HTAB,CR,LF,x} vs the engine model.

usage: meta_x.py --mode c05|c06 --seed S --tier quick|thorough --out FILE
"""
from __future__ import annotations

import argparse
import itertools
import json
import os
import random
import subprocess
import sys
import time

sys.path.insert(0, os.path.dirname(os.path.abspath(__file__)))
import gen  # noqa: E402
import pyimpl  # noqa: E402
import abnf.parser as P  # noqa: E402

DRIVER = os.path.join(os.path.dirname(os.path.abspath(__file__)), "..", "ocaml", "rundriver")
META = ["rulelist", "rule", "rulename", "defined-as", "elements", "c-wsp", "c-nl", "comment", "alternation",
        "concatenation", "repetition", "repeat", "element", "group", "option", "char-val", "num-val", "bin-val",
        "dec-val", "hex-val", "prose-val", "case-insensitive-string", "case-sensitive-string", "quoted-string"]
CORE = ["ALPHA", "BIT", "CHAR", "CR", "CRLF", "CTL", "DIGIT", "DQUOTE", "HEXDIG", "HTAB", "LF", "LWSP", "OCTET", "SP",
        "VCHAR", "WSP"]
ALPHABET = ["A", "1", "-", '"', "%", "x", "b", ".", "*", "/", "(", ")", "[", "]", "<", ">", ";", "=", " ", "\t", "\r", "\n",
            "s", "i", "ſ", "d", "0", "F"]


def stoks(s):
    return [str(len(s))] + [str(ord(c)) for c in s]


def run_driver(lines):
    p = subprocess.run([DRIVER], input="\n".join(lines) + "\n", capture_output=True, text=True, check=False)
    if p.returncode != 0:
        raise RuntimeError("driver failed: " + p.stderr[-1500:])
    return p.stdout.split("\n")


def ends(res):
    if not res.startswith("OK"):
        return res
    return sorted({int(m.split(":", 1)[0]) for m in res[3:].split(";")})


def meta_ast():
    """the implementation's own meta + core grammar as a gen.py AST (for deriving sentences)"""
    def conv(p):
        if isinstance(p, P.Rule):
            return ["ref", p.name]
        if isinstance(p, P.Literal):
            if isinstance(p.value, tuple):
                return ["range", ord(p.value[0]), ord(p.value[1])]
            return ["lit", 1 if p.case_sensitive else 0, p.value]
        if isinstance(p, P.Alternation):
            return ["alt", 0, [conv(x) for x in p.parsers]]
        if isinstance(p, P.Concatenation):
            return ["cat", [conv(x) for x in p.parsers]]
        if isinstance(p, P.Repetition):
            return ["rep", p.repeat.min, p.repeat.max, conv(p.element)]
        if isinstance(p, P.Option):
            return ["opt", conv(p.alternation)]
        return ["prose"]
    rules = []
    for n in META:
        rules.append({"name": n, "def": conv(P.ABNFGrammarRule(n).definition), "excl": None})
    for n in CORE:
        rules.append({"name": n, "def": conv(P.Rule(n).definition), "excl": None})
    return {"rules": rules, "alpha": ALPHABET}


def c05(seed, tier):
    rng = random.Random(seed)
    g = meta_ast()
    maxlen = 2 if tier == "quick" else 3
    nder = 25 if tier == "quick" else 400
    inputs = set(gen.exhaustive_strings(ALPHABET, maxlen))
    n_exh = len(inputs)
    derived = 0
    for n in META:
        for _ in range(nder):
            s = gen.derive(rng, g, ["ref", n], rng.choice([6, 9, 12, 16]))
            if s is not None and len(s) <= 60:
                inputs.add(s)
                derived += 1
                for _ in range(2):
                    inputs.add(gen.mutate(rng, s, ALPHABET))
    # a few realistic texts
    inputs |= {'a = b / "c" ; x\r\n', "a =/ 1*2( b c ) [ %x41-5A ]\r\n b\r\n", '%s"ab"', '%i"ab"', "%x41.42.43", "%b1-10",
               "<prose val>", "a ; c\r\n = b\r\n", "1*", "*", "3", "2*5", "rule-name-1", '%ſ"x"', '%S"x"', "%D65", "%Xaf"}
    # malformed texts a lenient reader might let through (RFC 5234 has no escapes, no nested angle brackets, no dangling ranges)
    inputs |= {'"a\\"b"', 'r = "a\\"b"\r\n', '"\\""', "<a<b>", "<a>b>", "r = <x>>\r\n", "%x41.42-5A", "%d1-2-3", "%b1.0-1", "%x41-", "%x-41",
               "%x41..42", "1**2", "*1*", "a = b\r\n\r\n", "a = b ; c", "a = b\n", ";c\r\n", " a = b\r\n", "a = (b\r\n)\r\n", "a = [ ]\r\n", "a = ( )\r\n",
               "a-- = b\r\n", "-a = b\r\n", "a1-2 = b\r\n", "A = %x0.00.000\r\n", "0*0x", "007", "1*1*1"}
    # a user class derived from the reader's own class that defines rules named like meta rules: the reader must not change
    # (looked up BEFORE the probes below, so that every probe sees the registry after it)
    try:
        U = type("UserReader", (P.ABNFGrammarRule,), {})
        for t in ['comment = "#" *VCHAR CRLF', 'rulename = ALPHA *( ALPHA / DIGIT / "_" )', 'c-wsp = WSP', 'repeat = 1*DIGIT', 'defined-as = ":="',
                  'elements = "x"', 'char-val = "\'" *VCHAR "\'"', 'rule = "r"', 'rulelist = "l"', 'prose-val = "<>"']:
            U.create(t)
    except Exception as e:  # noqa: BLE001
        return {"evaluations": 0, "distinct_nontrivial": 0, "n_mismatches": 1, "stats": {}, "samples": [],
                "mismatches": [{"rule": "-", "s": "-", "i": 0, "what": "defining meta-named rules in a subclass of the reader class raised " + type(e).__name__}]}
    try:
        from abnf.grammars.misc import load_grammar_rules
        for n_ in META:
            r0_ = P.ABNFGrammarRule(n_)
            for alt_ in {n_.replace("s", "\u017f"), n_.upper().replace("S", "\u017f"), n_.replace("k", "\u212a")} - {n_}:
                if P.ABNFGrammarRule(alt_) is not r0_ or P.ABNFGrammarRule.get(alt_) is not r0_ or not hasattr(P.ABNFGrammarRule(n_), "definition"):
                    return {"evaluations": 0, "distinct_nontrivial": 0, "n_mismatches": 1, "stats": {}, "samples": [],
                            "mismatches": [{"rule": n_, "s": alt_, "i": 0, "what": f"looking the reader's rule {n_!r} up as {alt_!r} (same casefold) does not give the same rule object, or the rule lost its definition"}]}

        class UserImports(P.Rule):
            grammar = ['own-rule = element / "!" rulename']
        load_grammar_rules([(n_, P.ABNFGrammarRule(n_)) for n_ in META])(UserImports)
        for n_ in META:
            UserImports.create(f'{n_} =/ "!" / %x23 *VCHAR')
    except Exception as e:  # noqa: BLE001
        return {"evaluations": 0, "distinct_nontrivial": 0, "n_mismatches": 1, "stats": {}, "samples": [],
                "mismatches": [{"rule": "-", "s": "-", "i": 0, "what": "a user grammar importing the reader's rules and extending them with =/ raised " + type(e).__name__ + ": " + str(e)[:100]}]}
    inputs = sorted(inputs)
    lines_t, lines_r, plan = ["RRESET"], ["RRFC"], []
    for s in inputs:
        st = stoks(s)
        offs = range(len(s) + 1) if len(s) <= 6 else sorted({0, 1, len(s) // 2, len(s)})
        for n in META:
            rule = P.ABNFGrammarRule(n)
            for i in offs:
                impl = ends(pyimpl.run_lparse(rule, s, i))
                lines_t.append(" ".join(["RPARSE", "0", "1"] + stoks(n) + [str(i)] + st))
                lines_r.append(" ".join(["RPARSE", "0", "2"] + stoks(n) + [str(i)] + st))
                plan.append((n, s, i, impl))
    out_t = [x for x in run_driver(lines_t)]
    out_r = [x for x in run_driver(lines_r)][1:]
    mism = []
    nontrivial = 0
    accepted = 0
    for (n, s, i, impl), mt, mr in zip(plan, out_t, out_r):
        et, er = ends(mt), ends(mr)
        if isinstance(impl, list):
            accepted += 1
            if len(impl) >= 2 or (impl and impl[0] > i):
                nontrivial += 1
        if impl != et or impl != er:
            mism.append({"rule": n, "s": s, "i": i, "implementation_ends": impl, "model_on_translated_table": et,
                         "rfc_grammar_text": er})
    return {"evaluations": len(plan), "distinct_nontrivial": nontrivial, "mismatches": mism[:50], "n_mismatches": len(mism),
            "stats": {"inputs": len(inputs), "exhaustive_strings": n_exh, "exhaustive_maxlen": maxlen, "derived_sentences": derived,
                      "accepting_calls": accepted, "rules": len(META)},
            "samples": [{"rule": n, "s": s, "i": i, "ends": impl} for n, s, i, impl in plan[:: max(1, len(plan) // 5)][:5]]}


def c06(seed, tier):
    rng = random.Random(seed)
    out = run_driver(["CORECLS"])
    classes = {}
    for ln in out:
        if ln == "END":
            break
        nm, iv = ln.split(" ")
        name = "".join(chr(int(x)) for x in nm.split("."))
        classes[name] = [tuple(int(y) for y in p.split("-")) for p in iv.split(",")]
    if tier == "thorough":
        cps = range(0x110000)
        exhaustive = True
    else:
        pts = set(range(0x300))
        for ivs in classes.values():
            for a, b in ivs:
                pts |= {max(0, a - 1), a, a + 1, max(0, b - 1), b, b + 1}
        pts |= {0xD7FF, 0xD800, 0xDFFF, 0xE000, 0xFFFF, 0x10000, 0x10FFFF, 0x212A, 0x17F, 0xFF21, 0xFF10, 0x660}
        pts |= {rng.randrange(0x110000) for _ in range(4000)}
        cps = sorted(pts)
        exhaustive = False
    sub = type("Fresh", (P.Rule,), {})
    sub2 = type("FreshBelow", (sub,), {})          # a grammar derived from another grammar
    mix = type("FreshMixed", (type("Mixin", (), {}), P.Rule), {})      # ... and one with a mixin listed before Rule
    mism = []
    n_eval = 0
    accepted = 0
    for name, ivs in classes.items():
        r0, r1 = P.Rule(name), sub(name)
        if r0 is not r1:
            mism.append({"rule": name, "what": "a fresh subclass does not see the core rule object"})
        if sub2(name) is not r0 or mix(name.swapcase()) is not r0:
            mism.append({"rule": name, "what": "a grammar class derived from another grammar class (or with a mixin) does not see the core rule object"})
        lp = r0.lparse
        for c in cps:
            ch = chr(c)
            try:
                got = [m.start for m in lp(ch, 0)]
            except P.ParseError:
                got = []
            want = [1] if any(a <= c <= b for a, b in ivs) else []
            n_eval += 1
            accepted += bool(got)
            if got != want:
                mism.append({"rule": name, "code_point": c, "implementation_ends": got, "B1_says": want})
                if len(mism) > 50:
                    break
    # "as seen from any grammar": import EVERY bundled module into this process, then sweep again: the core rules must be
    # the same objects from every bundled class, and still accept exactly the B.1 sets
    import importlib
    gdir = os.path.join(os.path.dirname(P.__file__), "grammars")
    bundled_classes = []
    for f in sorted(os.listdir(gdir)):
        if f.endswith(".py") and f not in ("__init__.py", "misc.py"):
            M = importlib.import_module("abnf.grammars." + f[:-3])
            bundled_classes += [v for v in vars(M).values() if isinstance(v, type) and issubclass(v, P.Rule) and v.__module__ == M.__name__]
    after_pts = sorted(set(range(0x100)) | {p for ivs in classes.values() for a, b in ivs for p in (max(0, a - 1), a, b, b + 1)} | {0x212A, 0x17F, 0x130, 0x10FFFF})
    for name, ivs in classes.items():
        r0 = P.Rule(name)
        for cls in bundled_classes:
            if cls(name) is not r0:
                mism.append({"rule": name, "what": f"{cls.__module__}.{cls.__name__} does not see the core rule object"})
        for c in after_pts:
            try:
                got = [m.start for m in r0.lparse(chr(c), 0)]
            except P.ParseError:
                got = []
            want = [1] if any(a <= c <= b for a, b in ivs) else []
            n_eval += 1
            if got != want:
                mism.append({"rule": name, "code_point": c, "implementation_ends": got, "B1_says": want,
                             "after": "importing every bundled grammar module"})
    # "as seen from any grammar", user side: grammars that import the definitions of core rules under names of their OWN
    # (the documented imported_rules mechanism) and extend their own rules with "=/" must leave the core rules alone.
    # (Names that shadow a core name, and flags on imported rules, are the known findings of C10 and are not used here.)
    from abnf.grammars.misc import load_grammar_rulelist, load_grammar_rules
    imports = [("name-start", "ALPHA"), ("hx", "HEXDIG"), ("blank", "WSP"), ("bin", "BIT"), ("ctl2", "CTL"), ("dig", "DIGIT"),
               ("fold", "LWSP"), ("any", "OCTET"), ("vis", "VCHAR"), ("nl", "CRLF"), ("c7", "CHAR"), ("q", "DQUOTE")]

    def _u1():
        class U1(P.Rule):
            grammar = ['ident = name-start *( name-start / DIGIT )', 'own = "a" / "b"']
        return U1

    def _u2():
        class U2(P.Rule):
            grammar = 'ident = name-start *( name-start / dig )\nline = *( vis / blank ) nl\n'
        return U2
    U1 = load_grammar_rules([(ln, P.Rule(core)) for ln, core in imports])(_u1())
    U2 = load_grammar_rulelist([(ln, P.Rule(core)) for ln, core in imports])(_u2())
    extra_chars = ['"_"', '"g"', '"x"', '"2"', '%x80', '"!"', '%x0B', '%x100', '%xA0', '%x0A', '%x80-FF', '"q"']
    for U in (U1, U2):
        for (ln, _), lit in zip(imports, extra_chars):
            U.create(f"{ln} =/ {lit}")
        U.create('own2 = "a"')
        U.create('own2 =/ "c"')
    for name, ivs in classes.items():
        r0 = P.Rule(name)
        for c in after_pts:
            try:
                got = [m.start for m in r0.lparse(chr(c), 0)]
            except P.ParseError:
                got = []
            want = [1] if any(a <= c <= b for a, b in ivs) else []
            n_eval += 1
            if got != want:
                mism.append({"rule": name, "code_point": c, "implementation_ends": got, "B1_says": want,
                             "after": "two user grammars imported the core definitions under their own names and extended "
                                      "those rules with =/ (" + ", ".join(f"{a} =/ {b}" for (a, _), b in zip(imports, extra_chars)) + ")"})
    # rule NAMES are case-insensitive by str.casefold(): a spelling with U+017F (long s) or U+212A (Kelvin sign) names the same core rule,
    # and merely looking it up must not create, replace or hide anything
    for name in classes:
        r0 = P.Rule(name)
        for alt_ in {name.replace("S", "\u017f"), name.replace("s", "\u017f"), name.lower().replace("s", "\u017f"), name.replace("K", "\u212a")} - {name}:
            for cls in (P.Rule, sub, sub2):
                try:
                    got_ = cls(alt_)
                except Exception as e:  # noqa: BLE001
                    got_ = type(e).__name__
                if got_ is not r0 or cls.get(alt_) is not r0 or P.Rule(name) is not r0 or not hasattr(P.Rule(name), "definition"):
                    mism.append({"rule": name, "what": f"looking the rule up as {alt_!r} (casefolds to {alt_.casefold()!r}) from {cls.__name__} gives {got_!r}, not the core rule; "
                                                      "or the core rule is no longer what it was"})
    for name, s_ in (("LWSP", " " * 5000), ("LWSP", " \r\n\t" * 1300), ("LWSP", "\t" * 4097)):
        try:
            P.Rule(name).parse_all(s_)
        except Exception as e:  # noqa: BLE001
            mism.append({"rule": name, "what": f"a run of {len(s_)} characters of linear white space is rejected: {type(e).__name__}"})
        n_eval += 1
    # CRLF / LWSP / also every core rule on short strings vs the engine model
    alpha = [" ", "\t", "\r", "\n", "x"]
    L = 6 if tier == "thorough" else 5
    strs = gen.exhaustive_strings(alpha, L)
    lines = ["RRESET"]
    plan = []
    for s in strs:
        st = stoks(s)
        for name in ("CRLF", "LWSP"):
            impl = ends(pyimpl.run_lparse(sub(name), s, 0))
            lines.append(" ".join(["RPARSE", "0", "0"] + stoks(name) + ["0"] + st))
            plan.append((name, s, impl))
    for name in CORE:     # all 16 at every offset of a few mixed strings
        # ... and after characters whose lower/upper/casefold forms have ANOTHER LENGTH (İ -> i + U+0307, ß -> ss, ŉ, ǰ, ΐ, ﬁ, ẞ): a
        # rule tried at an offset behind one of them must see the characters that are there
        for s in ["a1 \t\r\n", "\r\n \r\n\t", "Fz\x00\x7f\x80ÿĀ", '"G g', "\r", "\n\r",
                  "\u0130abcdefABCDEF01 \t\r\n", "\u00dfBf\u017fK\u01311 ", "\u0149A\r\n\u01f00\u0390x\ufb019\u1e9ez\"", "\u0130\u0130a\u00dfF"]:
            for i in range(len(s) + 1):
                impl = ends(pyimpl.run_lparse(P.Rule(name), s, i))
                lines.append(" ".join(["RPARSE", "0", "0"] + stoks(name) + [str(i)] + stoks(s)))
                plan.append((name + f"@{i}", s, impl))
    outs = run_driver(lines)
    for (name, s, impl), m in zip(plan, outs):
        n_eval += 1
        if impl != ends(m):
            mism.append({"rule": name, "s": s, "implementation_ends": impl, "model_ends": ends(m)})
    return {"evaluations": n_eval, "distinct_nontrivial": accepted + len(strs), "mismatches": mism[:50], "n_mismatches": len(mism),
            "exhaustive": exhaustive,
            "stats": {"code_points_per_rule": len(cps), "single_char_rules": len(classes), "accepting_single_char_calls": accepted,
                      "crlf_lwsp_strings": len(strs), "string_maxlen": L},
            "samples": [{"rule": "HEXDIG", "B1": classes.get("HEXDIG")}, {"rule": "CRLF", "s": "\r\n", "ends": [2]}]}


def main():
    ap = argparse.ArgumentParser()
    ap.add_argument("--mode", required=True)
    ap.add_argument("--seed", type=int, default=0)
    ap.add_argument("--tier", default="quick")
    ap.add_argument("--out", required=True)
    a = ap.parse_args()
    t0 = time.time()
    r = c05(a.seed, a.tier) if a.mode == "c05" else c06(a.seed, a.tier)
    r["wall_s"] = time.time() - t0
    json.dump(r, open(a.out, "w"))


if __name__ == "__main__":
    main()
