"""shared by C08 C13 C17: run tools/hist_x.py shards in parallel and merge."""
import json
import os
from concurrent.futures import ThreadPoolExecutor

import common as C


def run_hist(ctx, mode, n_quick, n_thorough, shards=6):
    n = n_thorough if ctx["tier"] == "thorough" else n_quick * ctx.get("boost", 1)

    def one(k):
        out = os.path.join(C.WORK, f"h_{mode}_{ctx['seed']}_{k}.json")
        rc, so, se = C.sh([C.PY, os.path.join(C.VERIF, "tools", "hist_x.py"), "--mode", mode, "--seed",
                           str(ctx["seed"] * 100 + k), "--n", str(max(1, n // shards)), "--out", out],
                          env=C.env_for_impl("0"), timeout=3000)
        if rc != 0:
            return {"error": (so + se)[-2000:]}
        return json.load(open(out))

    with ThreadPoolExecutor(max_workers=shards) as ex:
        rs = list(ex.map(one, range(shards)))
    cov = {"evaluations": 0, "distinct_nontrivial": 0, "samples": [], "stats": {}}
    viol = []
    for r in rs:
        if "error" in r:
            viol.append({"what": "harness failed: " + r["error"][-400:], "identity": "harness-error",
                         "replay_payload": {"error": r["error"]}})
            continue
        cov["evaluations"] += r["evaluations"]
        cov["distinct_nontrivial"] += r["distinct_nontrivial"]
        cov["samples"] += r["samples"][:1]
        for k, v in r["stats"].items():
            if isinstance(v, dict):
                d = cov["stats"].setdefault(k, {})
                for kk, vv in v.items():
                    d[kk] = d.get(kk, 0) + vv
            else:
                cov["stats"][k] = cov["stats"].get(k, 0) + v
        for m in r["mismatches"]:
            c = m.pop("case", None)
            # a difference in the ORDER / NUMBER of cache operations with identical results is a broken correspondence (the code
            # no longer is the program the theorem is about), not an input on which the property fails: it is reported only
            # when no result differs anywhere in this run, and then as "no failing input found" (see check.py: deferred)
            events_only = m.get("class") in ("events", "cache-key")
            viol.append({"what": f"{mode}: {json.dumps(m)[:400]}",
                         "identity": mode + ":" + json.dumps(m, sort_keys=True)[:300],
                         "no_input": events_only,
                         "replay_payload": {"property": ctx["pid"], "mismatch": m, "case": c,
                                            **({"no_longer_checks": "correspondence: cache-event trace of the library = trace of the model program (EngineProg.run_traced)"} if events_only else {}),
                                            "how_to_replay": f"tools/hist_x.py --mode {mode} with this case (seed/index inside)"}})
    return cov, viol
