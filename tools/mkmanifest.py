"""regenerates /verif/MANIFEST.json from the table below (kept in one place so it stays valid)"""
import json

NOTE = ("Coq 8.16.1 kernel, no axioms (every property theorem prints 'Closed under the global context'); the theorem is about the "
        "hand-written model (coq/Engine.v, EngineProg.v, Cache.v, Registry.v, Visit.v) or about files generated from /repo by "
        "tools/translate.py; hand-written models are tied to /repo by a differential correspondence check (extracted OCaml model "
        "vs the real library on generated cases), which supports the tie and proves nothing; Python runtime semantics "
        "(generators, exceptions, set/OrderedDict/sorted, str) modelled, not verified")
TECH = "machine-checked proof in Coq"

C = {}
C["C01"] = ("Theorem C01: for every hash-order oracle, every wf+closed+plain grammar, defined rule, string over N and offset 0..|s| the engine model answers from some fuel on and its set of end offsets equals the RFC 5234/7405 relation M exactly (soundness, completeness, termination, no GrammarError), unbounded in grammar and input. Tie: end sets of Rule.lparse vs the extracted model on generated grammars x derived/mutated/random inputs x all offsets.",
            TECH + " (induction on fuel / derivations / lexicographic termination measure) + differential correspondence of the extracted model", "DESIGN.md 4 C01")
C["C02"] = ("Theorems C02_parse / C02_parse_all (plain grammars, against the RFC relation M) and C02_parse_with_flags / C02_parse_all_with_flags (every wf closed grammar incl. first-match flags and exclusions, against the engine's denotation, which C11 shows to be the unique solution of the semantic equations): parse succeeds iff some end exists and returns the greatest one with a tree whose text is s[i:end); parse_all succeeds iff |s| is an end and its tree covers s. Tie: Rule.parse / parse_all outcomes vs extracted model, plain and flagged grammars.",
            TECH + " + differential correspondence", "DESIGN.md 4 C02")
C["C03"] = ("Theorems C03_lparse/parse/parse_all: every tree the engine model offers (any grammar with min<=max bounds, flags and exclusions included) has the rule name at the root, is a derivation (relation D) of the rule over s[i:end), and its leaves tile s[i:end) with exact offsets, lengths and source-case texts. Tie: exact tree equality implementation vs model for every offered match.",
            TECH + " (soundness w.r.t. a derivation-tree relation) + exact-tree differential correspondence", "DESIGN.md 4 C03")
C["C07"] = ("Theorems C07_lparse/parse/parse_all: the engine model parameterised by an arbitrary permutation oracle for every iteration of a set of matches returns the same matches, trees and order for any two oracles. Tie: the same generated cases run by fresh interpreters under many PYTHONHASHSEED values, each compared tree-for-tree with the model.",
            TECH + " (oracle independence via unique ends + stable sort) + multi-hash-seed differential correspondence", "DESIGN.md 4 C07")
C["C08"] = ("Theorems C08_*: the engine as a program over cache events run against model caches returns what the cache-free engine returns for every cache state satisfying 'each entry is a correct memo'; that invariant holds for fresh caches and is preserved by runs, evictions under any limit, clears and limit changes; lifted to all histories. Tie: results and exact cache-event traces of the real library vs the model under scripted histories.",
            TECH + " (free-monad program, goodness invariant, history induction) + event-trace differential correspondence", "DESIGN.md 4 C08")
C["C11"] = ("Theorems C11_*: first-match ON = ends of the first alternative with any match, OFF = union, exclusion = definition matches and excluded rule does not match the span's text entirely; with the RFC clauses these equations have exactly one solution on wf closed grammars (sem_unique) and the engine model is that solution. Tie: end sets and parse results on generated grammars with flags set through toggle sequences and exclusion pairs.",
            TECH + " (equational semantics, existence and uniqueness by well-founded induction) + differential correspondence", "DESIGN.md 4 C11")
C["C12"] = ("Theorems C12_*: termination of the engine model on every wf grammar (flags, exclusions, nullable repetition bodies), every string over N and offset; outcomes are matches / ParseError / GrammarError; closed grammars never GrammarError; undefined rule gives GrammarError. PARTIAL: no polynomial work bound and no stack bound (two known findings: RecursionError on deep right recursion, exponential work on unmemoised alternatives). Tie: exception classes on arbitrary Unicode inputs, runtime probes.",
            TECH + " (lexicographic well-founded measure over a left-recursion certificate) + differential correspondence + runtime probes", "DESIGN.md 4 C12")
C["C13"] = ("Theorems C13_*: after an epoch bump every cache whose stamp is not newer behaves as empty, so the cache invariant holds for ANY new grammar; every public mutation of the registry model bumps the epoch (RegistryProps); with C08 every later answer is the new grammar's cold answer, also over histories mixing requests and grammar changes. Tie: warm-up / mutate / probe histories vs the model on the mutated graph and vs a twin built in the final state.",
            TECH + " (epoch invariant + C08 refinement) + differential correspondence with twins", "DESIGN.md 4 C13")
C["C16"] = ("Theorems C16_*: over ALL operation sequences: size <= limit for n>=1, observable trace equals that of an abstract LRU specification with last-use stamps, the evicted entry has the strictly minimal stamp, counters count lookups, clear empties and zeroes. Tie: exhaustive op sequences (depth 4 quick / 5 thorough, 3 keys, limits None,1,2,3) + random multi-cache histories on the real ParseCache vs extracted model after every step.",
            TECH + " (forward simulation to an LRU spec, invariants by induction over op lists) + exhaustive/random differential correspondence", "DESIGN.md 4 C16")
C["C17"] = ("Theorems C17_partial_*: for ANY schedule over a pool of engine programs at the granularity 'one cache primitive is atomic' (including never resuming some: abandonment), the cache invariant holds after every step and every completed request has its sequential result. PARTIAL: GIL atomicity assumed; pre-emption inside a cache method, free-threaded builds, WeakSet/GC not modelled. Tie: threads pre-empted at every cache operation under exhaustive/random schedules, generator scripts, free-running stress.",
            TECH + " (scheduler over free-monad programs, invariant preserved by every atomic step) + controlled-schedule differential correspondence", "DESIGN.md 4 C17")
C["C18"] = ("Theorems C18_*: dispatch key = name with '-'->'_' and ASCII lower-casing; keys coincide iff names are equal up to case; the handler registered under the key is invoked with exactly the node, otherwise None, never an error; node equality is structural (node_eqb a b = true <-> a = b). Tie: all bundled rule names + random names in random case with random handler subsets; random tree pairs.",
            TECH + " (functional model + reflection lemma) + differential correspondence", "DESIGN.md 4 C18")

C["C04"] = ("PARTIAL PROOF. Theorems C04_partial_*: for every tree on which the visitor model is defined and every registry, the visitor is 'compile after ast_of' (same parser objects, rule objects and creation order), for expressions, rules and rulelists; layout nodes never reach the result; numbers of any length, dotted series, ranges, the five repeat forms, the char-val case flag and <rulename>/prose decode as RFC 5234 section 3 says. Not proved: that every derivation tree of a text has the abstract syntax the independent spec reader returns (unambiguity modulo layout). Tie: three-way differential on generated syntax x random layout x every loading route (implementation / spec reader + registry model / engine on the translated meta-grammar + visitor model), and all 26 bundled classes: real import vs loader model on the translated texts.",
            TECH + " (visitor model = compile o abstraction; layout independence) + three-way differential correspondence + translation of bundled texts", "DESIGN.md 4 C04")
C["C05"] = ("Theorem C05: for each of the 24 meta rules and 16 core rules, every hash-order oracle, string over N and offset, the engine model on the tables TRANSLATED from parser.py on every run lists exactly the end offsets that the grammar read from the RFC 5234 section 4 / RFC 7405 / B.1 text defines. Obligations re-checked by the kernel on every run: wf/closed/plain certificate of the translated tables (verified checkers) and language equivalence by a verified simulation checker (lang_eq_sound). Tie: translator for the tables; end sets of ABNFGrammarRule(X).lparse vs the model on the translated tables and vs the model on the RFC-text grammar, exhaustive short strings + derived sentences + mutants.",
            TECH + " (C01 instantiated on generated tables + verified language-equivalence checker, closed by vm_compute) + translator + differential correspondence", "DESIGN.md 4 C05")
C["C06"] = ("Theorems C06_*: over the core table translated from parser.py: each of the 14 single-character rules matches exactly one character and exactly the B.1 code points, for every natural number c and every string/offset (verified character-class computation + interval equality), the engine accepts [c] iff c is listed; CRLF matches exactly CR LF; every core rule (LWSP included) has the language of its B.1 text; a class without its own rule resolves to the core object. Tie: the real rules from the base class and a fresh subclass on all 1 114 112 code points (thorough) / boundaries+0..0x2FF+random (quick), CRLF/LWSP on all short strings.",
            TECH + " (verified charclass/interval checker over generated tables, closed by vm_compute) + translator + exhaustive code-point sweep", "DESIGN.md 4 C06")
C["C10"] = ("PARTIAL PROOF. Theorems C10_*: lookup is case-insensitive and idempotent; a class resolves a name to its own rule or the core rule, never another class's; defining/extending/redefining a rule in class c leaves every object of every other class and every existing definition object untouched PROVIDED the name does not resolve to a base-class object (C10_partial_isolated); the unrestricted statement is refuted in the model (C10_refuted, witness DIGIT), which replays on the implementation: two known findings (core-name shadowing; import by sharing). Tie: fresh-interpreter histories with registry snapshots and probe parses of the other class, the core rules and the ABNF reader, classified by evidence; whole final registry vs registry model.",
            TECH + " (registry model invariants; refutation witness by vm_compute) + fresh-process history correspondence", "DESIGN.md 4 C10")

C["C09"] = ("Theorems C09_*: over the registry built by the loader model from the grammar texts, import lists and flag statements TRANSLATED from /repo on every run (texts read by the independent spec reader): all modules load; every rule is defined, closed, bounded, free of left recursion (certificate computed and checked by the verified checker), no prose left, and accepts at least one string (witness accepted by the engine run in the kernel); for every rule reaching no flag/exclusion the engine's ends are exactly the RFC relation M over that grammar; for all rules (rfc3986 host, rfc3987 flags included) the engine's denotation is the unique solution of the semantic equations. Tie: translator; complete object graph of all classes vs the loader model; per-module fresh-process behaviour of every rule on derived sentences/mutants vs the engine model.",
            TECH + " (C01/C11 instantiated on generated grammars; obligations closed by vm_compute of verified checkers) + translator + graph and behaviour correspondence", "DESIGN.md 4 C09")
C["C14"] = ("PARTIAL PROOF. Theorems C14_partial_*: kernel-evaluated over the loader model on the translated module descriptions: every module imported alone has, for each of its classes and for core/meta, the same configuration (spellings, definitions with first-match flags, exclusions) as when all modules are imported; likewise for four further orders of all modules and 36 ordered pairs. Not proved: all import sets/orders (would need a frame theorem for the loader up to rule-id renaming). Tie: fresh interpreters importing random subsets/orders vs module-alone, and module-alone vs loader model.",
            TECH + " (obligations over the generated module descriptions closed by vm_compute) + translator + fresh-process import-order correspondence", "DESIGN.md 4 C14")
C["C15"] = ("Theorems C15_*: each of the 24 meta rules and the same-named rule of rfc7405.Rule accept the same strings and match the same ends at every offset (every oracle); each of the 21 rules of rfc5234.Rule does so w.r.t. the grammar read from the RFC 5234 section 4 text (original char-val). Verified simulation checker + C01 on the reachable sub-grammars of the registry built from the translated texts. Tie: translator; parse_all acceptance of the three recognisers on derived sentences, mutants and %s/%i/prose fragments.",
            TECH + " (verified language-equivalence checker + restriction lemma + C01, closed by vm_compute) + translator + differential correspondence", "DESIGN.md 4 C15")
C["C19"] = ("Theorem C19: for 37 of the 46 listed pairs the two rules accept the same strings and match the same ends at every offset (verified simulation checker on the grammars built from the translated texts + C01 on reachable sub-grammars); every listed pair resolves to existing rules; 7 pairs (rfc2616 date rules vs rfc7231) are refuted in the kernel by a concrete string and recorded as a known finding (letter case); 2 pairs (rfc5987/rfc8187 charset, ext-value: an alternative subsumed by another one) are proved by the verified subsumption-pruning checker LangEq2 (C19_subsumed_alternative_pairs); so 39 of 46 proved equal, 7 refuted. Tie: translator; parse_all acceptance of both rules on sentences derived from either side, mutants and fixed probes.",
            TECH + " (verified language-equivalence checker over generated grammars, closed by vm_compute) + translator + differential correspondence", "DESIGN.md 4 C19")

NA = {
 "C04": "check under construction in this session (visitor model + spec reader + translation validation of the 26 bundled texts); not claimed yet",
 "C05": "check under construction (generated meta table vs RFC grammar by verified language-equivalence checker); not claimed yet",
 "C06": "check under construction (generated core table vs B.1 by verified character-class computation); not claimed yet",
 "C09": "check under construction (per-module obligations over generated texts); not claimed yet",
 "C10": "theorems proved (coq/props/C10.v) but the history harness is under construction; not claimed yet",
 "C14": "check under construction (import-order obligations over the loader model); not claimed yet",
 "C15": "check under construction (language-equivalence obligations between meta table and bundled ABNF-of-ABNF); not claimed yet",
 "C19": "check under construction (language-equivalence obligations for the listed pairs); not claimed yet",
}


def chk(pid):
    text, tech, ref = C[pid]
    return {"property_id": pid, "quick_cmd": f"./check {pid} --tier quick", "thorough_cmd": f"./check {pid} --tier thorough",
            "evidence_file": f"/verif/evidence/{pid}.json", "replay_cmd_template": f"./check {pid} --replay {{path}}",
            "engine": "coq-model+correspondence",
            "level_claimed": {"category": "proof", "text": text, "design_ref": ref},
            "level_note": NOTE, "technique": tech}


m = {"version": 1, "setup_cmd": "./setup.sh",
     "hooks": {"guard": "DECLARESUB_ABNF_VERIF",
               "enable": "no source hooks are needed: checks import /repo/src via PYTHONPATH and wrap library objects from the harness; the variable is set by the checks for uniformity",
               "baseline_off_cmd": "cd /repo && /venv/bin/python -m pytest -ra -q -p no:cacheprovider --timeout=900 --continue-on-collection-errors",
               "source_commits": [], "add_only": True},
     "engines": [{"name": "coq-model+correspondence", "path": "/verif/coq, /verif/ocaml, /verif/tools",
                  "serves_properties": sorted(C),
                  "kind_free_text": "Coq 8.16.1 development (models, specs, theorems), translator of source data to Coq, extraction to OCaml, Python harness running the real library"}],
     "checks": [chk(p) for p in sorted(C)],
     "not_applicable": [{"property_id": p, "reason": r} for p, r in sorted(NA.items()) if p not in C],
     "notes": "See DESIGN.md. known_findings.json lists recorded defects; repairs to /repo are 'fix:' commits."}
json.dump(m, open("/verif/MANIFEST.json", "w"), indent=1)
print("checks:", sorted(C), "not claimed:", sorted(p for p in NA if p not in C))
