"""C12 runtime probes on the real library (run under /venv/bin/python, PYTHONPATH=/repo/src):
  recursion: right-recursive rule on a long input with the interpreter's DEFAULT recursion limit
  work: number of lparse calls on  d = "a" d / "a" d / "a"  as the input grows
usage: total_x.py --out FILE
"""
import argparse
import json
import sys

from abnf.parser import Alternation, Concatenation, Literal, ParseError, GrammarError, Rule


def probe_recursion(n):
    class R(Rule):
        pass
    R.create('r = "x" r / "x"')
    try:
        R("r").parse_all("x" * n)
        return "ok"
    except (ParseError, GrammarError) as e:
        return type(e).__name__
    except RecursionError:
        return "RecursionError"
    except Exception as e:  # noqa: BLE001
        return "EXC:" + type(e).__name__


def probe_work(ns):
    class D(Rule):
        pass
    D.create('d = "a" d / "a" d / "a"')
    counts = []
    calls = [0]
    orig = Literal._lparse_value

    def counting(self, source, start):
        calls[0] += 1
        return orig(self, source, start)
    lits = []

    def collect(p):
        if isinstance(p, Literal):
            lits.append(p)
        for x in getattr(p, "parsers", []):
            collect(x)
    collect(D("d").definition)
    for lit in lits:
        lit.lparse = counting.__get__(lit, Literal)
    for n in ns:
        calls[0] = 0
        try:
            D("d").parse_all("a" * n)
        except Exception:  # noqa: BLE001
            pass
        counts.append(calls[0])
    return counts


MEMO_PROBES = [
    # constructs the library DOES memoise (Repetition results and failures, keyed by (source, offset)): the same repetition is
    # reached from several alternatives at the same offset and recursion goes through it; linear in the unchanged library,
    # 3^n without the memo
    ("plus-fail", ['l = 1*i', 'i = "(" ( l "x" / l "y" / l "z" ) / "a"'], "l", lambda n: "(" * n + "?"),
    ("plus-succeed", ['l = 1*i', 'i = "(" ( l "x" / l "y" / l "z" ) / "a"'], "l", lambda n: "(" * n + "a" + "z" * n),
    ("star-fail", ['l = *i', 'i = "(" ( l ")" / l "]" / l "}" ) / "a"'], "l", lambda n: "(" * n + "?"),
    ("star-succeed", ['l = *i', 'i = "(" ( l ")" / l "]" / l "}" ) / "a"'], "l", lambda n: "(" * n + "a" + "}" * n),
    ("flat", ['s = *"a"', 't = s "x" / s "y" / s "z" / s "w"'], "t", lambda n: "a" * n + "w"),
    ("nested-star", ['o = *( "(" o ")" / "(" o "]" ) "a"'], "o", lambda n: "(" * n + "a" + "]a" * n),
]


def probe_memo(ns):
    """literal-match calls per probe and input length; a call budget stops a blow-up early"""
    import time
    out = []
    orig = Literal._lparse_value
    calls = [0]

    class Budget(Exception):
        pass

    def counting(self, source, start):
        calls[0] += 1
        if calls[0] > 400000:
            raise Budget
        return orig(self, source, start)
    Literal._lparse_value = counting
    try:
        for name, lines, start, mk in MEMO_PROBES:
            cls = type("W", (Rule,), {})
            for ln in lines:
                cls.create(ln)
            row = []
            for n in ns:
                s = mk(n)
                calls[0] = 0
                t0 = time.time()
                try:
                    cls(start).parse_all(s)
                    r = "ok"
                except ParseError:
                    r = "ParseError"
                except Budget:
                    r = "budget"
                except RecursionError:
                    r = "RecursionError"
                row.append([len(s), calls[0], r])
                if r == "budget" or time.time() - t0 > 20:
                    break
            out.append({"probe": name, "grammar": lines, "rows": row})
    finally:
        Literal._lparse_value = orig
    return out


def probe_deep_nesting():
    """sentences that nest a recursive rule 12 ... 150 deep (user grammar, the ABNF reader's own group/option rules, nested comments
    of bundled grammars): each IS a sentence, so the outcome is success or RecursionError, never ParseError/GrammarError; and the
    depth at which the interpreter gives up does not change what is returned below it"""
    import importlib
    out = []
    cls = type("DN", (Rule,), {})
    cls.create('nest = "(" *nest ")" / "x"')
    cls.create('opt = "[" [ opt ] "]" [ opt ]')
    probes = []
    for n in (12, 25, 40, 60, 90, 120, 150):
        probes.append(("user nest", cls("nest"), "(" * n + "x" + ")" * n, n))
        probes.append(("user opt", cls("opt"), "[" * n + "]" * n, n))
    from abnf.parser import ABNFGrammarRule
    for n in (5, 10, 15, 20, 25, 30, 40):
        probes.append(("reader element (nested groups)", ABNFGrammarRule("element"), "(" * n + "a" + ")" * n, n))
        probes.append(("reader rule (nested options)", ABNFGrammarRule("rule"), "r = " + "[" * n + "a" + "]" * n + "\r\n", n))
    for mod, rule, mk in (("rfc5322", "comment", lambda n: "(" * n + ")" * n), ("rfc7230", "comment", lambda n: "(" * n + ")" * n),
                          ("rfc9110", "comment", lambda n: "(" * n + "a" + ")" * n), ("rfc5234", "element", lambda n: "(" * n + "a" + ")" * n),
                          ("rfc7405", "element", lambda n: "[" * n + '%s"a"' + "]" * n)):
        try:
            M = importlib.import_module("abnf.grammars." + mod)
        except Exception:  # noqa: BLE001
            continue
        for n in (5, 12, 20, 30, 45, 60, 80, 105):
            probes.append((f"{mod} {rule}", M.Rule(rule), mk(n), n))
    for inner in ("a", '"a"', "%b1-0", "%x41.42", "<a>"):
        for n in range(80, 112):
            probes.append((f"reader element (nested groups around {inner})", ABNFGrammarRule("element"), "(" * n + inner + ")" * n, n))
    probes.append(("user repetition of 10 050 occurrences", cls.create('zs = *"z" "!"'), "z" * 10050 + "!", 1))
    for name, rule, s, n in probes:
        try:
            rule.parse_all(s)
            r = "ok"
        except RecursionError:
            r = "RecursionError"
        except (ParseError, GrammarError) as e:
            r = type(e).__name__
        except Exception as e:  # noqa: BLE001
            r = "EXC:" + type(e).__name__
        if r not in ("ok", "RecursionError"):
            out.append({"rule": name, "depth": n, "length": len(s), "outcome": r})
    return out[:12]


def probe_long_sources():
    """long sources (past 4 096 and 65 536 characters) carrying NUL, non-BMP characters and lone surrogates, at offsets 0 / middle /
    end: every call returns or raises ParseError (the property's exception clause does not depend on the length of the input)"""
    cls = type("LS", (Rule,), {})
    for ln in ['o = *"z" "a"', 'w = 1*( %x21-7E / %x80-10FFFF )', 'q = [ "ab" ] *"b"', 't = 2*3( "ab" / %xD800 ) [ "a" ]']:
        cls.create(ln)
    out = []
    for n in (4097, 5000, 66000):
        base = "ab" * (n // 2)
        for label, s in (("ascii", base), ("nul", base[: n // 2] + "\x00" + base[n // 2:]), ("astral", "\U0001F600" + base),
                         ("surrogate-start", "\ud800" + base), ("surrogate-middle", base[: n // 2] + "\udfff" + base[n // 2:]),
                         ("surrogate-end", base + "\ud800")):
            for rule in ("o", "q", "t") + (("w",) if n <= 4097 else ()):      # w walks the whole source: quadratic in the library
                for kind, call in (("parse0", lambda r: r.parse(s, 0)), ("parse-mid", lambda r: r.parse(s, len(s) // 2)),
                                   ("parse-end", lambda r: r.parse(s, len(s))), ("parse_all", lambda r: r.parse_all(s)),
                                   ("lparse", lambda r: list(r.lparse(s, 1)))):
                    try:
                        call(cls(rule))
                        r = "ok"
                    except ParseError:
                        r = "ParseError"
                    except GrammarError:
                        r = "GrammarError"
                    except Exception as e:  # noqa: BLE001
                        r = "EXC:" + type(e).__name__
                    if r.startswith("EXC"):
                        out.append({"rule": rule, "length": len(s), "content": label, "call": kind, "raised": r[4:]})
    return {"calls": 3 * 6 * 5 * 4 - 6 * 5, "unexpected": out[:10]}


def main():
    ap = argparse.ArgumentParser()
    ap.add_argument("--out", required=True)
    a = ap.parse_args()
    ns = [6, 7, 8, 9, 10, 11, 12]
    json.dump({"recursion_limit": sys.getrecursionlimit(), "recursion_400": probe_recursion(400),
               "recursion_100": probe_recursion(100), "work_ns": ns, "work_calls": probe_work(ns),
               "memo_probes": probe_memo([2, 4, 6, 8, 10, 12, 14]), "long_sources": probe_long_sources(), "deep_nesting": probe_deep_nesting()}, open(a.out, "w"))


if __name__ == "__main__":
    main()
