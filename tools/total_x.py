"""C12 runtime probes on the real library (run under /venv/bin/python, PYTHONPATH=/repo/src):
  recursion: right-recursive rule on a long input with the interpreter's DEFAULT recursion limit
  work: number of lparse calls on  d = "a" d / "a" d / "a"  as the input grows
usage: total_x.py --out FILE
"""
import argparse
import json
import sys

from abnf.parser import Alternation, Concatenation, Literal, ParseError, GrammarError, Rule


def probe_recursion(n):
    class R(Rule):
        pass
    R.create('r = "x" r / "x"')
    try:
        R("r").parse_all("x" * n)
        return "ok"
    except (ParseError, GrammarError) as e:
        return type(e).__name__
    except RecursionError:
        return "RecursionError"
    except Exception as e:  # noqa: BLE001
        return "EXC:" + type(e).__name__


def probe_work(ns):
    class D(Rule):
        pass
    D.create('d = "a" d / "a" d / "a"')
    counts = []
    calls = [0]
    orig = Literal._lparse_value

    def counting(self, source, start):
        calls[0] += 1
        return orig(self, source, start)
    lits = []

    def collect(p):
        if isinstance(p, Literal):
            lits.append(p)
        for x in getattr(p, "parsers", []):
            collect(x)
    collect(D("d").definition)
    for lit in lits:
        lit.lparse = counting.__get__(lit, Literal)
    for n in ns:
        calls[0] = 0
        try:
            D("d").parse_all("a" * n)
        except Exception:  # noqa: BLE001
            pass
        counts.append(calls[0])
    return counts


def main():
    ap = argparse.ArgumentParser()
    ap.add_argument("--out", required=True)
    a = ap.parse_args()
    ns = [6, 7, 8, 9, 10, 11, 12]
    json.dump({"recursion_limit": sys.getrecursionlimit(), "recursion_400": probe_recursion(400),
               "recursion_100": probe_recursion(100), "work_ns": ns, "work_calls": probe_work(ns)}, open(a.out, "w"))


if __name__ == "__main__":
    main()
