"""C18 — visitors route every node to the handler named after its rule; tree equality is structural."""
import json
import os

import common as C

VFILES = ["props/C18.v"]
ASSUMPTIONS = ["rule names are ASCII (ALPHA/DIGIT/'-'), so str.casefold() is ASCII lower-casing"]


def run(ctx):
    out = os.path.join(C.WORK, "c18.json")
    n = 600 * ctx.get("boost", 1) if ctx["tier"] == "quick" else 20000
    rc, so, se = C.sh([C.PY, os.path.join(C.VERIF, "tools", "visit_x.py"), "--seed", str(ctx["seed"]), "--n", str(n),
                       "--out", out], env=C.env_for_impl("0"), timeout=3000)
    if rc != 0:
        return {"coverage": {"evaluations": 0, "distinct_nontrivial": 0},
                "violations": [{"what": "harness failed: " + (so + se)[-400:], "identity": "harness-error",
                                "replay_payload": {"error": (so + se)[-2000:]}}]}
    d = json.load(open(out))
    viol = [{"what": f"{m['kind']}: implementation {m['impl']} / model {m['model']} on {json.dumps(m['case'])[:300]}",
             "identity": "c18:" + json.dumps(m["case"], sort_keys=True)[:300],
             "replay_payload": dict(m, property="C18")} for m in d["mismatches"]]
    cov = {"evaluations": d["evaluations"], "distinct_nontrivial": d["distinct_nontrivial"], "samples": d["samples"],
           "stats": d["stats"],
           "rule": ("dispatch: every rule name registered by the bundled grammars (all classes imported) + random names over "
                    "ALPHA/DIGIT/'-', each in a random letter case, visited by a NodeVisitor subclass with a random subset of "
                    "visit_* handlers (sometimes the matching one, sometimes 'literal'); observed: which handler ran, that it got "
                    "exactly the node, that its result is returned, visit() == __call__(), None without error otherwise; "
                    "equality: random tree pairs (identical copies, exactly-one-difference mutants in name/text/offset/length/"
                    "shape, unrelated) both ways round; all vs coq/Visit.v extracted")}
    return {"coverage": cov, "violations": viol}
