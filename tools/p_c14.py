"""C14 — importing one bundled grammar never changes another."""
import p_c09

VFILES = ["props/C14.v"]
USES_TRANSLATOR = True
EXTRA_TRUST = p_c09.EXTRA_TRUST
ASSUMPTIONS = ["PARTIAL: the theorem covers the import sets/orders listed in coq/L_C14.v; other orders are sampled on the real library"]


def run(ctx):
    r = p_c09._b(ctx, "orders", "orders")
    cov = dict(r["coverage"])
    cov.setdefault("evaluations", 0)
    cov.setdefault("distinct_nontrivial", 0)
    cov["rule"] = ("fresh interpreters importing random subsets (2..6 modules, random order), all modules reversed, all modules sorted; "
                   "for every module involved: every rule of its classes (spelling, definition structure incl. first-match flags, "
                   "exclusions, first_match_alternation property) vs the same module imported alone; core and meta rules vs a clean "
                   "process; and module-alone vs the loader model (r_only)")
    return {"coverage": cov, "violations": r["violations"]}
