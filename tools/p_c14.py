"""C14 — importing one bundled grammar never changes another."""
import common as C
import p_c09

VFILES = ["props/C14.v"]
USES_TRANSLATOR = True
EXTRA_TRUST = p_c09.EXTRA_TRUST
ASSUMPTIONS = ["the theorem is about the loader model (coq/Loader.v) on the translated module descriptions and about canonical configurations (names, definitions with flags, exclusions); Python's import machinery itself (dependencies first, each module once) is modelled by Bundled.dep_closure"]


def run(ctx):
    r = p_c09._b(ctx, "orders", "orders")
    cov = dict(r["coverage"])
    cov.setdefault("evaluations", 0)
    cov.setdefault("distinct_nontrivial", 0)
    cov["rule"] = ("fresh interpreters importing random subsets (2..6 modules, random order), all modules reversed, all modules sorted; "
                   "for every module involved: every rule of its classes (spelling, definition structure incl. first-match flags, "
                   "exclusions, first_match_alternation property) vs the same module imported alone; core and meta rules vs a clean "
                   "process; and module-alone vs the loader model (r_only)")
    viol = list(r["violations"])
    if ctx["tier"] == "thorough":
        # all 625 ordered pairs and every module first / last, evaluated by the kernel on the translated module descriptions
        rc, so, se = C.sh("timeout 5400 coqc -Q . ABNF thorough/C14_orders.v", cwd=C.COQ, timeout=5500)
        ok = rc == 0 and so.count("Closed under the global context") >= 2
        cov["more_orders_kernel_checked"] = {"file": "coq/thorough/C14_orders.v", "discharged": ok, "ordered_pairs": 625,
                                             "first_last_orders": 75}
        if not ok:
            viol.append({"what": "kernel-checked obligation 'every ordered pair / every module first and last gives the same configuration' no longer holds: " + (so + se)[-300:],
                         "identity": "c14-orders-obligation", "no_input": True,
                         "replay_payload": {"property": "C14", "no_longer_checks": "coq/thorough/C14_orders.v", "output": (so + se)[-1500:]}})
    return {"coverage": cov, "violations": viol}
