"""translate.py — the TRANSLATOR tie: turns everything that is DATA in /repo's source into Coq:
  src/abnf/parser.py   core-rule table and ABNF meta-grammar table  -> coq/gen/GenTables.v
  src/abnf/grammars/*.py   per class: grammar text(s), import list, flag statements -> coq/gen/GenBundled.v
Uses the Python `ast` module only; NEVER imports abnf.  FAIL-CLOSED: any construct outside the vocabulary
that occurs today stops the translation with "untranslatable construct at file:line" (exit 2).
Files are only rewritten when their content changes (so `make` stays incremental).

usage: translate.py --repo /repo --out /verif/coq/gen
"""
from __future__ import annotations

import argparse
import ast
import os
import sys


class Untranslatable(Exception):
    pass


def fail(path, node, what):
    raise Untranslatable(f"untranslatable construct at {path}:{getattr(node, 'lineno', '?')}: {what}")


# ------------------------------------------------------------------ Coq text helpers
def coq_string(s):
    """a Coq string literal for printable ASCII text"""
    return '"' + s.replace('"', '""') + '"'


def coq_str(s):
    """a Coq term of type str (list N) for any Python str: printable-ASCII runs as string literals"""
    parts = []
    run = ""
    for ch in s:
        o = ord(ch)
        if 0x20 <= o <= 0x7E:
            run += ch
        else:
            if run:
                parts.append(f"s_of {coq_string(run)}")
                run = ""
            parts.append(f"[{o}%N]")
    if run:
        parts.append(f"s_of {coq_string(run)}")
    if not parts:
        return "(@nil N)"
    if len(parts) == 1:
        return "(" + parts[0] + ")"
    return "(" + " ++ ".join(parts) + ")%list"


# ------------------------------------------------------------------ parser.py tables
CLS = {"Rule": 0, "ABNFGrammarRule": 1}


def const_str(path, n):
    if isinstance(n, ast.Constant) and isinstance(n.value, str):
        return n.value
    fail(path, n, "string constant expected")


def table_expr(path, n):
    """Alternation/Concatenation/Repetition/Repeat/Option/Literal/Rule/ABNFGrammarRule constructor terms"""
    if not (isinstance(n, ast.Call) and isinstance(n.func, ast.Name)):
        fail(path, n, "constructor call expected")
    f = n.func.id
    kw = {k.arg: k.value for k in n.keywords}
    if f in ("Rule", "ABNFGrammarRule"):
        if len(n.args) != 1 or kw:
            fail(path, n, f"{f}(name) expected")
        return f"TRef {CLS[f]} {coq_str(const_str(path, n.args[0]))}"
    if f == "Literal":
        if len(n.args) not in (1, 2) or set(kw) - {"case_sensitive"}:
            fail(path, n, "Literal(value[, case_sensitive]) expected")
        cs = False
        if len(n.args) == 2:
            cs = const_bool(path, n.args[1])
        if "case_sensitive" in kw:
            cs = const_bool(path, kw["case_sensitive"])
        v = n.args[0]
        if isinstance(v, ast.Tuple):
            if len(v.elts) != 2:
                fail(path, v, "2-tuple expected")
            lo, hi = const_str(path, v.elts[0]), const_str(path, v.elts[1])
            if len(lo) != 1 or len(hi) != 1:
                fail(path, v, "single-character range bounds expected")
            return f"TRange {ord(lo)} {ord(hi)}"
        return f"TLit {'true' if cs else 'false'} {coq_str(const_str(path, v))}"
    if f in ("Alternation", "Concatenation"):
        if set(kw) - {"first_match"}:
            fail(path, n, "unexpected keyword")
        fm = const_bool(path, kw["first_match"]) if "first_match" in kw else False
        items = "; ".join(table_expr(path, a) for a in n.args)
        if f == "Alternation":
            return f"TAlt {'true' if fm else 'false'} [{items}]"
        if "first_match" in kw:
            fail(path, n, "first_match on Concatenation")
        return f"TCat [{items}]"
    if f == "Repetition":
        if len(n.args) != 2 or kw:
            fail(path, n, "Repetition(Repeat(..), element) expected")
        mn, mx = repeat_args(path, n.args[0])
        return f"TRep {mn} {mx} ({table_expr(path, n.args[1])})"
    if f == "Option":
        if len(n.args) != 1 or kw:
            fail(path, n, "Option(x) expected")
        return f"TOpt ({table_expr(path, n.args[0])})"
    if f == "Prose":
        return "TProse"
    fail(path, n, f"unknown constructor {f}")


def const_bool(path, n):
    if isinstance(n, ast.Constant) and isinstance(n.value, bool):
        return n.value
    fail(path, n, "boolean constant expected")


def repeat_args(path, n):
    if not (isinstance(n, ast.Call) and isinstance(n.func, ast.Name) and n.func.id == "Repeat"):
        fail(path, n, "Repeat(..) expected")
    vals = {"min": 0, "max": None}
    names = ["min", "max"]
    for i, a in enumerate(n.args):
        if i > 1:
            fail(path, n, "too many Repeat arguments")
        vals[names[i]] = const_int_or_none(path, a)
    for k in n.keywords:
        if k.arg not in vals:
            fail(path, n, "unexpected Repeat keyword")
        vals[k.arg] = const_int_or_none(path, k.value)
    if vals["min"] is None or vals["min"] < 0 or vals["min"] > 4000 or (vals["max"] is not None and not 0 <= vals["max"] <= 4000):
        fail(path, n, "Repeat bounds out of the translatable range")
    return str(vals["min"]), ("None" if vals["max"] is None else f"(Some {vals['max']})")


def const_int_or_none(path, n):
    if isinstance(n, ast.Constant) and (n.value is None or (isinstance(n.value, int) and not isinstance(n.value, bool))):
        return n.value
    fail(path, n, "integer constant or None expected")


def parser_tables(path):
    tree = ast.parse(open(path, encoding="utf-8").read())
    tables = []
    for node in tree.body:
        if isinstance(node, ast.For):
            it = node.iter
            if (isinstance(it, ast.Call) and isinstance(it.func, ast.Attribute) and it.func.attr == "cast"
                    and len(it.args) == 2 and isinstance(it.args[1], ast.List)):
                # body must be exactly  Cls(x[0], x[1])
                if not (len(node.body) == 1 and isinstance(node.body[0], ast.Expr)
                        and isinstance(node.body[0].value, ast.Call)
                        and isinstance(node.body[0].value.func, ast.Name)
                        and node.body[0].value.func.id in CLS
                        and ast.dump(node.body[0].value.args[0]) == ast.dump(ast.Subscript(
                            value=ast.Name(id=node.target.id, ctx=ast.Load()), slice=ast.Constant(value=0), ctx=ast.Load()))
                        and ast.dump(node.body[0].value.args[1]) == ast.dump(ast.Subscript(
                            value=ast.Name(id=node.target.id, ctx=ast.Load()), slice=ast.Constant(value=1), ctx=ast.Load()))):
                    fail(path, node, "table loop body is not Cls(x[0], x[1])")
                cls = node.body[0].value.func.id
                rows = []
                for elt in it.args[1].elts:
                    if not (isinstance(elt, ast.Tuple) and len(elt.elts) == 2):
                        fail(path, elt, "(name, parser) tuple expected")
                    rows.append((const_str(path, elt.elts[0]), table_expr(path, elt.elts[1])))
                tables.append((cls, rows))
    if [c for c, _ in tables] != ["Rule", "ABNFGrammarRule"]:
        raise Untranslatable(f"untranslatable construct at {path}: expected exactly the core table and the "
                             f"meta-grammar table, found {[c for c, _ in tables]}")
    return tables


# ------------------------------------------------------------------ grammars/*.py
def grammar_value(path, n, classes_so_far, modules):
    """the `grammar` class attribute: list of str constants (with *other.Rule.grammar splices) or one str"""
    if isinstance(n, ast.Constant) and isinstance(n.value, str):
        return ("text", n.value)
    if isinstance(n, ast.List):
        out = []
        for e in n.elts:
            if isinstance(e, ast.Constant) and isinstance(e.value, str):
                out.append(e.value)
            elif (isinstance(e, ast.Starred) and isinstance(e.value, ast.Attribute) and e.value.attr == "grammar"
                  and isinstance(e.value.value, ast.Attribute) and isinstance(e.value.value.value, ast.Name)):
                m, c = e.value.value.value.id, e.value.value.attr
                src = modules.get(m, {}).get(c)
                if src is None or src["kind"] != "list":
                    fail(path, e, f"splice of {m}.{c}.grammar which is not a translated list grammar")
                out += src["texts"]
            else:
                fail(path, e, "grammar list element is neither a string constant nor *mod.Cls.grammar")
        return ("list", out)
    fail(path, n, "grammar attribute is neither a string nor a list")


def import_list(path, n, thismod):
    """[("name", mod.Rule("x")), ("name", LocalCls("x")), ...]"""
    if not isinstance(n, ast.List):
        fail(path, n, "import list literal expected")
    out = []
    for e in n.elts:
        if not (isinstance(e, ast.Tuple) and len(e.elts) == 2):
            fail(path, e, "(name, rule) tuple expected")
        local = const_str(path, e.elts[0])
        c = e.elts[1]
        if not (isinstance(c, ast.Call) and len(c.args) == 1 and not c.keywords):
            fail(path, c, "Cls(name) expected")
        rn = const_str(path, c.args[0])
        if isinstance(c.func, ast.Attribute) and isinstance(c.func.value, ast.Name):
            out.append((local, c.func.value.id, c.func.attr, rn))
        elif isinstance(c.func, ast.Name):
            out.append((local, thismod, c.func.id, rn))
        else:
            fail(path, c, "mod.Cls(name) expected")
    return out


def is_rfc3987_loop(node):
    """for rule in Rule.rules():
           imported = rfc3986.Rule.get(rule.name)
           if imported is None or getattr(imported, "definition", None) is not rule.definition:
               rule.first_match_alternation = True"""
    want = ("For(target=Name(id='rule', ctx=Store()), iter=Call(func=Attribute(value=Name(id='Rule', ctx=Load()), "
            "attr='rules', ctx=Load()), args=[], keywords=[]), body=[Assign(targets=[Name(id='imported', ctx=Store())], "
            "value=Call(func=Attribute(value=Attribute(value=Name(id='rfc3986', ctx=Load()), attr='Rule', ctx=Load()), "
            "attr='get', ctx=Load()), args=[Attribute(value=Name(id='rule', ctx=Load()), attr='name', ctx=Load())], "
            "keywords=[])), If(test=BoolOp(op=Or(), values=[Compare(left=Name(id='imported', ctx=Load()), ops=[Is()], "
            "comparators=[Constant(value=None)]), Compare(left=Call(func=Name(id='getattr', ctx=Load()), "
            "args=[Name(id='imported', ctx=Load()), Constant(value='definition'), Constant(value=None)], keywords=[]), "
            "ops=[IsNot()], comparators=[Attribute(value=Name(id='rule', ctx=Load()), attr='definition', ctx=Load())])]), "
            "body=[Assign(targets=[Attribute(value=Name(id='rule', ctx=Load()), attr='first_match_alternation', "
            "ctx=Store())], value=Constant(value=True))], orelse=[])], orelse=[])")
    return ast.dump(node) == want


def is_flag_all_loop(node):
    """for rule in Rule.rules(): rule.first_match_alternation = True   (the unguarded form)"""
    want = ("For(target=Name(id='rule', ctx=Store()), iter=Call(func=Attribute(value=Name(id='Rule', ctx=Load()), "
            "attr='rules', ctx=Load()), args=[], keywords=[]), body=[Assign(targets=[Attribute(value=Name(id='rule', "
            "ctx=Load()), attr='first_match_alternation', ctx=Store())], value=Constant(value=True))], orelse=[])")
    return ast.dump(node) == want


def translate_module(path, modname, modules):
    tree = ast.parse(open(path, encoding="utf-8").read())
    classes = {}
    order = []
    deps = []
    for node in tree.body:
        if isinstance(node, ast.Expr) and isinstance(node.value, ast.Constant) and isinstance(node.value.value, str):
            continue  # docstring
        if isinstance(node, ast.ImportFrom):
            if node.module in ("typing", "abnf.parser", "misc") or (node.level == 1 and node.module == "misc"):
                continue
            if node.level == 1 and node.module is None:
                deps += [a.name for a in node.names]
                continue
            fail(path, node, f"import from {node.module}")
        if isinstance(node, ast.Import):
            fail(path, node, "plain import")
        if isinstance(node, ast.ClassDef):
            if len(node.decorator_list) != 1:
                fail(path, node, "exactly one decorator expected")
            d = node.decorator_list[0]
            if not (isinstance(d, ast.Call) and isinstance(d.func, ast.Name)
                    and d.func.id in ("load_grammar_rules", "load_grammar_rulelist") and not d.keywords and len(d.args) <= 1):
                fail(path, d, "decorator is not load_grammar_rules([...]) / load_grammar_rulelist([...])")
            imports = import_list(path, d.args[0], modname) if d.args else []
            if not (len(node.bases) == 1 and isinstance(node.bases[0], ast.Name) and node.bases[0].id == "_Rule"):
                fail(path, node, "base class is not abnf.parser.Rule")
            gram = None
            for st in node.body:
                if isinstance(st, ast.Expr) and isinstance(st.value, ast.Constant) and isinstance(st.value.value, str):
                    continue
                tgt = None
                if isinstance(st, ast.Assign) and len(st.targets) == 1 and isinstance(st.targets[0], ast.Name):
                    tgt, val = st.targets[0].id, st.value
                elif isinstance(st, ast.AnnAssign) and isinstance(st.target, ast.Name) and st.value is not None:
                    tgt, val = st.target.id, st.value
                if tgt != "grammar":
                    fail(path, st, "class body statement other than the grammar attribute")
                gram = grammar_value(path, val, classes, dict(modules, **{modname: classes}))
            if gram is None:
                fail(path, node, "class without grammar attribute")
            kind, payload = gram
            want = "list" if d.func.id == "load_grammar_rules" else "text"
            if kind != want:
                fail(path, node, f"{d.func.id} used with a grammar of kind {kind}")
            classes[node.name] = {"kind": kind, "texts": payload if kind == "list" else [payload],
                                  "imports": imports, "flags": [], "line": node.lineno}
            order.append(node.name)
            continue
        # Rule('x').first_match_alternation = True/False
        if (isinstance(node, ast.Assign) and len(node.targets) == 1 and isinstance(node.targets[0], ast.Attribute)
                and node.targets[0].attr == "first_match_alternation" and isinstance(node.targets[0].value, ast.Call)
                and isinstance(node.targets[0].value.func, ast.Name) and node.targets[0].value.func.id in classes
                and len(node.targets[0].value.args) == 1 and not node.targets[0].value.keywords):
            c = node.targets[0].value.func.id
            classes[c]["flags"].append(("rule", const_str(path, node.targets[0].value.args[0]), const_bool(path, node.value)))
            continue
        if isinstance(node, ast.For) and is_rfc3987_loop(node) and "Rule" in classes:
            classes["Rule"]["flags"].append(("own_not_shared_with", "rfc3986", "Rule", True))
            continue
        if isinstance(node, ast.For) and is_flag_all_loop(node) and "Rule" in classes:
            classes["Rule"]["flags"].append(("all", True))
            continue
        if isinstance(node, ast.Assign) and len(node.targets) == 1 and isinstance(node.targets[0], ast.Name) \
                and node.targets[0].id == "__all__":
            continue
        fail(path, node, f"module-level statement {type(node).__name__}")
    return classes, order, deps


def emit_flag(f):
    if f[0] == "rule":
        return f"FlagRule {coq_str(f[1])} {'true' if f[2] else 'false'}"
    if f[0] == "all":
        return f"FlagAll {'true' if f[1] else 'false'}"
    return f"FlagOwnNotSharedWith {coq_str(f[1])} {coq_str(f[2])} {'true' if f[3] else 'false'}"


def write_if_changed(path, text):
    if os.path.exists(path) and open(path, encoding="utf-8").read() == text:
        return False
    with open(path, "w", encoding="utf-8") as f:
        f.write(text)
    return True


HEADER = """(* GENERATED by tools/translate.py from /repo's current working tree — do not edit. *)
From Coq Require Import List NArith String.
Import ListNotations.
From ABNF Require Import Base GenTypes.
Open Scope string_scope.
"""


def main():
    ap = argparse.ArgumentParser()
    ap.add_argument("--repo", default="/repo")
    ap.add_argument("--out", required=True)
    a = ap.parse_args()
    os.makedirs(a.out, exist_ok=True)
    try:
        ppath = os.path.join(a.repo, "src", "abnf", "parser.py")
        tables = parser_tables(ppath)
        out = [HEADER]
        for cls, rows in tables:
            nm = "core_table" if cls == "Rule" else "meta_table"
            out.append(f"Definition {nm} : list (str * texpr) := [")
            out.append(";\n".join(f"  ({coq_str(n)}, {e})" for n, e in rows))
            out.append("].\n")
        write_if_changed(os.path.join(a.out, "GenTables.v"), "\n".join(out))

        gdir = os.path.join(a.repo, "src", "abnf", "grammars")
        files = sorted(f for f in os.listdir(gdir) if f.endswith(".py") and f not in ("__init__.py", "misc.py"))
        raw = {}
        deps = {}
        pending = list(files)
        modules = {}
        order_all = []
        # translate in dependency order (a module may splice another module's grammar list)
        progress = True
        while pending and progress:
            progress = False
            for f in list(pending):
                mod = f[:-3]
                path = os.path.join(gdir, f)
                tree = ast.parse(open(path, encoding="utf-8").read())
                need = [al.name for n in tree.body if isinstance(n, ast.ImportFrom) and n.level == 1 and n.module is None
                        for al in n.names]
                if all(d in modules for d in need):
                    classes, order, dps = translate_module(path, mod, modules)
                    modules[mod] = classes
                    deps[mod] = dps
                    order_all += [(mod, c) for c in order]
                    pending.remove(f)
                    progress = True
        if pending:
            raise Untranslatable(f"untranslatable construct: import cycle or unknown module among {pending}")
        out = [HEADER, "Definition bundled : list gclass := ["]
        items = []
        for mod, c in order_all:
            k = modules[mod][c]
            texts = ";\n      ".join(coq_str(t) for t in k["texts"])
            imps = ";\n      ".join(f"({coq_str(l)}, ({coq_str(m)}, {coq_str(cc)}, {coq_str(rn)}))" for l, m, cc, rn in k["imports"])
            flags = "; ".join(emit_flag(f) for f in k["flags"])
            dl = "; ".join(coq_str(d) for d in deps[mod])
            items.append(f"  {{| gmod := {coq_str(mod)}; gcls := {coq_str(c)}; gkind_list := {'true' if k['kind'] == 'list' else 'false'};\n"
                         f"     gdeps := [{dl}];\n"
                         f"     gtexts := [\n      {texts}];\n     gimports := [\n      {imps}];\n     gflags := [{flags}] |}}")
        out.append(";\n".join(items))
        out.append("].\n")
        write_if_changed(os.path.join(a.out, "GenBundled.v"), "\n".join(out))
        nrules = sum(len(k["texts"]) for m in modules.values() for k in m.values())
        print(f"translated: core {len(tables[0][1])} rules, meta {len(tables[1][1])} rules, "
              f"{len(order_all)} classes in {len(modules)} modules, {nrules} texts")
    except Untranslatable as e:
        print(str(e))
        sys.exit(2)
    except SyntaxError as e:
        print(f"untranslatable construct at {e.filename}:{e.lineno}: Python syntax error")
        sys.exit(2)


if __name__ == "__main__":
    main()
