"""Bundled-grammar correspondence (C04/C09 graph, C09 behaviour, C14 import orders, C15 self-description, C19 shared
constructs).  The parent runs under /venv/bin/python; every implementation run happens in a FRESH interpreter
(child mode) that imports exactly the modules it is told to.

usage: bundled_x.py --mode graph|behaviour|orders|c15|c19 --seed S --tier quick|thorough --out FILE
       bundled_x.py --child JOBFILE        (prints JSON)
"""
from __future__ import annotations

import argparse
import json
import os
import random
import subprocess
import sys
import tempfile
import time
from concurrent.futures import ThreadPoolExecutor

sys.path.insert(0, os.path.dirname(os.path.abspath(__file__)))
import common as C  # noqa: E402
import gen  # noqa: E402
import reg_x  # noqa: E402

DRIVER = os.path.join(C.OCAML, "rundriver")


def stoks(s):
    return [str(len(s))] + [str(ord(c)) for c in s]


def modules():
    gdir = os.path.join(C.REPO, "src", "abnf", "grammars")
    return sorted(f[:-3] for f in os.listdir(gdir) if f.endswith(".py") and f not in ("__init__.py", "misc.py"))


def run_driver(lines):
    p = subprocess.run([DRIVER], input="\n".join(lines) + "\n", capture_output=True, text=True, check=False)
    if p.returncode != 0:
        raise RuntimeError("driver failed: " + p.stderr[-1500:])
    return p.stdout.split("\n")


def ends(res):
    if not res.startswith("OK"):
        return res
    return sorted({int(m.split(":", 1)[0]) for m in res[3:].split(";")})


def child(job, hashseed="0", env_extra=None):
    with tempfile.NamedTemporaryFile("w", suffix=".json", delete=False) as f:
        json.dump(job, f)
        path = f.name
    try:
        p = subprocess.run([C.PY, os.path.abspath(__file__), "--child", path], capture_output=True, text=True,
                           env=dict(C.env_for_impl(hashseed), **(env_extra or {})), check=False)
    finally:
        os.unlink(path)
    if p.returncode != 0:
        return {"__error__": p.stderr[-2000:]}
    return json.loads(p.stdout)


def process_globals(P):
    """settings of the interpreter and of the library that are shared by every grammar in the process and can change what a
    parse returns or raises: an import of a grammar module has no business changing them"""
    import sys
    g = {"sys.recursionlimit": sys.getrecursionlimit(), "sys.switchinterval": sys.getswitchinterval(),
         "sys.int_max_str_digits": sys.get_int_max_str_digits() if hasattr(sys, "get_int_max_str_digits") else None}
    skip = {"_obj_map", "objects", "epoch", "__dict__", "__weakref__", "__doc__", "__module__", "__annotations__", "__abstractmethods__",
            "_abc_impl", "__parameters__", "__orig_bases__", "__slots__", "__qualname__", "__firstlineno__", "__static_attributes__"}
    for cn in ("Rule", "ABNFGrammarRule", "Alternation", "Concatenation", "Repetition", "Repeat", "Option", "Literal", "ParseCache", "Node",
               "LiteralNode", "NodeVisitor", "Match", "ParseError", "GrammarError"):
        c = getattr(P, cn, None)
        if c is None:
            continue
        for k, v in vars(c).items():
            if k in skip or callable(v) or isinstance(v, (classmethod, staticmethod, property)):
                continue
            if " at 0x" not in repr(v):
                g[f"{cn}.{k}"] = repr(v)[:200]
    for k, v in vars(P).items():
        if not k.startswith("__") and isinstance(v, (int, float, str, bytes, bool, tuple, frozenset, type(None))) and " at 0x" not in repr(v):
            g["parser." + k] = repr(v)[:200]
        elif not k.startswith("__") and isinstance(v, (dict, list, set)) and k.isupper():
            g["parser." + k] = "%s of %d items, hash %d" % (type(v).__name__, len(v), hash(repr(sorted(map(repr, v.items() if isinstance(v, dict) else v)))) % 10**9)
    return g


# ------------------------------------------------------------------ child side (real library)
def child_main(path):
    import importlib
    job = json.load(open(path))
    import abnf.parser as P
    import pyimpl
    for t in job.get("prelude", []):
        try:
            P.Rule.create(t)      # application rules on the BASE class, defined before any grammar module is imported
        except Exception:  # noqa: BLE001  (some prelude texts are refused on purpose: a refused compile must leave nothing behind)
            pass
    for m in job.get("import", []):
        importlib.import_module("abnf.grammars." + m)
    out = {}
    if job.get("dump"):
        out["dump"] = reg_x.impl_dump([])
        out["globals"] = process_globals(P)
    if job.get("gen"):
        # derive sentences from the library's own object graph for the rules of the given classes
        out["cases"] = gen_cases(P, job["gen"])
    if job.get("probe"):
        res = []
        for mod, cn, name, s, i, kind in job["probe"]:
            cls = getattr(importlib.import_module("abnf.grammars." + mod), cn) if mod not in ("core", "meta") else \
                (P.Rule if mod == "core" else P.ABNFGrammarRule)
            r = cls.get(name)
            if r is None:
                res.append("NORULE")
            elif kind == 0:
                res.append(pyimpl.run_lparse(r, s, i))
            elif kind == 1:
                res.append(pyimpl.run_parse(r, s, i))
            else:
                res.append(pyimpl.run_parse_all(r, s))
        out["probe"] = res
    if job.get("flags"):
        fl = {}
        for mod in job["flags"]:
            M = importlib.import_module("abnf.grammars." + mod)
            for cn in [k for k, v in vars(M).items() if isinstance(v, type) and issubclass(v, P.Rule) and v.__module__ == M.__name__]:
                for r in getattr(M, cn).rules():
                    fl[f"{mod}.{cn}|{r.name.casefold()}"] = bool(r.first_match_alternation)
        out["flags"] = fl
    json.dump(out, sys.stdout)


def gen_cases(P, spec):
    """spec = {"classes": [[mod, cls]...], "seed", "per_rule", "maxlen"} -> list of [mod, cls, rule name, string]"""
    import importlib
    rng = random.Random(spec["seed"])
    label = {}
    for (c, k), o in P.Rule._obj_map.items():
        label[id(o)] = (("core" if c is P.Rule else "meta" if c is P.ABNFGrammarRule else c.__module__.split(".")[-1] + "." + c.__name__)
                        + "|" + k)
    defs = {}
    alpha = set()

    def conv(p):
        if isinstance(p, P.Rule):
            return ["ref", label[id(p)]]
        if isinstance(p, P.Literal):
            if isinstance(p.value, tuple):
                return ["range", ord(p.value[0]), ord(p.value[1])]
            for ch in p.value:
                alpha.add(ch)
            return ["lit", 1 if p.case_sensitive else 0, p.value]
        if isinstance(p, P.Alternation):
            return ["alt", 0, [conv(x) for x in p.parsers]]
        if isinstance(p, P.Concatenation):
            return ["cat", [conv(x) for x in p.parsers]]
        if isinstance(p, P.Repetition):
            return ["rep", p.repeat.min, p.repeat.max, conv(p.element)]
        if isinstance(p, P.Option):
            return ["opt", conv(p.alternation)]
        return ["prose"]

    for (c, k), o in P.Rule._obj_map.items():
        d = getattr(o, "definition", None)
        if d is not None:
            defs[label[id(o)]] = conv(d)
    g = {"rules": [{"name": n, "def": d, "excl": None} for n, d in defs.items()], "alpha": sorted(alpha) or ["a"]}
    cases = []
    for mod, cn in spec["classes"]:
        cls = (P.ABNFGrammarRule if mod == "meta" else P.Rule if mod == "core" else
               getattr(importlib.import_module("abnf.grammars." + mod), cn))
        for r in cls.rules():
            lab = label[id(r)]
            seen = set()
            for _ in range(spec["per_rule"]):
                s = gen.derive(rng, g, ["ref", lab], rng.choice([8, 12, 18, 25]))
                if s is None or len(s) > spec["maxlen"]:
                    continue
                for t in (s, gen.mutate(rng, s, g["alpha"][:40] or ["a"])):
                    if t not in seen:
                        seen.add(t)
                        cases.append([mod, cn, r.name, t])
            for t in ("", "a", "~", " "):
                if t not in seen:
                    cases.append([mod, cn, r.name, t])
            # one LONG sentence for some rules (more than 256 characters: hundreds of partial matches alive)
            if spec.get("long") and rng.random() < spec["long"]:
                for _ in range(3):
                    s = gen.derive(rng, g, ["ref", lab], 14, long_rep=262)
                    if s is not None and 256 < len(s) <= 700:
                        cases.append([mod, cn, r.name, s])
                        break
    return cases


# ------------------------------------------------------------------ graph (C04 / C09)
def graph(a):
    mods = modules()
    impl = reg_x.child_dump(mods, C.env_for_impl("0"))
    viol = []
    if "__error__" in impl:
        return {"coverage": {"classes": 0}, "violations": [{"what": "importing the bundled modules failed: " + impl["__error__"][-300:],
                                                            "identity": "bundled-import-error", "replay_payload": impl}]}
    model = reg_x.model_dump("REGALL")
    if model is None:
        return {"coverage": {"classes": 0},
                "violations": [{"what": "the loader model rejects the bundled modules as translated (load raises in the model)",
                                "identity": "bundled-model-load", "replay_payload": {}}]}
    d = reg_x.diff(impl, model)
    for x in d[:20]:
        viol.append({"what": f"bundled rule {x['rule']}: {x['what']} between the library's compile and the spec reader/loader model: "
                             + json.dumps({k: x.get(k) for k in ('implementation', 'model')})[:400],
                     "identity": "bundled-graph:" + x["rule"] + ":" + x["what"], "replay_payload": dict(x, property="C04/C09")})
    labs = {k.split("|")[0] for k in impl}
    return {"coverage": {"rule_objects_compared": len(impl), "classes": len(labs), "differences": len(d)}, "violations": viol}


# ------------------------------------------------------------------ behaviour (C09)
def class_list():
    out = run_driver(["REGBOOT"])
    cl = []
    for ln in out:
        t = ln.split(" ")
        if t[0] == "CLASS":
            dec = lambda s: "".join(chr(int(x)) for x in s.split("."))  # noqa: E731
            cl.append((dec(t[2]), dec(t[3])))
    return cl


def behaviour(a):
    """per module, in a process that imported only that module: every rule on sentences derived from the grammar,
    mutants and a few fixed strings; end sets at offset 0 vs the engine model on the loader model's registry"""
    per_rule = 6 * min(a.boost, 2) if a.tier == "quick" else 60     # all 866 rules x per_rule sentences: keep the boosted quick run well under 15 min
    classes = class_list()
    bymod = {}
    for m, c in classes:
        bymod.setdefault(m, []).append(c)

    def one(mod):
        job = {"import": [mod], "gen": {"classes": [[mod, c] for c in bymod[mod]], "seed": a.seed, "per_rule": per_rule, "maxlen": 60,
                                       "long": 0.02 if a.tier == "quick" else 0.3}}
        r = child(job)
        if "__error__" in r:
            return mod, None, r["__error__"]
        cases = r["cases"]
        r2 = child({"import": [mod], "probe": [[m, c, n, s, 0, 0] for m, c, n, s in cases]})
        if "__error__" in r2:
            return mod, None, r2["__error__"]
        lines = ["RONLY " + " ".join(stoks(mod))]
        for m, c, n, s in cases:
            lines.append(" ".join(["RPARSEC", "0"] + stoks(m) + stoks(c) + stoks(n) + ["0"] + stoks(s)))
        outs = run_driver(lines)[1:]
        return mod, list(zip(cases, r2["probe"], outs)), None

    with ThreadPoolExecutor(max_workers=12) as ex:
        rs = list(ex.map(one, sorted(bymod)))
    viol, n_eval, nontriv, acc, rules = [], 0, 0, 0, set()
    samples = []
    for mod, rows, err in rs:
        if rows is None:
            viol.append({"what": f"module {mod}: harness/import failed: {err[-300:]}", "identity": "harness-error:" + mod,
                         "replay_payload": {"error": err}})
            continue
        for (m, c, n, s), impl, model in rows:
            n_eval += 1
            rules.add((m, c, n.lower()))
            ei, em = ends(impl), ends(model)
            if isinstance(ei, list):
                acc += 1
                if len(ei) >= 2 or (ei and ei[-1] > 0):
                    nontriv += 1
            if model == "OOF" or impl == "REC":
                continue
            if ei != em:
                viol.append({"what": f"{m}.{c} rule {n!r} on {s!r}: implementation ends {ei}, grammar text (model) {em}",
                             "identity": f"c09:{m}.{c}:{n}:{s!r}",
                             "replay_payload": {"property": "C09", "module": m, "class": c, "rule": n, "source": s,
                                                "implementation": impl[:400], "model_on_text_grammar": model[:400]}})
        if rows and len(samples) < 4:
            (m, c, n, s), impl, _ = rows[len(rows) // 2]
            samples.append({"module": m, "rule": n, "source": s, "ends": ends(impl)})
    return {"coverage": {"evaluations": n_eval, "distinct_nontrivial": nontriv, "rules_exercised": len(rules), "modules": len(bymod),
                         "accepting_calls": acc, "samples": samples}, "violations": viol[:30]}


# ------------------------------------------------------------------ import orders (C14)
def orders(a):
    rng = random.Random(a.seed)
    mods = modules()
    n = 10 if a.tier == "quick" else 120
    alone = {}
    alone_globals = {}

    def dump_of(ms):
        return child({"import": ms, "dump": True})

    def strip(d, prefix):
        return {k: {f: v[f] for f in ("name", "def", "excl", "flag")} for k, v in d.items() if k.startswith(prefix)}

    probes_for = {}
    viol = []
    with ThreadPoolExecutor(max_workers=12) as ex:
        res = list(ex.map(lambda m: (m, dump_of([m])), mods))
    for m, d in res:
        if "__error__" in d:
            viol.append({"what": f"import of {m} alone failed: " + d["__error__"][-200:], "identity": "import-error:" + m, "replay_payload": d})
        else:
            alone[m] = d["dump"]
            alone_globals[m] = d.get("globals")
    jobs = []
    for _ in range(n):
        k = rng.randint(2, 6)
        ms = rng.sample(mods, k)
        jobs.append(ms)
    jobs.append(list(reversed(mods)))
    jobs.append(mods)
    with ThreadPoolExecutor(max_workers=12) as ex:
        res = list(ex.map(lambda ms: (ms, dump_of(ms)), jobs))
    compared = 0
    # process-global settings: a process that imported nothing but the parser is the reference
    base_g = child({"import": [], "dump": True}).get("globals")
    seen_g = set()
    for ms, d in [([m], {"globals": gl}) for m, gl in alone_globals.items()] + [(ms, d) for ms, d in res if "__error__" not in d]:
        for k in sorted(set(base_g or {}) | set(d.get("globals") or {})):
            a_, b_ = (base_g or {}).get(k), (d.get("globals") or {}).get(k)
            if base_g is not None and d.get("globals") is not None and a_ != b_ and k not in seen_g:
                seen_g.add(k)
                viol.append({"what": f"importing {ms} changes the process-wide setting {k}: {a_} -> {b_}",
                             "identity": f"c14-global:{k}", "replay_payload": {"property": "C14", "import_order": ms, "setting": k,
                                                                              "without_the_import": a_, "with_it": b_}})
    for ms, d in res:
        if "__error__" in d:
            viol.append({"what": f"import of {ms} failed: " + d["__error__"][-200:], "identity": "import-error", "replay_payload": d})
            continue
        for m in ms:
            if m not in alone:
                continue
            pref = m + "."
            x = reg_x.diff(strip(alone[m], pref), strip(d["dump"], pref))
            compared += 1
            for df in x[:3]:
                viol.append({"what": f"module {m}: rule {df['rule']} {df['what']} when imported as part of {ms} instead of alone: "
                                     + json.dumps({k: df.get(k) for k in ('implementation', 'model')})[:300],
                             "identity": f"c14:{m}:{df['rule']}:{df['what']}",
                             "replay_payload": {"property": "C14", "module": m, "import_order": ms, "difference": df,
                                                "note": "'implementation' = imported alone, 'model' = imported in this order"}})
        # core and meta must not change either
        for pref in ("core|", "meta|"):
            base = strip(alone[mods[0]], pref) if mods[0] in alone else None
            if base is not None:
                for df in reg_x.diff(base, strip(d["dump"], pref))[:2]:
                    viol.append({"what": f"{pref} rule {df['rule']} {df['what']} after importing {ms}", "identity": f"c14:{pref}{df['rule']}",
                                 "replay_payload": {"property": "C14", "import_order": ms, "difference": df}})
    # the same question under "python -O" (asserts and `if __debug__` compiled away): every module alone vs all modules, both orders
    opt = {"PYTHONOPTIMIZE": "1"}
    with ThreadPoolExecutor(max_workers=12) as ex:
        res_o = list(ex.map(lambda ms: (ms, child({"import": ms, "dump": True}, env_extra=opt)), [[m] for m in mods] + [mods, list(reversed(mods))]))
    alone_o = {ms[0]: d["dump"] for ms, d in res_o[:len(mods)] if "__error__" not in d}
    for ms, d in res_o:
        if "__error__" in d:
            viol.append({"what": f"under python -O the import of {ms} failed: " + d["__error__"][-200:], "identity": "import-error-O", "replay_payload": d})
    for ms, d in res_o[len(mods):]:
        if "__error__" in d:
            continue
        for m in ms:
            if m in alone_o:
                for df in reg_x.diff(strip(alone_o[m], m + "."), strip(d["dump"], m + "."))[:2]:
                    viol.append({"what": f"under python -O: module {m}: rule {df['rule']} {df['what']} when imported as part of all modules instead of alone",
                                 "identity": f"c14-O:{m}:{df['rule']}:{df['what']}",
                                 "replay_payload": {"property": "C14", "interpreter": "python -O", "module": m, "import_order": ms, "difference": df}})
                compared += 1
    # and the model: alone == loader model's r_only
    mm = 0
    for m in mods[: (6 if a.tier == "quick" else len(mods))]:
        md = reg_x.parse_model_dump("\n".join(run_driver(["REGONLY " + " ".join(stoks(m))])))
        if md is None or m not in alone:
            continue
        mm += 1
        for df in reg_x.diff(strip(alone[m], m + "."), strip(md, m + "."))[:2]:
            viol.append({"what": f"module {m} imported alone differs from the loader model: {df['rule']} {df['what']}",
                         "identity": f"c14-model:{m}:{df['rule']}", "replay_payload": {"property": "C14", "difference": df}})
    return {"coverage": {"evaluations": compared + len(alone), "distinct_nontrivial": len({tuple(j) for j in jobs}),
                         "import_orders": len(jobs), "module_configurations_compared": compared, "modules_alone": len(alone),
                         "model_comparisons": mm, "samples": [{"import_order": j} for j in jobs[:3]]}, "violations": viol[:30]}


# ------------------------------------------------------------------ C15
META = ["rulelist", "rule", "rulename", "defined-as", "elements", "c-wsp", "c-nl", "comment", "alternation",
        "concatenation", "repetition", "repeat", "element", "group", "option", "char-val", "num-val", "bin-val",
        "dec-val", "hex-val", "prose-val", "case-insensitive-string", "case-sensitive-string", "quoted-string"]
R5234 = [n for n in META if n not in ("case-insensitive-string", "case-sensitive-string", "quoted-string")]


def c15(a):
    per_rule = 12 * a.boost if a.tier == "quick" else 150
    r = child({"import": ["rfc7405"], "gen": {"classes": [["rfc7405", "Rule"], ["rfc5234", "Rule"], ["meta", ""]], "seed": a.seed, "per_rule": per_rule, "maxlen": 50}})
    if "__error__" in r:
        return {"coverage": {}, "violations": [{"what": "harness: " + r["__error__"][-300:], "identity": "harness-error", "replay_payload": r}]}
    strings = sorted({s for _, _, _, s in r["cases"]} | {'%s"a"', '%i"a"', '"a"', "<p v>", "a / <b c>", "%x41", '%S"x"', 'a %s"b"', '%s"b" a', 'a / %i"b"', '( a %s"b" )',
                                                           '[ a / %s"b" ]', 'r = a %s"b"\r\n', 'r = a\r\ns = %s"b" / %i"c"\r\n', '2*3%s"b"', "%x41.42-5A", "%d1-2-3",
                                                           "<a<b>", "<a>b>"})
    probes = []
    for s in strings:
        for n in META:
            probes.append(["rfc7405", "Rule", n, s, 0, 2])
            probes.append(["meta", "", n, s, 0, 2])
        for n in R5234:
            probes.append(["rfc5234", "Rule", n, s, 0, 2])
    # single tokens longer than 4 096 characters (a quoted string, a prose-val, a rule name, a comment): the two definitions of
    # ABNF must agree on them as well (too long for the model: the compiled rfc7405 rules against the hand-written reader only)
    long_strings = ['"' + "a" * 4200 + '"', "<" + "p" * 4200 + ">", "r" + "a" * 4200, ";" + "c" * 4200 + "\r\n", '%s"' + "b" * 4200 + '"']
    long_probes = []
    for s in long_strings:
        for n in ("char-val", "prose-val", "rulename", "comment", "element"):
            long_probes.append(["rfc7405", "Rule", n, s, 0, 2])
            long_probes.append(["meta", "", n, s, 0, 2])
    res = child({"import": ["rfc7405"], "probe": probes + long_probes})
    if "__error__" in res:
        return {"coverage": {}, "violations": [{"what": "harness: " + res["__error__"][-300:], "identity": "harness-error", "replay_payload": res}]}
    acc = dict(zip([tuple(p[:4]) for p in probes + long_probes], [x.startswith("OK") for x in res["probe"]]))
    # the same comparison in a process whose application had defined rules on the base class, named like rules that the ABNF
    # grammars reference before defining them (element, option, comment, ...), BEFORE the grammar modules were imported
    prelude = ['element = "zz"', 'option = "oo"', 'comment = "#c"', 'c-nl = "nl"', 'group = "gg"', 'repeat = "rr"', 'char-val = "cv"',
               'zz9 = %x41.110000', 'zz8 = %d65.66.1114112', 'zz7 = %x41-110000', 'zz6 = "unterminated', 'zz5 = 5digit *wsp alpha hexdig [ crlf ]']
    sub = [s_ for s_ in strings if len(s_) <= 30][:: max(1, len(strings) // 150)]
    probes2 = []
    for s in sub:
        for n in META:
            probes2.append(["rfc7405", "Rule", n, s, 0, 2])
            probes2.append(["meta", "", n, s, 0, 2])
    # ... and the rfc5234 module in that process against the rfc5234 module of the undisturbed process
    probes3 = [["rfc5234", "Rule", n, s, 0, 2] for s in sub for n in R5234]
    res2 = child({"prelude": prelude, "import": ["rfc7405"], "probe": probes2})
    # (the base-class definitions above are left out here: a base-class rule named char-val is SHARED by rfc5234 and rfc7405 — the
    # known finding of C10 — and would make the two modules differ for that reason)
    res3 = child({"prelude": [t for t in prelude if t.startswith("zz")], "import": ["rfc7405"], "probe": probes3})
    viol = []
    if "__error__" in res2:
        viol.append({"what": "importing rfc7405 after an application defined base-class rules named like ABNF rules failed: " + res2["__error__"][-300:],
                     "identity": "c15:prelude-import", "replay_payload": {"property": "C15", "prelude": prelude, "error": res2["__error__"][-1500:]}})
    else:
        for p3, x3 in zip(probes3, res3.get("probe", [])):
            if x3.startswith("OK") != acc[tuple(p3[:4])]:
                viol.append({"what": f"after an application had compiles refused (value out of range, unterminated string): rfc5234.Rule({p3[2]!r}) {'accepts' if x3.startswith('OK') else 'rejects'} {p3[3]!r}, "
                                     "unlike the same module in an undisturbed process",
                             "identity": f"c15:prelude5234:{p3[2]}:{p3[3]!r}", "replay_payload": {"property": "C15", "prelude": prelude, "rule": p3[2], "source": p3[3]}})
        it2 = iter(zip(probes2, res2["probe"]))
        for (p1, x1), (p2, x2) in zip(it2, it2):
            if x1.startswith("OK") != x2.startswith("OK"):
                viol.append({"what": f"after an application defined base-class rules {prelude[:3]}...: rfc7405.Rule({p1[2]!r}) and the reader disagree on {p1[3]!r}",
                             "identity": f"c15:prelude:{p1[2]}:{p1[3]!r}", "replay_payload": {"property": "C15", "prelude": prelude, "rule": p1[2], "source": p1[3],
                                                                                              "rfc7405": x1[:80], "reader": x2[:80]}})
    # the RFC 5234 text grammar (original char-val) through the model
    lines = ["RRFC5234"]
    for s in strings:
        for n in R5234:
            lines.append(" ".join(["RPARSE", "2", "2"] + stoks(n) + ["0"] + stoks(s)))
    outs = run_driver(lines)[1:]
    k = 0
    n_eval = 0
    n_acc = 0
    for s in long_strings:
        for n in ("char-val", "prose-val", "rulename", "comment", "element"):
            n_eval += 1
            x, y = acc[("rfc7405", "Rule", n, s)], acc[("meta", "", n, s)]
            if x != y:
                viol.append({"what": f"rfc7405.Rule({n!r}) {'accepts' if x else 'rejects'} a token of {len(s)} characters ({s[:12]!r}...) but the library's reader rule {'accepts' if y else 'rejects'} it",
                             "identity": f"c15:7405-long:{n}:{s[:4]!r}", "replay_payload": {"property": "C15", "rule": n, "source_prefix": s[:20], "source_length": len(s), "rfc7405": x, "reader": y}})
    for s in strings:
        for n in META:
            n_eval += 1
            x, y = acc[("rfc7405", "Rule", n, s)], acc[("meta", "", n, s)]
            n_acc += x
            if x != y:
                viol.append({"what": f"rfc7405.Rule({n!r}) {'accepts' if x else 'rejects'} {s!r} but the library's reader rule {n!r} {'accepts' if y else 'rejects'} it",
                             "identity": f"c15:7405:{n}:{s!r}", "replay_payload": {"property": "C15", "rule": n, "source": s, "rfc7405": x, "reader": y}})
        for n in R5234:
            n_eval += 1
            x = acc[("rfc5234", "Rule", n, s)]
            y = outs[k].startswith("OK")
            k += 1
            if x != y:
                viol.append({"what": f"rfc5234.Rule({n!r}) {'accepts' if x else 'rejects'} {s!r} but the RFC 5234 text grammar {'accepts' if y else 'rejects'} it",
                             "identity": f"c15:5234:{n}:{s!r}", "replay_payload": {"property": "C15", "rule": n, "source": s, "rfc5234_module": x, "rfc5234_text": y}})
    return {"coverage": {"evaluations": n_eval, "distinct_nontrivial": n_acc, "strings": len(strings), "accepted": n_acc,
                         "samples": [{"source": s} for s in strings[:: max(1, len(strings) // 4)][:4]]}, "violations": viol[:30]}


# ------------------------------------------------------------------ C19
def c19_pairs():
    # the same list as coq/Pairs.v (c19_pairs); read it from there so that there is one source
    src = open(os.path.join(C.COQ, "Pairs.v")).read()
    import re
    body = src[src.index("Definition c19_pairs"):src.index("Definition rule_rid")]
    return [tuple(x) for x in re.findall(r'\("([^"]+)", "([^"]+)", "([^"]+)", "([^"]+)"\)', body)]


def c19(a):
    pairs = c19_pairs()
    per_rule = 15 if a.tier == "quick" else 200
    mods = sorted({p[0] for p in pairs} | {p[2] for p in pairs})
    r = child({"import": mods, "gen": {"classes": [[m, "Rule"] for m in mods], "seed": a.seed, "per_rule": 0, "maxlen": 60}})
    # sentences per pair: generate for exactly the rules in the pairs (a dedicated child run with per_rule on those rules)
    want = sorted({(p[0], p[1]) for p in pairs} | {(p[2], p[3]) for p in pairs})
    job = {"import": mods, "gen_rules": want, "seed": a.seed, "per_rule": per_rule}
    g = child({"import": mods, "gen": {"classes": [[m, "Rule"] for m in mods], "seed": a.seed, "per_rule": per_rule if a.tier == "thorough" else 4 * a.boost,
                                       "maxlen": 60}})
    if "__error__" in g:
        return {"coverage": {}, "violations": [{"what": "harness: " + g["__error__"][-300:], "identity": "harness-error", "replay_payload": g}]}
    byrule = {}
    for m, c, n, s in g["cases"]:
        byrule.setdefault((m, n.lower()), set()).add(s)
    extra = ["Sun, 06 Nov 1994 08:49:37 GMT", "sun, 06 nov 1994 08:49:37 gmt", "Sunday, 06-Nov-94 08:49:37 GMT", "Sun Nov  6 08:49:37 1994",
             "~", "a~b", "tok", '"q\\"x"', '"', "(c(n)t)", "(", "%41", "%4g", "UTF-8'en'%E2%82%AC", "ISO-8859-1''x", "utf-8''a", "a1", "1", " ", "\t ", "",
             "Jan", "jan", "JAN", "Mon", "mon"]
    def lookalikes(t):
        out = set()
        for a, b in (("s", "\u017f"), ("S", "\u017f"), ("k", "\u212a"), ("K", "\u212a"), ("i", "\u0131"), ("I", "\u0130"), ("ss", "\u00df")):
            if a in t:
                out.add(t.replace(a, b, 1))
        return out

    probes = []
    for m1, r1, m2, r2 in pairs:
        base = byrule.get((m1, r1.lower()), set()) | byrule.get((m2, r2.lower()), set()) | set(extra)
        # every printable ASCII character alone, and substituted at each position of the shortest derived sentences: a
        # character class that differs in ONE code point (a delimiter added to or dropped from tchar, qdtext, ...) shows here
        own = sorted((t for t in byrule.get((m1, r1.lower()), set()) | byrule.get((m2, r2.lower()), set()) if 1 <= len(t) <= 10), key=len)
        subst = [chr(c) for c in range(0x20, 0x7F)] if a.tier == "thorough" else list("!\"#$%&'()*+,-./:;<=>?@[\\]^_`{|}~ aA0")
        sweep = {chr(c) for c in range(0x20, 0x7F)}
        for t in own[:(4 if a.tier == "thorough" else 1)]:
            for k in range(len(t)):
                for ch in subst:
                    sweep.add(t[:k] + ch + t[k + 1:])
                sweep.add(t[:k] + t[k + 1:])
        ss = sorted(base | {v for t in base for v in lookalikes(t)} | sweep)
        for s in ss:
            probes.append([m1, "Rule", r1, s, 0, 2])
            probes.append([m2, "Rule", r2, s, 0, 2])
    res = child({"import": mods, "probe": probes})
    if "__error__" in res:
        return {"coverage": {}, "violations": [{"what": "harness: " + res["__error__"][-300:], "identity": "harness-error", "replay_payload": res}]}
    viol = []
    n_eval = 0
    n_acc = 0
    import re
    canon_words = ["Mon", "Tue", "Wed", "Thu", "Fri", "Sat", "Sun", "Monday", "Tuesday", "Wednesday", "Thursday", "Friday",
                   "Saturday", "Sunday", "Jan", "Feb", "Mar", "Apr", "May", "Jun", "Jul", "Aug", "Sep", "Oct", "Nov", "Dec", "GMT"]

    def case_normal(t):
        return re.sub(r"[A-Za-z]+", lambda m: next((w for w in canon_words if w.lower() == m.group(0).lower()), m.group(0)), t)

    diffs = []
    it = iter(zip(probes, res["probe"]))
    for (p1, x1), (p2, x2) in zip(it, it):
        n_eval += 1
        a1, a2 = x1.startswith("OK"), x2.startswith("OK")
        n_acc += a1
        if a1 != a2:
            diffs.append((p1, p2, a1, a2))
    # a difference is the KNOWN finding only if it is a pure letter-case difference of rfc2616's date literals:
    # rfc2616 accepts s, rfc7231 rejects s but accepts the same string with canonical case
    second = [[p2[0], "Rule", p2[2], case_normal(p1[3]), 0, 2] for p1, p2, a1, a2 in diffs]
    res2 = child({"import": mods, "probe": second})["probe"] if diffs else []
    for (p1, p2, a1, a2), y in zip(diffs, res2):
        known = (p1[0] == "rfc2616" and p2[0] == "rfc7231" and a1 and not a2 and y.startswith("OK")
                 and case_normal(p1[3]) != p1[3])
        viol.append({"what": f"{p1[0]}.{p1[2]} {'accepts' if a1 else 'rejects'} {p1[3]!r} but {p2[0]}.{p2[2]} {'accepts' if a2 else 'rejects'} it",
                     "identity": "rfc2616-date-case" if known else f"c19:{p1[0]}.{p1[2]}:{p2[0]}.{p2[2]}:{p1[3]!r}",
                     "replay_payload": {"property": "C19", "rule1": p1[:3], "rule2": p2[:3], "source": p1[3], "accepts1": a1, "accepts2": a2}})
    return {"coverage": {"evaluations": n_eval, "distinct_nontrivial": n_acc, "pairs": len(pairs), "accepted_by_first": n_acc,
                         "samples": [{"pair": list(p)} for p in pairs[:3]]}, "violations": viol[:40]}


def main():
    ap = argparse.ArgumentParser()
    ap.add_argument("--mode", default=None)
    ap.add_argument("--seed", type=int, default=0)
    ap.add_argument("--tier", default="quick")
    ap.add_argument("--boost", type=int, default=1, help="budget multiplier (a modelled source unit changed, or an obligation no longer checks)")
    ap.add_argument("--out", default=None)
    ap.add_argument("--child", default=None)
    a = ap.parse_args()
    if a.child:
        child_main(a.child)
        return
    t0 = time.time()
    r = {"graph": graph, "behaviour": behaviour, "orders": orders, "c15": c15, "c19": c19}[a.mode](a)
    r["wall_s"] = time.time() - t0
    json.dump(r, open(a.out, "w"))


if __name__ == "__main__":
    main()
