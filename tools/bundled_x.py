"""Bundled-grammar correspondence (C04 graph, C09 behaviour, C14 import orders).  Runs under /venv/bin/python with
PYTHONPATH=/repo/src.    usage: bundled_x.py --mode graph|... --out FILE"""
from __future__ import annotations

import argparse
import json
import os
import sys
import time

sys.path.insert(0, os.path.dirname(os.path.abspath(__file__)))
import common as C  # noqa: E402
import reg_x  # noqa: E402


def modules():
    gdir = os.path.join(C.REPO, "src", "abnf", "grammars")
    return sorted(f[:-3] for f in os.listdir(gdir) if f.endswith(".py") and f not in ("__init__.py", "misc.py"))


def graph():
    """all modules imported in one fresh process vs the loader model on the translated texts"""
    mods = modules()
    impl = reg_x.child_dump(mods, C.env_for_impl("0"))
    viol = []
    if "__error__" in impl:
        return {"coverage": {"classes": 0}, "violations": [{"what": "importing the bundled modules failed: " + impl["__error__"][-300:],
                                                            "identity": "bundled-import-error", "replay_payload": impl}]}
    model = reg_x.model_dump("REGALL")
    if model is None:
        return {"coverage": {"classes": 0},
                "violations": [{"what": "the loader model rejects the bundled modules as translated (load raises in the model)",
                                "identity": "bundled-model-load", "replay_payload": {}}]}
    d = reg_x.diff(impl, model)
    for x in d[:20]:
        viol.append({"what": f"bundled rule {x['rule']}: {x['what']} between the library's compile and the spec reader/loader model: "
                             + json.dumps({k: x.get(k) for k in ('implementation', 'model')})[:400],
                     "identity": "bundled-graph:" + x["rule"] + ":" + x["what"], "replay_payload": dict(x, property="C04/C09")})
    labs = {k.split("|")[0] for k in impl}
    return {"coverage": {"rule_objects_compared": len(impl), "classes": len(labs), "differences": len(d)}, "violations": viol}


if __name__ == "__main__":
    ap = argparse.ArgumentParser()
    ap.add_argument("--mode", required=True)
    ap.add_argument("--out", required=True)
    a = ap.parse_args()
    t0 = time.time()
    r = graph()
    r["wall_s"] = time.time() - t0
    json.dump(r, open(a.out, "w"))
