"""./check <property> [--tier quick|thorough] [--replay FILE]

One entry point for every property.  Protocol (DESIGN.md 2.5):
  1. rebuild: translator -> Coq make (full .vo) -> extraction -> driver, from /repo's working tree;
  2. proof obligations of the property (coq/props/<id>.v and what it depends on) + Print Assumptions;
  3. correspondence cases of the property (corpus first);
  4. a broken obligation / translator / correspondence triggers a search for a concrete failing input;
     found -> VIOLATION with that replay; not found -> VIOLATION ... no-failing-input-found;
  5. findings listed in known_findings.json are reported as KNOWN-FINDING lines and do not fail the check.
"""
from __future__ import annotations

import argparse
import importlib
import json
import os
import sys

sys.path.insert(0, os.path.dirname(os.path.abspath(__file__)))
import common as C  # noqa: E402


def main():
    ap = argparse.ArgumentParser()
    ap.add_argument("pid")
    ap.add_argument("--tier", default=os.environ.get("VERIF_TIER", "quick"))
    ap.add_argument("--replay", default=None)
    a = ap.parse_args()
    seed = int(os.environ.get("VERIF_SEED", "0") or 0)
    pid = a.pid.upper()
    tier = a.tier if a.tier in ("quick", "thorough") else "quick"
    os.makedirs(C.WORK, exist_ok=True)
    mod = importlib.import_module("p_" + pid.lower())
    timer = C.Timer()
    ctx = {"pid": pid, "tier": tier, "seed": seed, "timer": timer, "replay": a.replay}

    # source fingerprints: if the modelled code changed since the model was written, dig deeper (never an alarm by itself)
    try:
        import fingerprint
        ctx["changed_units"] = fingerprint.changed(C.REPO)
    except Exception:  # noqa: BLE001
        ctx["changed_units"] = []
    ctx["boost"] = 6 if (ctx["changed_units"] and tier == "quick") else 1
    build = C.build(targets=list(mod.VFILES))
    ctx["build"] = build
    forbidden = C.scan_forbidden()

    # ---- proof obligations
    ob_ok, ob_total, ob_reports, broken = 0, 0, {}, []
    for vf in mod.VFILES:
        path = os.path.join(C.COQ, vf)
        ok, thms, rep = C.obligation(path)
        n = max(1, len(thms))
        ob_total += n
        if ok:
            ob_ok += n
        else:
            broken.append({"file": vf, "report": rep if isinstance(rep, str) else json.dumps(rep)[:3000]})
        ob_reports[vf] = rep
    if build["translate_rc"] != 0 and getattr(mod, "USES_TRANSLATOR", False):
        broken.append({"file": "tools/translate.py", "report": build["translate_msg"]})
    if forbidden:
        broken.append({"file": "scan", "report": "forbidden constructs: " + "; ".join(forbidden)})
    ctx["broken"] = broken

    # ---- correspondence / search
    res = mod.run(ctx)   # dict: coverage (dict), violations [ {what, identity, replay_payload} ], notes
    violations = res.get("violations", [])
    known = C.known_findings(pid)
    n_viol = 0
    printed_known = set()
    # obligations that only the thorough tier evaluates come back as violations flagged no_input: they are reported last, and
    # only when the differential search of the same run produced no concrete failing input
    deferred = [v for v in violations if v.get("no_input")]
    violations = [v for v in violations if not v.get("no_input")]
    for v in violations:
        ident = v.get("identity", "")
        kf = next((k for k in known if k["identity"] == ident), None)
        if kf is not None:
            if ident not in printed_known:
                print(f"KNOWN-FINDING: property={pid} {kf['what']}")
                printed_known.add(ident)
            continue
        n_viol += 1
        if n_viol <= 3:
            path = C.write_replay(pid, v.get("replay_payload", v))
            C.violation(pid, path)
    if deferred and n_viol == 0 and not broken:
        for v in deferred[:3]:
            n_viol += 1
            C.violation(pid, C.write_replay(pid, v.get("replay_payload", v)), no_input=True)
    if broken and n_viol == 0:
        # the property is no longer shown to hold, and no concrete failing input was found
        extra = mod.search(ctx) if hasattr(mod, "search") else []
        real = [v for v in extra if not any(k["identity"] == v.get("identity") for k in known)]
        if real:
            for v in real[:3]:
                n_viol += 1
                C.violation(pid, C.write_replay(pid, v.get("replay_payload", v)))
        else:
            n_viol += 1
            path = C.write_replay(pid, {"property": pid, "no_longer_checks": broken,
                                        "note": "no concrete failing input found by the search"})
            C.violation(pid, path, no_input=True)

    cov = dict(res.get("coverage", {}))
    cov.setdefault("obligations", ob_total)
    cov["discharged"] = ob_ok
    cov.setdefault("checker_cmd", "make -C /verif/coq (coqc 8.16.1, full .vo build) && coqc " + " ".join(mod.VFILES))
    cov.setdefault("trusted_base", C.TRUSTED_BASE + list(getattr(mod, "EXTRA_TRUST", [])))
    cov["print_assumptions"] = ob_reports
    cov["build"] = {"make_rc": build["make_rc"], "translate_rc": build["translate_rc"]}
    cov["known_findings_reported"] = sorted(printed_known)
    cov["source_units_changed_since_model_was_written"] = ctx["changed_units"][:20]
    cov["budget_boost"] = ctx["boost"]
    C.write_evidence(pid, tier, seed, cov, timer.s(), n_viol,
                     assumptions=list(getattr(mod, "ASSUMPTIONS", [])), level="proof")
    if n_viol:
        sys.exit(1)
    print(f"OK property={pid} tier={tier} obligations={ob_ok}/{ob_total} "
          f"evaluations={cov.get('evaluations')} wall={timer.s():.1f}s")
    sys.exit(0)


if __name__ == "__main__":
    main()
