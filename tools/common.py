"""Shared plumbing of the checks: paths, build (translator -> Coq make -> extraction -> OCaml driver),
proof-obligation status, evidence files, known findings, VIOLATION reporting."""
from __future__ import annotations

import fcntl
import json
import os
import re
import subprocess
import sys
import time

VERIF = os.path.dirname(os.path.dirname(os.path.abspath(__file__)))
REPO = os.environ.get("VERIF_REPO", "/repo")
COQ = os.path.join(VERIF, "coq")
OCAML = os.path.join(VERIF, "ocaml")
WORK = os.path.join(VERIF, "work")
EVID = os.path.join(VERIF, "evidence")
REPLAY = os.path.join(VERIF, "replay")
PY = "/venv/bin/python"
GUARD = "DECLARESUB_ABNF_VERIF"

TRUSTED_BASE = [
    "Coq 8.16.1 kernel and vm_compute (no native_compute)",
    "axioms: none (every property theorem prints 'Closed under the global context'; see print_assumptions)",
    "specifications in coq/Spec.v, coq/Wf.v (M, D, faithful, WB, plain, wf) and the per-property statements in coq/props/",
    "hand-written model coq/Engine.v, coq/Cache.v tied to /repo by the correspondence check (differential testing: supports the tie, proves nothing)",
    "extraction: Extraction Language OCaml + ExtrOcamlBasic only (bool, option, list, prod, unit, sumbool mapped to OCaml's); no Extract Constant / Extract Inductive of our own; ocaml/driver.ml reader/printer glue",
    "tools/pyimpl.py dumper of the library's object graph and canonical printers; tools/gen.py generators",
    "modelled, not verified: the Python interpreter (generators, exceptions, set/OrderedDict/sorted semantics, str slicing), absence of hash collisions between distinct (text,end) keys, recursion limit, running time",
]


def env_for_impl(hashseed="0", extra=None):
    e = dict(os.environ)
    e["PYTHONPATH"] = os.path.join(REPO, "src")
    e["PYTHONHASHSEED"] = str(hashseed)
    e[GUARD] = "1"
    e["PYTHONDONTWRITEBYTECODE"] = "1"
    if extra:
        e.update(extra)
    return e


def sh(cmd, cwd=None, timeout=None, env=None, inp=None):
    p = subprocess.run(cmd, cwd=cwd, shell=isinstance(cmd, str), capture_output=True, text=True,
                       timeout=timeout, env=env, input=inp, check=False)
    return p.returncode, p.stdout, p.stderr


class Lock:
    def __init__(self, name):
        os.makedirs(WORK, exist_ok=True)
        self.path = os.path.join(WORK, name)

    def __enter__(self):
        self.f = open(self.path, "w")
        fcntl.flock(self.f, fcntl.LOCK_EX)
        return self

    def __exit__(self, *a):
        fcntl.flock(self.f, fcntl.LOCK_UN)
        self.f.close()


def newer(a, b):
    return (not os.path.exists(b)) or os.path.getmtime(a) > os.path.getmtime(b)


EXTRACT_DEPS = ["Base.vo", "Engine.vo", "Cache.vo", "AbnfRead.vo", "Registry.vo", "GenTypes.vo", "Loader.vo", "gen/GenTables.vo",
                "gen/GenBundled.vo", "Bundled.vo", "Visit.vo", "EngineProg.vo", "Visitor.vo", "Compile.vo", "RfcSpec.vo"]


def build(log=None, targets=None):
    """regenerate coq/gen from /repo, make (full .vo build of what the property needs: its property files with all
    their dependencies + what the extraction needs; -k so independent files still build), extract, build the driver.
    targets=None builds everything.  Returns dict(make_rc, make_tail, translate_rc, translate_msg)."""
    out = {"translate_rc": 0, "translate_msg": "", "make_rc": 0, "make_tail": ""}
    with Lock("build.lock"):
        tr = os.path.join(VERIF, "tools", "translate.py")
        if os.path.exists(tr):
            rc, so, se = sh([PY, tr, "--repo", REPO, "--out", os.path.join(COQ, "gen")], timeout=600)
            out["translate_rc"] = rc
            out["translate_msg"] = (so + se)[-4000:]
        if newer(os.path.join(COQ, "_CoqProject"), os.path.join(COQ, "Makefile")):
            sh("coq_makefile -f _CoqProject -o Makefile", cwd=COQ, timeout=120)
        tg = "" if targets is None else " ".join(EXTRACT_DEPS + [t[:-2] + ".vo" for t in targets])
        rc, so, se = sh(f"timeout 3000 make -k -j16 {tg} 2>&1", cwd=COQ, timeout=3100)
        out["make_rc"] = rc
        out["make_tail"] = so[-6000:]
        drv = os.path.join(OCAML, "driver")
        deps = [os.path.join(COQ, "Engine.vo"), os.path.join(COQ, "Cache.vo"), os.path.join(COQ, "Base.vo"),
                os.path.join(OCAML, "Extract.v"), os.path.join(OCAML, "driver.ml")]
        extra = [os.path.join(COQ, x) for x in ("AbnfRead.vo", "Visitor.vo", "Registry.vo", "EngineProg.vo")]
        deps += [d for d in extra if os.path.exists(d)]
        if any(os.path.exists(d) and newer(d, drv) for d in deps):
            rc1, so1, se1 = sh("timeout 300 coqc -Q ../coq ABNF Extract.v", cwd=OCAML, timeout=320)
            rc2, so2, se2 = sh("ocamlfind ocamlopt -w -a model.mli model.ml driver.ml -o driver", cwd=OCAML, timeout=300)
            if rc1 or rc2:
                out["make_rc"] = out["make_rc"] or 1
                out["make_tail"] += "\nEXTRACTION/DRIVER BUILD FAILED\n" + (so1 + se1 + so2 + se2)[-3000:]
    if log is not None:
        log.update(out)
    return out


def obligation(vfile):
    """status of one property file: (ok, theorems, assumptions-report).  Runs make on the target (a
    no-op when up to date) and then coqc on the file itself to capture Print Assumptions."""
    rel = os.path.relpath(vfile, COQ)
    vo = rel[:-2] + ".vo"
    with Lock("build.lock"):
        rc, so, se = sh(f"timeout 1500 make {vo} 2>&1", cwd=COQ, timeout=1600)
    if rc != 0:
        return False, [], (so + se)[-3000:]
    os.makedirs(os.path.join(WORK, "pa"), exist_ok=True)
    rc, so, se = sh(f"timeout 600 coqc -Q . ABNF {rel} -o {os.path.join(WORK, 'pa', os.path.basename(vo))}", cwd=COQ, timeout=620)
    src = open(vfile).read()
    thms = re.findall(r"^\s*(?:Theorem|Corollary)\s+(\w+)", src, re.M)
    closed = so.count("Closed under the global context")
    axioms = [ln for ln in so.split("\n") if ln.strip() and "Closed under" not in ln]
    ok = rc == 0 and closed == len(re.findall(r"^\s*Print Assumptions", src, re.M))
    rep = {"theorems": thms, "closed_under_global_context": closed, "other_output": axioms[:40]}
    return ok, thms, rep


def scan_forbidden():
    """no Admitted/admit/Axiom/Parameter/... anywhere in the development"""
    bad = []
    pat = re.compile(r"\b(Admitted|admit|Axiom|Axioms|Parameter|Parameters|Conjecture|Unset Guard Checking|bypass_check|Admit Obligations|Unset Universe Checking|Unset Positivity Checking)\b")
    for root, _, files in os.walk(COQ):
        for f in files:
            if f.endswith(".v"):
                txt = open(os.path.join(root, f)).read()
                txt = re.sub(r"\(\*.*?\*\)", "", txt, flags=re.S)
                for m in pat.finditer(txt):
                    bad.append(f"{os.path.relpath(os.path.join(root, f), VERIF)}: {m.group(1)}")
    return bad


def known_findings(pid):
    p = os.path.join(VERIF, "known_findings.json")
    if not os.path.exists(p):
        return []
    d = json.load(open(p))
    return [f for f in d.get("findings", []) if f.get("property") == pid and f.get("status") == "known"]


def write_evidence(pid, tier, seed, coverage, wall, violations, assumptions=None, level="proof"):
    os.makedirs(EVID, exist_ok=True)
    ev = {"property_id": pid, "tier": tier, "seed": int(seed), "level": level, "coverage": coverage,
          "assumptions": assumptions or [], "wall_s": round(wall, 2), "violations": int(violations)}
    with open(os.path.join(EVID, pid + ".json"), "w") as f:
        json.dump(ev, f, indent=1, ensure_ascii=True, default=str)


def write_replay(pid, payload):
    os.makedirs(REPLAY, exist_ok=True)
    n = 0
    while os.path.exists(os.path.join(REPLAY, f"{pid}-{n}.json")):
        n += 1
    p = os.path.join(REPLAY, f"{pid}-{n}.json")
    with open(p, "w") as f:
        json.dump(payload, f, indent=1, ensure_ascii=True, default=str)
    return p


def violation(pid, replay_path, no_input=False):
    print(f"VIOLATION property={pid} replay={replay_path}" + (" no-failing-input-found" if no_input else ""))
    sys.stdout.flush()


class Timer:
    def __init__(self):
        self.t0 = time.time()

    def s(self):
        return time.time() - self.t0
