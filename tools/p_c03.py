"""C03 — every returned tree is a faithful derivation of the text it covers."""
import engine_common as E

VFILES = ["props/C03.v"]
ASSUMPTIONS = ["theorem is about coq/Engine.v; tied to /repo by exact tree equality of implementation and model on generated cases"]


def run(ctx):
    cov, viol = E.run_engine(ctx, "c03", ["plain", "flags"], 120, 3000, {"tree", "ends", "parse", "build"}, small=(True, 8, 250))
    fcov, fviol = E.fold_sweep(ctx)
    cov["fold_sweep"] = fcov
    return {"coverage": cov, "violations": viol + fviol}


def search(ctx):
    c2 = dict(ctx)
    c2["tier"] = "thorough"
    c2["seed"] = ctx["seed"] + 7
    return E.run_engine(c2, "c03s", ["plain", "flags"], 0, 1500, {"tree", "ends", "parse", "build"})[1]
