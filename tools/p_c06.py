"""C06 — core rules are exactly RFC 5234 Appendix B.1."""
import p_c05

VFILES = ["props/C06.v"]
USES_TRANSLATOR = True
EXTRA_TRUST = p_c05.EXTRA_TRUST
ASSUMPTIONS = ["b1_classes in coq/RfcSpec.v is the hand transcription of the B.1 character sets"]


def run(ctx):
    d, err = p_c05._x(ctx, "c06")
    if d is None:
        return {"coverage": {"evaluations": 0, "distinct_nontrivial": 0},
                "violations": [{"what": "harness failed: " + err[-400:], "identity": "harness-error", "replay_payload": {"error": err}}]}
    viol = [{"what": "core rule " + str(m.get("rule")) + ": " + str({k: v for k, v in m.items() if k != "rule"})[:300],
             "identity": "c06:" + str(m.get("rule")) + ":" + str(m.get("code_point", m.get("s"))),
             "replay_payload": dict(m, property="C06")} for m in d["mismatches"]]
    cov = {"evaluations": d["evaluations"], "distinct_nontrivial": d["distinct_nontrivial"], "samples": d["samples"], "stats": d["stats"],
           "exhaustive": bool(d.get("exhaustive")),
           "rule": ("14 single-character core rules, looked up from the base class and from a fresh subclass (must be the same "
                    "object), on single characters: thorough = ALL 1 114 112 code points; quick = 0..0x2FF, every interval "
                    "boundary +-1, surrogate/BMP/astral boundaries, look-alikes, 4000 random; expected = the B.1 sets of "
                    "coq/RfcSpec.v; CRLF and LWSP on ALL strings of length <= stats.string_maxlen over {SP,HTAB,CR,LF,x} and all 16 "
                    "rules at every offset of mixed strings vs the engine model on the translated table")}
    return {"coverage": cov, "violations": viol}


def search(ctx):
    c2 = dict(ctx, tier="thorough")
    d, _ = p_c05._x(c2, "c06")
    return [] if d is None else [{"what": str(m)[:300], "identity": "c06:" + str(m.get("rule")) + ":" + str(m.get("code_point", m.get("s"))),
                                  "replay_payload": dict(m, property="C06")} for m in d["mismatches"]]
