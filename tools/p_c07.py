"""C07 — parsing is deterministic across runs, processes and hash seeds."""
import engine_common as E

VFILES = ["props/C07.v"]
ASSUMPTIONS = ["PYTHONHASHSEED influences the engine only through the iteration order of sets of Match objects (modelled by the oracle sh)"]


def run(ctx):
    seeds = [str(x) for x in ((0, 1, 2, 3, 7, 11, 12345, 4294967295) if ctx["tier"] == "quick" else
                              list(range(0, 24)) + [12345, 99999, 4294967295, 31337, 65536, 777, 4242, 2**31])]
    cov, viol = E.run_engine(ctx, "c07", ["plain", "flags"], 40, 400, {"tree", "ends", "parse", "build"},
                             hashseeds=seeds, shards=1)
    cov["rule"] += ("; the SAME cases are run by fresh interpreter processes under each PYTHONHASHSEED listed in "
                    "hash_seeds and each run is compared, tree for tree, with the model's unique answer")
    import hist_common as H
    cov2, viol2 = H.run_hist(ctx, "history-free", 12, 200, shards=2)
    cov["history_scenarios"] = cov2.get("stats")
    cov["rule"] += ("; history: two grammar classes with the same rule names (and class name) alive at once, requests alternating between them, "
                    "and a request aborted by RecursionError then repeated: every answer vs a cold twin")
    return {"coverage": cov, "violations": viol + viol2}
