"""C16 — a size-limited parse cache respects its limit and evicts least-recently-used."""
import json
import os

import common as C

VFILES = ["props/C16.v"]
ASSUMPTIONS = ["OrderedDict primitives (item assignment keeps position, move_to_end, popitem(last=False)) behave as modelled"]


def _run(tier, seed, tag="c16"):
    out = os.path.join(C.WORK, f"{tag}.json")
    depth, nr = (4, 400) if tier == "quick" else (5, 5000)
    rc, so, se = C.sh([C.PY, os.path.join(C.VERIF, "tools", "cache_x.py"), "--seed", str(seed), "--depth", str(depth),
                       "--nrandom", str(nr), "--out", out], env=C.env_for_impl("0"), timeout=3000)
    if rc != 0:
        return None, (so + se)[-3000:]
    return json.load(open(out)), None


def run(ctx):
    d, err = _run(ctx["tier"], ctx["seed"])
    if d is None:
        return {"coverage": {"evaluations": 0, "distinct_nontrivial": 0},
                "violations": [{"what": "harness error", "identity": "harness-error", "replay_payload": {"error": err}}]}
    viol = []
    for m in d["mismatches"]:
        viol.append({"what": f"ParseCache diverges from the LRU model at step {m['step']} of {m['ops']}: "
                             f"implementation {m['impl']} / model {m['model']}",
                     "identity": "cache:" + json.dumps([m["dflt"], m["args"], m["ops"]]),
                     "replay_payload": {"property": "C16", "default_limit": m["dflt"], "limits": m["args"], "ops": m["ops"],
                                        "cache_index": m["cache"], "step": m["step"],
                                        "observed_implementation (ret|len|keys|hits|misses)": m["impl"],
                                        "expected_by_model": m["model"],
                                        "op_legend": "g k = cache[key k]; s k v = cache[key k]=v; d k = del; c = ParseCache.clear_caches(); v = ParseCache.invalidate(); m x = cache.max_size = x"}})
    cov = {"evaluations": d["evaluations"], "distinct_nontrivial": d["distinct_nontrivial"], "samples": d["samples"],
           "op_distribution": d["stats"]["ops"], "steps": d["stats"]["steps"], "keyerrors": d["stats"]["keyerrors"],
           "exhaustive": True, "exhaustive_depth": d["exhaustive_depth"],
           "rule": (f"ALL operation sequences of length {d['exhaustive_depth']} over 3 keys x {{get,set,del}} + clear + invalidate "
                    "for limits None,1,2,3 (exhaustive), plus random sequences of 5..60 steps over 5 keys, 1..3 live "
                    "caches, class-default and per-cache limits, live changes of max_size; after every step len(), "
                    "iteration order, hits, misses and the return value/KeyError of every live cache are compared; "
                    "distinct = distinct observation traces")}
    return {"coverage": cov, "violations": viol}


def search(ctx):
    d, _ = _run("thorough", ctx["seed"] + 1, "c16s")
    return [] if d is None else [{"what": "divergence", "identity": "cache:" + json.dumps(m["ops"]), "replay_payload": m}
                                 for m in d["mismatches"]]
