"""C18 correspondence: NodeVisitor dispatch and Node equality of the real library vs coq/Visit.v (extracted).
Runs under /venv/bin/python with PYTHONPATH=/repo/src.   usage: visit_x.py --seed S --n N --out FILE"""
import argparse
import importlib
import json
import os
import random
import subprocess
import sys
import time

import abnf.parser as P

DRIVER = os.path.join(os.path.dirname(os.path.abspath(__file__)), "..", "ocaml", "rundriver")
NAMECH = "abcdefghijklmnopqrstuvwxyzABCDEFGHIJKLMNOPQRSTUVWXYZ0123456789-"


def stoks(s):
    return [str(len(s))] + [str(ord(c)) for c in s]


def node_toks(n):
    if isinstance(n, P.LiteralNode):
        return ["l"] + stoks(n.value) + [str(n.offset), str(n.length)]
    out = ["n"] + stoks(n.name) + [str(len(n.children))]
    for c in n.children:
        out += node_toks(c)
    return out


FRAGMENTS = ["visit", "visit-", "-visit-", "Visit-", "literal", "Literal", "node", "skip-visit", "--", "-", "0", "call", "init", "method"]


def rand_name(rng):
    if rng.random() < 0.25:
        # names built from the dispatcher's own vocabulary (the handler prefix, the leaf handler's name, ...) and from hyphen
        # runs: whatever the dispatcher strips, splits or looks up by must not be confused by them
        parts = [rng.choice(FRAGMENTS) for _ in range(rng.randint(1, 3))]
        nm = rng.choice("abvVlL") + "".join(parts) + rng.choice(["", "x", "-date", "1"])
        return nm.rstrip("-") or "v"
    return rng.choice("abcdefghijklmnopqrstuvwxyzABCDEFGHIJKLMNOPQRSTUVWXYZ") + "".join(
        rng.choice(NAMECH) for _ in range(rng.randint(0, 8)))


def rand_tree(rng, depth):
    if depth <= 0 or rng.random() < 0.35:
        t = "".join(rng.choice("abAB") for _ in range(rng.randint(0, 2)))
        return P.LiteralNode(t, rng.randint(0, 3), len(t) if rng.random() < 0.8 else rng.randint(0, 3))
    return P.Node(rng.choice(["a", "A", "b-c", "B-c", "x1"]), *[rand_tree(rng, depth - 1) for _ in range(rng.randint(0, 3))])


def clone(n):
    if isinstance(n, P.LiteralNode):
        return P.LiteralNode(n.value, n.offset, n.length)
    return P.Node(n.name, *[clone(c) for c in n.children])


def mutate_tree(rng, n):
    """a copy differing in exactly one place (field or shape)"""
    if isinstance(n, P.LiteralNode):
        k = rng.randrange(3)
        if k == 0:
            return P.LiteralNode(n.value + "x", n.offset, n.length)
        if k == 1:
            return P.LiteralNode(n.value, n.offset + 1, n.length)
        return P.LiteralNode(n.value, n.offset, n.length + 1)
    k = rng.randrange(4)
    ch = [clone(c) for c in n.children]
    if k == 0 or not ch:
        return P.Node(n.name + "x" if rng.random() < 0.5 else n.name.swapcase() if n.name.swapcase() != n.name else n.name + "y", *ch)
    if k == 1:
        j = rng.randrange(len(ch))
        ch[j] = mutate_tree(rng, ch[j])
        return P.Node(n.name, *ch)
    if k == 2:
        return P.Node(n.name, *ch[:-1])
    return P.Node(n.name, *(ch + [P.LiteralNode("", 0, 0)]))


class Tagged(str):
    """a str subclass that prints differently from its text"""
    def __str__(self):
        return "<tagged " + str.__str__(self) + ">"

    def __format__(self, spec):
        return "<fmt>" + str.__str__(self)

    def __repr__(self):
        return "Tagged(%s)" % str.__repr__(self)


def make_enum_name(text):
    import enum
    return enum.Enum("Names", {"MEMBER": text}, type=str).MEMBER


def _quiet(f):
    try:
        f()
    except Exception:  # noqa: BLE001  (a warm-up visit may reach a handler that raises on purpose)
        pass


class NodeS0(P.Node):
    __slots__ = ()


class NodeS1(P.Node):
    __slots__ = ("tag",)


class NodeD(P.Node):
    pass


def as_subclass(n, kind):
    if isinstance(n, P.LiteralNode):
        return P.LiteralNode(n.value, n.offset, n.length)
    cls = (NodeS0, NodeS1, NodeD)[kind]
    m = cls(n.name, *[as_subclass(c, kind) for c in n.children])
    if kind == 1:
        m.tag = "same"
    return m


def thread_stress(stats):
    """ONE visitor object shared by several threads, each visiting nodes of its own rule: every visit returns its own handler's result"""
    import sys
    import threading
    ns = {"visit_" + k: (lambda self, node, k=k: (k, node.name)) for k in ("alpha", "beta", "gamma", "delta")}
    v = type("SharedV", (P.NodeVisitor,), ns)()
    bad = []

    def worker(k):
        node = P.Node(k, P.LiteralNode("x", 0, 1))
        other = P.Node("no-handler")
        for _ in range(25000):
            r = v.visit(node)
            if r != (k, k) or v.visit(other) is not None:
                bad.append((k, r))
                return
    old = sys.getswitchinterval()
    sys.setswitchinterval(1e-6)
    try:
        ths = [threading.Thread(target=worker, args=(k,)) for k in ("alpha", "beta", "gamma", "delta")]
        [t.start() for t in ths]
        [t.join() for t in ths]
    finally:
        sys.setswitchinterval(old)
    stats["shared_visitor_visits"] = 4 * 25000 * 2
    return bad


def edit_in_place(rng, n):
    """the same tree object after a few in-place edits of children lists (returns n itself)"""
    if isinstance(n, P.LiteralNode):
        return n
    for _ in range(rng.randint(1, 3)):
        nodes = [n]
        stack = [n]
        while stack:
            x = stack.pop()
            for c in getattr(x, "children", []):
                if not isinstance(c, P.LiteralNode):
                    nodes.append(c)
                    stack.append(c)
        tgt = rng.choice(nodes)
        k = rng.randrange(4)
        try:
            if k == 0:
                tgt.children.append(P.LiteralNode(rng.choice(["", "a", "B"]), rng.randint(0, 3), rng.randint(0, 2)))
            elif k == 1 and tgt.children:
                tgt.children.pop(rng.randrange(len(tgt.children)))
            elif k == 2 and tgt.children:
                j = rng.randrange(len(tgt.children))
                tgt.children[j] = clone(tgt.children[j])
            else:
                tgt.children.insert(0, P.Node(rng.choice(["a", "A", "x1"])))
        except AttributeError:
            pass
    return n


def main():
    ap = argparse.ArgumentParser()
    ap.add_argument("--seed", type=int, default=0)
    ap.add_argument("--n", type=int, default=500)
    ap.add_argument("--out", required=True)
    a = ap.parse_args()
    t0 = time.time()
    rng = random.Random(a.seed)
    gdir = os.path.join(os.path.dirname(P.__file__), "grammars")
    for f in sorted(os.listdir(gdir)):
        if f.endswith(".py") and f not in ("__init__.py", "misc.py"):
            importlib.import_module("abnf.grammars." + f[:-3])
    bundled = sorted({o.name for o in P.Rule._obj_map.values()})
    names = list(bundled) + [rand_name(rng) for _ in range(a.n)]
    lines, plan = [], []
    stats = {"bundled_names": len(bundled), "random_names": a.n, "called": 0, "none": 0, "eq_pairs": 0, "eq_true": 0,
             "leaf_dispatch": 0}
    for nm in names:
        variant = "".join(c.swapcase() if rng.random() < 0.5 else c for c in nm)
        # a visitor with a random subset of handlers, sometimes the right one
        pool = [nm] + [rng.choice(names) for _ in range(3)] + ["literal"]
        chosen = [x for x in pool if rng.random() < 0.55]
        keys = sorted({x.replace("-", "_").lower() for x in chosen})
        calls = []
        ns = {}
        raising = rng.random() < 0.15
        exc_type = rng.choice([KeyError, AttributeError, TypeError, LookupError, StopIteration, ValueError])

        def mk(hid):
            def h(self, node):
                calls.append((hid, node))
                if raising:
                    raise exc_type("raised by handler %d" % hid)
                return ("R", hid)
            return h
        for hid, k in enumerate(keys):
            ns["visit_" + k] = mk(hid)
        # handlers may live in the class itself, in a base visitor class, in a mixin, or two levels up
        shape = rng.randrange(5)
        # ancestors may have been instantiated (and used) BEFORE the visitor class at hand is first used: anything a visitor
        # remembers per class must not be inherited by a subclass that adds handlers
        warm = rng.random() < 0.5
        if warm and rng.random() < 0.5:
            P.NodeVisitor().visit(P.Node("warm-up", P.LiteralNode("w", 0, 1)))
        if shape == 0 or not ns:
            V = type("V", (P.NodeVisitor,), ns)
        elif shape == 1:
            Base = type("BaseV", (P.NodeVisitor,), ns)
            if warm:
                _quiet(lambda: Base().visit(P.Node("warm-up")))
            V = type("V", (Base,), {})
        elif shape == 4:
            items = list(ns.items())
            half = len(items) // 2
            Base = type("BaseV", (P.NodeVisitor,), dict(items[:half]))
            if warm:
                _quiet(lambda: Base().visit(P.Node(variant, P.LiteralNode("x", 0, 1))))
            V = type("V", (Base,), dict(items[half:]))
        elif shape == 2:
            items = list(ns.items())
            half = len(items) // 2
            Mixin = type("Mixin", (), dict(items[:half]))
            V = type("V", (Mixin, P.NodeVisitor), dict(items[half:]))
        else:
            items = list(ns.items())
            Top = type("TopV", (P.NodeVisitor,), dict(items[::2]))
            if warm:
                _quiet(lambda: Top().visit(P.Node(variant)))
            Mid = type("MidV", (Top,), dict(items[1::2]))
            if warm and rng.random() < 0.5:
                Mid()
            V = type("V", (Mid,), {})
        stats["hierarchy_shape_%d" % shape] = stats.get("hierarchy_shape_%d" % shape, 0) + 1
        calls.clear()
        if rng.random() < 0.15:
            # the name object is a str SUBCLASS whose str()/format() differ from its text (an Enum member, a tagged string): routing
            # goes by the text
            variant = rng.choice([Tagged, make_enum_name])(variant)
            stats["str_subclass_names"] = stats.get("str_subclass_names", 0) + 1
        v = V()
        # node shapes: a rule node with one leaf, with NO children (a rule that matched the empty string), with several
        # children, and a literal leaf
        r = rng.random()
        if r < 0.5:
            node = P.Node(variant, P.LiteralNode("x", 0, 1))
        elif r < 0.7:
            node = P.Node(variant)
            stats["childless_rule_nodes"] = stats.get("childless_rule_nodes", 0) + 1
        elif r < 0.85:
            node = P.Node(variant, P.Node("inner"), P.LiteralNode("", 1, 0), P.Node("inner", P.LiteralNode("y", 1, 1)))
        else:
            node = P.LiteralNode("x", 0, 1)
        if isinstance(node, P.LiteralNode):
            stats["leaf_dispatch"] += 1
        if raising:
            # an exception raised INSIDE a handler is the caller's business: it must come out of visit() and __call__ as it is
            outs_ = []
            for fn in (v.visit, v):
                calls.clear()
                try:
                    r = fn(node)
                    outs_.append("NONE" if (r is None and not calls) else "EXC:handler-exception-swallowed" if calls else "EXC:returned")
                except exc_type as e:
                    outs_.append(f"CALLED {calls[0][0]}" if len(calls) == 1 and calls[0][1] is node and "raised by handler" in str(e) else "EXC:wrong-exception")
                except Exception as e:  # noqa: BLE001
                    outs_.append("EXC:" + type(e).__name__)
            impl = outs_[0] if outs_[0] == outs_[1] else "EXC:call-and-visit-differ"
            stats["raising_handlers"] = stats.get("raising_handlers", 0) + 1
            toks = ["VISIT", str(len(keys))]
            for hid, k in enumerate(keys):
                toks += stoks(k) + [str(hid)]
            toks += node_toks(node)
            lines.append(" ".join(toks))
            plan.append(("visit", {"name": variant, "handlers": keys, "handler_raises": exc_type.__name__}, impl))
            stats["called" if impl.startswith("CALLED") else "none"] += 1
            continue
        try:
            r1 = v.visit(node)
            r2 = v(node)
            if r1 != r2:
                impl = "EXC:call-and-visit-differ"
            elif r1 is None:
                impl = "NONE" if not calls else "EXC:none-but-called"
            else:
                ok = len(calls) == 2 and calls[0][1] is node and r1 == ("R", calls[0][0])
                impl = f"CALLED {calls[0][0]}" if ok else "EXC:wrong-argument-or-result"
        except Exception as e:  # noqa: BLE001
            impl = "EXC:" + type(e).__name__
        toks = ["VISIT", str(len(keys))]
        for hid, k in enumerate(keys):
            toks += stoks(k) + [str(hid)]
        toks += node_toks(node)
        lines.append(" ".join(toks))
        plan.append(("visit", {"name": variant, "handlers": keys}, impl))
        stats["called" if impl.startswith("CALLED") else "none"] += 1
    for _ in range(a.n):
        t1 = rand_tree(rng, 3)
        t2 = clone(t1) if rng.random() < 0.4 else (mutate_tree(rng, t1) if rng.random() < 0.7 else rand_tree(rng, 3))
        subclassed = False
        if rng.random() < 0.2:
            subclassed = True
            # both trees are instances of USER SUBCLASSES of Node (with empty __slots__, an extra slot, or no __slots__ at all): equality
            # is still structural
            kind = rng.randrange(3)
            t1, t2 = as_subclass(t1, kind), as_subclass(t2, kind)
            stats["node_subclass_pairs"] = stats.get("node_subclass_pairs", 0) + 1
        if not subclassed and rng.random() < 0.3:       # (edits insert plain Node objects: a tree of mixed classes is outside the property's domain)
            # trees EDITED IN PLACE after construction (children is a public list: pruning comment nodes, appending to a node
            # built empty, replacing a leaf): equality must look at the tree as it is now
            t1, t2 = edit_in_place(rng, t1), edit_in_place(rng, t2)
            stats["edited_in_place"] = stats.get("edited_in_place", 0) + 1
        try:
            impl = "1" if (t1 == t2) else "0"
            if (t2 == t1) != (t1 == t2):
                impl = "EXC:asymmetric"
        except Exception as e:  # noqa: BLE001
            impl = "EXC:" + type(e).__name__
        lines.append(" ".join(["NODEEQ"] + node_toks(t1) + node_toks(t2)))
        plan.append(("eq", {"t1": str(t1), "t2": str(t2)}, impl))
        stats["eq_pairs"] += 1
        stats["eq_true"] += impl == "1"
    if a.seed % 2 == 0 or True:
        bad = thread_stress(stats)
        if bad:
            lines.append("VISIT 0 l 1 120 0 1")
            plan.append(("visit", {"what": "one visitor shared by four threads: a node of rule %r got the result %r" % bad[0]}, "EXC:shared-visitor-race"))
    p = subprocess.run([DRIVER], input="\n".join(lines) + "\n", capture_output=True, text=True, check=False)
    if p.returncode != 0:
        raise RuntimeError(p.stderr[-1000:])
    outs = p.stdout.split("\n")
    mism = [{"kind": k, "case": c, "impl": i, "model": m} for (k, c, i), m in zip(plan, outs) if i != m]
    json.dump({"evaluations": len(plan), "distinct_nontrivial": len({json.dumps(c, sort_keys=True) for _, c, _ in plan}),
               "stats": stats, "n_mismatches": len(mism), "mismatches": mism[:40],
               "samples": [{"kind": k, "case": c, "observed": i} for k, c, i in plan[:: max(1, len(plan) // 4)][:4]],
               "wall_s": time.time() - t0}, open(a.out, "w"))


if __name__ == "__main__":
    main()
