"""C05 — the built-in ABNF reader accepts exactly the ABNF of RFC 5234 + RFC 7405."""
import json
import os

import common as C

VFILES = ["props/C05.v"]
USES_TRANSLATOR = True
EXTRA_TRUST = ["tools/translate.py (Python ast, fail-closed) turning the two tables of parser.py into coq/gen/GenTables.v on every run",
               "coq/RfcSpec.v: the RFC 5234 section 4 / RFC 7405 / B.1 grammar text, transcribed by hand from the RFCs; coq/AbnfRead.v the spec reader that reads it"]
ASSUMPTIONS = ["the obligations (wf/closed/plain certificate, lang_eq_check) are re-evaluated by the kernel whenever the translated tables change"]


def _x(ctx, mode):
    out = os.path.join(C.WORK, f"m_{mode}.json")
    rc, so, se = C.sh([C.PY, os.path.join(C.VERIF, "tools", "meta_x.py"), "--mode", mode, "--seed", str(ctx["seed"]),
                       "--tier", ctx["tier"], "--out", out], env=C.env_for_impl("0"), timeout=6000)
    if rc != 0:
        return None, (so + se)[-2000:]
    return json.load(open(out)), None


def run(ctx):
    d, err = _x(ctx, "c05")
    if d is None:
        return {"coverage": {"evaluations": 0, "distinct_nontrivial": 0},
                "violations": [{"what": "harness failed: " + err[-400:], "identity": "harness-error", "replay_payload": {"error": err}}]}
    viol = [{"what": m["what"] if "what" in m else
                     (f"meta rule {m['rule']!r} on {m['s']!r} at {m['i']}: implementation ends {m.get('implementation_ends')}, "
                      f"RFC grammar {m.get('rfc_grammar_text')}, model on translated table {m.get('model_on_translated_table')}"),
             "identity": f"c05:{m['rule']}:{m['s']!r}:{m['i']}", "replay_payload": dict(m, property="C05")} for m in d["mismatches"]]
    cov = {"evaluations": d["evaluations"], "distinct_nontrivial": d["distinct_nontrivial"], "samples": d["samples"], "stats": d["stats"],
           "exhaustive": True,
           "rule": ("24 meta rules x every offset x (ALL strings of length <= stats.exhaustive_maxlen over a 28-symbol alphabet incl. "
                    "U+017F, + sentences derived from the grammar for every rule, + their mutants, + hand-picked rule texts); end "
                    "sets of ABNFGrammarRule(X).lparse vs the engine model on the translated tables AND vs the engine model on "
                    "the grammar read from the RFC text; non-trivial = a match that consumes input or has >= 2 ends")}
    return {"coverage": cov, "violations": viol}


def search(ctx):
    """a broken obligation (e.g. the translated table no longer equals the RFC grammar): look for a concrete text
    on which the real reader and the RFC grammar disagree"""
    c2 = dict(ctx, tier="thorough")
    d, _ = _x(c2, "c05")
    if d is None:
        return []
    return [{"what": f"meta rule {m['rule']!r} on {m['s']!r} at {m['i']}: implementation ends {m['implementation_ends']} but the RFC grammar gives {m['rfc_grammar_text']}",
             "identity": f"c05:{m['rule']}:{m['s']!r}:{m['i']}", "replay_payload": dict(m, property="C05")}
            for m in d["mismatches"] if m["implementation_ends"] != m["rfc_grammar_text"]]
