"""Engine correspondence: the real library and the extracted Coq model run on the same generated
(grammar, input, offset) cases; results are compared after canonicalisation.
Runs under /venv/bin/python with PYTHONPATH=/repo/src.

usage: engine_x.py --seed S --n N --mode plain|flags --out FILE [--replay CASEFILE]
"""
from __future__ import annotations

import argparse
import json
import os
import random
import subprocess
import sys
import time

sys.path.insert(0, os.path.dirname(os.path.abspath(__file__)))
import gen  # noqa: E402
import pyimpl  # noqa: E402

CHURN = False
CHURN_COUNT = [0]
SRC_COUNT = [0]


class StrSub(str):
    """a user's own string type"""
    __slots__ = ()
DRIVER = os.path.join(os.path.dirname(os.path.abspath(__file__)), "..", "ocaml", "rundriver")


def ends_of(res):
    if not res.startswith("OK"):
        return res
    body = res[3:]
    if not body:
        return []
    return sorted({int(m.split(":", 1)[0]) for m in body.split(";")})


def make_case(seed, k, mode):
    rng = random.Random(f"{seed}:{k}:{mode}")
    flags = mode == "flags"
    g = gen.gen_grammar(rng, flags=flags, excl=flags and rng.random() < 0.6, alias=True)
    if flags:
        tg = {}
        shared = {r["name"] for r in g["rules"] if r.get("alias_of")} | {r["alias_of"] for r in g["rules"] if r.get("alias_of")}
        for r in g["rules"]:
            if r.get("alias_of"):
                # the alias shares the definition OBJECT; it may have an exclusion of its own (another one than its source's)
                others = [x["name"] for x in g["rules"] if x["name"] not in (r["name"], r["alias_of"])]
                if others and rng.random() < 0.6:
                    r["excl"] = rng.choice(others)
                    if not gen.wf(g):
                        r["excl"] = None
        for r in g["rules"]:
            if r["name"] in shared:
                continue          # a flag set through one name would show through the other (the sharing is the known finding of C10)
            if r["def"][0] == "alt" and rng.random() < 0.6:
                tg[r["name"]] = [rng.randint(0, 1) for _ in range(rng.randint(0, 3))] + [r["def"][1]]
            elif r["def"][0] != "alt" and rng.random() < 0.2:
                tg[r["name"]] = [1, 0, 1]      # the setter must ignore rules whose definition is not an alternation
        g["toggles"] = tg
        # every other flagged grammar is built from ABNF TEXT through the library's own reader (flags can only be set afterwards,
        # through the public property): first-match and exclusions must mean the same on compiled rules — a group inside an
        # alternation stays a nested alternation, "=/" appends after the existing alternatives
        import loader_x
        if rng.random() < 0.5 and all(loader_x.text_ok(r["def"]) and loader_x.simplify_for_text(r["def"]) == (["alt", 0] + r["def"][2:] if r["def"][0] == "alt" else r["def"])
                                      for r in g["rules"]):
            lines_ = []
            late_, early_ = [], {}
            for r in g["rules"]:
                d = r["def"]
                if d[0] == "alt" and d[1] and (r["name"] not in tg or tg[r["name"]][-1] != 1):
                    tg[r["name"]] = tg.get(r["name"], []) + [1]
                if d[0] == "alt" and not d[1] and r["name"] in tg and tg[r["name"]][-1] != 0:
                    tg[r["name"]] = tg[r["name"]] + [0]
                if d[0] == "alt" and len(d[2]) >= 4 and r["name"] not in shared and rng.random() < 0.3:
                    # the first alternatives, THEN the first-match flag through the public property, THEN "=/" with the rest: the flag
                    # stays on what it was set on (the old alternation, now the first alternative of a new, unflagged one)
                    k = rng.randint(2, len(d[2]) - 2)
                    lines_.append(loader_x.render_rule(rng, r["name"], ["alt", 0, d[2][:k]], False))
                    late_.append(loader_x.render_rule(rng, r["name"], ["alt", 0, d[2][k:]], False, incr=True))
                    early_[r["name"]] = [0, 1]
                    tg.pop(r["name"], None)
                    r["def"] = ["alt", 0, [["alt", 1, d[2][:k]], ["alt", 0, d[2][k:]]]]
                elif d[0] == "alt" and len(d[2]) >= 3 and r["name"] not in shared and rng.random() < 0.5:
                    # written as  first alternatives, then "=/" with the rest: the order of alternatives must be the written one
                    k = rng.randint(1, len(d[2]) - 2)
                    head = ["alt", 0, d[2][:k]] if k > 1 else d[2][0]
                    lines_.append(loader_x.render_rule(rng, r["name"], head, False))
                    lines_.append(loader_x.render_rule(rng, r["name"], ["alt", 0, d[2][k:]], False, incr=True))
                    r["def"] = ["alt", d[1], [head, ["alt", 0, d[2][k:]]]]
                else:
                    lines_.append(loader_x.render_rule(rng, r["name"], ["alt", 0] + d[2:] if d[0] == "alt" else d, False))
            g["via_text"] = "\r\n".join(lines_) + "\r\n"
            if late_:
                g["late_text"] = "\r\n".join(late_) + "\r\n"
                g["early_toggles"] = early_
    if not flags and not any(r.get("alias_of") for r in g["rules"]) and rng.random() < 0.4:
        # plain grammars too are sometimes compiled from ABNF text by the library's own reader (order of alternatives, nesting of
        # groups, bounds as written)
        import loader_x
        if all(loader_x.text_ok(r["def"]) and loader_x.simplify_for_text(r["def"]) == r["def"] for r in g["rules"]):
            g["via_text"] = "\r\n".join(loader_x.render_rule(rng, r["name"], r["def"], False) for r in g["rules"]) + "\r\n"
    if not g.get("via_text") and rng.random() < 0.4:
        g["define_order"] = rng.sample([r["name"] for r in g["rules"]], len(g["rules"]))
    inputs = gen.gen_inputs(rng, g)
    return {"seed": seed, "index": k, "mode": mode, "grammar": g, "inputs": inputs}


def fixed_cases():
    """hand-picked grammars that every run includes (the corpus of former failures lives in
    /verif/corpus and is loaded by the caller)"""
    L = lambda cs, t: ["lit", cs, t]  # noqa: E731
    out = []

    def case(name, rules, inputs, alpha="ab", via_text=None):
        out.append({"seed": 0, "index": name, "mode": "fixed",
                    "grammar": dict({"rules": [{"name": n, "def": d, "excl": x} for n, d, x in rules],
                                     "alpha": list(alpha)}, **({"via_text": via_text} if via_text else {})),
                    "inputs": inputs})

    # an alternation of more than 8 alternatives, some spelled twice, ambiguous (same end, different trees), COMPILED FROM TEXT: the
    # alternatives are tried in the order written, duplicates included, whatever the hash seed
    wide = [L(0, "a"), L(0, "ab"), L(0, "b"), L(0, "a"), L(0, "abc"), ["cat", [L(0, "a"), L(0, "b")]], L(0, "ab"), L(0, "c"), L(1, "A"), L(0, "a"),
            ["cat", [L(0, "ab"), L(0, "c")]]]
    case("wide-alternation-with-duplicates", [("w", ["alt", 0, wide], None), ("v", ["rep", 1, 3, ["ref", "w"]], None)],
         ["a", "ab", "abc", "A", "abab", "abcab", "c", "d", ""], alpha="abc",
         via_text='w = "a" / "ab" / "b" / "a" / "abc" / "a" "b" / "ab" / "c" / %s"A" / "a" / "ab" "c"\r\nv = 1*3w\r\n')
    # characters whose case mappings have another length, in front of case-insensitive literals tried at later offsets
    case("length-changing-case-maps", [("h", L(0, "f"), None), ("hh", L(0, "ab"), None), ("k", ["cat", [["range", 0x80, 0x10FFFF], L(0, "Ab")]], None)],
         ["\u0130f", "\u0130ab", "\u00dfF", "\u0149AB", "\u0130\u0130aB", "\ufb01f", "\u1e9eab", "\u0130"], alpha="abf")

    case("empty-literal-at-end", [("x", ["cat", [L(0, "a"), ["ref", "e"]]], None), ("e", L(0, ""), None)],
         ["a", "", "aa", "b"])
    case("unicode-lookalikes", [("k", L(0, "k"), None), ("s", L(0, "s"), None), ("ss", L(0, "ss"), None),
                                ("fi", L(0, "fi"), None), ("i", L(0, "i"), None)],
         ["k", "K", "K", "s", "S", "ſ", "ss", "ß", "SS", "ﬁ", "fi", "İ", "ı", "i", "I", "i̇"])
    case("ambiguous-star", [("s", ["rep", 0, None, ["alt", 0, [["ref", "x"], ["ref", "y"]]]], None),
                            ("x", ["alt", 0, [L(0, "a"), L(0, "aa")]], None),
                            ("y", ["alt", 0, [L(0, "aa"), L(0, "a")]], None)],
         ["aaaa", "aaa", "a", "", "aab"])
    case("nullable-body", [("s", ["rep", 0, None, ["alt", 0, [L(0, ""), L(0, "a")]]], None),
                           ("t", ["rep", 2, 5, ["opt", L(0, "a")]], None),
                           ("u", ["rep", 1, None, ["rep", 0, None, L(0, "a")]], None)],
         ["", "a", "aa", "aaaaaa", "b", "ab"])
    case("bounds", [("a", ["rep", 2, 3, L(0, "a")], None), ("b", ["rep", 0, 0, L(0, "a")], None),
                    ("c", ["rep", 3, 3, L(0, "a")], None), ("d", ["rep", 1, 2, ["rep", 1, 2, L(0, "a")]], None)],
         ["", "a", "aa", "aaa", "aaaa", "aaaaa", "aaaaaa"])
    case("star-prose", [("p", ["rep", 0, None, ["prose"]], None), ("q", ["opt", ["prose"]], None),
                        ("r", ["cat", [L(0, "a"), ["rep", 0, 2, ["prose"]]]], None)],
         ["", "a", "b"])
    # integer boundaries in repeat bounds (small-int caching, byte limits): 255 / 256 / 257 / 300, inputs one longer
    case("big-bounds", [("a", ["rep", 2, 257, L(0, "a")], None), ("b", ["rep", 300, 300, L(0, "a")], None),
                        ("c", ["rep", 0, 256, L(0, "a")], None), ("d", ["rep", 255, 258, L(1, "a")], None),
                        ("e", ["cat", [["rep", 0, 257, L(0, "a")], L(0, "b")]], None),
                        # more than 256 partial matches alive between two elements of a concatenation, the short ones needed
                        ("f", ["cat", [["rep", 0, None, L(0, "a")], ["opt", L(0, "b")]]], None),
                        ("g", ["cat", [["rep", 0, None, L(0, "a")], ["rep", 0, 1, L(0, "a")], ["opt", L(0, "b")]]], None)],
         ["a" * 254, "a" * 256, "a" * 257, "a" * 258, "a" * 259, "a" * 300, "a" * 301, "a" * 258 + "b", "a" * 257 + "b"])
    # rules defined, extended and referenced under DIFFERENT letter-case spellings in one text: a rule is named as it was first mentioned
    respelled = "".join(f'{a} = "{c}" {b2}\r\n{b} =/ "{c}{c}"\r\n' for a, b, b2, c in
                        [("token", "TOKEN", "Word", "t"), ("Word", "word", "NUM", "w"), ("num", "NUM", "Tail", "n"), ("tail", "TAIL", "last", "l"),
                         ("Last", "LAST", "END", "s")]) + 'end = "."\r\nEND =/ "!"\r\n'
    respelled_rules = [(a, ["alt", 0, [["cat", [L(0, c), ["ref", b2]]], L(0, c + c)]], None) for a, b2, c in
                       # (a rule object is created, and named, at its FIRST MENTION in the text — here a reference in the rule before)
                       [("token", "Word", "t"), ("Word", "NUM", "w"), ("NUM", "Tail", "n"), ("Tail", "last", "l"), ("last", "END", "s")]] + \
                      [("END", ["alt", 0, [L(0, "."), L(0, "!")]], None)]
    case("respelled-rules", respelled_rules, ["twnls.", "twnls!", "tt", "twnn", "twnlss", "TWNLS.", "t"], alpha="twnls.!", via_text=respelled)
    # wide alternations (8 or more alternatives) made of string literals only, case-sensitive and case-insensitive ones mixed, some
    # spelled alike up to case; and a first-match alternation that lists rules and ranges BEFORE quoted strings
    lits = [L(1, "m"), L(0, "M"), L(0, "mm"), L(1, "K"), L(0, "k"), L(0, "g"), L(1, "Mi"), L(0, "mi"), L(0, "t"), L(1, "T"), L(0, "p")]
    case("wide-literal-alternation", [("u", ["alt", 0, lits], None), ("size", ["cat", [["rep", 1, None, ["range", 0x30, 0x39]], ["ref", "u"], ["opt", L(0, "b")]]], None)],
         ["M", "m", "MM", "Mi", "MI", "k", "K", "T", "t", "5MB", "5mb", "12Mi", "7K", "7kb", "x", ""], alpha="mkgtpb5")
    tok = [["ref", "number"], ["ref", "name"], L(0, "=="), L(0, "="), L(0, "<="), L(0, "<"), L(0, ">="), L(0, ">"), L(0, "if"), L(0, "in"), L(0, "i")]
    out.append({"seed": 0, "index": "wide-first-match-alternation", "mode": "fixed",
                "grammar": {"rules": [{"name": "token", "def": ["alt", 1, tok], "excl": None},
                                      {"name": "number", "def": ["rep", 1, None, ["range", 0x30, 0x39]], "excl": None},
                                      {"name": "name", "def": ["rep", 1, None, ["range", 0x61, 0x7A]], "excl": None},
                                      {"name": "toks", "def": ["rep", 1, None, ["ref", "token"]], "excl": None}],
                            "alpha": list("in=<>1"), "toggles": {"token": [0, 1]}},
                "inputs": ["in", "if", "i", "==", "=", "<=", "<", "12", "in12", "i=1", "<=>", ""]})
    # recursion through an option / a bounded repetition (the same Repetition object is re-entered while it is running), asked at
    # inner offsets first
    case("recursion-through-option", [("s", ["cat", [L(0, "("), ["opt", ["ref", "s"]], L(0, ")"), ["opt", ["ref", "s"]]]], None),
                                      ("b", ["cat", [L(0, "["), ["rep", 0, 2, ["ref", "b"]], L(0, "]")]], None)],
         ["((())())", "(()())", "()", "(()", "[[[]][]]", "[[][][]]", "[[[][]][[]]]", "[]"], alpha="()[]")
    # ONE terminal longer than 65 535 characters
    case("huge-literal", [("big", L(1, "ab" * 33000), None), ("two", ["cat", [["ref", "big"], L(0, "c")]], None)],
         ["ab" * 33000, "ab" * 33000 + "c", "ab" * 32999 + "aa"], alpha="abc")
    # more than a thousand rules in one grammar, one of them with a very long name; an alternation over all of them
    many = [(f"m{k}", ["range", 0x100 + k, 0x100 + k], None) for k in range(1100)]
    longname = "L" + "ong-name-" * 40 + "x"
    many.append((longname, ["cat", [L(0, "z"), ["ref", "m7"]]], None))
    many.append(("top", ["alt", 0, [["ref", f"m{k}"] for k in range(1100)] + [["ref", longname]]], None))
    many.append(("seq", ["rep", 0, None, ["ref", "top"]], None))
    case("many-rules", many, [chr(0x100), chr(0x100 + 1099), chr(0x100 + 1100), "z" + chr(0x107), chr(0x105) + chr(0x54b) + "z" + chr(0x107), "zz", ""], alpha="z")
    # a huge explicit upper bound over an element that can match the empty string: the loop must stop when a round adds no new
    # end, not run to the bound (termination within a work bound, whatever the bound)
    case("huge-bound-nullable", [("a", ["rep", 0, 1000000, ["opt", L(0, "a")]], None),
                                 ("b", ["rep", 2, 1000000, ["rep", 0, None, L(0, "a")]], None),
                                 ("c", ["rep", 1, 1000000, ["alt", 0, [L(0, ""), L(0, "a")]]], None),
                                 ("d", ["cat", [["rep", 0, 999999, ["ref", "e"]], L(0, "b")]], None), ("e", ["rep", 0, 3, L(0, "a")], None)],
         ["", "aaa", "b", "aab"])
    # deep backtracking: the longest overall match needs the first element to give back more than 128 / 256 positions, so every
    # one of its hundreds of candidate ends must survive until the later elements have been tried
    case("deep-backtrack", [("x", ["cat", [["rep", 0, None, L(0, "a")], ["rep", 140, 140, L(0, "a")]]], None),
                            ("y", ["cat", [["rep", 0, None, L(0, "a")], ["opt", ["cat", [["rep", 140, 140, L(0, "a")], L(0, "!")]]]]], None),
                            ("z", ["cat", [["rep", 1, None, ["range", 0x61, 0x7A]], ["rep", 270, 270, L(0, "a")], L(0, "b")]], None)],
         ["a" * 300, "a" * 300 + "!", "a" * 139, "a" * 140, "a" * 141, "a" * 290 + "b", "a" * 270 + "b"], alpha="ab!")
    case("right-recursion", [("r", ["alt", 0, [["cat", [L(0, "x"), ["ref", "r"]]], L(0, "x")]], None)],
         ["x", "xx", "xxxxx", "xxy", ""], alpha="xy")
    case("case-sensitive", [("a", L(1, "aB"), None), ("b", L(0, "aB"), None)],
         ["aB", "ab", "AB", "Ab", "a"])
    case("ranges", [("a", ["range", 0x61, 0x7A], None), ("b", ["range", 0, 0x10FFFF], None),
                    ("c", ["range", 0xD7FF, 0xD800], None)],
         ["a", "z", "{", "`", "\x00", "\U0010ffff", "퟿", "\ud800", "\ud801", ""])
    return out


def small_cases(flags=False, shard=0, nshards=1, max_size=3):
    """SYSTEMATIC enumeration: every expression with up to max_size operators over {a, b} (literals "", a, b, ab, %s"a";
    range a-b; alternation / concatenation of two; repetition with bounds from a fixed list; option; with `flags`
    also first-match alternations and one exclusion), as the definition of one rule (plus a helper rule), on ALL strings
    over {a, b} up to length 4 (every offset is tried by run_cases)."""
    leaves = [["lit", 0, ""], ["lit", 0, "a"], ["lit", 0, "b"], ["lit", 0, "ab"], ["lit", 1, "A"], ["range", 97, 98], ["ref", "h"]]
    bounds = [(0, None), (1, None), (0, 1), (2, 2), (1, 2), (0, 0), (2, 3), (0, 2)]
    levels = [leaves]
    for _ in range(max_size - 1):
        prev_all = [e for lv in levels for e in lv]
        last = levels[-1]
        nxt = []
        for x in last:
            for (mn, mx) in bounds:
                nxt.append(["rep", mn, mx, x])
            nxt.append(["opt", x])
        for x in last:
            for y in prev_all[: (len(leaves) if len(levels) > 1 else len(prev_all))]:
                nxt.append(["alt", 0, [x, y]])
                nxt.append(["cat", [x, y]])
                if len(levels) > 1:
                    nxt.append(["alt", 0, [y, x]])
                    nxt.append(["cat", [y, x]])
                if flags:
                    nxt.append(["alt", 1, [x, y]])
        levels.append(nxt)
    exprs = [e for lv in levels[1:] for e in lv]
    inputs = gen.exhaustive_strings(["a", "b"], 4)
    out = []
    for k, e in enumerate(exprs):
        if k % nshards != shard:
            continue
        rules = [{"name": "r", "def": e, "excl": None},
                 {"name": "h", "def": ["alt", 0, [["lit", 0, "a"], ["lit", 0, "aa"]]], "excl": None}]
        if flags and k % 5 == 0:
            rules[0]["excl"] = "h"
        g = {"rules": rules, "alpha": ["a", "b"]}
        if not gen.wf(g):
            continue
        out.append({"seed": 0, "index": f"small:{k}", "mode": "small", "grammar": g, "inputs": inputs})
    return out


def run_cases(cases, want_parse=True):
    """returns (records, stats); record = dict(case, kind, rule, s, i, impl, model)"""
    lines = []
    meta = []
    stats = {"grammars": 0, "calls": 0, "ops": {}, "impl_outcomes": {}, "input_len_hist": {},
             "multi_end": 0, "nullable_rep": 0}
    keep = []
    for c in cases:
        g = c["grammar"]
        try:
            cls, objs = pyimpl.build_grammar(g)
        except Exception as e:  # noqa: BLE001
            meta.append((c, "build", None, None, None, "EXC:" + type(e).__name__))
            lines.append(None)
            continue
        keep.append(cls)
        bad = pyimpl.check_graph(g, objs)
        if bad:
            meta.append((c, "build", None, None, None, "GRAPH:" + "; ".join(bad)[:500]))
            lines.append(None)
            continue
        stats["grammars"] += 1
        for k, v in gen.count_ops(g).items():
            stats["ops"][k] = stats["ops"].get(k, 0) + v
        d = pyimpl.Dump()
        names = [r["name"] for r in g["rules"]]
        gl = d.grammar([objs[n] for n in names])
        lines.append(gl)
        meta.append(None)
        t_case = time.time()
        slow = False
        inputs_ = list(c["inputs"])
        if any(r.get("excl") for r in g["rules"]):
            # with exclusions in play every input is also tried in its other letter cases, one after the other on the same objects: a
            # verdict reached for one spelling says nothing about another
            seen_ = set(inputs_)
            for s0 in list(inputs_):
                for v_ in (s0.swapcase(), s0.upper(), s0.lower()):
                    if v_ not in seen_ and len(v_) == len(s0):
                        seen_.add(v_)
                        inputs_.append(v_)
        for s in inputs_:
            # generated cases get a small time budget (exponentially ambiguous grammars are skipped); the hand-picked ones are
            # always run to the end, whatever the load of the machine
            if slow or time.time() - t_case > (3.0 if c.get("mode") != "fixed" else 90.0):
                stats["slow_cases"] = stats.get("slow_cases", 0) + 1
                break
            ln = min(len(s), 12)
            stats["input_len_hist"][ln] = stats["input_len_hist"].get(ln, 0) + 1
            st = pyimpl.str_tokens(s)
            if CHURN:
                # a NEW string object per input, dropped before the next one is made; caches emptied in between (two inputs out
                # of three) or squeezed to one entry, so that nothing keeps the previous input alive: an answer that depends
                # on the parse history or on a recycled object address shows here
                s_live = None
                CHURN_COUNT[0] += 1
                if CHURN_COUNT[0] % 3 != 0:
                    pyimpl.P.ParseCache.clear_caches()
                elif CHURN_COUNT[0] % 2 == 0:
                    for pc in pyimpl.P.ParseCache.list():
                        pc.max_size = 1
                s_live = "".join([ch for ch in s])
            else:
                s_live = s
            SRC_COUNT[0] += 1
            if SRC_COUNT[0] % 7 == 0:
                s_live = StrSub(s_live)          # a str SUBCLASS instance is a perfectly good source
            for n in names:
                rid = d.rids[id(objs[n])]
                offsets = list(range(len(s) + 1)) if len(s) <= 40 else sorted({0, 1, 2, len(s) // 2, len(s) - 1, len(s)})
                if SRC_COUNT[0] % 2 == 1:
                    offsets = offsets[::-1]          # inner offsets first: what was computed for a suffix must not disturb the whole
                for i in offsets:
                    try:
                        with pyimpl.time_limit((0.5 if len(s) <= 40 else 5.0) if c.get("mode") != "fixed" else 30.0):
                            r_impl = pyimpl.run_lparse(objs[n], s_live, i)
                    except pyimpl.SlowCase:
                        if c.get("mode") == "fixed":
                            # the hand-picked cases are known to take a fraction of a second: 30 s on one call is a loop that
                            # does not stop when it should
                            lines.append(" ".join(["LPARSE", "0", str(rid), str(i)] + st))
                            meta.append((c, "lparse", n, s, i, "HANG"))
                            slow = True
                            break
                        slow = True   # exponential backtracking: a runtime effect, not semantics; skip ...
                        # ... unless it does not even terminate on a TRIVIAL input (exponential blow-up needs a long
                        # input; a loop that never reaches its fixpoint hangs on "" too): that is a totality violation
                        for tiny in ("", s[:1]):
                            try:
                                with pyimpl.time_limit(4.0):
                                    pyimpl.run_lparse(objs[n], tiny, 0)
                            except pyimpl.SlowCase:
                                lines.append(" ".join(["LPARSE", "0", str(rid), "0"] + pyimpl.str_tokens(tiny)))
                                meta.append((c, "lparse", n, tiny, 0, "HANG"))
                                break
                        break
                    lines.append(" ".join(["LPARSE", "0", str(rid), str(i)] + st))
                    meta.append((c, "lparse", n, s, i, r_impl))
                if slow:
                    break
                if want_parse:
                    try:
                        with pyimpl.time_limit(2.0):
                            rows = [(" ".join(["PARSE", "0", str(rid), str(i)] + st), (c, "parse", n, s, i, pyimpl.run_parse(objs[n], s_live, i)))
                                    for i in sorted({0, len(s) // 2, len(s)})]
                            rows.append((" ".join(["PALL", "0", str(rid)] + st), (c, "parse_all", n, s, 0, pyimpl.run_parse_all(objs[n], s_live))))
                    except pyimpl.SlowCase:
                        slow = True
                        break
                    for ln, mt in rows:
                        lines.append(ln)
                        meta.append(mt)
    def drive(ls, timeout):
        p = subprocess.run([DRIVER], input="\n".join(ls) + "\n", capture_output=True, text=True, check=False, timeout=timeout)
        if p.returncode != 0:
            raise RuntimeError("model driver failed: " + p.stderr[-2000:])
        return p.stdout.split("\n")

    real = [x for x in lines if x is not None]
    try:
        outs = drive(real, 240)
    except subprocess.TimeoutExpired:
        # some case is far slower in the model than in the library: run grammar by grammar and skip the slow ones
        # (running time is a runtime effect, not semantics)
        outs = []
        chunk = []
        chunks = []
        for ln in real:
            if ln.startswith("GRAMMAR") and chunk:
                chunks.append(chunk)
                chunk = []
            chunk.append(ln)
        if chunk:
            chunks.append(chunk)
        for ch in chunks:
            try:
                outs += [x for x in drive(ch, 30)][: len(ch) - 1]
            except subprocess.TimeoutExpired:
                outs += ["OOF"] * (len(ch) - 1)
                stats["slow_model_cases"] = stats.get("slow_model_cases", 0) + 1
    records = []
    oi = 0
    for ln, m in zip(lines, meta):
        if ln is None:
            records.append({"case": m[0], "kind": "build", "impl": m[5], "model": None})
            continue
        if m is None:
            continue  # GRAMMAR line: no output
        model = outs[oi]
        oi += 1
        c, kind, n, s, i, impl = m
        stats["calls"] += 1
        key = impl.split(" ")[0] if not impl.startswith("OK") else "OK"
        stats["impl_outcomes"][kind + ":" + key] = stats["impl_outcomes"].get(kind + ":" + key, 0) + 1
        records.append({"case": c, "kind": kind, "rule": n, "s": s, "i": i, "impl": impl, "model": model})
    return records, stats


def classify(rec):
    """which properties' observables differ on this record"""
    out = set()
    impl, model = rec["impl"], rec["model"]
    if rec["kind"] == "build":
        out.add("build")
        return out
    if impl == model:
        return out
    if impl == "HANG":
        out.add("inconclusive" if model == "OOF" else "hang")
        return out
    if model == "OOF" or impl == "REC":
        out.add("inconclusive")
        return out
    if rec["kind"] == "lparse":
        if ends_of(impl) != ends_of(model):
            out.add("ends")
        else:
            out.add("tree")
        if impl.startswith("EXC") or (impl in ("GERR",) and model != "GERR") or (model == "GERR" and impl != "GERR"):
            out.add("exc")
    else:
        ei, em = ends_of(impl), ends_of(model)
        if ei != em:
            out.add("parse")
        else:
            out.add("tree")
        if impl.startswith("EXC"):
            out.add("exc")
    return out


def main():
    ap = argparse.ArgumentParser()
    ap.add_argument("--seed", type=int, default=0)
    ap.add_argument("--n", type=int, default=50)
    ap.add_argument("--mode", default="plain")
    ap.add_argument("--out", required=True)
    ap.add_argument("--cases", default=None, help="JSON file with explicit cases (replay/corpus)")
    ap.add_argument("--fixed", default="both", choices=["both", "only", "none"],
                    help="the hand-picked cases: with the generated ones (both), alone (only), or left out (none)")
    ap.add_argument("--churn", action="store_true",
                    help="every input is a fresh, short-lived string object and the caches are cleared between inputs "
                         "(results must not depend on what was parsed before, nor on object addresses being reused)")
    a = ap.parse_args()
    global CHURN
    CHURN = a.churn
    t0 = time.time()
    if a.cases:
        cases = json.load(open(a.cases))
    elif a.mode.startswith("small"):
        # --mode small:<flags 0|1>:<shard>:<nshards>:<max_size>
        _, fl, sh_, ns, ms = (a.mode.split(":") + ["0", "0", "1", "3"])[:5]
        cases = small_cases(flags=fl == "1", shard=int(sh_), nshards=int(ns), max_size=int(ms))
        if a.n and a.n < len(cases):
            rng = random.Random(a.seed)
            cases = rng.sample(cases, a.n)
    else:
        fixed = [] if a.fixed == "none" else fixed_cases()
        if a.fixed == "only":
            # three jobs share the hand-picked cases: the two long-input cases get a job each (--seed 0, 1), the rest --seed 2
            part = {"big-bounds": 0, "deep-backtrack": 1, "huge-bound-nullable": 1, "many-rules": 1, "huge-literal": 1}
            fixed = [c for c in fixed if part.get(c["index"], 2) == a.seed % 3]
        cases = fixed + ([] if a.fixed == "only" else [make_case(a.seed, k, a.mode) for k in range(a.n)])
    records, stats = run_cases(cases)
    mism = []
    nontrivial = set()
    for r in records:
        cl = classify(r)
        if r["kind"] == "lparse":
            e = ends_of(r["impl"])
            if (isinstance(e, list) and len(e) >= 2) or (r["impl"] == "PERR" and r["i"] < len(r["s"])):
                nontrivial.add((json.dumps(r["case"]["grammar"]["rules"], sort_keys=True), r["rule"], r["s"], r["i"]))
            if isinstance(e, list) and len(e) >= 2:
                stats["multi_end"] += 1
        if cl:
            mism.append({"classes": sorted(cl), "kind": r["kind"], "rule": r.get("rule"), "s": r.get("s"),
                         "i": r.get("i"), "impl": r["impl"], "model": r["model"], "case": r["case"]})
    samples = []
    for r in records[:: max(1, len(records) // 5)][:5]:
        if r["kind"] != "build":
            samples.append({"grammar": r["case"]["grammar"]["rules"], "kind": r["kind"], "rule": r["rule"],
                            "s": r["s"], "i": r["i"], "impl": r["impl"][:300], "model": r["model"][:300]})
    json.dump({"stats": stats, "mismatches": mism[:200], "n_mismatches": len(mism),
               "distinct_nontrivial": len(nontrivial), "evaluations": stats["calls"], "samples": samples,
               "wall_s": time.time() - t0}, open(a.out, "w"))


if __name__ == "__main__":
    main()
