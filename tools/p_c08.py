"""C08 — caching is invisible: results independent of parse history and cache limits."""
import hist_common as H

VFILES = ["props/C08.v"]
ASSUMPTIONS = ["theorem is about EngineProg.v (engine as a program over cache events) and Cache.v; the tie compares results AND cache event traces of the real library with the model's"]


def run(ctx):
    cov, viol = H.run_hist(ctx, "c08", 240, 6000)
    cov["rule"] = ("histories of 6..40 operations over a generated grammar: lparse/parse/parse_all requests with repeats (40% "
                   "repeat an earlier request), ParseCache.clear_caches(), limits None/1/2/3 on all or single live caches, class "
                   "default limit; compared per request: the full canonical result and the exact sequence of cache events "
                   "(cache id, hit/miss/store, key, stored-error flag) vs EngineProg.run_traced on model caches; distinct = distinct "
                   "(result, event trace) observations")
    return {"coverage": cov, "violations": viol}
