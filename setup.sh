#!/bin/bash
# Build the framework from files on disk only (offline): Coq development (full .vo build),
# extraction of the model, OCaml driver.
set -e
cd /verif/coq
mkdir -p gen /verif/work /verif/evidence
if [ -f /verif/tools/translate.py ]; then /venv/bin/python /verif/tools/translate.py --repo /repo --out /verif/coq/gen || true; fi
coq_makefile -f _CoqProject -o Makefile
timeout 3000 make -k -j16 || true
cd /verif/ocaml
timeout 300 coqc -Q ../coq ABNF Extract.v
ocamlfind ocamlopt -w -a model.mli model.ml driver.ml -o driver
echo "setup done"
