From Coq Require Import List NArith Arith Bool Lia.
Import ListNotations.
From Spike Require Import Model Sound.

Section Rep.
  Variable G : grammar.
  Variable rec : expr -> str -> nat -> res.
  Hypothesis Hrec : sound_rec G rec.

  Definition ends (ms : list mtch) : list nat := map mend ms.
  Definition has (ms : list mtch) (j : nat) : Prop := exists m, In m ms /\ mend m = j.

  (* completeness of the recursive call *)
  Definition comp_rec : Prop :=
    forall e s i, i <= length s ->
      match rec e s i with
      | Ok ms => forall j, M G s e i j -> has ms j
      | PErr => forall j, ~ M G s e i j
      | _ => True
      end.
  Hypothesis Hcomp : comp_rec.

  Lemma MI_snoc s e n i j k : MI G s e n i j -> M G s e j k -> MI G s e (S n) i k.
  Proof.
    induction 1; intros HM.
    - econstructor; [exact HM|]. constructor.
    - econstructor; [eassumption|]. apply IHMI. exact HM.
  Qed.

  Lemma MI_snoc_inv s e n i k : MI G s e (S n) i k -> exists j, MI G s e n i j /\ M G s e j k.
  Proof.
    revert i k; induction n as [|n IH]; intros i k H.
    - inversion H as [|e0 n0 i0 j0 k0 HM HI]; subst. inversion HI; subst.
      exists i; split; [constructor|]; auto.
    - inversion H as [|e0 n0 i0 j0 k0 HM HI]; subst. apply IH in HI. destruct HI as [p [H1 H2]].
      exists p; split; auto. econstructor; eauto.
  Qed.

  (* membership facts at the level of ends *)
  Lemma has_sort ms j : has (sort_desc ms) j <-> has ms j.
  Proof. unfold has; split; intros [m [H1 H2]]; exists m; split; auto; apply in_sort_desc; auto. Qed.

  Lemma mem_has m l : mem m l = true -> has l (mend m).
  Proof.
    unfold mem. rewrite existsb_exists. intros [x [Hx Hk]]. exists x; split; auto.
    unfold key_eqb in Hk. apply andb_true_iff in Hk. destruct Hk as [Hk _].
    apply Nat.eqb_eq in Hk. auto.
  Qed.

  Lemma has_add l m j : has (add l m) j <-> has l j \/ mend m = j.
  Proof.
    unfold add. destruct (mem m l) eqn:Hm.
    - split; auto. intros [H|H]; auto. subst. apply mem_has; auto.
    - unfold has. split.
      + intros [x [Hx He]]. apply in_app_iff in Hx. destruct Hx as [Hx|[<-|[]]]; eauto.
      + intros [[x [Hx He]]|He]; [exists x|exists m]; split; auto; apply in_app_iff; simpl; auto.
  Qed.

  Lemma has_fold_add b : forall a j, has (fold_left add b a) j <-> has a j \/ has b j.
  Proof.
    induction b as [|y b IH]; simpl; intros a j.
    - split; auto. intros [H|[m [[] _]]]; auto.
    - rewrite IH, has_add. unfold has at 4. split.
      + intros [[H|H]|H]; auto.
        * right; exists y; simpl; auto.
        * destruct H as [m [Hm He]]. right; exists m; simpl; auto.
      + intros [H|[m [[<-|Hm] He]]]; auto. right. exists m; auto.
  Qed.

  Lemma has_set_of l j : has (set_of l) j <-> has l j.
  Proof. unfold set_of. rewrite has_fold_add. split; auto. intros [[m [[] _]]|H]; auto. Qed.

  Lemma has_union a b j : has (union a b) j <-> has a j \/ has b j.
  Proof. apply has_fold_add. Qed.

  Lemma subset_has a b : subset a b = true -> forall j, has a j -> has b j.
  Proof.
    unfold subset. rewrite forallb_forall. intros H j [m [Hm <-]]. apply mem_has. auto.
  Qed.

  (* extend is complete for ends *)
  Lemma extend_complete e s : forall ms out,
    extend rec e s ms = Ok out -> (forall m, In m ms -> mend m <= length s) ->
    forall p j, has ms p -> M G s e p j -> has out j.
  Proof.
    induction ms as [|m ms IH]; simpl; intros out H Hle p j [m0 [Hm0 Hp]] HM; subst p.
    - destruct Hm0.
    - pose proof (Hcomp e s (mend m) (Hle m (or_introl eq_refl))) as Hc.
      destruct (rec e s (mend m)) eqn:Hr; try discriminate.
      + destruct (extend rec e s ms) eqn:He; try discriminate.
        inversion H; subst; clear H.
        destruct Hm0 as [<-|Hm0].
        * destruct (Hc j HM) as [y [Hy Hj]].
          exists (mk (nodes m ++ nodes y) (mend y)); split; [|simpl; exact Hj].
          apply in_app_iff; left. apply in_map_iff. exists y; auto.
        * destruct (IH _ eq_refl (fun m1 H1 => Hle m1 (or_intror H1)) (mend m0) j) as [x [Hx Hj]]; auto.
          { exists m0; auto. }
          exists x; split; auto. apply in_app_iff; auto.
      + destruct Hm0 as [<-|Hm0].
        * exfalso. eapply Hc; eauto.
        * eapply IH; eauto. exists m0; auto.
  Qed.

  Lemma extend_has_sound e s ms out :
    extend rec e s ms = Ok out -> (forall m, In m ms -> mend m <= length s) ->
    forall j, has out j -> exists p, has ms p /\ M G s e p j.
  Proof.
    intros H Hle j [x [Hx <-]].
    destruct (extend_sound G rec Hrec _ _ _ _ H Hle x Hx) as [m [Hm HM]].
    exists (mend m); split; auto. exists m; auto.
  Qed.

  (* the fixpoint loop computes exactly the n-fold iterations, mn <= n <= mx *)
  Section Loop.
    Variables (e : expr) (s : str) (i mn : nat).
    Hypothesis Hi : i <= length s.

    Definition le_mx (mx : option nat) (n : nat) : Prop := forall m, mx = Some m -> n <= m.

    Definition inv (mx : option nat) (count : nat) (mset last : list mtch) : Prop :=
      (forall j, has mset j <-> exists n, mn <= n <= count /\ MI G s e n i j) /\
      (forall j, has last j <-> MI G s e count i j) /\
      mn <= count /\ le_mx mx count.

    Lemma MI_end s0 e0 n a b : MI G s0 e0 n a b -> a <= length s0 -> b <= length s0.
    Proof. apply MI_end_le. Qed.

    Lemma rep_loop_spec mx : forall k count mset last out,
      inv mx count mset last ->
      rep_loop rec k e mx s count mset last = Ok out ->
      forall j, has out j <-> exists n, mn <= n /\ le_mx mx n /\ MI G s e n i j.
    Proof.
      induction k as [|k IH]; simpl; intros count mset last out Hinv H; [discriminate|].
      destruct Hinv as (Hset & Hlast & Hmn & Hmx).
      destruct (match mx with Some m => Nat.eqb count m | None => false end) eqn:Hstop.
      - (* reached max *)
        inversion H; subst; clear H. intros j. rewrite has_sort, Hset.
        destruct mx as [m|]; [|discriminate]. apply Nat.eqb_eq in Hstop. subst m.
        split.
        + intros [n [Hn HM]]. exists n; repeat split; try lia; auto.
          intros m Hm; inversion Hm; subst; lia.
        + intros [n [Hn [Hle HM]]]. exists n; split; [|exact HM]. specialize (Hle _ eq_refl). lia.
      - assert (Hlle : forall m, In m (sort_desc last) -> mend m <= length s).
        { intros m Hm. apply (proj1 (in_sort_desc _ _)) in Hm.
          eapply MI_end; [|exact Hi]. apply Hlast. exists m; split; [exact Hm|reflexivity]. }
        destruct (extend rec e s (sort_desc last)) as [new| | |] eqn:He; try discriminate.
        assert (Hnew : forall j, has (set_of new) j <-> MI G s e (S count) i j).
        { intros j. rewrite has_set_of. split.
          - intros Hj. destruct (extend_has_sound _ _ _ _ He Hlle j Hj) as [p [Hp HM]].
            apply (proj1 (has_sort _ _)) in Hp. apply (proj1 (Hlast _)) in Hp. eapply MI_snoc; eauto.
          - intros HM. apply MI_snoc_inv in HM. destruct HM as [p [H1 H2]].
            eapply extend_complete; eauto. apply has_sort. apply Hlast. exact H1. }
        assert (Hcnt : le_mx mx (S count)).
        { intros m Hm. subst mx. specialize (Hmx _ eq_refl). apply Nat.eqb_neq in Hstop. lia. }
        destruct (subset (set_of new) mset) eqn:Hsub.
        + (* fixpoint reached *)
          inversion H; subst; clear H. intros j. rewrite has_sort, Hset. split.
          * intros [n [Hn HM]]. exists n; repeat split; try lia; auto.
            intros m Hm. specialize (Hmx m Hm). lia.
          * intros [n [Hn [Hle HM]]].
            (* every iteration count lands in mset *)
            assert (Hall : forall n j, mn <= n -> MI G s e n i j -> has mset j).
            { clear n j Hn Hle HM. induction n as [|n IHn]; intros j Hn HM.
              - apply Hset. exists 0; split; auto. lia.
              - destruct (Nat.le_gt_cases (S n) count) as [Hc|Hc].
                + apply Hset. exists (S n); split; auto.
                + destruct (Nat.eq_dec n count) as [->|Hne].
                  * eapply subset_has; eauto. apply Hnew. exact HM.
                  * apply MI_snoc_inv in HM. destruct HM as [p [H1 H2]].
                    assert (Hp : has mset p) by (apply IHn; auto; lia).
                    apply (proj1 (Hset _)) in Hp. destruct Hp as [n' [Hn' HM']].
                    pose proof (MI_snoc _ _ _ _ _ _ HM' H2) as HM2.
                    destruct (Nat.le_gt_cases (S n') count) as [Hc'|Hc'].
                    -- apply Hset. exists (S n'); split; auto. lia.
                    -- assert (n' = count) by lia. subst n'.
                       eapply subset_has; eauto. apply Hnew. exact HM2. }
            apply Hset. eapply Hall; eauto.
        + eapply IH; [|exact H]. unfold inv. split; [|split; [|split]].
          * intros j. rewrite has_union, Hset, Hnew. split.
            -- intros [[n [Hn HM]]|HM];
                 [exists n; split; [lia|exact HM] | exists (S count); split; [lia|exact HM]].
            -- intros [n [Hn HM]]. destruct (Nat.eq_dec n (S count)) as [->|Hne]; [right; exact HM|].
               left. exists n; split; [lia|exact HM].
          * exact Hnew.
          * lia.
          * exact Hcnt.
    Qed.
  End Loop.
End Rep.
