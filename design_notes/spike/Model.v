(* Spike: executable model of abnf/parser.py matching engine (pure, cache-free). *)
From Coq Require Import List NArith Arith Bool Lia.
Import ListNotations.

Definition cp := N.
Definition str := list cp.

Inductive node :=
| Leaf (v : str) (off len : nat)
| Nd (name : str) (ch : list node).

Fixpoint nvalue (n : node) : str :=
  match n with
  | Leaf v _ _ => v
  | Nd _ ch => flat_map nvalue ch
  end.

Definition nsvalue (ns : list node) : str := flat_map nvalue ns.

Record mtch := mk { nodes : list node; mend : nat }.

Inductive res := Ok (ms : list mtch) | PErr | GErr | OOF.

Definition rid := N.

Inductive expr :=
| ELit (cs : bool) (v : str)
| ERange (lo hi : cp)
| EAlt (fm : bool) (es : list expr)
| ECat (es : list expr)
| ERep (mn : nat) (mx : option nat) (e : expr)
| EProse
| ERef (r : rid).

Record rule := { rname : str; rdef : option expr; rexcl : option rid }.
Definition grammar := rid -> option rule.

(* ---- strings ---- *)
Definition slice (s : str) (i n : nat) : str := firstn n (skipn i s).

Definition fold_cp (c : cp) : cp :=
  if (65 <=? c)%N && (c <=? 90)%N then (c + 32)%N else c.
Definition fold_str (s : str) : str := map fold_cp s.

Fixpoint str_eqb (a b : str) : bool :=
  match a, b with
  | [], [] => true
  | x :: a', y :: b' => N.eqb x y && str_eqb a' b'
  | _, _ => false
  end.

(* ---- match sets: lists with unique (value,end) keys, first insertion wins ---- *)
Definition key_eqb (a b : mtch) : bool :=
  Nat.eqb (mend a) (mend b) && str_eqb (nsvalue (nodes a)) (nsvalue (nodes b)).

Definition mem (m : mtch) (l : list mtch) : bool := existsb (key_eqb m) l.

Definition add (l : list mtch) (m : mtch) : list mtch :=
  if mem m l then l else l ++ [m].

Definition set_of (l : list mtch) : list mtch := fold_left add l [].
Definition union (a b : list mtch) : list mtch := fold_left add b a.
Definition subset (a b : list mtch) : bool := forallb (fun m => mem m b) a.

(* stable sort by end, descending (sorted(..., key=end, reverse=True)) *)
Fixpoint ins (m : mtch) (l : list mtch) : list mtch :=
  match l with
  | [] => [m]
  | x :: l' => if Nat.ltb (mend x) (mend m) then m :: l else x :: ins m l'
  end.
(* insert after all elements with end >= m's end: stable for equal keys when
   folding left-to-right *)
Definition sort_desc (l : list mtch) : list mtch := fold_left (fun acc m => ins m acc) l [].

Section Engine.
  Variable G : grammar.

  Section Step.
    (* the recursive call, with less fuel; takes the source because rule
       exclusion re-parses a different string *)
    Variable rec : expr -> str -> nat -> res.

    Definition lit (cs : bool) (v : str) (s : str) (i : nat) : res :=
      if Nat.leb i (length s) then
        let src := slice s i (length v) in
        let a := if cs then src else fold_str src in
        let p := if cs then v else fold_str v in
        if str_eqb a p then Ok [mk [Leaf src i (length src)] (i + length src)] else PErr
      else PErr.

    Definition range (lo hi : cp) (s : str) (i : nat) : res :=
      match nth_error s i with
      | Some c => if (lo <=? c)%N && (c <=? hi)%N then Ok [mk [Leaf [c] i 1] (i + 1)] else PErr
      | None => PErr
      end.

    (* Alternation.lparse *)
    Fixpoint alt_loop (fm : bool) (es : list expr) (s : str) (i : nat) (acc : list mtch) : res :=
      match es with
      | [] => match acc with [] => PErr | _ => Ok acc end
      | e :: es' =>
        match rec e s i with
        | Ok ms => if fm then Ok (acc ++ ms) else alt_loop fm es' s i (acc ++ ms)
        | PErr => alt_loop fm es' s i acc
        | GErr => GErr
        | OOF => OOF
        end
      end.

    (* one BFS layer: extend every partial match with every match of e *)
    Fixpoint extend (e : expr) (s : str) (ms : list mtch) : res :=
      match ms with
      | [] => Ok []
      | m :: ms' =>
        match rec e s (mend m) with
        | Ok xs =>
          match extend e s ms' with
          | Ok ys => Ok (map (fun x => mk (nodes m ++ nodes x) (mend x)) xs ++ ys)
          | r => r
          end
        | PErr => extend e s ms'
        | GErr => GErr
        | OOF => OOF
        end
      end.

    (* Concatenation.lparse, before the final sort *)
    Fixpoint cat_loop (es : list expr) (s : str) (cur : list mtch) : res :=
      match es with
      | [] => Ok cur
      | e :: es' =>
        match extend e s cur with
        | Ok [] => PErr
        | Ok nxt => cat_loop es' s nxt
        | r => r
        end
      end.

    Definition cat (es : list expr) (s : str) (i : nat) : res :=
      match cat_loop es s [mk [] i] with
      | Ok ms => Ok (sort_desc ms)
      | r => r
      end.

    (* Repetition.lparse main loop; k is loop fuel *)
    Fixpoint rep_loop (k : nat) (e : expr) (mx : option nat) (s : str)
             (count : nat) (mset last : list mtch) : res :=
      match k with
      | 0 => OOF
      | S k' =>
        if match mx with Some m => Nat.eqb count m | None => false end then Ok (sort_desc mset)
        else
          match extend e s (sort_desc last) with
          | Ok new =>
            let new := set_of new in
            if subset new mset then Ok (sort_desc mset)
            else rep_loop k' e mx s (S count) (union mset new) new
          | r => r
          end
      end.

    Definition rep (k : nat) (mn : nat) (mx : option nat) (e : expr) (s : str) (i : nat) : res :=
      match mn with
      | 0 => rep_loop k e mx s 0 [mk [] i] [mk [] i]
      | _ =>
        match cat (repeat e mn) s i with
        | Ok ms => let st := set_of ms in rep_loop k e mx s mn st st
        | r => r
        end
      end.

    (* Rule.lparse *)
    Definition excluded (x : option rid) (s : str) (i : nat) (m : mtch) : option bool :=
      match x with
      | None => Some false
      | Some r =>
        let t := nsvalue (nodes m) in
        match rec (ERef r) t 0 with
        | Ok ms =>
          match sort_desc (set_of ms) with
          | m0 :: _ => Some (negb (Nat.ltb (mend m0) (length t)))
          | [] => Some false
          end
        | PErr => Some false
        | _ => None
        end
      end.

    Fixpoint filter_excl (x : option rid) (s : str) (i : nat) (ms : list mtch) : option (list mtch) :=
      match ms with
      | [] => Some []
      | m :: ms' =>
        match excluded x s i m with
        | Some b =>
          match filter_excl x s i ms' with
          | Some r => Some (if b then r else m :: r)
          | None => None
          end
        | None => None
        end
      end.

    Definition ref (r : rid) (s : str) (i : nat) : res :=
      match G r with
      | None => GErr
      | Some ru =>
        match rdef ru with
        | None => GErr
        | Some d =>
          match rec d s i with
          | Ok ms =>
            match filter_excl (rexcl ru) s i ms with
            | Some ms' =>
              match set_of ms' with
              | [] => PErr
              | st => Ok (map (fun m => mk [Nd (rname ru) (nodes m)] (mend m)) (sort_desc st))
              end
            | None => GErr
            end
          | r => r
          end
        end
      end.

    Definition step (k : nat) (e : expr) (s : str) (i : nat) : res :=
      match e with
      | ELit cs v => lit cs v s i
      | ERange lo hi => range lo hi s i
      | EAlt fm es => alt_loop fm es s i []
      | ECat es => cat es s i
      | ERep mn mx e' => rep k mn mx e' s i
      | EProse => PErr
      | ERef r => ref r s i
      end.
  End Step.

  Fixpoint lparse (fuel : nat) (e : expr) (s : str) (i : nat) : res :=
    match fuel with
    | 0 => OOF
    | S f => step (lparse f) f e s i
    end.

  Definition parse (fuel : nat) (r : rid) (s : str) (i : nat) : res :=
    match lparse fuel (ERef r) s i with
    | Ok ms => match sort_desc (set_of ms) with m :: _ => Ok [m] | [] => PErr end
    | x => x
    end.
End Engine.
