From Coq Require Import List NArith Arith Bool Lia.
Import ListNotations.
From Spike Require Import Model Sound.

(* Derivation-tree relation: RFC 5234 matching with the tree that witnesses it *)
Section SpecD.
  Variable G : grammar.
  Variable s : str.

  Inductive D : expr -> nat -> list node -> nat -> Prop :=
  | D_lit cs v i : lit_ok s cs v i ->
      D (ELit cs v) i [Leaf (slice s i (length v)) i (length v)] (i + length v)
  | D_range lo hi i c : nth_error s i = Some c -> (lo <= c)%N -> (c <= hi)%N ->
      D (ERange lo hi) i [Leaf [c] i 1] (i + 1)
  | D_alt fm es e i ns j : In e es -> D e i ns j -> D (EAlt fm es) i ns j
  | D_cat_nil i : D (ECat []) i [] i
  | D_cat_cons e es i j k n1 n2 : D e i n1 j -> D (ECat es) j n2 k -> D (ECat (e :: es)) i (n1 ++ n2) k
  | D_rep mn mx e i j n ns : DI e n i ns j -> mn <= n -> (forall m, mx = Some m -> n <= m) ->
      D (ERep mn mx e) i ns j
  | D_ref r ru d i j ns : G r = Some ru -> rdef ru = Some d -> D d i ns j ->
      D (ERef r) i [Nd (rname ru) ns] j
  with DI : expr -> nat -> nat -> list node -> nat -> Prop :=
  | DI_0 e i : DI e 0 i [] i
  | DI_S e n i j k n1 n2 : D e i n1 j -> DI e n j n2 k -> DI e (S n) i (n1 ++ n2) k.

  Lemma D_cat_snoc : forall es e i j k n1 n2,
    D (ECat es) i n1 j -> D e j n2 k -> D (ECat (es ++ [e])) i (n1 ++ n2) k.
  Proof.
    induction es as [|e0 es IH]; intros e i j k n1 n2 H1 H2.
    - inversion H1; subst. simpl. rewrite <- (app_nil_r n2). econstructor; [exact H2|constructor].
    - inversion H1 as [| | | |e' es' i' j' k' m1 m2 Ha Hb| |]; subst.
      simpl. rewrite <- app_assoc. econstructor; [exact Ha|]. eapply IH; eauto.
  Qed.

  Lemma DI_snoc : forall e n i j k n1 n2,
    DI e n i n1 j -> D e j n2 k -> DI e (S n) i (n1 ++ n2) k.
  Proof.
    intros e n i j k n1 n2 H; revert k n2. induction H as [e i|e n i j k0 m1 m2 Ha Hb IH]; intros k n2 H2.
    - simpl. rewrite <- (app_nil_r n2). econstructor; [exact H2|constructor].
    - rewrite <- app_assoc. econstructor; [exact Ha|]. apply IH. exact H2.
  Qed.

  Lemma D_cat_repeat : forall e n i ns j, D (ECat (repeat e n)) i ns j -> DI e n i ns j.
  Proof.
    intros e n; induction n as [|n IH]; simpl; intros i ns j H.
    - inversion H; subst. constructor.
    - inversion H as [| | | |e' es' i' j' k' m1 m2 Ha Hb| |]; subst. econstructor; [exact Ha|]. apply IH. exact Hb.
  Qed.
End SpecD.

Inductive WB : expr -> Prop :=
| WB_lit cs v : WB (ELit cs v)
| WB_range lo hi : WB (ERange lo hi)
| WB_alt fm es : Forall WB es -> WB (EAlt fm es)
| WB_cat es : Forall WB es -> WB (ECat es)
| WB_rep mn mx e : (forall m, mx = Some m -> mn <= m) -> WB e -> WB (ERep mn mx e)
| WB_prose : WB EProse
| WB_ref r : WB (ERef r).

Section SoundD.
  Variable G : grammar.

  Definition soundD (rec : expr -> str -> nat -> res) : Prop :=
    forall e s i ms, WB e -> rec e s i = Ok ms -> i <= length s ->
      forall m, In m ms -> D G s e i (nodes m) (mend m) /\ mend m <= length s.

  Variable rec : expr -> str -> nat -> res.
  Hypothesis Hrec : soundD rec.

  Lemma litD cs v s i ms : lit cs v s i = Ok ms ->
    forall m, In m ms -> D G s (ELit cs v) i (nodes m) (mend m) /\ mend m <= length s.
  Proof.
    unfold lit. destruct (Nat.leb i (length s)) eqn:Hi; [|discriminate].
    destruct (str_eqb _ _) eqn:He; [|discriminate].
    intros H; inversion H; subst; clear H. intros m [<-|[]]; simpl.
    apply str_eqb_eq in He. apply Nat.leb_le in Hi.
    assert (Hlen : length (slice s i (length v)) = length v).
    { destruct cs; [rewrite He; reflexivity|].
      apply (f_equal (@length _)) in He. unfold fold_str in He. rewrite !map_length in He. exact He. }
    rewrite Hlen.
    assert (Hle : i + length v <= length s).
    { unfold slice in Hlen. rewrite firstn_length, skipn_length in Hlen. lia. }
    split; [|exact Hle]. constructor. split; [exact Hle|]. destruct cs; assumption.
  Qed.

  Lemma rangeD lo hi s i ms : range lo hi s i = Ok ms ->
    forall m, In m ms -> D G s (ERange lo hi) i (nodes m) (mend m) /\ mend m <= length s.
  Proof.
    unfold range. destruct (nth_error s i) eqn:Hn; [|discriminate].
    destruct (_ && _) eqn:Hb; [|discriminate].
    apply andb_true_iff in Hb. destruct Hb as [H1 H2].
    apply N.leb_le in H1. apply N.leb_le in H2.
    intros H; inversion H; subst. intros m [<-|[]]; simpl.
    assert (i < length s) by (apply nth_error_Some; congruence).
    split; [econstructor; eauto|lia].
  Qed.

  Lemma altD fm es0 s i : i <= length s ->
    forall es acc ms, (forall e, In e es -> In e es0) -> Forall WB es ->
      (forall m, In m acc -> D G s (EAlt fm es0) i (nodes m) (mend m) /\ mend m <= length s) ->
      alt_loop rec fm es s i acc = Ok ms ->
      forall m, In m ms -> D G s (EAlt fm es0) i (nodes m) (mend m) /\ mend m <= length s.
  Proof.
    intros Hi. induction es as [|e es IH]; simpl; intros acc ms Hsub Hwb Hacc H.
    - destruct acc; inversion H; subst; auto.
    - inversion Hwb as [|e' es' Hwe Hwes]; subst.
      destruct (rec e s i) as [ms0| | |] eqn:Hr; try discriminate.
      + assert (Hnew : forall m, In m (acc ++ ms0) ->
                  D G s (EAlt fm es0) i (nodes m) (mend m) /\ mend m <= length s).
        { intros m Hm. apply in_app_iff in Hm. destruct Hm as [Hm|Hm]; auto.
          destruct (Hrec _ _ _ _ Hwe Hr Hi m Hm) as [HD Hle]. split; [|exact Hle].
          econstructor; [apply Hsub; left; reflexivity|exact HD]. }
        destruct fm.
        * inversion H; subst; auto.
        * eapply IH; [| | |exact H]; [intros; apply Hsub; right; assumption|exact Hwes|exact Hnew].
      + eapply IH; [| | |exact H]; [intros; apply Hsub; right; assumption|exact Hwes|exact Hacc].
  Qed.

  (* one BFS layer *)
  Lemma extendD e s ms out : WB e ->
    extend rec e s ms = Ok out -> (forall m, In m ms -> mend m <= length s) ->
    forall x, In x out -> exists m n2, In m ms /\ nodes x = nodes m ++ n2 /\
                                      D G s e (mend m) n2 (mend x) /\ mend x <= length s.
  Proof.
    intros Hwe. revert out; induction ms as [|m ms IH]; simpl; intros out H Hle x Hx.
    - inversion H; subst; destruct Hx.
    - destruct (rec e s (mend m)) as [xs| | |] eqn:Hr; try discriminate.
      + destruct (extend rec e s ms) as [ys| | |] eqn:He; try discriminate.
        inversion H; subst; clear H. apply in_app_iff in Hx. destruct Hx as [Hx|Hx].
        * apply in_map_iff in Hx. destruct Hx as [y [<- Hy]]. simpl.
          destruct (Hrec _ _ _ _ Hwe Hr (Hle m (or_introl eq_refl)) y Hy) as [HD Hl].
          exists m, (nodes y). repeat split; auto.
        * destruct (IH _ eq_refl (fun m0 H0 => Hle m0 (or_intror H0)) x Hx) as [m0 [n2 [? ?]]].
          exists m0, n2; split; [right|]; assumption.
      + destruct (IH _ H (fun m0 H0 => Hle m0 (or_intror H0)) x Hx) as [m0 [n2 [? ?]]].
        exists m0, n2; split; [right|]; assumption.
  Qed.

  Lemma cat_loopD s i : forall es done cur out, Forall WB es ->
    cat_loop rec es s cur = Ok out ->
    (forall m, In m cur -> D G s (ECat done) i (nodes m) (mend m) /\ mend m <= length s) ->
    forall x, In x out -> D G s (ECat (done ++ es)) i (nodes x) (mend x) /\ mend x <= length s.
  Proof.
    induction es as [|e es IH]; simpl; intros done cur out Hwb H Hcur x Hx.
    - inversion H; subst. rewrite app_nil_r. auto.
    - inversion Hwb as [|e' es' Hwe Hwes]; subst.
      destruct (extend rec e s cur) as [nxt| | |] eqn:He; try discriminate.
      destruct nxt as [|m1 ms1]; try discriminate.
      replace (done ++ e :: es) with ((done ++ [e]) ++ es) by (rewrite <- app_assoc; reflexivity).
      eapply IH; [exact Hwes|exact H| |exact Hx].
      intros m Hm.
      destruct (extendD _ _ _ _ Hwe He (fun m0 H0 => proj2 (Hcur m0 H0)) m Hm) as [m0 [n2 [Hm0 [Hn [HD Hl]]]]].
      split; [|exact Hl]. rewrite Hn. eapply D_cat_snoc; [apply Hcur; exact Hm0|exact HD].
  Qed.

  Lemma catD es s i ms : Forall WB es -> i <= length s -> cat rec es s i = Ok ms ->
    forall m, In m ms -> D G s (ECat es) i (nodes m) (mend m) /\ mend m <= length s.
  Proof.
    intros Hwb Hi. unfold cat. destruct (cat_loop rec es s [mk [] i]) as [out| | |] eqn:Hc; try discriminate.
    intros H; inversion H; subst. intros m Hm. apply (proj1 (in_sort_desc _ _)) in Hm.
    apply (cat_loopD s i es [] [mk [] i] out Hwb Hc); [|exact Hm].
    intros m0 [<-|[]]; simpl. split; [constructor|exact Hi].
  Qed.

  Definition le_mx (mx : option nat) (n : nat) : Prop := forall m, mx = Some m -> n <= m.

  Lemma rep_loopD e s i mn mx : WB e -> forall k count mset last out,
    (forall m, In m mset -> exists n, mn <= n <= count /\ DI G s e n i (nodes m) (mend m) /\ mend m <= length s) ->
    (forall m, In m last -> DI G s e count i (nodes m) (mend m) /\ mend m <= length s) ->
    mn <= count -> le_mx mx count ->
    rep_loop rec k e mx s count mset last = Ok out ->
    forall x, In x out -> D G s (ERep mn mx e) i (nodes x) (mend x) /\ mend x <= length s.
  Proof.
    intros Hwe. induction k as [|k IH]; simpl; intros count mset last out Hset Hlast Hmn Hmx H x Hx; [discriminate|].
    assert (Hfin : forall y, In y (sort_desc mset) ->
              D G s (ERep mn mx e) i (nodes y) (mend y) /\ mend y <= length s).
    { intros y Hy. apply (proj1 (in_sort_desc _ _)) in Hy. destruct (Hset y Hy) as [n [Hn [HD Hl]]].
      split; [|exact Hl]. econstructor; [exact HD|lia|].
      intros m Hm. specialize (Hmx m Hm). lia. }
    destruct (match mx with Some m => Nat.eqb count m | None => false end) eqn:Hstop.
    - inversion H; subst. auto.
    - destruct (extend rec e s (sort_desc last)) as [new| | |] eqn:He; try discriminate.
      assert (Hnew : forall m, In m (set_of new) ->
                DI G s e (S count) i (nodes m) (mend m) /\ mend m <= length s).
      { intros m Hm. apply in_set_of in Hm.
        assert (Hl0 : forall m0, In m0 (sort_desc last) -> mend m0 <= length s).
        { intros m0 H0. apply (proj1 (in_sort_desc _ _)) in H0. apply Hlast. exact H0. }
        destruct (extendD _ _ _ _ Hwe He Hl0 m Hm) as [m0 [n2 [Hm0 [Hn [HD Hl]]]]].
        apply (proj1 (in_sort_desc _ _)) in Hm0. split; [|exact Hl]. rewrite Hn.
        eapply DI_snoc; [apply Hlast; exact Hm0|exact HD]. }
      destruct (subset (set_of new) mset).
      + inversion H; subst. auto.
      + eapply IH; [| | | |exact H|exact Hx].
        * intros m Hm. apply in_union in Hm. destruct Hm as [Hm|Hm].
          -- destruct (Hset m Hm) as [n [Hn HD]]. exists n; split; [lia|exact HD].
          -- exists (S count); split; [lia|]. apply Hnew. exact Hm.
        * exact Hnew.
        * lia.
        * intros m Hm. specialize (Hmx m Hm). subst mx. apply Nat.eqb_neq in Hstop. lia.
  Qed.

  Lemma repD k mn mx e s i ms : WB e -> i <= length s -> (forall m, mx = Some m -> mn <= m) ->
    rep rec k mn mx e s i = Ok ms ->
    forall x, In x ms -> D G s (ERep mn mx e) i (nodes x) (mend x) /\ mend x <= length s.
  Proof.
    intros Hwe Hi Hb. assert (Hrp : forall n, Forall WB (repeat e n)) by (induction n; simpl; auto).
    unfold rep. destruct mn as [|mn'].
    - intros H. eapply rep_loopD; [exact Hwe| | | | |exact H].
      + intros m [<-|[]]; simpl. exists 0; repeat split; auto. constructor.
      + intros m [<-|[]]; simpl. split; [constructor|exact Hi].
      + lia.
      + intros m Hm. lia.
    - destruct (cat rec (repeat e (S mn')) s i) as [cs| | |] eqn:Hc; try discriminate.
      intros H. eapply rep_loopD; [exact Hwe| | | | |exact H].
      + intros m Hm. apply in_set_of in Hm. destruct (catD _ _ _ _ (Hrp _) Hi Hc m Hm) as [HD Hl].
        exists (S mn'); repeat split; auto. apply D_cat_repeat. exact HD.
      + intros m Hm. apply in_set_of in Hm. destruct (catD _ _ _ _ (Hrp _) Hi Hc m Hm) as [HD Hl].
        split; [apply D_cat_repeat; exact HD|exact Hl].
      + lia.
      + exact Hb.
  Qed.

  Lemma filter_excl_sub x s i : forall ms out, filter_excl rec x s i ms = Some out ->
    forall m, In m out -> In m ms.
  Proof.
    induction ms as [|m0 ms IH]; simpl; intros out H m Hm.
    - inversion H; subst. destruct Hm.
    - destruct (excluded rec x s i m0) as [b|]; [|discriminate].
      destruct (filter_excl rec x s i ms) as [r|] eqn:Hf; [|discriminate].
      inversion H; subst; clear H. destruct b.
      + right. eapply IH; eauto.
      + destruct Hm as [<-|Hm]; [left; reflexivity|right; eapply IH; eauto].
  Qed.

  Hypothesis HG : forall r ru d, G r = Some ru -> rdef ru = Some d -> WB d.

  Lemma refD r s i ms : i <= length s -> ref G rec r s i = Ok ms ->
    forall m, In m ms -> D G s (ERef r) i (nodes m) (mend m) /\ mend m <= length s.
  Proof.
    intros Hi. unfold ref. destruct (G r) as [ru|] eqn:Hr; [|discriminate].
    destruct (rdef ru) as [d|] eqn:Hd; [|discriminate].
    destruct (rec d s i) as [ds| | |] eqn:Hrec0; try discriminate.
    destruct (filter_excl rec (rexcl ru) s i ds) as [fs|] eqn:Hf; [|discriminate].
    destruct (set_of fs) as [|f0 fs0] eqn:Hs; [discriminate|].
    intros H; inversion H; subst; clear H. intros m Hm.
    apply in_map_iff in Hm. destruct Hm as [y [<- Hy]]. simpl.
    apply (proj1 (in_sort_desc _ _)) in Hy. rewrite <- Hs in Hy. apply in_set_of in Hy.
    eapply filter_excl_sub in Hy; [|exact Hf].
    destruct (Hrec _ _ _ _ (HG _ _ _ Hr Hd) Hrec0 Hi y Hy) as [HD Hl].
    split; [|exact Hl]. econstructor; eauto.
  Qed.

  Lemma stepD k : soundD (step G rec k).
  Proof.
    intros e s i ms Hwb H Hi. destruct e; simpl in H.
    - eapply litD; eauto.
    - eapply rangeD; eauto.
    - inversion Hwb; subst. eapply altD; [exact Hi| | | |exact H]; auto. intros m [].
    - inversion Hwb; subst. eapply catD; eauto.
    - inversion Hwb; subst. eapply repD; eauto.
    - discriminate.
    - eapply refD; eauto.
  Qed.
End SoundD.

Theorem lparse_sound G :
  (forall r ru d, G r = Some ru -> rdef ru = Some d -> WB d) ->
  forall f, soundD G (lparse G f).
Proof.
  intros HG. induction f as [|f IH].
  - intros e s i ms _ H; discriminate.
  - simpl. apply stepD; assumption.
Qed.

Print Assumptions lparse_sound.
