From Coq Require Import List NArith Arith Bool Lia.
Import ListNotations.
From Spike Require Import Model.

(* ---------- RFC 5234 matching relation (plain grammars) ---------- *)
Section Spec.
  Variable G : grammar.
  Variable s : str.

  Definition lit_ok (cs : bool) (v : str) (i : nat) : Prop :=
    i + length v <= length s /\
    (if cs then slice s i (length v) = v
     else fold_str (slice s i (length v)) = fold_str v).

  Inductive M : expr -> nat -> nat -> Prop :=
  | M_lit cs v i : lit_ok cs v i -> M (ELit cs v) i (i + length v)
  | M_range lo hi i c : nth_error s i = Some c -> (lo <= c)%N -> (c <= hi)%N ->
                        M (ERange lo hi) i (i + 1)
  | M_alt fm es e i j : In e es -> M e i j -> M (EAlt fm es) i j
  | M_cat_nil i : M (ECat []) i i
  | M_cat_cons e es i j k : M e i j -> M (ECat es) j k -> M (ECat (e :: es)) i k
  | M_rep mn mx e i j n : MI e n i j -> mn <= n ->
                          (forall m, mx = Some m -> n <= m) -> M (ERep mn mx e) i j
  | M_ref r ru d i j : G r = Some ru -> rdef ru = Some d -> M d i j -> M (ERef r) i j
  with MI : expr -> nat -> nat -> nat -> Prop :=
  | MI_0 e i : MI e 0 i i
  | MI_S e n i j k : M e i j -> MI e n j k -> MI e (S n) i k.
End Spec.

(* ---------- list/set lemmas ---------- *)
Lemma str_eqb_eq a b : str_eqb a b = true <-> a = b.
Proof.
  revert b; induction a as [|x a IH]; destruct b as [|y b]; simpl; split; try congruence; auto.
  - rewrite andb_true_iff, N.eqb_eq, IH. intros [-> ->]; reflexivity.
  - intros H; inversion H; subst. rewrite andb_true_iff, N.eqb_eq, IH; auto.
Qed.

Lemma in_ins m x l : In x (ins m l) <-> x = m \/ In x l.
Proof.
  induction l as [|y l IH]; simpl.
  - intuition.
  - destruct (Nat.ltb (mend y) (mend m)); simpl; rewrite ?IH; intuition.
Qed.

Lemma in_sort_desc x l : In x (sort_desc l) <-> In x l.
Proof.
  unfold sort_desc.
  assert (H : forall acc, In x (fold_left (fun acc m => ins m acc) l acc) <-> In x acc \/ In x l).
  { induction l as [|y l IH]; simpl; intros acc.
    - intuition.
    - rewrite IH, in_ins. intuition. }
  rewrite H. simpl. intuition.
Qed.

Lemma in_add x l m : In x (add l m) -> In x l \/ x = m.
Proof.
  unfold add. destruct (mem m l); auto.
  rewrite in_app_iff; simpl; intuition.
Qed.

Lemma in_fold_add x b a : In x (fold_left add b a) -> In x a \/ In x b.
Proof.
  revert a; induction b as [|y b IH]; simpl; intros a H; auto.
  apply IH in H. destruct H as [H|H]; auto.
  apply in_add in H. intuition.
Qed.

Lemma in_set_of x l : In x (set_of l) -> In x l.
Proof. unfold set_of; intros H; apply in_fold_add in H; simpl in H; intuition. Qed.

Lemma in_union x a b : In x (union a b) -> In x a \/ In x b.
Proof. apply in_fold_add. Qed.

(* ---------- soundness of ends, open recursion ---------- *)
Section Sound.
  Variable G : grammar.

  Definition sound_rec (rec : expr -> str -> nat -> res) : Prop :=
    forall e s i ms, rec e s i = Ok ms -> i <= length s ->
                     forall m, In m ms -> M G s e i (mend m).

  Variable rec : expr -> str -> nat -> res.
  Hypothesis Hrec : sound_rec rec.
  (* plain grammar: no exclusions *)
  Hypothesis Hplain : forall r ru, G r = Some ru -> rexcl ru = None.

  Lemma M_end_le s e i j : M G s e i j -> i <= length s -> j <= length s
  with MI_end_le s e n i j : MI G s e n i j -> i <= length s -> j <= length s.
  Proof.
    - intros H; destruct H; intros Hi; auto.
      + destruct H; lia.
      + assert (i < length s) by (apply nth_error_Some; congruence). lia.
      + eapply M_end_le; eauto.
      + eapply M_end_le; [exact H0|]. eapply M_end_le; eauto.
      + eapply MI_end_le; eauto.
      + eapply M_end_le; eauto.
    - intros H; destruct H; intros Hi; auto.
      eapply MI_end_le; [exact H0|]. eapply M_end_le; eauto.
  Qed.

  (* lit / range *)
  Lemma fold_str_length x : length (fold_str x) = length x.
  Proof. apply map_length. Qed.

  Lemma slice_length_le s i n : length (slice s i n) <= n.
  Proof. unfold slice. rewrite firstn_length. lia. Qed.

  Lemma slice_full s i n : i <= length s -> length (slice s i n) = n -> i + n <= length s.
  Proof. unfold slice. rewrite firstn_length, skipn_length. lia. Qed.

  Lemma lit_sound cs v s i ms :
    lit cs v s i = Ok ms -> forall m, In m ms -> M G s (ELit cs v) i (mend m).
  Proof.
    unfold lit. destruct (Nat.leb i (length s)) eqn:Hi; [|discriminate].
    destruct (str_eqb _ _) eqn:He; [|discriminate].
    intros H; inversion H; subst; clear H. intros m [<-|[]]; simpl.
    apply str_eqb_eq in He.
    assert (Hlen : length (slice s i (length v)) = length v).
    { destruct cs; [rewrite He; reflexivity|].
      apply (f_equal (@length _)) in He. rewrite !fold_str_length in He. exact He. }
    rewrite Hlen. constructor. split.
    - apply slice_full; [apply Nat.leb_le; exact Hi|exact Hlen].
    - destruct cs; assumption.
  Qed.

  Lemma range_sound lo hi s i ms :
    range lo hi s i = Ok ms -> forall m, In m ms -> M G s (ERange lo hi) i (mend m).
  Proof.
    unfold range. destruct (nth_error s i) eqn:Hn; [|discriminate].
    destruct (_ && _) eqn:Hb; [|discriminate].
    apply andb_true_iff in Hb. destruct Hb as [H1 H2].
    apply N.leb_le in H1. apply N.leb_le in H2.
    intros H; inversion H; subst. intros m [<-|[]]; simpl.
    econstructor; eauto.
  Qed.

  Lemma alt_loop_sound fm es0 s i : i <= length s ->
    forall es acc ms, (forall e, In e es -> In e es0) ->
      (forall m, In m acc -> M G s (EAlt fm es0) i (mend m)) ->
      alt_loop rec fm es s i acc = Ok ms ->
      forall m, In m ms -> M G s (EAlt fm es0) i (mend m).
  Proof.
    intros Hi. induction es as [|e es IH]; simpl; intros acc ms Hsub Hacc H.
    - destruct acc; inversion H; subst; auto.
    - destruct (rec e s i) eqn:Hr; try discriminate.
      + assert (Hnew : forall m, In m (acc ++ ms0) -> M G s (EAlt fm es0) i (mend m)).
        { intros m Hm. apply in_app_iff in Hm. destruct Hm as [Hm|Hm]; auto.
          econstructor; [apply Hsub; left; reflexivity|]. eapply Hrec; eauto. }
        destruct fm.
        * inversion H; subst; auto.
        * eapply IH; eauto; intros; apply Hsub; right; assumption.
      + eapply IH; eauto; intros; apply Hsub; right; assumption.
  Qed.

  Lemma extend_sound e s ms out :
    extend rec e s ms = Ok out -> (forall m, In m ms -> mend m <= length s) ->
    forall x, In x out -> exists m, In m ms /\ M G s e (mend m) (mend x).
  Proof.
    revert out; induction ms as [|m ms IH]; simpl; intros out H Hle x Hx.
    - inversion H; subst; destruct Hx.
    - destruct (rec e s (mend m)) eqn:Hr; try discriminate.
      + destruct (extend rec e s ms) eqn:He; try discriminate.
        inversion H; subst; clear H. apply in_app_iff in Hx. destruct Hx as [Hx|Hx].
        * apply in_map_iff in Hx. destruct Hx as [y [<- Hy]]. simpl.
          exists m; split; [left; reflexivity|]. eapply Hrec; eauto.
        * destruct (IH _ eq_refl (fun m0 H0 => Hle m0 (or_intror H0)) x Hx) as [m0 [? ?]].
          exists m0; split; [right|]; assumption.
      + destruct (IH _ H (fun m0 H0 => Hle m0 (or_intror H0)) x Hx) as [m0 [? ?]].
        exists m0; split; [right|]; assumption.
  Qed.

  Lemma cat_loop_sound s : forall es cur out,
    cat_loop rec es s cur = Ok out ->
    (forall m, In m cur -> mend m <= length s) ->
    forall x, In x out -> exists m, In m cur /\ M G s (ECat es) (mend m) (mend x).
  Proof.
    induction es as [|e es IH]; simpl; intros cur out H Hle x Hx.
    - inversion H; subst. exists x; split; auto. constructor.
    - destruct (extend rec e s cur) eqn:He; try discriminate.
      destruct ms as [|m1 ms1]; try discriminate.
      assert (Hle' : forall m, In m (m1 :: ms1) -> mend m <= length s).
      { intros m Hm. destruct (extend_sound _ _ _ _ He Hle m Hm) as [m0 [Hm0 HM]].
        eapply M_end_le; eauto. }
      destruct (IH (m1 :: ms1) out H Hle' x Hx) as [m [Hm HM]].
      destruct (extend_sound _ _ _ _ He Hle m Hm) as [m0 [Hm0 HM0]].
      exists m0; split; auto. econstructor; eauto.
  Qed.
End Sound.
